(* Atomic.v — a call that is ONE critical section under the instance's RWMutex
   takes effect atomically at its lock acquisition.

   This is the bridge between Lock.v (bracketing discipline of the skeletons
   the translator regenerates from the Go source) and Lin.v (calls that commit
   atomically are linearizable).

   Concrete system.  The shared guarded state is [sg : S].  A call [c] is a
   critical section: a mode (writer: Lock/Unlock, reader: RLock/RUnlock), a
   list of micro-steps [S -> L -> S * L] over the shared state and a call-local
   state L (each micro-step is one access or one piece of local computation of
   the method body), and a function producing the call's result from the final
   local state.  Threads interleave at the granularity of micro-steps:

       Inv t c     thread t invokes c                       (Idle -> Wait)
       Acq t       the mutex is granted to t in c's mode    (Wait -> Run)
       Mic t       t performs its next micro-step on sg     (Run  -> Run)
       Rel t       t releases the mutex                     (Run [] -> Fin)
       Res t r     the call returns r                       (Fin -> Idle)

   with the RWMutex semantics of Lock.v (a writer needs the mutex free, a
   reader needs no writer).  The ONLY requirement on the code is the one
   Lock.wb checks on every path of every method: a micro-step performed under
   the read lock does not modify the shared state ([ms_ok], [call_ok]).

   Theorem [atomic_refinement]: erase Mic and Rel, rename Acq to Commit — the
   result is a valid execution of Lin.v's atomic-commit system for the
   sequential machine  stepm s c = run all of c's micro-steps from s,  with the
   same results; hence (Lin.v) every such concurrent execution is
   linearizable, the linearization point of a call being its lock acquisition
   ([atomic_linearizable_*] corollaries at the end). *)

From Coq Require Import List Arith Bool Lia.
From Gogu Require Import Lin.
Import ListNotations.

Section Atomic.
  Variables (S L R : Type).
  Variable s0 : S.
  Variable r_eqb : R -> R -> bool.
  Hypothesis r_eqb_eq : forall a b, r_eqb a b = true <-> a = b.

  Record mstep := { ms_writes : bool; ms_fun : S -> L -> S * L }.
  Record ccall := { c_writer : bool; c_code : list mstep; c_init : L; c_ret : L -> R }.

  (* a step that is not a write leaves the shared state alone *)
  Definition ms_ok (m : mstep) : Prop := ms_writes m = false -> forall s l, fst (ms_fun m s l) = s.
  (* writes only in writer mode: what Lock.wb enforces *)
  Definition code_ok (w : bool) (ms : list mstep) : Prop :=
    Forall ms_ok ms /\ (w = false -> Forall (fun m => ms_writes m = false) ms).
  Definition call_ok (c : ccall) : Prop := code_ok (c_writer c) (c_code c).

  Fixpoint exec (ms : list mstep) (s : S) (l : L) : S * L :=
    match ms with
    | [] => (s, l)
    | m :: r => let (s', l') := ms_fun m s l in exec r s' l'
    end.

  (* the sequential machine: a call run in one piece *)
  Definition atomic_step (s : S) (c : ccall) : S * R :=
    let (s', l') := exec (c_code c) s (c_init c) in (s', c_ret c l').

  Lemma exec_reader ms s l : code_ok false ms -> fst (exec ms s l) = s.
  Proof.
    intros [Hok Hr]. specialize (Hr eq_refl). revert s l.
    induction ms as [|m ms IH]; intros s l; cbn; [reflexivity|].
    inversion Hok as [|? ? Hm Hms]; subst. inversion Hr as [|? ? Hw Hws]; subst.
    destruct (ms_fun m s l) as [s' l'] eqn:E.
    rewrite IH by assumption. pose proof (Hm Hw s l) as H. now rewrite E in H.
  Qed.

  Lemma code_ok_tail w m ms : code_ok w (m :: ms) -> code_ok w ms.
  Proof.
    intros [H1 H2]. split; [now inversion H1|].
    intros Hw. specialize (H2 Hw). now inversion H2.
  Qed.

  (* ---------------- the concrete interleaving semantics ---------------- *)

  Inductive cstat := CIdle | CWait (c : ccall) | CRun (c : ccall) (rem : list mstep) (l : L) | CFin (c : ccall) (r : R).
  Inductive lockst := LW (t : nat) | LR (ts : list nat).

  Record cfg := { sg : S; lk : lockst; th : nat -> cstat }.

  Definition upd (f : nat -> cstat) (t : nat) (v : cstat) : nat -> cstat :=
    fun u => if Nat.eqb u t then v else f u.

  Fixpoint remove1 (t : nat) (ts : list nat) : list nat :=
    match ts with
    | [] => []
    | u :: r => if Nat.eqb u t then r else u :: remove1 t r
    end.

  Inductive cevent := EInv (t : nat) (c : ccall) | EAcq (t : nat) | EMic (t : nat) | ERel (t : nat) | ERes (t : nat) (r : R).

  Inductive cstep : cfg -> cevent -> cfg -> Prop :=
  | s_inv g t c : th g t = CIdle -> call_ok c ->
      cstep g (EInv t c) {| sg := sg g; lk := lk g; th := upd (th g) t (CWait c) |}
  | s_acq_w g t c : th g t = CWait c -> c_writer c = true -> lk g = LR [] ->
      cstep g (EAcq t) {| sg := sg g; lk := LW t; th := upd (th g) t (CRun c (c_code c) (c_init c)) |}
  | s_acq_r g t c ts : th g t = CWait c -> c_writer c = false -> lk g = LR ts ->
      cstep g (EAcq t) {| sg := sg g; lk := LR (t :: ts); th := upd (th g) t (CRun c (c_code c) (c_init c)) |}
  | s_mic g t c m rem l : th g t = CRun c (m :: rem) l ->
      cstep g (EMic t) {| sg := fst (ms_fun m (sg g) l); lk := lk g;
                          th := upd (th g) t (CRun c rem (snd (ms_fun m (sg g) l))) |}
  | s_rel_w g t c l : th g t = CRun c [] l -> c_writer c = true ->
      cstep g (ERel t) {| sg := sg g; lk := LR []; th := upd (th g) t (CFin c (c_ret c l)) |}
  | s_rel_r g t c l ts : th g t = CRun c [] l -> c_writer c = false -> lk g = LR ts ->
      cstep g (ERel t) {| sg := sg g; lk := LR (remove1 t ts); th := upd (th g) t (CFin c (c_ret c l)) |}
  | s_res g t c r : th g t = CFin c r ->
      cstep g (ERes t r) {| sg := sg g; lk := lk g; th := upd (th g) t CIdle |}.

  Inductive crun : cfg -> list cevent -> cfg -> Prop :=
  | crun_nil g : crun g [] g
  | crun_cons g e g1 es g2 : cstep g e g1 -> crun g1 es g2 -> crun g (e :: es) g2.

  Definition cinit : cfg := {| sg := s0; lk := LR []; th := fun _ => CIdle |}.

  (* ---------------- invariant: the mutex does its job ---------------- *)

  Definition running (g : cfg) (t : nat) : Prop := exists c rem l, th g t = CRun c rem l.

  Definition lock_ok (g : cfg) : Prop :=
    match lk g with
    | LW t => (exists c rem l, th g t = CRun c rem l /\ c_writer c = true) /\
              (forall u, u <> t -> ~ running g u)
    | LR ts => NoDup ts /\ (forall u, In u ts <-> running g u) /\
               (forall u c rem l, th g u = CRun c rem l -> c_writer c = false)
    end.

  Record CInv (g : cfg) : Prop := {
    inv_wait : forall t c, th g t = CWait c -> call_ok c;
    inv_code : forall t c rem l, th g t = CRun c rem l -> code_ok (c_writer c) rem;
    inv_lock : lock_ok g
  }.

  Lemma cinv_init : CInv cinit.
  Proof.
    constructor; unfold lock_ok; cbn.
    - intros; discriminate.
    - intros; discriminate.
    - split; [constructor|]. split.
      + intros u; split; [intros []|]. intros (c & rem & l & H). discriminate.
      + intros; discriminate.
  Qed.

  Lemma upd_eq f t v : upd f t v t = v.
  Proof. unfold upd. now rewrite Nat.eqb_refl. Qed.
  Lemma upd_neq f t v u : u <> t -> upd f t v u = f u.
  Proof. unfold upd. intros H. destruct (Nat.eqb_spec u t); congruence. Qed.

  Lemma in_remove1 t u ts : NoDup ts -> (In u (remove1 t ts) <-> In u ts /\ u <> t).
  Proof.
    induction ts as [|x ts IH]; intros Hnd; cbn; [tauto|].
    inversion Hnd as [|? ? Hx Hts]; subst.
    destruct (Nat.eqb_spec x t) as [-> | Hne].
    - split; [intros H; split; [now right | intros ->; contradiction]|].
      intros [[-> | H] Hn]; [congruence | assumption].
    - cbn. rewrite IH by assumption. split.
      + intros [-> | [H1 H2]]; [split; [now left | assumption] | split; [now right | assumption]].
      + intros [[-> | H] Hn]; [now left | right; tauto].
  Qed.

  Lemma nodup_remove1 t ts : NoDup ts -> NoDup (remove1 t ts).
  Proof.
    induction ts as [|x ts IH]; intros Hnd; cbn; [constructor|].
    inversion Hnd as [|? ? Hx Hts]; subst.
    destruct (Nat.eqb_spec x t); [assumption|].
    constructor; [|now apply IH]. rewrite in_remove1 by assumption. tauto.
  Qed.

  (* statuses after an update of thread t, seen from thread u *)
  Ltac ucase u t :=
    destruct (Nat.eq_dec u t) as [-> | ?];
    [rewrite ?upd_eq in * | rewrite ?upd_neq in * by assumption].

  (* running is unaffected at other threads *)
  Lemma running_upd_other g lk' sg' t v u : u <> t ->
    (running {| sg := sg'; lk := lk'; th := upd (th g) t v |} u <-> running g u).
  Proof. intros H. unfold running; cbn. now rewrite upd_neq by assumption. Qed.

  Lemma not_running_upd g lk' sg' t v : (forall c rem l, v <> CRun c rem l) ->
    ~ running {| sg := sg'; lk := lk'; th := upd (th g) t v |} t.
  Proof. intros H (c & rem & l & E). cbn in E. rewrite upd_eq in E. now apply (H c rem l). Qed.

  Lemma cinv_step g e g' : CInv g -> cstep g e g' -> CInv g'.
  Proof.
    intros [Hwait Hcode Hlock] Hs.
    destruct Hs as [g t c Ht Hok | g t c Ht Hcw Hlk | g t c ts Ht Hcw Hlk | g t c m rem l Ht
                   | g t c l Ht Hcw | g t c l ts Ht Hcw Hlk | g t c r Ht].
    - (* Inv: t was idle, now waits *)
      constructor; cbn [th sg lk].
      + intros u c' Hu. ucase u t; [now injection Hu as <- | eauto].
      + intros u c' rem l Hu. ucase u t; [discriminate | eauto].
      + unfold lock_ok in *; cbn [lk th]. destruct (lk g) as [w | ts].
        * destruct Hlock as [(c' & rem & l & Hrun & Hcw') Hoth]. split.
          -- exists c', rem, l. split; [|assumption]. rewrite upd_neq; [assumption | intros ->; congruence].
          -- intros u Hu Hru. assert (u <> t) by (intros ->; revert Hru; apply not_running_upd; discriminate).
             apply running_upd_other in Hru; [|assumption]. now apply (Hoth u).
        * destruct Hlock as (Hnd & Hin & Hrd). split; [assumption|]. split.
          -- intros u. rewrite Hin. destruct (Nat.eq_dec u t) as [-> | Hne].
             ++ unfold running; cbn. rewrite upd_eq. split; intros (? & ? & ? & H); congruence.
             ++ symmetry. now apply running_upd_other.
          -- intros u c2 rem2 l2 H2. ucase u t; [discriminate | eauto].
    - (* Acq by a writer: nobody is running *)
      unfold lock_ok in Hlock; rewrite Hlk in Hlock. destruct Hlock as (_ & Hin & _).
      assert (Hnone : forall u, ~ running g u) by (intros u Hu; now apply Hin in Hu).
      constructor; cbn [th sg lk].
      + intros u c' Hu. ucase u t; [discriminate | eauto].
      + intros u c' rem l Hu. ucase u t; [injection Hu as <- <- <-; now apply (Hwait t) | eauto].
      + unfold lock_ok; cbn [lk th]. split.
        * exists c, (c_code c), (c_init c). now rewrite upd_eq.
        * intros u Hu Hru. apply running_upd_other in Hru; [|assumption]. now apply (Hnone u).
    - (* Acq by a reader: no writer is running *)
      unfold lock_ok in Hlock; rewrite Hlk in Hlock. destruct Hlock as (Hnd & Hin & Hrd).
      assert (Hnt : ~ In t ts).
      { intros H. apply Hin in H. destruct H as (? & ? & ? & H). congruence. }
      constructor; cbn [th sg lk].
      + intros u c' Hu. ucase u t; [discriminate | eauto].
      + intros u c' rem l Hu. ucase u t; [injection Hu as <- <- <-; now apply (Hwait t) | eauto].
      + unfold lock_ok; cbn [lk th]. split; [now constructor|]. split.
        * intros u. destruct (Nat.eq_dec u t) as [-> | Hne].
          -- split; [|now left]. intros _. unfold running; cbn. rewrite upd_eq. eauto.
          -- rewrite running_upd_other by assumption. rewrite <- Hin. cbn. split; [intros [->|]; [congruence | assumption] | now right].
        * intros u c2 rem2 l2 H2. ucase u t; [now injection H2 as <- _ _ | eauto].
    - (* a micro-step *)
      constructor; cbn [th sg lk].
      + intros u c' Hu. ucase u t; [discriminate | eauto].
      + intros u c' rem' l' Hu. ucase u t; [injection Hu as <- <- _; eapply code_ok_tail; eauto | eauto].
      + unfold lock_ok in *; cbn [lk th]. destruct (lk g) as [w | ts].
        * destruct Hlock as [(c' & rem' & l' & Hrun & Hcw') Hoth].
          assert (w = t).
          { destruct (Nat.eq_dec w t) as [|Hne]; [assumption|]. exfalso. apply (Hoth t); [congruence|]. red; eauto. }
          subst w. split.
          -- rewrite Ht in Hrun. injection Hrun as <- _ _. exists c, rem, (snd (ms_fun m (sg g) l)). now rewrite upd_eq.
          -- intros u Hu Hru. apply running_upd_other in Hru; [|assumption]. now apply (Hoth u).
        * destruct Hlock as (Hnd & Hin & Hrd). split; [assumption|]. split.
          -- intros u. rewrite Hin. destruct (Nat.eq_dec u t) as [-> | Hne].
             ++ unfold running; cbn. rewrite upd_eq. split; intros _; eauto.
             ++ symmetry. now apply running_upd_other.
          -- intros u c2 rem2 l2 H2. ucase u t; [injection H2 as <- _ _; eauto | eauto].
    - (* Rel by a writer *)
      unfold lock_ok in Hlock. destruct (lk g) as [w | ts].
      2:{ destruct Hlock as (_ & _ & Hrd). specialize (Hrd _ _ _ _ Ht). congruence. }
      destruct Hlock as [(c' & rem' & l' & Hrun & Hcw') Hoth].
      assert (w = t).
      { destruct (Nat.eq_dec w t) as [|Hne]; [assumption|]. exfalso. apply (Hoth t); [congruence|]. red; eauto. }
      subst w.
      constructor; cbn [th sg lk].
      + intros u c2 Hu. ucase u t; [discriminate | eauto].
      + intros u c2 rem2 l2 Hu. ucase u t; [discriminate | eauto].
      + unfold lock_ok; cbn [lk th]. split; [constructor|]. split.
        * intros u. split; [intros []|]. intros Hru. destruct (Nat.eq_dec u t) as [-> | Hne].
          -- revert Hru. apply not_running_upd. discriminate.
          -- apply running_upd_other in Hru; [|assumption]. now apply (Hoth u).
        * intros u c2 rem2 l2 H2. ucase u t; [discriminate|]. exfalso. apply (Hoth u); [assumption | red; eauto].
    - (* Rel by a reader *)
      unfold lock_ok in Hlock; rewrite Hlk in Hlock. destruct Hlock as (Hnd & Hin & Hrd).
      constructor; cbn [th sg lk].
      + intros u c2 Hu. ucase u t; [discriminate | eauto].
      + intros u c2 rem2 l2 Hu. ucase u t; [discriminate | eauto].
      + unfold lock_ok; cbn [lk th]. split; [now apply nodup_remove1|]. split.
        * intros u. rewrite in_remove1 by assumption. destruct (Nat.eq_dec u t) as [-> | Hne].
          -- split; [tauto|]. intros H. exfalso. revert H. apply not_running_upd. discriminate.
          -- rewrite running_upd_other by assumption. rewrite Hin. tauto.
        * intros u c2 rem2 l2 H2. ucase u t; [discriminate | eauto].
    - (* Res *)
      constructor; cbn [th sg lk].
      + intros u c2 Hu. ucase u t; [discriminate | eauto].
      + intros u c2 rem2 l2 Hu. ucase u t; [discriminate | eauto].
      + unfold lock_ok in *; cbn [lk th]. destruct (lk g) as [w | ts].
        * destruct Hlock as [(c' & rem' & l' & Hrun & Hcw') Hoth]. split.
          -- exists c', rem', l'. split; [|assumption]. rewrite upd_neq; [assumption | intros ->; congruence].
          -- intros u Hu Hru. assert (u <> t) by (intros ->; revert Hru; apply not_running_upd; discriminate).
             apply running_upd_other in Hru; [|assumption]. now apply (Hoth u).
        * destruct Hlock as (Hnd & Hin & Hrd). split; [assumption|]. split.
          -- intros u. rewrite Hin. destruct (Nat.eq_dec u t) as [-> | Hne].
             ++ unfold running; cbn. rewrite upd_eq. split; intros (? & ? & ? & H); congruence.
             ++ symmetry. now apply running_upd_other.
          -- intros u c2 rem2 l2 H2. ucase u t; [discriminate | eauto].
  Qed.

  Lemma cinv_run g es g' : CInv g -> crun g es g' -> CInv g'.
  Proof. intros HI Hr. induction Hr as [|g e g1 es g2 Hs _ IH]; [assumption|]. apply IH. eapply cinv_step; eauto. Qed.

  (* ---------------- abstraction to the atomic-commit system of Lin.v ---------------- *)

  Local Notation lstate := (Lin.cstate S ccall R).
  Local Notation lstep := (Lin.estep S ccall R atomic_step r_eqb).
  Local Notation lrun := (Lin.erun S ccall R atomic_step r_eqb).
  Local Notation AIdle := (Lin.Idle ccall R).
  Local Notation APending := (Lin.Pending ccall R).
  Local Notation ADone := (Lin.Done ccall R).

  (* erasure: acquisition is the commit; micro-steps and releases are invisible *)
  Definition erase1 (e : cevent) : list (Lin.event ccall R) :=
    match e with
    | EInv t c => [Lin.Inv ccall R t c]
    | EAcq t => [Lin.Commit ccall R t]
    | ERes t r => [Lin.Res ccall R t r]
    | EMic _ | ERel _ => []
    end.
  Definition erase (es : list cevent) : list (Lin.event ccall R) := flat_map erase1 es.

  (* the abstract shared state: what the running writer (if any) will have made of it *)
  Definition sabs (g : cfg) : S :=
    match lk g with
    | LW t => match th g t with CRun c rem l => fst (exec rem (sg g) l) | _ => sg g end
    | LR _ => sg g
    end.

  (* the abstract status of a thread: a call that holds the mutex has already committed,
     with the result its remaining micro-steps will produce *)
  Definition astat (g : cfg) (t : nat) : Lin.tstat ccall R :=
    match th g t with
    | CIdle => AIdle
    | CWait c => APending c
    | CRun c rem l => ADone c (c_ret c (snd (exec rem (sg g) l)))
    | CFin c r => ADone c r
    end.

  Definition Abs (g : cfg) (st : lstate) : Prop :=
    Lin.sigma S ccall R st = sabs g /\ forall t, Lin.stat S ccall R st t = astat g t.

  Lemma abs_init : Abs cinit (Lin.init_st S ccall R s0).
  Proof. split; [reflexivity | intros t; reflexivity]. Qed.

  Lemma exec_cons m rem s l : exec (m :: rem) s l = exec rem (fst (ms_fun m s l)) (snd (ms_fun m s l)).
  Proof. cbn. now destruct (ms_fun m s l). Qed.

  (* one concrete step is matched by the erased abstract steps *)
  Lemma sim_step g e g' st : CInv g -> cstep g e g' -> Abs g st ->
    exists st', lrun st (erase1 e) = Some st' /\ Abs g' st'.
  Proof.
    intros HI Hs [Hsig Hst]. pose proof (inv_lock g HI) as Hlock. unfold lock_ok in Hlock.
    destruct Hs as [g t c Ht Hok | g t c Ht Hcw Hlk | g t c ts Ht Hcw Hlk | g t c m rem l Ht
                   | g t c l Ht Hcw | g t c l ts Ht Hcw Hlk | g t c r Ht]; cbn [erase1 Lin.erun].
    - (* Inv *)
      cbn [Lin.estep]. rewrite (Hst t). unfold astat at 1. rewrite Ht.
      eexists. split; [reflexivity|]. split; cbn [Lin.sigma Lin.stat].
      + rewrite Hsig. unfold sabs; cbn [lk th sg]. destruct (lk g) as [w|]; [|reflexivity].
        destruct (Nat.eq_dec w t) as [-> | Hne]; [rewrite upd_eq, Ht; reflexivity | now rewrite upd_neq].
      + intros u. unfold Lin.setst, astat; cbn [th sg]. destruct (Nat.eqb_spec u t) as [-> | Hne].
        * now rewrite upd_eq.
        * rewrite upd_neq by assumption. apply Hst.
    - (* Acq, writer *)
      rewrite Hlk in Hlock. destruct Hlock as (_ & Hin & _).
      assert (Hnone : forall u, ~ running g u) by (intros u Hu; now apply Hin in Hu).
      cbn [Lin.estep]. rewrite (Hst t). unfold astat at 1. rewrite Ht.
      assert (Es : Lin.sigma S ccall R st = sg g) by (rewrite Hsig; unfold sabs; now rewrite Hlk).
      rewrite Es. unfold atomic_step at 1.
      destruct (exec (c_code c) (sg g) (c_init c)) as [s' l'] eqn:Ex.
      eexists. split; [reflexivity|]. split; cbn [Lin.sigma Lin.stat].
      + unfold sabs; cbn [lk th sg]. now rewrite upd_eq, Ex.
      + intros u. unfold Lin.setst, astat; cbn [th sg]. destruct (Nat.eqb_spec u t) as [-> | Hne].
        * now rewrite upd_eq, Ex.
        * rewrite upd_neq by assumption. apply Hst.
    - (* Acq, reader *)
      cbn [Lin.estep]. rewrite (Hst t). unfold astat at 1. rewrite Ht.
      assert (Es : Lin.sigma S ccall R st = sg g) by (rewrite Hsig; unfold sabs; now rewrite Hlk).
      rewrite Es. unfold atomic_step at 1.
      destruct (exec (c_code c) (sg g) (c_init c)) as [s' l'] eqn:Ex.
      assert (Hs' : s' = sg g).
      { pose proof (exec_reader (c_code c) (sg g) (c_init c)) as H. rewrite Ex in H. cbn in H. apply H.
        pose proof (inv_wait g HI t c Ht) as Hc. unfold call_ok in Hc. now rewrite Hcw in Hc. }
      eexists. split; [reflexivity|]. split; cbn [Lin.sigma Lin.stat].
      + unfold sabs; cbn [lk th sg]. exact Hs'.
      + intros u. unfold Lin.setst, astat; cbn [th sg]. destruct (Nat.eqb_spec u t) as [-> | Hne].
        * now rewrite upd_eq, Ex.
        * rewrite upd_neq by assumption. apply Hst.
    - (* micro-step: invisible *)
      exists st. split; [reflexivity|].
      pose proof (inv_code g HI t c (m :: rem) l Ht) as Hc.
      split.
      + rewrite Hsig. unfold sabs; cbn [lk th sg]. destruct (lk g) as [w | ts].
        * destruct Hlock as [(c' & rem' & l' & Hrun & Hcw') Hoth].
          assert (w = t).
          { destruct (Nat.eq_dec w t) as [|Hne]; [assumption|]. exfalso. apply (Hoth t); [congruence|]. red; eauto. }
          subst w. rewrite upd_eq, Ht. now rewrite exec_cons.
        * destruct Hlock as (_ & _ & Hrd). pose proof (Hrd t c _ _ Ht) as Hr. rewrite Hr in Hc.
          destruct Hc as [Hok Hnw]. specialize (Hnw eq_refl).
          inversion Hok as [|? ? Hm _]; subst. inversion Hnw as [|? ? Hw _]; subst.
          symmetry. apply (Hm Hw).
      + intros u. rewrite (Hst u). unfold astat; cbn [th sg].
        destruct (Nat.eq_dec u t) as [-> | Hne].
        * rewrite upd_eq, Ht. now rewrite exec_cons.
        * rewrite upd_neq by assumption.
          destruct (th g u) as [|c2|c2 rem2 l2|c2 r2] eqn:Eu; try reflexivity.
          (* another thread is running: then both are readers and sg does not change *)
          destruct (lk g) as [w | ts].
          -- destruct Hlock as [(c' & rem' & l' & Hrun & Hcw') Hoth]. exfalso.
             destruct (Nat.eq_dec w t) as [-> | Hwt].
             ++ apply (Hoth u Hne). red; eauto.
             ++ apply (Hoth t); [congruence | red; eauto].
          -- destruct Hlock as (_ & _ & Hrd). pose proof (Hrd t c _ _ Ht) as Hr. rewrite Hr in Hc.
             destruct Hc as [Hok Hnw]. specialize (Hnw eq_refl).
             inversion Hok as [|? ? Hm _]; subst. inversion Hnw as [|? ? Hw _]; subst.
             now rewrite (Hm Hw).
    - (* Rel, writer: invisible *)
      exists st. split; [reflexivity|].
      destruct (lk g) as [w | ts] eqn:Elk.
      2:{ destruct Hlock as (_ & _ & Hrd). specialize (Hrd _ _ _ _ Ht). congruence. }
      destruct Hlock as [(c' & rem' & l' & Hrun & Hcw') Hoth].
      assert (w = t).
      { destruct (Nat.eq_dec w t) as [|Hne]; [assumption|]. exfalso. apply (Hoth t); [congruence|]. red; eauto. }
      subst w. split.
      + rewrite Hsig. unfold sabs; cbn [lk th sg]. now rewrite Elk, Ht.
      + intros u. rewrite (Hst u). unfold astat; cbn [th sg]. destruct (Nat.eq_dec u t) as [-> | Hne].
        * now rewrite upd_eq, Ht.
        * now rewrite upd_neq.
    - (* Rel, reader: invisible *)
      exists st. split; [reflexivity|]. split.
      + rewrite Hsig. unfold sabs; cbn [lk th sg]. now rewrite Hlk.
      + intros u. rewrite (Hst u). unfold astat; cbn [th sg]. destruct (Nat.eq_dec u t) as [-> | Hne].
        * now rewrite upd_eq, Ht.
        * now rewrite upd_neq.
    - (* Res *)
      cbn [Lin.estep]. rewrite (Hst t). unfold astat at 1. rewrite Ht.
      rewrite (proj2 (r_eqb_eq r r) eq_refl).
      eexists. split; [reflexivity|]. split; cbn [Lin.sigma Lin.stat].
      + rewrite Hsig. unfold sabs; cbn [lk th sg]. destruct (lk g) as [w|]; [|reflexivity].
        destruct (Nat.eq_dec w t) as [-> | Hne]; [rewrite upd_eq, Ht; reflexivity | now rewrite upd_neq].
      + intros u. unfold Lin.setst, astat; cbn [th sg]. destruct (Nat.eqb_spec u t) as [-> | Hne].
        * now rewrite upd_eq.
        * rewrite upd_neq by assumption. apply Hst.
  Qed.

  Lemma lrun_app st es1 es2 :
    lrun st (es1 ++ es2) = match lrun st es1 with Some st1 => lrun st1 es2 | None => None end.
  Proof.
    revert st. induction es1 as [|e es1 IH]; intros st; cbn [app Lin.erun]; [reflexivity|].
    destruct (lstep st e); [apply IH | reflexivity].
  Qed.

  Lemma sim_run g es g' : crun g es g' -> forall st, CInv g -> Abs g st ->
    exists st', lrun st (erase es) = Some st' /\ Abs g' st'.
  Proof.
    induction 1 as [g | g e g1 es g2 Hs Hr IH]; intros st HI HA.
    - exists st. split; [reflexivity | assumption].
    - destruct (sim_step g e g1 st HI Hs HA) as (st1 & E1 & A1).
      destruct (IH st1 (cinv_step _ _ _ HI Hs) A1) as (st2 & E2 & A2).
      exists st2. split; [|assumption]. unfold erase; cbn [flat_map]. fold (erase es).
      now rewrite lrun_app, E1.
  Qed.

  (* ================================================================== *)
  (* Every concurrent execution of critical-section calls, erased to its
     invocations, lock acquisitions and responses, is a valid execution of
     the atomic-commit system; the final abstract state agrees.            *)
  Theorem atomic_refinement es g :
    crun cinit es g ->
    exists st, lrun (Lin.init_st S ccall R s0) (erase es) = Some st /\ Abs g st.
  Proof. intros H. exact (sim_run _ _ _ H _ cinv_init abs_init). Qed.

  (* mutual exclusion in every reachable configuration *)
  Theorem reachable_lock_ok es g : crun cinit es g -> lock_ok g.
  Proof. intros H. exact (inv_lock _ (cinv_run _ _ _ cinv_init H)). Qed.

  (* hence linearizable, the linearization order being the order of lock acquisitions: *)
  (* (1) the calls in acquisition order, replayed one at a time on the sequential machine, produce
         exactly the committed results and the state the quiescent execution ends in *)
  Corollary cs_linearizable_legal es g :
    crun cinit es g ->
    exists st, lrun (Lin.init_st S ccall R s0) (erase es) = Some st /\
      Lin.replay S ccall R atomic_step s0 (Lin.lin_calls S ccall R st)
        = (sabs g, Lin.lin_results S ccall R st).
  Proof.
    intros H. destruct (atomic_refinement es g H) as (st & E & [Hsig _]).
    exists st. split; [assumption|]. rewrite <- Hsig.
    exact (Lin.atomic_linearizable_legal S ccall R atomic_step s0 r_eqb (erase es) st E).
  Qed.

  (* (2) the order respects real time: per thread, Inv / acquisition / Res alternate *)
  Corollary cs_linearizable_real_time es g :
    crun cinit es g -> forall t, Lin.alternates 0 (Lin.proj_thread ccall R t (erase es)) = true.
  Proof.
    intros H t. destruct (atomic_refinement es g H) as (st & E & _).
    apply (Lin.atomic_linearizable_real_time S ccall R atomic_step s0 r_eqb (erase es)). now exists st.
  Qed.

  (* (3) a response returns what its call committed *)
  Corollary cs_linearizable_results es t r g :
    crun cinit (es ++ [ERes t r]) g ->
    exists st c l1 l2, lrun (Lin.init_st S ccall R s0) (erase (es ++ [ERes t r])) = Some st /\
      Lin.log S ccall R st = l1 ++ (t, c, r) :: l2 /\ forall x, In x l1 -> fst (fst x) <> t.
  Proof.
    intros H. destruct (atomic_refinement _ g H) as (st & E & _).
    assert (Ep : erase (es ++ [ERes t r]) = erase es ++ [Lin.Res ccall R t r]).
    { unfold erase. now rewrite flat_map_app. }
    rewrite Ep in E.
    destruct (Lin.atomic_linearizable_results S ccall R atomic_step s0 r_eqb r_eqb_eq (erase es) t r st E)
      as (c & l1 & l2 & Hl & Hn).
    exists st, c, l1, l2. rewrite Ep. auto.
  Qed.
  (* ================================================================== *)
  (* The calls of a client program implement the operations of a sequential
     machine [step]: whatever their micro-steps are, each critical section run
     in one piece computes the machine's step.                              *)
  Section Machine.
    Variables (O : Type) (step : S -> O -> S * R).
    Variable impl : O -> ccall.
    Hypothesis impl_step : forall s o, atomic_step s (impl o) = step s o.

    Fixpoint seq (s : S) (os : list O) : S * list R :=
      match os with
      | [] => (s, [])
      | o :: r => let (s1, x) := step s o in let (s2, xs) := seq s1 r in (s2, x :: xs)
      end.

    Lemma replay_impl os : forall s, Lin.replay S ccall R atomic_step s (map impl os) = seq s os.
    Proof.
      induction os as [|o os IH]; intros s; cbn [map Lin.replay seq]; [reflexivity|].
      rewrite impl_step. destruct (step s o) as [s1 x]. now rewrite IH.
    Qed.

    Definition from_impl (es : list cevent) : Prop := forall t c, In (EInv t c) es -> exists o, c = impl o.

    Lemma in_erase_inv es t c : In (Lin.Inv ccall R t c) (erase es) -> In (EInv t c) es.
    Proof.
      unfold erase. rewrite in_flat_map. intros (e & He & Hin).
      destruct e; cbn in Hin; try (destruct Hin as [Hin | []]; try discriminate); try contradiction.
      injection Hin as <- <-. exact He.
    Qed.

    Lemma all_impl (cs : list ccall) : (forall c, In c cs -> exists o, c = impl o) -> exists os, cs = map impl os.
    Proof.
      induction cs as [|c cs IH]; intros H; [now exists []|].
      destruct (H c (or_introl eq_refl)) as (o & ->).
      destruct IH as (os & ->); [intros c' Hc'; apply H; now right|]. now exists (o :: os).
    Qed.

    (* the statement of linearizability for one execution: there is a sequence [os] of the
       invoked operations — the order of their lock acquisitions, which lies between each
       call's invocation and response ([cs_linearizable_real_time]) — such that the machine,
       run one operation at a time, returns exactly the results the calls committed (and
       return: [cs_linearizable_results]) and ends in the state the execution ends in *)
    Theorem machine_linearizable es g :
      crun cinit es g -> from_impl es ->
      exists st os, lrun (Lin.init_st S ccall R s0) (erase es) = Some st /\
        Lin.lin_calls S ccall R st = map impl os /\
        seq s0 os = (sabs g, Lin.lin_results S ccall R st).
    Proof.
      intros H Hf. destruct (cs_linearizable_legal es g H) as (st & E & Hrep).
      destruct (all_impl (Lin.lin_calls S ccall R st)) as (os & Hos).
      { intros c Hc. destruct (Lin.linearization_calls_invoked S ccall R atomic_step s0 r_eqb (erase es) st E c Hc) as (t & Ht).
        apply in_erase_inv in Ht. eauto. }
      exists st, os. split; [assumption|]. split; [assumption|].
      rewrite Hos in Hrep. now rewrite replay_impl in Hrep.
    Qed.
  End Machine.
End Atomic.
