(* Base.v — shared vocabulary of every model: results, wire (list Z) coding.

   The "wire" is the one format in which the Go harness, the extracted OCaml
   runner and the in-Coq cross-check exchange cases: an input is a [list Z], an
   observation is a [list Z].  Every property file Cxx_Wire.v defines

       cXX_run   : list Z -> list Z            (the model, on a wire input)
       cXX_agree : list Z -> list Z -> bool    (does this observation agree with the model?)
       cXX_holds : list Z -> list Z -> bool    (does the PROPERTY hold on this observation?)

   Nothing in this file is proved about Go; it is glue, exercised by the
   correspondence check on every run. *)

From Coq Require Export List ZArith Bool Lia Arith.
Export ListNotations.
Open Scope Z_scope.

(* ---------- results of operations that can fail or panic ---------- *)

Inductive res (A : Type) : Type :=
| Ok (a : A)
| Err (kind : Z)
| Panic.
Arguments Ok {A} a.
Arguments Err {A} kind.
Arguments Panic {A}.

(* ---------- list Z equality ---------- *)

Fixpoint zlist_eqb (a b : list Z) : bool :=
  match a, b with
  | [], [] => true
  | x :: a', y :: b' => Z.eqb x y && zlist_eqb a' b'
  | _, _ => false
  end.

Lemma zlist_eqb_refl a : zlist_eqb a a = true.
Proof. induction a as [|x a IH]; cbn; [reflexivity|]. now rewrite Z.eqb_refl, IH. Qed.

Lemma zlist_eqb_eq a b : zlist_eqb a b = true <-> a = b.
Proof.
  revert b; induction a as [|x a IH]; intros [|y b]; cbn; split; intros H;
    try reflexivity; try discriminate.
  - apply andb_prop in H as [H1 H2]. apply Z.eqb_eq in H1. apply IH in H2. congruence.
  - injection H as -> ->. now rewrite Z.eqb_refl, (proj2 (IH b) eq_refl).
Qed.

(* ---------- encoders ---------- *)

Definition enc_bool (b : bool) : list Z := [if b then 1 else 0].
Definition enc_nat (n : nat) : list Z := [Z.of_nat n].
(* a list of ints: length then the elements *)
Definition enc_zs (l : list Z) : list Z := Z.of_nat (length l) :: l.
(* a list of lists of ints: count then each list length-prefixed *)
Definition enc_zss (ll : list (list Z)) : list Z :=
  Z.of_nat (length ll) :: flat_map enc_zs ll.
(* results: Ok ↦ 0 :: payload, Err k ↦ [1; k], Panic ↦ [2] *)
Definition enc_res {A} (f : A -> list Z) (r : res A) : list Z :=
  match r with
  | Ok a => 0 :: f a
  | Err k => [1; k]
  | Panic => [2]
  end.

(* ---------- decoders (a tiny reader monad over list Z) ---------- *)

Definition reader (A : Type) := list Z -> option (A * list Z).

Definition rd_z : reader Z := fun w =>
  match w with x :: w' => Some (x, w') | [] => None end.

Definition rd_bool : reader bool := fun w =>
  match w with x :: w' => Some (negb (Z.eqb x 0), w') | [] => None end.

Fixpoint rd_n {A} (r : reader A) (n : nat) : reader (list A) := fun w =>
  match n with
  | O => Some ([], w)
  | S n' =>
      match r w with
      | Some (a, w') =>
          match rd_n r n' w' with
          | Some (l, w'') => Some (a :: l, w'')
          | None => None
          end
      | None => None
      end
  end.

(* guard: lengths on the wire are small non-negative numbers *)
Definition rd_len : reader nat := fun w =>
  match w with
  | x :: w' => if (0 <=? x) && (x <=? 100000) then Some (Z.to_nat x, w') else None
  | [] => None
  end.

Definition rd_zs : reader (list Z) := fun w =>
  match rd_len w with
  | Some (n, w') => rd_n rd_z n w'
  | None => None
  end.

Definition rd_zss : reader (list (list Z)) := fun w =>
  match rd_len w with
  | Some (n, w') => rd_n rd_zs n w'
  | None => None
  end.

(* all remaining words, in groups of k (fixed-width op records) *)
Fixpoint chunks_fuel (fuel k : nat) (w : list Z) : list (list Z) :=
  match fuel with
  | O => []
  | S f =>
      match w with
      | [] => []
      | _ => firstn k w :: chunks_fuel f k (skipn k w)
      end
  end.
Definition chunks (k : nat) (w : list Z) : list (list Z) := chunks_fuel (length w) k w.

(* the answer of the model when the wire input is malformed: never produced by
   the harness; a case answering this is a bug in the glue, and disagrees with
   every observation *)
Definition wire_error : list Z := [-999999].

(* nth with default on Z lists, used by op decoders *)
Definition zget (l : list Z) (i : nat) : Z := nth i l 0.
