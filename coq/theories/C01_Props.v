(* C01_Props.v — property C01 over the skeletons the translator regenerates
   from the Go source on every run (GoguGen.Skeletons).

   [C01_all_methods_wb] is the per-run obligation: every exported method of every
   lock-guarded type is well bracketed on every path.  The theorems below it
   lift that, through Lock.v, to every client program: any number of goroutines,
   each performing any sequence of calls of these methods on one shared
   instance, under every interleaving, has no data race on the guarded state,
   no unlock-of-unlocked-mutex panic, and never reaches a state where unfinished
   calls exist but none can move (deadlock). *)

From Coq Require Import List String Bool.
From Gogu Require Import Lock.
From GoguGen Require Import Skeletons.
Import ListNotations.

(* the per-run obligation, by computation on the regenerated skeletons *)
Theorem C01_all_methods_wb : forallb (fun m => check (snd m)) all_methods = true.
Proof. vm_compute. reflexivity. Qed.
Print Assumptions C01_all_methods_wb.

(* one call of some listed method (or spawned goroutine body), along any of its paths *)
Definition method_run (p : list act) : Prop :=
  exists name s b, In (name, s) all_methods /\ path s p b.

(* a goroutine: any finite sequence of such calls *)
Inductive client : list act -> Prop :=
| client_nil : client []
| client_call p q : method_run p -> client q -> client (p ++ q).

Lemma method_run_wb p : method_run p -> wb p = true.
Proof.
  intros (name & s & b & Hin & Hp).
  pose proof C01_all_methods_wb as H. rewrite forallb_forall in H.
  specialize (H (name, s) Hin). cbn in H. eapply check_sound; eauto.
Qed.

Lemma client_wb p : client p -> wb p = true.
Proof.
  induction 1 as [|p q Hp Hq IH]; [reflexivity|].
  apply wb_app; [now apply method_run_wb | exact IH].
Qed.

Section Clients.
  Variable ps : list (list act).             (* the goroutines of the program *)
  Hypothesis clients : forall p, In p ps -> client p.

  Let all_wb : forall p, In p ps -> wb p = true.
  Proof. intros p Hp. apply client_wb. now apply clients. Qed.

  Theorem C01_race_free : forall c, reachable ps c -> ~ race c.
  Proof. exact (wb_race_free ps all_wb). Qed.

  Theorem C01_no_lock_panic : forall c, reachable ps c -> ~ lock_panic c.
  Proof. exact (wb_no_lock_panic ps all_wb). Qed.

  Theorem C01_no_deadlock : forall c, reachable ps c -> unfinished c -> exists c', step c c'.
  Proof. exact (wb_no_deadlock ps all_wb). Qed.

  Theorem C01_sections_isolated : forall c t a l w, reachable ps c -> next_act c t = Some a -> accesses a l w ->
    forall t' a' l' w', t' <> t -> next_act c t' = Some a' -> accesses a' l' w' -> w = false /\ w' = false.
  Proof. exact (cs_isolation ps all_wb). Qed.
End Clients.

Print Assumptions C01_race_free.
Print Assumptions C01_no_lock_panic.
Print Assumptions C01_no_deadlock.
Print Assumptions C01_sections_isolated.

(* no method hands a reference to mutable guarded data to its caller: an
   [AEscape] is never accepted by the bracketing automaton, so it occurs on no
   path of a checked method *)
Theorem C01_no_escape : forall p l, method_run p -> ~ In (AEscape l) p.
Proof.
  intros p l Hm Hin. apply method_run_wb in Hm. unfold wb in Hm.
  revert Hm. generalize Out as m. induction p as [|a p IH]; intros m Hm; [destruct Hin|].
  cbn [wb_from] in Hm. destruct Hin as [-> | Hin].
  - destruct m; cbn in Hm; discriminate.
  - destruct (wb_step m a) as [m'|]; [eauto | discriminate].
Qed.
Print Assumptions C01_no_escape.

(* non-vacuity: the method list is not empty, and two concurrent goroutines each
   making a concrete call are a [client] program *)
Example C01_nonvacuous : (10 <= List.length all_methods)%nat.
Proof. vm_compute. repeat constructor. Qed.
