(* C02_Corollaries.v — the two "in particular" clauses of C02 on the sequential machines.
   Together with C02_machine_linearizable (every concurrent execution returns what SOME
   sequential run of the same calls returns) they say what racing callers can observe. *)
From Gogu Require Import Base C02_Model.
From Gogu Require C08_Model C09_Model.
Local Open Scope Z_scope.

(* ---------------- cache: insert-only-if-absent is granted exactly once ---------------- *)

Definition set_op (k v : Z) : opr := (0, k, v).
Definition granted (r : resr) : bool := resr_eqb r (2, 0, 0).          (* Set returned nil *)
Definition refused (r : resr) : bool := resr_eqb r (2, 0, 1).          (* "already exists" *)

Definition absent (st : ca_state) (k : Z) : Prop := C08_Model.al_get k (C08_Model.items (fst st)) = None.
Definition held_forever (st : ca_state) (k : Z) : Prop :=
  exists v, C08_Model.al_get k (C08_Model.items (fst st)) = Some (C08_Model.mkItem v (-1)).

Lemma al_get_put_same {B} k (b : B) m : C08_Model.al_get k (C08_Model.al_put k b m) = Some b.
Proof.
  induction m as [|[k' b'] m IH]; cbn; [now rewrite Z.eqb_refl|].
  destruct (k =? k') eqn:E; cbn; [now rewrite Z.eqb_refl | now rewrite E].
Qed.

Lemma set_absent st k v : absent st k ->
  exists st', ca_step st (set_op k v) = (st', (2, 0, 0)) /\ held_forever st' k.
Proof.
  destruct st as [c now]. unfold absent, held_forever, ca_step, set_op. cbn [fst]. intros Ha.
  unfold C08_Model.step, C08_Model.set, C08_Model.set2, C08_Model.add2, C08_Model.get. rewrite Ha.
  cbn [C08_Model.is_some andb negb fst snd].
  eexists. split; [reflexivity|]. exists v. cbn [fst C08_Model.with_items C08_Model.items].
  unfold C08_Model.exp_of, C08_Model.DefaultExpiration, C08_Model.NoExpiration. cbn. apply al_get_put_same.
Qed.

Lemma set_held st k v : held_forever st k -> ca_step st (set_op k v) = (st, (2, 0, 1)).
Proof.
  destruct st as [c now]. unfold held_forever, ca_step, set_op. cbn [fst]. intros (w & Hw).
  unfold C08_Model.step, C08_Model.set, C08_Model.set2, C08_Model.get. rewrite Hw. cbn. reflexivity.
Qed.

(* any number of Sets of one key that is absent: run one at a time in ANY order (they are all
   Sets of k, so every order looks like this), the first is granted and every other refused *)
Theorem sets_grant_exactly_one st k v vs : absent st k ->
  let rs := snd (seq_run ca_step st (map (set_op k) (v :: vs))) in
  List.length (filter granted rs) = 1%nat /\ List.length (filter refused rs) = List.length vs.
Proof.
  intros Ha. destruct (set_absent st k v Ha) as (st1 & E1 & Hh).
  cbn [map seq_run]. rewrite E1.
  assert (G : forall ws st2, held_forever st2 k ->
            snd (seq_run ca_step st2 (map (set_op k) ws)) = repeat (2, 0, 1) (List.length ws) /\
            fst (seq_run ca_step st2 (map (set_op k) ws)) = st2).
  { induction ws as [|w ws IH]; intros st2 H2; cbn [map seq_run length repeat]; [auto|].
    rewrite (set_held st2 k w H2). destruct (IH st2 H2) as [I1 I2].
    destruct (seq_run ca_step st2 (map (set_op k) ws)) as [s' r'] eqn:E. cbn in *. subst. auto. }
  destruct (G vs st1 Hh) as [G1 _].
  destruct (seq_run ca_step st1 (map (set_op k) vs)) as [s' r'] eqn:E. cbn [snd] in *. subst r'.
  cbn [filter granted refused resr_eqb]. cbn.
  assert (F1 : forall n, filter granted (repeat (2, 0, 1) n) = []) by (induction n; cbn; auto).
  assert (F2 : forall n, filter refused (repeat (2, 0, 1) n) = repeat (2, 0, 1) n)
    by (induction n as [|n IHn]; cbn; [reflexivity | now rewrite IHn]).
  rewrite F1, F2, repeat_length. auto.
Qed.

Example sets_grant_exactly_one_nonvacuous : absent ca_init 1.
Proof. reflexivity. Qed.

(* ---------------- trie: a key put many times is counted once ---------------- *)

(* one Put: the counter moves exactly when the key was not stored (the membership test, the
   counter update and the insertion are one step of the machine = one critical section of the code) *)
Lemma put_counts st k v : tr_key k <> [] ->
  C09_Model.n (fst (tr_step st (0, k, v))) =
  if C09_Model.contains_locked (C09_Model.root st) (tr_key k) then C09_Model.n st else C09_Model.n st + 1.
Proof.
  intros Hk. unfold tr_step. cbn [C09_Model.step].
  destruct (tr_key k) as [|c rest] eqn:E; [contradiction|].
  cbn [fst C09_Model.n]. reflexivity.
Qed.
(* over whole histories: C09_Props.C09_size_is_distinct_keys — after ANY sequence of Puts the
   counter is the number of distinct keys put; with C02_machine_linearizable: however many
   goroutines race to put the same new key, it is counted once. *)
