(* C02_Model.v — the sequential machines against which concurrent executions of
   the lock-guarded containers are judged, and the two executable judges.

   A machine is the sequential transcription of one container type that
   C03–C09 already carry (same Gallina functions, re-used, not re-written):

     ty 0  heap.Heap (min-heap, comparator <)     C03_Model   Push v | Pop | Peek | Size | Clear | Delete v | IsEmpty
     ty 1  queue.Queue                            C05_Model   Enqueue v | Dequeue | Peek | Search v | Size | Clear
     ty 2  queue.LQueue (NewLinked p)             C05_Model   idem
     ty 3  stack.Stack                            C06_Model   Push v | Pop | Peek | Search v | Size
     ty 4  stack.LStack (NewLinked p)             C06_Model   idem
     ty 5  bstree.BsTree (comparator <)           C04_Model   Upsert k v | Get k | Delete k | Size
     ty 6  trie.Trie                              C09_Model   Put k v | Get k | Contains k | Size   (k indexes a key table)
     ty 7  cache.Cache (NoExpiration, no janitor) C08_Model   Set k v | Get k | Update k v | Delete k | Count
                                                              | DeleteExpired | IsExpired k | Flush  (+ set-up: SetShort k v, Tick)

   An operation is a triple (code, a, b); a result is a triple (tag, x, y):
     (0,0,0) no result     (1,v,0) a value     (2,v,e) value and error kind (e = 0: nil)
     (3,b,0) a boolean     (9,0,0) panic       (8,0,0) the call did not return (observation only)

   Judges (both executable, extracted with the rest):
     [atomic_run]   replays a log of Inv / Commit / Res events (the alphabet of
                    Lin.v) — each call takes effect at its Commit, applying the
                    machine's step to the shared state — and yields the result
                    of every call: the prediction of the atomic-commit model
                    for the schedule the implementation was run under.
     [linearizable] brute force: is there a total order of the calls that
                    respects "a returned before b was invoked" and in which the
                    machine, run one call at a time, returns what each call
                    returned and, for the tail calls issued afterwards, what
                    they returned?  This is the statement of C02 for one
                    execution.
   No proofs in this file. *)

From Gogu Require Import Base C03_Model C04_Model C05_DList C05_Model C06_Model C08_Model C09_Model.
Local Open Scope Z_scope.

Definition opr := (Z * Z * Z)%type.       (* code, a, b *)
Definition resr := (Z * Z * Z)%type.      (* tag, x, y *)

Definition r_unit : resr := (0, 0, 0).
Definition r_val (v : Z) : resr := (1, v, 0).
Definition r_verr (v e : Z) : resr := (2, v, e).
Definition r_bool (b : bool) : resr := (3, if b then 1 else 0, 0).
Definition r_panic : resr := (9, 0, 0).
Definition r_noret : resr := (8, 0, 0).
Definition r_badop : resr := (7, 0, 0).

Definition resr_eqb (x y : resr) : bool :=
  let '(a, b, c) := x in let '(a', b', c') := y in (a =? a') && (b =? b') && (c =? c').

(* ---------------------------------------------------------------- heap *)

Definition hp_state := @C03_Model.heap Z.
Definition hp_init : hp_state := C03_Model.new_heap Z.ltb.
Definition hp_step (h : hp_state) (o : opr) : hp_state * resr :=
  let '(c, a, _) := o in
  match c with
  | 0 => match C03_Model.push h [a] with Ok h' => (h', r_unit) | _ => (h, r_panic) end
  | 1 => match C03_Model.pop 0 h with Ok (v, h') => (h', r_val v) | _ => (h, r_panic) end
  | 2 => match C03_Model.peek 0 h with Ok v => (h, r_val v) | _ => (h, r_panic) end
  | 3 => (h, r_val (Z.of_nat (C03_Model.size h)))
  | 4 => (C03_Model.clear h, r_unit)
  | 5 => match C03_Model.delete Z.eqb h a with
         | Ok (ok, e, h') => (h', r_verr (if ok then 1 else 0) e)
         | _ => (h, r_panic)
         end
  | 6 => (h, r_bool (C03_Model.is_empty h))
  | _ => (h, r_badop)
  end.

(* ---------------------------------------------------------------- queues *)

Definition q_op (o : opr) : option C05_Model.qop :=
  let '(c, a, _) := o in
  match c with
  | 0 => Some (C05_Model.Enqueue a) | 1 => Some C05_Model.Dequeue | 2 => Some C05_Model.Peek
  | 3 => Some (C05_Model.Search a) | 4 => Some C05_Model.Size | 5 => Some C05_Model.Clear | _ => None
  end.
Definition q_res (r : C05_Model.qout) : resr :=
  match r with
  | C05_Model.ONone => r_unit
  | C05_Model.ODeq err v => r_verr v (if err then 1 else 0)
  | C05_Model.OVal v => r_val v
  | C05_Model.OBool b => r_bool b
  | C05_Model.OSize n => r_val n
  | C05_Model.OFail _ => r_panic
  end.
Definition sq_stepr (q : C05_Model.sq) (o : opr) : C05_Model.sq * resr :=
  match q_op o with Some p => let '(q', r) := C05_Model.sq_step q p in (q', q_res r) | None => (q, r_badop) end.
Definition lq_stepr (q : C05_Model.lq) (o : opr) : C05_Model.lq * resr :=
  match q_op o with Some p => let '(q', r) := C05_Model.lq_step q p in (q', q_res r) | None => (q, r_badop) end.

(* ---------------------------------------------------------------- stacks *)

Definition s_op (o : opr) : option C06_Model.sop :=
  let '(c, a, _) := o in
  match c with
  | 0 => Some (C06_Model.Push a) | 1 => Some C06_Model.Pop | 2 => Some C06_Model.SPeek
  | 3 => Some (C06_Model.SSearch a) | 4 => Some C06_Model.SSize | _ => None
  end.
Definition s_res (r : C06_Model.sout) : resr :=
  match r with
  | C06_Model.SNone => r_unit
  | C06_Model.SVal v => r_val v
  | C06_Model.SBool b => r_bool b
  | C06_Model.SInt n => r_val n
  | C06_Model.SFail _ => r_panic
  end.
Definition ss_stepr (s : C06_Model.ss) (o : opr) : C06_Model.ss * resr :=
  match s_op o with Some p => let '(s', r) := C06_Model.ss_step s p in (s', s_res r) | None => (s, r_badop) end.
Definition ls_stepr (s : C06_Model.ls) (o : opr) : C06_Model.ls * resr :=
  match s_op o with Some p => let '(s', r) := C06_Model.ls_step s p in (s', s_res r) | None => (s, r_badop) end.

(* ---------------------------------------------------------------- bstree *)

Definition bt_state := @C04_Model.bst Z Z.
Definition bt_init : bt_state := C04_Model.empty.
Definition bt_step (b : bt_state) (o : opr) : bt_state * resr :=
  let '(c, a, v) := o in
  let go (p : @C04_Model.op Z Z) :=
    let '(b', r) := C04_Model.step Z.ltb b p in
    (b', match r with
         | C04_Model.ODone => r_unit
         | C04_Model.OPanic => r_panic
         | C04_Model.ODel nf => r_verr 0 (if nf then 1 else 0)
         | C04_Model.OGet (Ok (_, x)) => r_verr x 0
         | C04_Model.OGet _ => r_verr 0 1
         | C04_Model.OSize n => r_val n
         | C04_Model.OTrav _ => r_badop
         end) in
  match c with
  | 0 => go (C04_Model.Upsert a v)
  | 1 => go (C04_Model.Get a)
  | 2 => go (C04_Model.Delete a)
  | 3 => go C04_Model.Size
  | _ => (b, r_badop)
  end.

(* ---------------------------------------------------------------- trie *)

(* the key table shared with harness/c02.go: nested keys, a sibling, the empty key *)
Definition tr_key (k : Z) : C09_Model.key :=
  match k with
  | 0 => [97] | 1 => [97; 98] | 2 => [98] | 3 => [97; 98; 99] | 4 => [] | _ => [122]
  end.
Definition tr_state := @C09_Model.trie Z.
Definition tr_init : tr_state := C09_Model.empty.
Definition tr_step (t : tr_state) (o : opr) : tr_state * resr :=
  let '(c, a, v) := o in
  let go (p : @C09_Model.op Z) :=
    let '(t', r) := C09_Model.step t p in
    (t', match r with
         | C09_Model.ODone => r_unit
         | C09_Model.OPanic => r_panic
         | C09_Model.OGet (Some x) => r_verr x 1
         | C09_Model.OGet None => r_verr 0 0
         | C09_Model.OBool b => r_bool b
         | C09_Model.OSize z => r_val z
         | _ => r_badop
         end) in
  match c with
  | 0 => go (C09_Model.Put (tr_key a) v)
  | 1 => go (C09_Model.Get (tr_key a))
  | 2 => go (C09_Model.Contains (tr_key a))
  | 3 => go C09_Model.Size
  | _ => (t, r_badop)
  end.

(* ---------------------------------------------------------------- cache *)

(* state: the cache and the clock reading every operation sees.  Entries are stored with
   NoExpiration except by the set-up operation "SetShort" (duration 1 ns); the set-up
   operation "Tick" lets (much more than) that nanosecond pass, so that afterwards such an
   entry is expired for every operation and nothing else ever expires: the clock plays no
   further role and is constant during the concurrent part. *)
Definition ca_state := (C08_Model.cache Z * Z)%type.
Definition ca_init : ca_state := (C08_Model.new (-1) 0, 1000).        (* New(NoExpiration, 0) *)
Definition ca_err (e : option Z) : Z := match e with Some k => k | None => 0 end.
Definition ca_step (st : ca_state) (o : opr) : ca_state * resr :=
  let '(c, now) := st in
  let '(code, k, v) := o in
  let go (p : C08_Model.op Z) :=
    let '(c', r) := C08_Model.step Z (fun _ => false) c p now in
    ((c', now), match r with
         | C08_Model.RErr e => r_verr 0 (ca_err e)
         | C08_Model.RGet (Some it, e) => r_verr (C08_Model.object it) (ca_err e)
         | C08_Model.RGet (None, e) => r_verr 0 (ca_err e)
         | C08_Model.RCount n => r_val n
         | C08_Model.RBool b => r_bool b
         | C08_Model.RUnit => r_unit
         | _ => r_badop
         end) in
  match code with
  | 0 => go (@C08_Model.OSet Z k v (-1))
  | 1 => go (@C08_Model.OGet Z k)
  | 2 => go (@C08_Model.OUpdate Z k v (-1))
  | 3 => go (@C08_Model.ODelete Z k)
  | 4 => go (@C08_Model.OCount Z)
  | 5 => go (@C08_Model.ODeleteExpired Z)
  | 6 => go (@C08_Model.OIsExpired Z k)
  | 7 => go (@C08_Model.OFlush Z)
  | 8 => go (@C08_Model.OSet Z k v 1)                 (* set-up only: expires one nanosecond later *)
  | 9 => ((c, now + 1000000), r_unit)                 (* set-up only: the harness sleeps 1 ms *)
  | _ => (st, r_badop)
  end.

(* ---------------------------------------------------------------- generic judges *)

Section Judge.
  Context {St : Type}.
  Variable step : St -> opr -> St * resr.

  Fixpoint seq_run (s : St) (ops : list opr) : St * list resr :=
    match ops with
    | [] => (s, [])
    | o :: r => let '(s1, x) := step s o in let '(s2, xs) := seq_run s1 r in (s2, x :: xs)
    end.

  (* ---- atomic-commit replay of an event log (kinds: 0 Inv, 1 Commit, 2 Res) ---- *)

  (* per thread: remaining calls, the committed result of the current call *)
  Record tctx := mkT { t_rest : list opr; t_cur : option opr; t_res : option resr; t_out : list resr }.

  Fixpoint upd_nth {A} (l : list A) (i : nat) (x : A) : list A :=
    match l, i with
    | [], _ => []
    | _ :: t, O => x :: t
    | h :: t, S j => h :: upd_nth t j x
    end.

  (* one event; None = the log is not a well-formed atomic execution of the program *)
  Definition ev_step (st : St * list tctx) (e : Z * nat) : option (St * list tctx) :=
    let '(s, ts) := st in
    let '(kind, t) := e in
    match nth_error ts t with
    | None => None
    | Some c =>
        match kind with
        | 0 => match t_cur c, t_rest c with
               | None, o :: r => Some (s, upd_nth ts t (mkT r (Some o) None (t_out c)))
               | _, _ => None
               end
        | 1 => match t_cur c, t_res c with
               | Some o, None => let '(s', x) := step s o in
                                 Some (s', upd_nth ts t (mkT (t_rest c) (Some o) (Some x) (t_out c)))
               | _, _ => None
               end
        | 2 => match t_cur c, t_res c with
               | Some _, Some x => Some (s, upd_nth ts t (mkT (t_rest c) None None (t_out c ++ [x])))
               | _, _ => None
               end
        | _ => None
        end
    end.

  Fixpoint ev_run (st : St * list tctx) (es : list (Z * nat)) : option (St * list tctx) :=
    match es with
    | [] => Some st
    | e :: r => match ev_step st e with Some st' => ev_run st' r | None => None end
    end.

  (* results per thread (calls that never returned: r_noret) and the tail results *)
  Definition atomic_run (s0 : St) (prog : list (list opr)) (tail : list opr) (es : list (Z * nat))
    : option (list (list resr) * list resr) :=
    match ev_run (s0, map (fun p => mkT p None None []) prog) es with
    | None => None
    | Some (s, ts) =>
        Some (map (fun c => t_out c ++ map (fun _ => r_noret)
                               (match t_cur c with Some o => o :: t_rest c | None => t_rest c end)) ts,
              snd (seq_run s tail))
    end.

  (* ---- brute-force linearizability ---- *)

  (* a call: thread, index in the thread, operation, observed result, position of its Inv and Res *)
  Record call := mkC { c_thr : nat; c_idx : nat; c_op : opr; c_obs : resr; c_inv : nat; c_ret : nat }.

  Definition precedes (a b : call) : bool := Nat.ltb (c_ret a) (c_inv b).   (* a returned before b was invoked *)

  (* try every order: pick any remaining call none of whose remaining peers must precede it *)
  Fixpoint removes {A} (l : list A) : list (A * list A) :=
    match l with
    | [] => []
    | x :: t => (x, t) :: map (fun p => (fst p, x :: snd p)) (removes t)
    end.

  Fixpoint forallb2 (f : resr -> resr -> bool) (a b : list resr) {struct a} : bool :=
    match a, b with
    | [], [] => true
    | x :: a', y :: b' => f x y && forallb2 f a' b'
    | _, _ => false
    end.

  Fixpoint search (fuel : nat) (s : St) (rest : list call) (tail : list opr) (tail_obs : list resr) : bool :=
    match rest with
    | [] => forallb2 resr_eqb (snd (seq_run s tail)) tail_obs
    | _ =>
        match fuel with
        | O => false
        | S f =>
            existsb (fun p =>
                       let '(c, others) := p in
                       negb (existsb (fun d => precedes d c) others) &&
                       (let '(s', x) := step s (c_op c) in
                        resr_eqb x (c_obs c) && search f s' others tail tail_obs))
                    (removes rest)
        end
    end.
End Judge.
