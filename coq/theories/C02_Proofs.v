(* C02_Proofs.v — the executable judge [search] of C02_Model.v decides exactly the
   declarative statement "this execution has a linearization". *)
From Coq Require Import Permutation.
From Gogu Require Import Base C02_Model.
Local Open Scope nat_scope.

Section JudgeSpec.
  Context {St : Type}.
  Variable step : St -> opr -> St * resr.

  (* no call placed later must precede (in real time) a call placed earlier *)
  Fixpoint respects (order : list call) : Prop :=
    match order with
    | [] => True
    | c :: r => (forall d, In d r -> precedes d c = false) /\ respects r
    end.

  (* run one call at a time in that order: every call returns what it was observed to
     return, and the tail calls made afterwards return what they were observed to return *)
  Fixpoint matches (s : St) (order : list call) (tail : list opr) (tail_obs : list resr) : Prop :=
    match order with
    | [] => forallb2 resr_eqb (snd (seq_run step s tail)) tail_obs = true
    | c :: r => let '(s', x) := step s (c_op c) in
                resr_eqb x (c_obs c) = true /\ matches s' r tail tail_obs
    end.

  Definition linearization (s : St) (calls : list call) (tail : list opr) (tail_obs : list resr) : Prop :=
    exists order, Permutation order calls /\ respects order /\ matches s order tail tail_obs.

  Lemma list_eq_nil_dec {A} (l : list A) : {l = []} + {l <> []}.
  Proof. destruct l; [now left | right; discriminate]. Qed.

  Lemma removes_perm {A} (l : list A) x r : In (x, r) (removes l) -> Permutation l (x :: r).
  Proof.
    revert x r. induction l as [|a l IH]; intros x r H; cbn in H; [contradiction|].
    destruct H as [H | H].
    - injection H as <- <-. apply Permutation_refl.
    - apply in_map_iff in H as ([y r'] & E & Hin). cbn in E. injection E as <- <-.
      apply IH in Hin. eapply perm_trans; [apply perm_skip; exact Hin | apply perm_swap].
  Qed.

  Lemma removes_split {A} (l1 l2 : list A) x : In (x, l1 ++ l2) (removes (l1 ++ x :: l2)).
  Proof.
    induction l1 as [|a l1 IH]; cbn.
    - now left.
    - right. apply in_map_iff. exists (x, l1 ++ l2). split; [reflexivity | exact IH].
  Qed.

  Lemma removes_length {A} (l : list A) x r : In (x, r) (removes l) -> length l = S (length r).
  Proof. intros H. apply removes_perm in H. apply Permutation_length in H. exact H. Qed.

  Lemma existsb_false_forall {A} (f : A -> bool) l : existsb f l = false <-> forall x, In x l -> f x = false.
  Proof.
    induction l as [|a l IH]; cbn; [split; [intros _ x [] | reflexivity]|].
    rewrite orb_false_iff, IH. split.
    - intros [Ha Hl] x [<- | Hx]; auto.
    - intros H. split; [apply H; now left | intros x Hx; apply H; now right].
  Qed.

  Lemma search_S f s calls tail tobs : calls <> [] ->
    search step (S f) s calls tail tobs =
    existsb (fun p => let '(c, others) := p in
               negb (existsb (fun d => precedes d c) others) &&
               (let '(s', x) := step s (c_op c) in
                resr_eqb x (c_obs c) && search step f s' others tail tobs)) (removes calls).
  Proof. destruct calls; [contradiction | reflexivity]. Qed.

  Theorem search_spec : forall fuel s calls tail tail_obs,
    length calls < fuel ->
    (search step fuel s calls tail tail_obs = true <-> linearization s calls tail tail_obs).
  Proof.
    induction fuel as [|f IH]; intros s calls tail tobs Hf; [inversion Hf|].
    destruct (list_eq_nil_dec calls) as [-> | Hne].
    - (* no call left *)
      cbn [search]. split.
      + intros H. exists []. split; [constructor | split; [exact I | exact H]].
      + intros (order & Hp & _ & Hm). apply Permutation_sym, Permutation_nil in Hp. subst order. exact Hm.
    - rewrite search_S by assumption. split.
      + intros H. apply existsb_exists in H as ([c others] & Hin & Hc).
        apply andb_prop in Hc as [Hprec Hrun]. apply negb_true_iff in Hprec.
        destruct (step s (c_op c)) as [s' x] eqn:Es. apply andb_prop in Hrun as [Hx Hs].
        pose proof (removes_length _ _ _ Hin) as Hlen.
        apply IH in Hs; [|lia]. destruct Hs as (order & Hp & Hr & Hm).
        exists (c :: order). split; [|split].
        * apply Permutation_sym. eapply perm_trans; [apply removes_perm; exact Hin|]. apply perm_skip. now apply Permutation_sym.
        * cbn [respects]. split; [|exact Hr]. intros d Hd. rewrite existsb_false_forall in Hprec. apply Hprec.
          eapply Permutation_in; [exact Hp | exact Hd].
        * cbn [matches]. rewrite Es. split; assumption.
      + intros (order & Hp & Hr & Hm).
        destruct order as [|c r].
        { apply Permutation_nil in Hp. contradiction. }
        cbn [respects matches] in Hr, Hm. destruct Hr as [Hprec Hr].
        destruct (step s (c_op c)) as [s' x] eqn:Es. destruct Hm as [Hx Hm].
        assert (Hc : In c calls) by (eapply Permutation_in; [exact Hp | now left]).
        apply in_split in Hc as (l1 & l2 & El). subst calls.
        assert (Hp' : Permutation r (l1 ++ l2)).
        { apply Permutation_cons_inv with (a := c). eapply perm_trans; [exact Hp|]. apply Permutation_sym, Permutation_middle. }
        apply existsb_exists. exists (c, l1 ++ l2). split; [apply removes_split|].
        apply andb_true_intro. split.
        * apply negb_true_iff, existsb_false_forall. intros d Hd. apply Hprec.
          eapply Permutation_in; [apply Permutation_sym; exact Hp' | exact Hd].
        * rewrite Es. apply andb_true_intro. split; [exact Hx|].
          apply IH; [rewrite app_length in *; cbn [length] in Hf; lia|].
          exists r. split; [exact Hp' | split; assumption].
  Qed.
End JudgeSpec.
