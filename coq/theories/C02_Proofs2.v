(* C02_Proofs2.v — the replay [ev_run]/[atomic_run] that c02_agree performs on the observed
   event order is an execution of Lin.v's atomic-commit system (so everything Lin.v proves
   about such executions holds of the prediction the implementation is compared with). *)
From Gogu Require Import Base Lin C02_Model.
Local Open Scope nat_scope.

Section Replay.
  Context {St : Type}.
  Variable step : St -> opr -> St * resr.
  Variable s0 : St.

  Local Notation lstate := (Lin.cstate St opr resr).
  Local Notation lrun := (Lin.erun St opr resr step resr_eqb).
  Local Notation lstep := (Lin.estep St opr resr step resr_eqb).

  Definition status_of (c : tctx) : Lin.tstat opr resr :=
    match t_cur c, t_res c with
    | None, _ => Lin.Idle opr resr
    | Some o, None => Lin.Pending opr resr o
    | Some o, Some x => Lin.Done opr resr o x
    end.

  Definition Rel (cfg : St * list tctx) (st : lstate) : Prop :=
    Lin.sigma St opr resr st = fst cfg /\
    forall t, Lin.stat St opr resr st t =
              match nth_error (snd cfg) t with Some c => status_of c | None => Lin.Idle opr resr end.

  Lemma nth_error_upd_nth_eq {A} (l : list A) i x : i < length l -> nth_error (upd_nth l i x) i = Some x.
  Proof.
    revert i; induction l as [|a l IH]; intros i H; cbn in H; [lia|].
    destruct i as [|i]; cbn; [reflexivity | apply IH; lia].
  Qed.
  Lemma nth_error_upd_nth_neq {A} (l : list A) i j x : i <> j -> nth_error (upd_nth l i x) j = nth_error l j.
  Proof.
    revert i j; induction l as [|a l IH]; intros i j H; [destruct i, j; reflexivity|].
    destruct i as [|i], j as [|j]; cbn; try reflexivity; [congruence | apply IH; congruence].
  Qed.
  Lemma nth_error_lt {A} (l : list A) i x : nth_error l i = Some x -> i < length l.
  Proof. intros H. apply nth_error_Some. congruence. Qed.

  Lemma resr_eqb_refl x : resr_eqb x x = true.
  Proof. destruct x as [[a b] c]. cbn. now rewrite !Z.eqb_refl. Qed.

  (* one replayed event is one step of the atomic-commit system *)
  Lemma ev_step_lin cfg e cfg' st :
    ev_step step cfg e = Some cfg' -> Rel cfg st ->
    exists le st', lstep st le = Some st' /\ Rel cfg' st'.
  Proof.
    destruct cfg as [s ts]. destruct e as [kind t]. intros He [Hs Hst]. cbn [fst snd] in *.
    unfold ev_step in He. destruct (nth_error ts t) as [c|] eqn:Et; [|discriminate].
    pose proof (nth_error_lt _ _ _ Et) as Hlt.
    pose proof (Hst t) as Ht. rewrite Et in Ht. unfold status_of in Ht.
    assert (Hother : forall u x, u <> t ->
      match nth_error (upd_nth ts t x) u with Some c => status_of c | None => Lin.Idle opr resr end =
      match nth_error ts u with Some c => status_of c | None => Lin.Idle opr resr end).
    { intros u x Hu. rewrite nth_error_upd_nth_neq by congruence. reflexivity. }
    assert (Hk : (kind = 0 \/ kind = 1 \/ kind = 2)%Z).
    { destruct kind as [|p|p]; [auto | | discriminate He].
      destruct p as [p|p|]; [discriminate He | | auto]. destruct p; [discriminate He | discriminate He | auto]. }
    destruct Hk as [-> | [-> | ->]].
    - (* Inv *)
      destruct (t_cur c) eqn:Ec; [discriminate|]. destruct (t_rest c) as [|o r] eqn:Er; [discriminate|].
      injection He as <-. exists (Lin.Inv opr resr t o). cbn [Lin.estep]. rewrite Ht.
      eexists. split; [reflexivity|]. split; cbn [Lin.sigma Lin.stat fst snd]; [exact Hs|].
      intros u. unfold Lin.setst. destruct (Nat.eqb_spec u t) as [-> | Hne].
      + rewrite nth_error_upd_nth_eq by assumption. reflexivity.
      + rewrite Hother by assumption. apply Hst.
    - (* Commit *)
      destruct (t_cur c) as [o|] eqn:Ec; [|discriminate]. destruct (t_res c) eqn:Er; [discriminate|].
      destruct (step s o) as [s' x] eqn:Es. injection He as <-.
      exists (Lin.Commit opr resr t). cbn [Lin.estep]. rewrite Ht, Hs, Es.
      eexists. split; [reflexivity|]. split; cbn [Lin.sigma Lin.stat fst snd]; [reflexivity|].
      intros u. unfold Lin.setst. destruct (Nat.eqb_spec u t) as [-> | Hne].
      + rewrite nth_error_upd_nth_eq by assumption. reflexivity.
      + rewrite Hother by assumption. apply Hst.
    - (* Res *)
      destruct (t_cur c) as [o|] eqn:Ec; [|discriminate]. destruct (t_res c) as [x|] eqn:Er; [|discriminate].
      injection He as <-. exists (Lin.Res opr resr t x). cbn [Lin.estep]. rewrite Ht, resr_eqb_refl.
      eexists. split; [reflexivity|]. split; cbn [Lin.sigma Lin.stat fst snd]; [exact Hs|].
      intros u. unfold Lin.setst. destruct (Nat.eqb_spec u t) as [-> | Hne].
      + rewrite nth_error_upd_nth_eq by assumption. reflexivity.
      + rewrite Hother by assumption. apply Hst.
  Qed.

  Lemma ev_run_lin es : forall cfg cfg' st,
    ev_run step cfg es = Some cfg' -> Rel cfg st ->
    exists les st', lrun st les = Some st' /\ Rel cfg' st' /\ length les = length es.
  Proof.
    induction es as [|e es IH]; intros cfg cfg' st Hr HR; cbn [ev_run] in Hr.
    - injection Hr as <-. exists [], st. auto.
    - destruct (ev_step step cfg e) as [cfg1|] eqn:E; [|discriminate].
      destruct (ev_step_lin _ _ _ _ E HR) as (le & st1 & H1 & R1).
      destruct (IH _ _ _ Hr R1) as (les & st' & H2 & R2 & Hl).
      exists (le :: les), st'. cbn [Lin.erun length]. rewrite H1. auto.
  Qed.

  Lemma rel_init prog : Rel (s0, map (fun p => mkT p None None []) prog) (Lin.init_st St opr resr s0).
  Proof.
    split; [reflexivity|]. intros t. cbn [Lin.init_st Lin.stat snd].
    destruct (nth_error (map (fun p => mkT p None None []) prog) t) as [c|] eqn:E; [|reflexivity].
    apply nth_error_In, in_map_iff in E as (p & <- & _). reflexivity.
  Qed.

  (* what c02_agree replays is an atomic-commit execution; hence (Lin.v) the calls in commit
     order, run one at a time on the machine from [s0], produce exactly the committed results
     and the state the replay ends in *)
  Theorem replay_is_atomic_commit_execution prog es s ts :
    ev_run step (s0, map (fun p => mkT p None None []) prog) es = Some (s, ts) ->
    exists les st, lrun (Lin.init_st St opr resr s0) les = Some st /\ length les = length es /\
      Lin.sigma St opr resr st = s /\
      Lin.replay St opr resr step s0 (Lin.lin_calls St opr resr st) = (s, Lin.lin_results St opr resr st).
  Proof.
    intros H. destruct (ev_run_lin es _ _ _ H (rel_init prog)) as (les & st & Hr & [Hs _] & Hl).
    exists les, st. repeat split; auto. cbn in Hs. rewrite <- Hs.
    exact (Lin.atomic_linearizable_legal St opr resr step s0 resr_eqb les st Hr).
  Qed.
End Replay.
