(* C02_Props.v — property C02: "Concurrent container operations are linearizable".

   The argument has three layers, each a theorem here:

   (A) PER-RUN OBLIGATION on the skeletons the translator regenerates from the Go
       source (GoguGen.Skeletons): every single-element operation named by C02 is
       ONE critical section on every path — it acquires the instance mutex at
       most once, all its accesses to the guarded state lie inside that
       acquisition ([Lock.single_cs]) — and is well bracketed ([Lock.check]:
       writes only under the write lock).  Variadic Heap.Push is one such
       section per pushed element.  A change that splits an operation into two
       acquisitions (check-then-act, a counter updated in its own section, a
       lock released and re-taken) breaks this obligation.

   (B) REDUCTION (Atomic.v): in the interleaving semantics of critical-section
       calls over a shared state under an RWMutex — micro-step granularity, any
       number of threads, any client program — a call takes effect atomically at
       its lock acquisition: erasing micro-steps and releases yields a valid
       execution of Lin.v's atomic-commit system with the same results
       ([C02_atomic_refinement]); the mutex excludes as it should in every
       reachable configuration ([C02_mutual_exclusion]).  The only hypothesis on
       the code is the one (A) establishes: no write under the read lock.

   (C) LINEARIZABILITY (Lin.v through Atomic.v): hence for every sequential
       machine [step] whose operations the critical sections implement, every
       concurrent execution has a linearization — the order of lock
       acquisitions — that respects real time, returns to every caller what the
       machine returns at that position and ends in the machine's state
       ([C02_machine_linearizable], [C02_real_time], [C02_results]); instantiated
       for the eight container machines of C02_Model.v, which are the
       sequential models of C03–C09, so "no element lost, duplicated or
       double-counted" is inherited from those properties' theorems.

   What ties (B)/(C) to the code beyond (A): the correspondence check runs the
   REAL containers under a controlled scheduler through every interleaving of
   their lock operations (harness/c02.go) and compares each execution with the
   atomic-commit prediction ([c02_agree]) and with the brute-force definition
   of linearizability ([c02_holds]). *)

From Coq Require Import List String Bool.
From Gogu Require Import Base Lock Lin Atomic CsShape C02_Model C02_Proofs C02_Proofs2 C02_Corollaries.
From Gogu Require C05_Model C06_Model.
From GoguGen Require Import Skeletons.
Import ListNotations.
Local Open Scope list_scope.

(* ====================================================================== *)
(* (A) the per-run obligation on the regenerated skeletons                 *)
(* ====================================================================== *)

Definition lookup (name : string) : option sk :=
  option_map snd (find (fun m => String.eqb (fst m) name) all_methods).

(* the single-element operations of C02, by the names the translator gives them *)
Definition c02_operations : list string := [
  "heap.Heap.Pop"; "heap.Heap.Peek"; "heap.Heap.Size"; "heap.Heap.Clear"; "heap.Heap.Delete"; "heap.Heap.IsEmpty";
  "queue.Queue.Enqueue"; "queue.Queue.Dequeue"; "queue.Queue.Peek"; "queue.Queue.Search"; "queue.Queue.Size"; "queue.Queue.Clear";
  "queue.LQueue.Enqueue"; "queue.LQueue.Dequeue"; "queue.LQueue.Peek"; "queue.LQueue.Search"; "queue.LQueue.Size"; "queue.LQueue.Clear";
  "stack.Stack.Push"; "stack.Stack.Pop"; "stack.Stack.Peek"; "stack.Stack.Search"; "stack.Stack.Size";
  "stack.LStack.Push"; "stack.LStack.Pop"; "stack.LStack.Peek"; "stack.LStack.Search"; "stack.LStack.Size";
  "bstree.BsTree.Upsert"; "bstree.BsTree.Get"; "bstree.BsTree.Delete"; "bstree.BsTree.Size";
  "trie.Trie.Put"; "trie.Trie.Get"; "trie.Trie.Contains"; "trie.Trie.Size";
  "cache.Cache.Set"; "cache.Cache.SetDefault"; "cache.Cache.Get"; "cache.Cache.Update"; "cache.Cache.Delete"; "cache.Cache.Count"
]%string.

Definition one_section (name : string) : bool :=
  match lookup name with Some s => single_cs s && check s | None => false end.

Theorem C02_operations_are_one_critical_section : forallb one_section c02_operations = true.
Proof. vm_compute. reflexivity. Qed.
Print Assumptions C02_operations_are_one_critical_section.

(* Heap.Push(v...) is a loop with one critical section per pushed element *)
Definition per_element_section (name : string) : bool :=
  match lookup name with
  | Some (SLoop body) => single_cs body && check body
  | _ => false
  end.

Theorem C02_heap_push_one_section_per_element : per_element_section "heap.Heap.Push" = true.
Proof. vm_compute. reflexivity. Qed.
Print Assumptions C02_heap_push_one_section_per_element.

(* what the obligation means for the code: along EVERY path of such an operation the
   action sequence is accepted by both automata — at most one acquisition, every access
   inside it, released before returning, writes only under the write lock *)
Theorem C02_every_path_is_one_section : forall name s p b,
  In name c02_operations -> lookup name = Some s -> path s p b ->
  single_cs_path p = true /\ wb p = true.
Proof.
  intros name s p b Hin Hl Hp.
  pose proof C02_operations_are_one_critical_section as H. rewrite forallb_forall in H.
  specialize (H name Hin). unfold one_section in H. rewrite Hl in H. apply andb_prop in H as [H1 H2].
  split; [eapply single_cs_sound; eauto | eapply check_sound; eauto].
Qed.
Print Assumptions C02_every_path_is_one_section.

(* spelled out: every path of such an operation is  external calls ++ acquire ++ (reads, external
   calls and, under the write lock only, writes) ++ release ++ external calls, or touches neither
   the mutex nor the guarded state *)
Theorem C02_every_path_has_section_shape : forall name s p b,
  In name c02_operations -> lookup name = Some s -> path s p b -> shape p.
Proof.
  intros name s p b Hin Hl Hp. destruct (C02_every_path_is_one_section name s p b Hin Hl Hp) as [H1 H2].
  now apply cs_shape.
Qed.
Print Assumptions C02_every_path_has_section_shape.

(* and such a section is a critical-section call in the sense of Atomic.v, whatever the accesses
   compute, as long as only write accesses modify the guarded state: the reduction theorem (B)
   applies to every path of every checked operation *)
Theorem C02_section_is_atomic_call : forall (St L R : Type) (sem : act -> St -> L -> St * L),
  (forall a, (forall l, a <> AWr l) -> forall s l, fst (sem a s l) = s) ->
  forall w body l0 ret, forallb (is_body w) body = true ->
  call_ok St L R (call_of_body St L R sem w body l0 ret).
Proof. exact call_of_body_ok. Qed.
Print Assumptions C02_section_is_atomic_call.

Example C02_operations_nonvacuous :
  List.length c02_operations = 42%nat /\ forallb (fun n => match lookup n with Some _ => true | None => false end) c02_operations = true.
Proof. vm_compute. split; reflexivity. Qed.

(* ====================================================================== *)
(* (B) critical sections commit atomically at the lock acquisition         *)
(* ====================================================================== *)

Section Reduction.
  Variables (St L : Type).
  Variable s0 : St.
  Let call := ccall St L resr.

  Lemma resr_eqb_eq : forall a b : resr, resr_eqb a b = true <-> a = b.
  Proof.
    intros [[a1 a2] a3] [[b1 b2] b3]; cbn. rewrite !andb_true_iff, !Z.eqb_eq.
    split; [intros [[-> ->] ->]; reflexivity | intros [= -> -> ->]; auto].
  Qed.

  (* erasing micro-steps and releases from ANY execution gives a valid execution of the
     atomic-commit system, and the abstract state is the concrete one with the running
     writer's remaining micro-steps applied *)
  Theorem C02_atomic_refinement : forall es g,
    crun St L resr (cinit St L resr s0) es g ->
    exists st, Lin.erun St call resr (atomic_step St L resr) resr_eqb (Lin.init_st St call resr s0) (erase St L resr es) = Some st /\
               Abs St L resr g st.
  Proof. exact (atomic_refinement St L resr s0 resr_eqb resr_eqb_eq). Qed.

  (* in every reachable configuration: a writer holding the mutex is the only thread inside
     a critical section; while readers hold it nobody inside is a writer *)
  Theorem C02_mutual_exclusion : forall es g,
    crun St L resr (cinit St L resr s0) es g -> lock_ok St L resr g.
  Proof. exact (reachable_lock_ok St L resr s0). Qed.

  (* ==================================================================== *)
  (* (C) linearizability with respect to a sequential machine              *)
  (* ==================================================================== *)

  Variable step : St -> opr -> St * resr.
  Variable impl : opr -> call.                       (* the critical section implementing each operation *)
  Hypothesis impl_step : forall s o, atomic_step St L resr s (impl o) = step s o.

  (* there is a sequence [os] of the invoked operations — their order of lock acquisition —
     on which the machine, run one operation at a time from the initial state, returns the
     committed results and ends in the state the execution ends in *)
  Theorem C02_machine_linearizable : forall es g,
    crun St L resr (cinit St L resr s0) es g -> from_impl St L resr opr impl es ->
    exists st os,
      Lin.erun St call resr (atomic_step St L resr) resr_eqb (Lin.init_st St call resr s0) (erase St L resr es) = Some st /\
      Lin.lin_calls St call resr st = map impl os /\
      seq St resr opr step s0 os = (sabs St L resr g, Lin.lin_results St call resr st).
  Proof. exact (machine_linearizable St L resr s0 resr_eqb resr_eqb_eq opr step impl impl_step). Qed.

  (* that order respects real time: every call's acquisition lies between its invocation
     and its response, so a call that returned before another began is ordered first *)
  Theorem C02_real_time : forall es g,
    crun St L resr (cinit St L resr s0) es g ->
    forall t, Lin.alternates 0 (Lin.proj_thread call resr t (erase St L resr es)) = true.
  Proof. exact (cs_linearizable_real_time St L resr s0 resr_eqb resr_eqb_eq). Qed.

  (* and every caller receives the result its call has at its position in that order *)
  Theorem C02_results : forall es t r g,
    crun St L resr (cinit St L resr s0) (es ++ [ERes St L resr t r]) g ->
    exists st c l1 l2,
      Lin.erun St call resr (atomic_step St L resr) resr_eqb (Lin.init_st St call resr s0)
               (erase St L resr (es ++ [ERes St L resr t r])) = Some st /\
      Lin.log St call resr st = l1 ++ (t, c, r) :: l2 /\ forall x, In x l1 -> fst (fst x) <> t.
  Proof. exact (cs_linearizable_results St L resr s0 resr_eqb resr_eqb_eq). Qed.
End Reduction.

Print Assumptions C02_atomic_refinement.
Print Assumptions C02_mutual_exclusion.
Print Assumptions C02_machine_linearizable.
Print Assumptions C02_real_time.
Print Assumptions C02_results.

(* ---- the eight container machines (C02_Model.v = the sequential models of C03–C09) ---- *)

Definition Linearizable {St} (step : St -> opr -> St * resr) (s0 : St) : Prop :=
  forall (L : Type) (impl : opr -> ccall St L resr),
    (forall s o, atomic_step St L resr s (impl o) = step s o) ->
    forall es g, crun St L resr (cinit St L resr s0) es g -> from_impl St L resr opr impl es ->
    exists os rs, seq St resr opr step s0 os = (sabs St L resr g, rs).

Lemma linearizable_any {St} (step : St -> opr -> St * resr) (s0 : St) : Linearizable step s0.
Proof.
  intros L impl Hstep es g Hr Hf.
  destruct (C02_machine_linearizable St L s0 step impl Hstep es g Hr Hf) as (st & os & _ & _ & H). eauto.
Qed.

Theorem C02_containers_linearizable :
  Linearizable hp_step hp_init /\
  Linearizable sq_stepr C05_Model.sq_new /\ (forall p, Linearizable lq_stepr (C05_Model.lq_new p)) /\
  Linearizable ss_stepr C06_Model.ss_new /\ (forall p, Linearizable ls_stepr (C06_Model.ls_new p)) /\
  Linearizable bt_step bt_init /\ Linearizable tr_step tr_init /\ Linearizable ca_step ca_init.
Proof. repeat split; intros; apply linearizable_any. Qed.
Print Assumptions C02_containers_linearizable.

(* ====================================================================== *)
(* (D) the executable judge of the correspondence check                     *)
(* ====================================================================== *)

(* [C02_Model.search], which [c02_holds] runs on every explored execution of the real
   containers, accepts an execution exactly when it has a linearization: an ordering of all
   its calls in which no call comes after one it preceded in real time, and in which the
   sequential machine, run one call at a time, returns what every call returned and what
   the tail calls made afterwards returned.  So the judge raises no false alarm
   (completeness, <-) and accepts nothing that is not linearizable (soundness, ->). *)
Theorem C02_judge_decides_linearizability :
  forall (St : Type) (step : St -> opr -> St * resr) fuel s calls tail tail_obs,
    (List.length calls < fuel)%nat ->
    (search step fuel s calls tail tail_obs = true <-> linearization step s calls tail tail_obs).
Proof. exact (fun St => @search_spec St). Qed.
Print Assumptions C02_judge_decides_linearizability.

(* the other half of the correspondence: what [c02_agree] replays on the observed event order
   ([C02_Model.ev_run], the core of [atomic_run]) is an execution of Lin.v's atomic-commit system —
   so the prediction the implementation is compared with has, by (C), a linearization: the calls
   in commit order, run one at a time from the initial state, produce exactly the committed
   results and the state in which the tail calls are then evaluated *)
Theorem C02_replay_is_atomic_commit_execution :
  forall (St : Type) (step : St -> opr -> St * resr) (s0 : St) prog es s ts,
    ev_run step (s0, map (fun p => mkT p None None []) prog) es = Some (s, ts) ->
    exists les st,
      Lin.erun St opr resr step resr_eqb (Lin.init_st St opr resr s0) les = Some st /\
      List.length les = List.length es /\
      Lin.sigma St opr resr st = s /\
      Lin.replay St opr resr step s0 (Lin.lin_calls St opr resr st) = (s, Lin.lin_results St opr resr st).
Proof. exact (fun St => @replay_is_atomic_commit_execution St). Qed.
Print Assumptions C02_replay_is_atomic_commit_execution.

(* ====================================================================== *)
(* (E) "an insert-only-if-absent is granted to exactly one of several racing callers"  *)
(* ====================================================================== *)

(* On the cache machine: any number (>= 1) of Sets of one key that has no entry, run one at a
   time — in any order, they are all Sets of that key — : exactly one returns nil, every other
   returns "already exists".  By (C) a concurrent execution of such calls returns what one of
   these sequential runs returns, whatever the interleaving.  (The companion clause "no element
   is double-counted" for racing Trie.Put of one key is C09_size_is_distinct_keys applied to the
   linearization, with [C02_Corollaries.put_counts] as its one-step form.) *)
Theorem C02_racing_sets_grant_exactly_one : forall st k v vs, absent st k ->
  let rs := snd (seq_run ca_step st (map (set_op k) (v :: vs))) in
  List.length (filter granted rs) = 1%nat /\ List.length (filter refused rs) = List.length vs.
Proof. exact sets_grant_exactly_one. Qed.
Print Assumptions C02_racing_sets_grant_exactly_one.

(* ---- non-vacuity: a slice stack whose Pop is two micro-steps (read the top under the lock,
        then truncate), its critical sections computing the machine's step; and a concrete
        two-thread execution in which a Push is granted the mutex between another thread's
        invocation and acquisition ---- *)

Definition mk_ms (w : bool) (f : list Z -> Z -> list Z * Z) : mstep (list Z) Z := Build_mstep (list Z) Z w f.
Definition mk_call (w : bool) (code : list (mstep (list Z) Z)) (ret : Z -> resr) : ccall (list Z) Z resr :=
  Build_ccall (list Z) Z resr w code 0 ret.

Definition ex_impl (o : opr) : ccall (list Z) Z resr :=
  let '(c, a, _) := o in
  match c with
  | 0 => mk_call true [mk_ms true (fun s l => (s ++ [a], l))] (fun _ => r_unit)
  | 1 => mk_call true [mk_ms false (fun s _ => (s, last s 0)); mk_ms true (fun s l => (removelast s, l))] (fun l => r_val l)
  | _ => mk_call false [mk_ms false (fun s _ => (s, Z.of_nat (List.length s)))] (fun l => r_val l)
  end.

Definition ex_step (s : list Z) (o : opr) : list Z * resr :=
  let '(c, a, _) := o in
  match c with
  | 0 => (s ++ [a], r_unit)
  | 1 => (removelast s, r_val (last s 0))
  | _ => (s, r_val (Z.of_nat (List.length s)))
  end.

Example C02_ex_impl_ok : (forall o, call_ok (list Z) Z resr (ex_impl o)) /\
                         (forall s o, atomic_step (list Z) Z resr s (ex_impl o) = ex_step s o).
Proof.
  split.
  - intros [[c a] b]. unfold call_ok, code_ok.
    assert (Hms : forall w f, (w = false -> forall s l, fst (f s l) = s) -> ms_ok (list Z) Z (mk_ms w f)) by (intros w f H; exact H).
    destruct c as [|[| |]|]; cbn [ex_impl mk_call c_writer c_code]; (split; [|intros H; try discriminate H]);
      repeat (constructor; try reflexivity; try (apply Hms; first [intros H'; discriminate H' | intros _ s l; reflexivity])).
  - intros s [[c a] b]. destruct c as [|[| |]|]; reflexivity.
Qed.

Example C02_ex_execution :
  exists g, crun (list Z) Z resr (cinit (list Z) Z resr [5%Z])
    [EInv _ _ _ 0%nat (ex_impl (1, 0, 0)%Z); EInv _ _ _ 1%nat (ex_impl (0, 7, 0)%Z); EAcq _ _ _ 1%nat; EMic _ _ _ 1%nat; ERel _ _ _ 1%nat;
     EAcq _ _ _ 0%nat; EMic _ _ _ 0%nat; ERes _ _ _ 1%nat r_unit; EMic _ _ _ 0%nat; ERel _ _ _ 0%nat; ERes _ _ _ 0%nat (r_val 7)] g
    /\ sg _ _ _ g = [5%Z].
Proof.
  eexists. split.
  - eapply crun_cons; [apply Atomic.s_inv; [reflexivity | apply (proj1 C02_ex_impl_ok)]|].
    eapply crun_cons; [apply Atomic.s_inv; [reflexivity | apply (proj1 C02_ex_impl_ok)]|]. cbn.
    eapply crun_cons; [eapply Atomic.s_acq_w; reflexivity|]. cbn.
    eapply crun_cons; [eapply Atomic.s_mic; reflexivity|]. cbn.
    eapply crun_cons; [eapply Atomic.s_rel_w; reflexivity|]. cbn.
    eapply crun_cons; [eapply Atomic.s_acq_w; reflexivity|]. cbn.
    eapply crun_cons; [eapply Atomic.s_mic; reflexivity|]. cbn.
    eapply crun_cons; [eapply Atomic.s_res; reflexivity|]. cbn.
    eapply crun_cons; [eapply Atomic.s_mic; reflexivity|]. cbn.
    eapply crun_cons; [eapply Atomic.s_rel_w; reflexivity|]. cbn.
    eapply crun_cons; [eapply Atomic.s_res; reflexivity|]. cbn.
    apply crun_nil.
  - reflexivity.
Qed.
