(* C02_Wire.v — wire glue for C02 (no proofs; exercised by the correspondence).

   input    = ty :: p :: ops(init) ++ [nthreads] ++ ops(thread 0) ++ … ++ ops(tail) ++ enc_zs(schedule)
              ops l = length :: concat [code; a; b]
              ty: machine (C02_Model.v), p: the mandatory first element of the linked queue/stack,
              init: calls made one at a time before the goroutines start; tail: calls made one at a time
              after they have all returned (the "contents and element count observed afterwards");
              schedule: the controlled scheduler's choices (index among the enabled goroutines at each
              decision) — part of the input so that a case replays exactly.
   observed = enc_zs(events) ++ [deadlock; hang; lockpanic; diverged]
              ++ concat (results of every call, thread by thread) ++ concat (tail results)
              event = 3*thread + kind (0 Inv, 1 Commit = first lock acquisition of the call, 2 Res),
              in the total order in which the scheduler let them happen; result = [tag; x; y].

   c02_run   : the schedule is unknown to the model before the run, so the "model output" printed for
               a case is only the sequential run init ++ thread 0 ++ thread 1 ++ … ++ tail (informative).
   c02_agree : the observation is exactly what the ATOMIC-COMMIT model (every call takes effect, on
               the sequential machine of its type, at its first lock acquisition) predicts for the
               observed event order: same results for every call, same tail results, no deadlock /
               hang / lock panic / divergence.
   c02_holds : the property itself on this execution: some total order of the calls that respects
               real time reproduces every result and the tail on the sequential machine
               (C02_Model.linearizable), and every call returned.
   kept in step with harness/c02.go. *)

From Gogu Require Import Base C02_Model.
From Gogu Require C03_Model C04_Model C05_Model C06_Model C08_Model C09_Model.

Definition rd_op : reader opr := fun w =>
  match w with c :: a :: b :: w' => Some ((c, a, b), w') | _ => None end.
Definition rd_ops : reader (list opr) := fun w =>
  match rd_len w with Some (n, w') => rd_n rd_op n w' | None => None end.

Record case := mkCase {
  k_ty : Z; k_p : Z; k_init : list opr; k_prog : list (list opr); k_tail : list opr; k_sched : list Z }.

Definition decode (w : list Z) : option case :=
  match w with
  | ty :: p :: w1 =>
      match rd_ops w1 with
      | Some (ini, w2) =>
          match rd_len w2 with
          | Some (nt, w3) =>
              match rd_n rd_ops nt w3 with
              | Some (prog, w4) =>
                  match rd_ops w4 with
                  | Some (tl, w5) =>
                      match rd_zs w5 with
                      | Some (sch, []) => Some (mkCase ty p ini prog tl sch)
                      | _ => None
                      end
                  | None => None
                  end
              | None => None
              end
          | None => None
          end
      | None => None
      end
  | _ => None
  end.

Record obsv := mkObs { o_events : list (Z * nat); o_flags : list Z; o_res : list (list resr); o_tail : list resr }.

Definition rd_res : reader resr := rd_op.

Definition dec_event (e : Z) : Z * nat := (e mod 3, Z.to_nat (e / 3)).

Fixpoint rd_each (ns : list nat) : reader (list (list resr)) := fun w =>
  match ns with
  | [] => Some ([], w)
  | n :: ns' =>
      match rd_n rd_res n w with
      | Some (l, w') => match rd_each ns' w' with Some (ll, w'') => Some (l :: ll, w'') | None => None end
      | None => None
      end
  end.

Definition decode_obs (k : case) (obs : list Z) : option obsv :=
  match rd_zs obs with
  | Some (evs, w1) =>
      match rd_n rd_z 4 w1 with
      | Some (fl, w2) =>
          match rd_each (map (@length opr) (k_prog k)) w2 with
          | Some (rs, w3) =>
              match rd_n rd_res (length (k_tail k)) w3 with
              | Some (tl, []) =>
                  if forallb (fun e => 0 <=? e) evs then Some (mkObs (map dec_event evs) fl rs tl) else None
              | _ => None
              end
          | None => None
          end
      | None => None
      end
  | None => None
  end.

Definition enc_resr (r : resr) : list Z := let '(a, b, c) := r in [a; b; c].

Definition clean_flags (fl : list Z) : bool := forallb (Z.eqb 0) fl.

(* positions of the Inv and Res events of every call, for the real-time order *)
Fixpoint positions (es : list (Z * nat)) (pos : nat) (kind : Z) (t : nat) : list nat :=
  match es with
  | [] => []
  | (k, u) :: r => if (k =? kind) && Nat.eqb u t then pos :: positions r (S pos) kind t
                   else positions r (S pos) kind t
  end.

Definition calls_of (k : case) (o : obsv) : list call :=
  let far := S (length (o_events o)) in
  flat_map (fun tp =>
              let '(t, (ops, rs)) := tp in
              let invs := positions (o_events o) 0 0 t in
              let rets := positions (o_events o) 0 2 t in
              map (fun iq => let '(i, (op, r)) := iq in
                             mkC t i op r (nth i invs far) (nth i rets far))
                  (combine (seq 0 (length ops)) (combine ops rs)))
           (combine (seq 0 (length (k_prog k))) (combine (k_prog k) (o_res o))).

Definition all_returned (k : case) (o : obsv) : bool :=
  forallb (fun rs => forallb (fun r => negb (resr_eqb r r_noret)) rs) (o_res o) &&
  forallb (fun tp => let '(t, ops) := tp in
                     Nat.eqb (length (positions (o_events o) 0 2 t)) (length ops))
          (combine (seq 0 (length (k_prog k))) (k_prog k)).

Section ForMachine.
  Context {St : Type}.
  Variable step : St -> opr -> St * resr.
  Variable s00 : St.

  Definition m_seq (k : case) : list Z :=
    flat_map enc_resr (snd (seq_run step s00 (k_init k ++ concat (k_prog k) ++ k_tail k))).

  Definition m_init (k : case) : St := fst (seq_run step s00 (k_init k)).

  Definition m_agree (k : case) (o : obsv) : bool :=
    clean_flags (o_flags o) &&
    match atomic_run step (m_init k) (k_prog k) (k_tail k) (o_events o) with
    | Some (rs, tl) =>
        forallb2 resr_eqb (concat rs) (concat (o_res o)) && forallb2 resr_eqb tl (o_tail o)
    | None => false
    end.

  Definition m_holds (k : case) (o : obsv) : bool :=
    clean_flags (o_flags o) && all_returned k o &&
    (let cs := calls_of k o in search step (S (length cs)) (m_init k) cs (k_tail k) (o_tail o)).
End ForMachine.

Definition dispatch {R : Type} (k : case)
  (f : forall St : Type, (St -> opr -> St * resr) -> St -> R) (bad : R) : R :=
  match k_ty k with
  | 0 => f _ hp_step hp_init
  | 1 => f _ sq_stepr C05_Model.sq_new
  | 2 => f _ lq_stepr (C05_Model.lq_new (k_p k))
  | 3 => f _ ss_stepr C06_Model.ss_new
  | 4 => f _ ls_stepr (C06_Model.ls_new (k_p k))
  | 5 => f _ bt_step bt_init
  | 6 => f _ tr_step tr_init
  | 7 => f _ ca_step ca_init
  | _ => bad
  end.

Definition c02_run (w : list Z) : list Z :=
  match decode w with
  | Some k => dispatch k (fun St step s0 => m_seq step s0 k) wire_error
  | None => wire_error
  end.

Definition c02_agree (w obs : list Z) : bool :=
  match decode w with
  | Some k =>
      match decode_obs k obs with
      | Some o => dispatch k (fun St step s0 => m_agree step s0 k o) false
      | None => false
      end
  | None => false
  end.

Definition c02_holds (w obs : list Z) : bool :=
  match decode w with
  | Some k =>
      match decode_obs k obs with
      | Some o => dispatch k (fun St step s0 => m_holds step s0 k o) false
      | None => false
      end
  | None => false
  end.
