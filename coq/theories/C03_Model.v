(* C03_Model.v — the array binary heap of /repo/heap/heap.go and the heapsort of
   /repo/heap/heapsort.go, transcribed statement by statement.

   Conventions (DESIGN §3): the backing slice [h.data] is a [list A]; indices,
   lengths and fuel are [nat]; the one loop counter that goes negative
   (FromSlice's / Convert's outer [i]) is a [Z].  Every slice access of the Go
   code is a CHECKED access here ([rd]): an index outside [0, len) yields
   [Panic], exactly where Go raises "index out of range".  Loops that are not
   structurally recursive (moveUp, moveDown, the two loops of FromSlice) take
   fuel and answer [Err oof] when it runs out; C03_Proofs shows that neither
   [Panic] nor [Err oof] is ever produced for an irreflexive comparator.

   The element type is any [A] with a zero value ([var t T]) and a decidable
   equality ([T comparable], Go's [==]); the comparator is any function
   [A -> A -> bool] (gogu.CompFn[T]).

   Transcribed from the tree AFTER the repairs committed in /repo: defect #19
   (2bb6c27, fixes/builder-c03/0001-*.patch: Delete re-sifts with the new length
   and defers the unlock), e3c19ee (Delete: lookup and removal in one critical
   section), b12388e (Clear: one unconditional truncation), 60f2aea (Merge/Meld
   copy / detach the inputs under their locks), 2a3ba4d (GetValues returns a
   copy).  Locks are not modelled here (C01/C02).  Defect #20 (Delete re-sifts
   from the root, not from the hole) is pinned by TestHeap_MaxHeap and is
   therefore mirrored here.

   Not modelled: slice CAPACITY and backing-array identity.  Heaps are values;
   that the Go heaps handed out by Merge/Meld/FromSlice/GetValues share no
   storage with heaps that stay in use is established by the correspondence
   check (three live heap variables, see [step]), not by a theorem.

   No proofs in this file. *)

From Gogu Require Import Base.
Local Open Scope nat_scope.

(* out-of-fuel marker (distinct from Panic and from Delete's error kinds) *)
Definition oof : Z := (-1)%Z.

Definition bind {X Y} (r : res X) (f : X -> res Y) : res Y :=
  match r with
  | Ok x => f x
  | Err k => Err k
  | Panic => Panic
  end.
Notation "x <- r ;; k" := (bind r (fun x => k)) (at level 61, r at next level, right associativity).

Section Heap.
Context {A : Type}.
Variable zero : A.                 (* var t T *)
Variable eqb : A -> A -> bool.     (* Go's == on a comparable T *)

Definition cmp := A -> A -> bool.  (* gogu.CompFn[T] *)

Record heap := mkHeap { data : list A; comp : cmp }.

(* ---------- slice primitives ---------- *)

(* data[i] as an r-value: bounds-checked *)
Definition rd (l : list A) (i : nat) : res A :=
  match nth_error l i with
  | Some x => Ok x
  | None => Panic
  end.

(* data[i] = x (only ever used after both indices of a swap were read) *)
Fixpoint upd (l : list A) (i : nat) (x : A) : list A :=
  match l, i with
  | [], _ => []
  | _ :: t, O => x :: t
  | y :: t, S i' => y :: upd t i' x
  end.

(* func swap(data, i, j) { data[i], data[j] = data[j], data[i] } *)
Definition swap (l : list A) (i j : nat) : res (list A) :=
  a <- rd l i ;;
  b <- rd l j ;;
  Ok (upd (upd l i b) j a).

(* leftChild, rightChild, parent.  Go's (i - 1) / 2 truncates toward zero, so
   parent(0) = (-1)/2 = 0: truncated subtraction on nat gives the same. *)
Definition left_child (i : nat) : nat := 2 * i + 1.
Definition right_child (i : nat) : nat := 2 * i + 2.
Definition parent (i : nat) : nat := (i - 1) / 2.

(* ---------- moveUp ----------
   for { if !comp(data[i], data[parent(i)]) { break }
         swap(data, i, parent(i)); i = parent(i) }                         *)
Fixpoint move_up (c : cmp) (fuel : nat) (i : nat) (l : list A) : res (list A) :=
  match fuel with
  | O => Err oof
  | S f =>
      a <- rd l i ;;
      b <- rd l (parent i) ;;
      if negb (c a b) then Ok l
      else l' <- swap l i (parent i) ;; move_up c f (parent i) l'
  end.

(* ---------- moveDown(n, i) (recursive in Go; the recursion is the loop) ----------
   left, right := 2i+1, 2i+2; current := i
   if left  < n && comp(data[left],  data[current]) { current = left  }
   if right < n && comp(data[right], data[current]) { current = right }
   if current != i { swap(data, i, current); moveDown(n, current) }
   Note that data[...] is only read when the guard [< n] passed: with n larger
   than len(data) (the unrepaired Delete) the read panics.                  *)
Fixpoint move_down (c : cmp) (fuel : nat) (n i : nat) (l : list A) : res (list A) :=
  match fuel with
  | O => Err oof
  | S f =>
      let left := left_child i in
      let right := right_child i in
      cur1 <- (if left <? n
               then a <- rd l left ;; b <- rd l i ;; Ok (if c a b then left else i)
               else Ok i) ;;
      cur2 <- (if right <? n
               then a <- rd l right ;; b <- rd l cur1 ;; Ok (if c a b then right else cur1)
               else Ok cur1) ;;
      if cur2 =? i then Ok l
      else l' <- swap l i cur2 ;; move_down c f n cur2 l'
  end.

(* the fuel every caller passes: one more than the bound n *)
Definition sift_down (c : cmp) (n i : nat) (l : list A) : res (list A) :=
  move_down c (S n) n i l.

(* ---------- Size / IsEmpty / Peek / GetValues / Clear ---------- *)

Definition size (h : heap) : nat := length (data h).
Definition is_empty (h : heap) : bool := size h =? 0.

(* if size == 0 { var t T; return t }; return data[0] *)
Definition peek (h : heap) : res A :=
  if size h =? 0 then Ok zero else rd (data h) 0.

Definition get_values (h : heap) : list A := data h.

(* h.data = h.data[:0]   (one critical section since fix b12388e; the backing
   array is kept by Go — capacity is not part of the model, see the aliasing
   note at Merge) *)
Definition clear (h : heap) : heap := mkHeap [] (comp h).

(* ---------- Push ----------
   for _, v := range val { data = append(data, v); moveUp(size - 1) }       *)
Definition push1 (h : heap) (v : A) : res heap :=
  let l := data h ++ [v] in
  l' <- move_up (comp h) (length l) (length l - 1) l ;;
  Ok (mkHeap l' (comp h)).

Fixpoint push (h : heap) (vals : list A) : res heap :=
  match vals with
  | [] => Ok h
  | v :: vs => h' <- push1 h v ;; push h' vs
  end.

(* ---------- Pop ----------
   if size == 0 { return zero }
   val = peek(); data[0] = data[size-1]; data = data[:size-1]; moveDown(size, 0) *)
Definition pop (h : heap) : res (A * heap) :=
  let l := data h in
  if length l =? 0 then Ok (zero, h)
  else
    v <- peek h ;;
    lst <- rd l (length l - 1) ;;                   (* index 0 was bounds-checked by peek *)
    let l1 := firstn (length l - 1) (upd l 0 lst) in
    l2 <- sift_down (comp h) (length l1) 0 l1 ;;
    Ok (v, mkHeap l2 (comp h)).

(* ---------- Delete ----------
   getIndex: for i := 0; i < len(slice); i++ { if slice[i] == val { return i, true } }; return -1, false *)
Fixpoint get_index_from (l : list A) (v : A) (i : nat) : option nat :=
  match l with
  | [] => None
  | x :: t => if eqb x v then Some i else get_index_from t v (S i)
  end.
Definition get_index (l : list A) (v : A) : option nat := get_index_from l v 0.

Definition err_empty : Z := 1%Z.      (* "heap empty" *)
Definition err_notfound : Z := 2%Z.   (* "value not found in the heap: ..." *)

(* len := Size(); if len == 0 { return false, err }
   idx, ok := getIndex(data, val); if !ok { return false, err }
   swap(data, idx, len-1); data = data[:len-1]
   moveDown(len-1, 0)            <- after the repair of #19 (was: moveDown(len, 0))
   return true, nil
   [delete_with resift] abstracts the last argument so that the unrepaired
   code (resift = old length) can be stated and refuted next to the repaired one. *)
Definition delete_with (resift : nat -> nat) (h : heap) (v : A) : res (bool * Z * heap) :=
  let l := data h in
  let len := length l in
  if len =? 0 then Ok (false, err_empty, h)
  else
    match get_index l v with
    | None => Ok (false, err_notfound, h)
    | Some idx =>
        l1 <- swap l idx (len - 1) ;;
        let l2 := firstn (len - 1) l1 in
        l3 <- move_down (comp h) (S (resift len)) (resift len) 0 l2 ;;
        Ok (true, 0%Z, mkHeap l3 (comp h))
    end.

Definition delete : heap -> A -> res (bool * Z * heap) := delete_with (fun len => len - 1).
(* heap.go before fixes/builder-c03/0001: moveDown(len, 0) on the truncated slice *)
Definition delete_unrepaired : heap -> A -> res (bool * Z * heap) := delete_with (fun len => len).

(* ---------- Convert ----------
   comp = comp'; for i := (size - 2) / 2; i >= 0; i-- { moveDown(size, i) }
   (size - 2) / 2 is Go's truncating division: -1 for size 0, 0 for sizes 1..3. *)
Fixpoint heapify_from (c : cmp) (n : nat) (i : nat) (l : list A) : res (list A) :=
  l' <- sift_down c n i l ;;
  match i with
  | O => Ok l'
  | S i' => heapify_from c n i' l'
  end.

Definition convert (h : heap) (c : cmp) : res heap :=
  let l := data h in
  let start := Z.quot (Z.of_nat (length l) - 2) 2 in
  if (start <? 0)%Z then Ok (mkHeap l c)
  else l' <- heapify_from c (length l) (Z.to_nat start) l ;; Ok (mkHeap l' c).

(* ---------- FromSlice ----------
   for i := len(data)/2 - 1; i >= 0; i-- {
     for {
       l, r := 2*i+1, 2*i+2
       if l >= len(data) || l < 0 { break }
       current := l
       if r < len(data) && comp(data[r], data[l]) { current = r }
       if !comp(data[current], data[i]) { break }
       swap(data, i, current)
       i = current                      <- clobbers the OUTER loop variable
     }
   }
   The inner loop returns the final value of i; the outer loop continues from
   that value minus one, as the Go code does.  ([l < 0] guards against integer
   overflow only; indices are unbounded here.) *)
Fixpoint fs_inner (c : cmp) (fuel : nat) (i : nat) (l : list A) : res (nat * list A) :=
  match fuel with
  | O => Err oof
  | S f =>
      let lft := 2 * i + 1 in
      let r := 2 * i + 2 in
      if length l <=? lft then Ok (i, l)
      else
        cur <- (if r <? length l
                then a <- rd l r ;; b <- rd l lft ;; Ok (if c a b then r else lft)
                else Ok lft) ;;
        a <- rd l cur ;;
        b <- rd l i ;;
        if negb (c a b) then Ok (i, l)
        else l' <- swap l i cur ;; fs_inner c f cur l'
  end.

Fixpoint fs_outer (c : cmp) (fuel : nat) (i : Z) (l : list A) : res (list A) :=
  match fuel with
  | O => Err oof
  | S f =>
      if (i <? 0)%Z then Ok l
      else
        r <- fs_inner c (S (length l)) (Z.to_nat i) l ;;
        fs_outer c f (Z.of_nat (fst r) - 1)%Z (snd r)
  end.

(* outer fuel: because of the clobbered counter the outer loop runs up to
   (but never more than) this many times — proved in C03_Proofs *)
Definition fs_fuel (n : nat) : nat := S n * S n.

Definition heapify_slice (c : cmp) (l : list A) : res (list A) :=
  fs_outer c (fs_fuel (length l)) (Z.of_nat (length l / 2) - 1)%Z l.

Definition from_slice (l : list A) (c : cmp) : res heap :=
  l' <- heapify_slice c l ;; Ok (mkHeap l' c).

(* ---------- Merge / Meld ----------
   Merge:  comp := h.comp; data1 := append([]T(nil), h.data...)      (private copies,
           data2 := append([]T(nil), h2.data...)                      taken under the read locks)
           newHeap := NewHeap(comp); newHeap.Push(data1...); newHeap.Push(data2...)
   Meld:   comp := h.comp; data1 := h.data; h.data = nil; data2 := h2.data; h2.data = nil
           newHeap := NewHeap(comp); newHeap.Push(data1...); newHeap.Push(data2...)
   Heaps are VALUES here: the result shares nothing with the inputs.  That the Go
   result shares no backing array with either input (spare capacity!) is NOT a
   theorem about this model; it is what the correspondence check establishes by
   keeping the receiver (h2 below), the argument (h1) and the result (h0) all
   alive and observing all three after further operations.                    *)
Definition new_heap (c : cmp) : heap := mkHeap [] c.

Definition merge (h h2 : heap) : res heap :=
  n1 <- push (new_heap (comp h)) (data h) ;;
  push n1 (data h2).

(* result: (new heap, h afterwards, h2 afterwards) *)
Definition meld (h h2 : heap) : res (heap * heap * heap) :=
  n <- merge h h2 ;;
  Ok (n, mkHeap [] (comp h), mkHeap [] (comp h2)).

(* ---------- heapsort.go: Sort ----------
   heap := FromSlice(data, comp)
   for i := heap.Size() - 1; i > 0; i-- { swap(data, 0, i); heap.moveDown(i, 0) }
   return heap.GetValues()                                                   *)
Fixpoint sort_loop (c : cmp) (i : nat) (l : list A) : res (list A) :=
  match i with
  | O => Ok l
  | S i' =>
      l1 <- swap l 0 i ;;
      l2 <- sift_down c i 0 l1 ;;
      sort_loop c i' l2
  end.

Definition sort (l : list A) (c : cmp) : res (list A) :=
  l' <- heapify_slice c l ;;
  sort_loop c (length l' - 1) l'.

(* ---------- histories: three heap variables, every exported operation ----------
   h0 is the heap every operation acts on, h1 is the argument of Merge/Meld, h2
   holds the RECEIVER of the last Merge/Meld (so that both inputs and the result
   stay observable afterwards); OSwap / OSwap2 bring h1 / h2 to the front. *)

Inductive op :=
| OPush (vs : list A)             (* h0.Push(vs...) *)
| OPop                            (* h0.Pop() *)
| OPeek                           (* h0.Peek() *)
| OClear                          (* h0.Clear() *)
| OConvert (c : cmp)              (* h0.Convert(c) *)
| ODelete (v : A)                 (* h0.Delete(v) *)
| OSize                           (* h0.Size() *)
| OIsEmpty                        (* h0.IsEmpty() *)
| OGetValues                      (* h0.GetValues() *)
| OFromSlice (c : cmp) (l : list A)   (* h0 = FromSlice(l, c) *)
| OMerge                          (* t := h0.Merge(h1); observe h0, h1; h2 = h0; h0 = t *)
| OMeld                           (* t := h0.Meld(h1);  observe h0, h1; h2 = h0; h0 = t *)
| OSwap                           (* h0, h1 = h1, h0 *)
| OSwap2.                         (* h0, h2 = h2, h0 *)

Inductive out :=
| RUnit
| RVal (v : A)
| RBool (b : bool)
| RNat (n : nat)
| RVals (l : list A)
| RDel (ok : bool) (e : Z)
| RTwo (l0 l1 : list A)           (* contents of both inputs after Merge/Meld *)
| RPanic
| ROof.

Definition state := (heap * heap * heap)%type.

Definition fail_out {X} (r : res X) : out :=
  match r with Panic => RPanic | _ => ROof end.

Definition step (s : state) (o : op) : state * out :=
  let '(h0, h1, h2) := s in
  match o with
  | OPush vs => match push h0 vs with Ok h => ((h, h1, h2), RUnit) | r => (s, fail_out r) end
  | OPop => match pop h0 with Ok (v, h) => ((h, h1, h2), RVal v) | r => (s, fail_out r) end
  | OPeek => match peek h0 with Ok v => (s, RVal v) | r => (s, fail_out r) end
  | OClear => ((clear h0, h1, h2), RUnit)
  | OConvert c => match convert h0 c with Ok h => ((h, h1, h2), RUnit) | r => (s, fail_out r) end
  | ODelete v => match delete h0 v with
                 | Ok (ok, e, h) => ((h, h1, h2), RDel ok e)
                 | r => (s, fail_out r)
                 end
  | OSize => (s, RNat (size h0))
  | OIsEmpty => (s, RBool (is_empty h0))
  | OGetValues => (s, RVals (get_values h0))
  | OFromSlice c l => match from_slice l c with Ok h => ((h, h1, h2), RUnit) | r => (s, fail_out r) end
  | OMerge => match merge h0 h1 with
              | Ok t => ((t, h1, h0), RTwo (data h0) (data h1))
              | r => (s, fail_out r)
              end
  | OMeld => match meld h0 h1 with
             | Ok (t, a, b) => ((t, b, a), RTwo (data a) (data b))
             | r => (s, fail_out r)
             end
  | OSwap => ((h1, h0, h2), RUnit)
  | OSwap2 => ((h2, h1, h0), RUnit)
  end.

(* run: the outputs of a history and the final state *)
Fixpoint run (s : state) (ops : list op) : list out * state :=
  match ops with
  | [] => ([], s)
  | o :: ops' =>
      let (s', r) := step s o in
      let (rs, sf) := run s' ops' in
      (r :: rs, sf)
  end.

(* final drain of the harness: for k < fuel && !h.IsEmpty() { out = append(out, h.Pop()) } *)
Fixpoint drain (fuel : nat) (h : heap) : res (list A * heap) :=
  match fuel with
  | O => Ok ([], h)
  | S f =>
      if is_empty h then Ok ([], h)
      else r <- pop h ;; rest <- drain f (snd r) ;; Ok (fst r :: fst rest, snd rest)
  end.

(* ====================================================================== *)
(* The SPECIFICATION: a reference machine that holds, per heap variable,  *)
(* only the multiset of held elements (a list read up to permutation) and *)
(* the current comparator.  [spec_step ord s o r] decides whether output  *)
(* [r] is a permitted answer to operation [o] in spec state [s] and gives *)
(* the next spec state.  With [ord = true] it is property C03 verbatim;   *)
(* with [ord = false] the demand that no held element precedes the      *)
(* returned one (Peek/Pop) is dropped and only conservation remains.      *)
(* ====================================================================== *)

Record sheap := mkS { ms : list A; sc : cmp }.
Definition sstate := (sheap * sheap * sheap)%type.

Definition mem (x : A) (l : list A) : bool := existsb (eqb x) l.

(* remove exactly one occurrence (the first equal one) *)
Fixpoint remove1 (x : A) (l : list A) : list A :=
  match l with
  | [] => []
  | y :: t => if eqb x y then t else y :: remove1 x t
  end.

(* equality of multisets *)
Fixpoint ms_eqb (l1 l2 : list A) : bool :=
  match l1 with
  | [] => match l2 with [] => true | _ => false end
  | x :: t => mem x l2 && ms_eqb t (remove1 x l2)
  end.

(* no element of l precedes v under c *)
Definition extremal (c : cmp) (v : A) (l : list A) : bool :=
  forallb (fun y => negb (c y v)) l.

Definition nil_b (l : list A) : bool := match l with [] => true | _ => false end.

Definition spec_step (ord : bool) (s : sstate) (o : op) (r : out) : option sstate :=
  let '(a, b, d) := s in
  match o, r with
  | OPush vs, RUnit => Some (mkS (ms a ++ vs) (sc a), b, d)
  | OPop, RVal v =>
      if nil_b (ms a) then (if eqb v zero then Some s else None)
      else if mem v (ms a) && (negb ord || extremal (sc a) v (ms a))
           then Some (mkS (remove1 v (ms a)) (sc a), b, d) else None
  | OPeek, RVal v =>
      if nil_b (ms a) then (if eqb v zero then Some s else None)
      else if mem v (ms a) && (negb ord || extremal (sc a) v (ms a))
           then Some s else None
  | OClear, RUnit => Some (mkS [] (sc a), b, d)
  | OConvert c, RUnit => Some (mkS (ms a) c, b, d)
  | ODelete v, RDel ok e =>
      if mem v (ms a)
      then (if ok && (e =? 0)%Z then Some (mkS (remove1 v (ms a)) (sc a), b, d) else None)
      else (if negb ok && negb (e =? 0)%Z then Some s else None)
  | OSize, RNat n => if n =? length (ms a) then Some s else None
  | OIsEmpty, RBool e => if Bool.eqb e (nil_b (ms a)) then Some s else None
  | OGetValues, RVals l => if ms_eqb l (ms a) then Some s else None
  | OFromSlice c l, RUnit => Some (mkS l c, b, d)
  | OMerge, RTwo l0 l1 =>
      (* both inputs intact; the receiver is kept as the third variable *)
      if ms_eqb l0 (ms a) && ms_eqb l1 (ms b)
      then Some (mkS (ms a ++ ms b) (sc a), b, a) else None
  | OMeld, RTwo l0 l1 =>
      (* both inputs emptied (comparators kept) *)
      if nil_b l0 && nil_b l1
      then Some (mkS (ms a ++ ms b) (sc a), mkS [] (sc b), mkS [] (sc a)) else None
  | OSwap, RUnit => Some (b, a, d)
  | OSwap2, RUnit => Some (d, b, a)
  | _, _ => None
  end.

(* a trace (operations with the outputs observed for them) is accepted *)
Fixpoint accepts (ord : bool) (s : sstate) (tr : list (op * out)) : bool :=
  match tr with
  | [] => true
  | (o, r) :: tr' =>
      match spec_step ord s o r with
      | Some s' => accepts ord s' tr'
      | None => false
      end
  end.

(* Sort: a permutation of the input in which c r[i] r[j] is false whenever
   i < j (a max-heap comparator gives ascending order) *)
Fixpoint sorted_opp (c : cmp) (l : list A) : bool :=
  match l with
  | [] => true
  | x :: t => forallb (fun y => negb (c x y)) t && sorted_opp c t
  end.
Definition sort_ok (c : cmp) (input result : list A) : bool :=
  ms_eqb result input && sorted_opp c result.

End Heap.

Arguments mkHeap {A} data comp.
Arguments mkS {A} ms sc.
Arguments ms {A} s.
Arguments sc {A} s.
Arguments data {A} h.
Arguments comp {A} h.
Arguments OPush {A} vs.
Arguments OPop {A}.
Arguments OPeek {A}.
Arguments OClear {A}.
Arguments OConvert {A} c.
Arguments ODelete {A} v.
Arguments OSize {A}.
Arguments OIsEmpty {A}.
Arguments OGetValues {A}.
Arguments OFromSlice {A} c l.
Arguments OMerge {A}.
Arguments OMeld {A}.
Arguments OSwap {A}.
Arguments OSwap2 {A}.
Arguments RUnit {A}.
Arguments RVal {A} v.
Arguments RBool {A} b.
Arguments RNat {A} n.
Arguments RVals {A} l.
Arguments RDel {A} ok e.
Arguments RTwo {A} l0 l1.
Arguments RPanic {A}.
Arguments ROof {A}.
