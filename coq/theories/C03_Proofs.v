(* C03_Proofs.v — lemmas for C03, part 1: slices as lists, the order facts, and
   the two sift procedures (moveUp, moveDown) with their invariants, fuel
   sufficiency and absence of panics.  Parts 2 and 3: C03_ProofsOps.v (the
   operations and heapsort), C03_ProofsHist.v (histories against the spec). *)

From Coq Require Import Permutation Sorted.
From Gogu Require Import Base C03_Model.
Local Open Scope nat_scope.

(* ====================================================================== *)
(* strict weak orders                                                     *)
(* ====================================================================== *)

Definition irreflexive {A} (c : A -> A -> bool) := forall x, c x x = false.
Definition transitive {A} (c : A -> A -> bool) :=
  forall x y z, c x y = true -> c y z = true -> c x z = true.
Definition neg_transitive {A} (c : A -> A -> bool) :=
  forall x y z, c x z = true -> c x y = true \/ c y z = true.

(* SWO c: c is a strict weak order *)
Definition SWO {A} (c : A -> A -> bool) := irreflexive c /\ transitive c /\ neg_transitive c.

Section Order.
Context {A : Type} (c : A -> A -> bool) (Hc : SWO c).

Lemma swo_irrefl x : c x x = false.
Proof. apply Hc. Qed.

Lemma swo_asym x y : c x y = true -> c y x = false.
Proof.
  intros H. destruct (c y x) eqn:E; [|reflexivity].
  destruct Hc as (Hi & Ht & _). rewrite <- (Hi x). symmetry. eapply Ht; eauto.
Qed.

Lemma swo_trans x y z : c x y = true -> c y z = true -> c x z = true.
Proof. apply Hc. Qed.

(* "does not precede" is transitive *)
Lemma swo_nc_trans x y z : c x y = false -> c y z = false -> c x z = false.
Proof.
  intros H1 H2. destruct (c x z) eqn:E; [|reflexivity].
  destruct Hc as (_ & _ & Hn). destruct (Hn x y z E); congruence.
Qed.

(* c x y and not c z y gives c x z *)
Lemma swo_lt_nc x y z : c x y = true -> c z y = false -> c x z = true.
Proof.
  intros H1 H2. destruct Hc as (_ & _ & Hn). destruct (Hn x z y H1) as [H|H]; [exact H|congruence].
Qed.

Lemma swo_nc_lt x y z : c y x = false -> c y z = true -> c x z = true.
Proof.
  intros H1 H2. destruct Hc as (_ & _ & Hn). destruct (Hn y x z H2) as [H|H]; [congruence|exact H].
Qed.
End Order.

(* ====================================================================== *)
(* slices                                                                  *)
(* ====================================================================== *)

Section Lists.
Context {A : Type} (zero : A).

Definition get (l : list A) (i : nat) : A := nth i l zero.

Lemma rd_ok (l : list A) i : i < length l -> rd l i = Ok (get l i).
Proof.
  intros H. unfold rd, get. destruct (nth_error l i) eqn:E.
  - now rewrite (nth_error_nth _ _ _ E).
  - apply nth_error_None in E. lia.
Qed.

Lemma rd_panic (l : list A) i : length l <= i -> rd l i = Panic.
Proof. intros H. unfold rd. now rewrite (proj2 (nth_error_None l i) H). Qed.

Lemma upd_length (l : list A) i x : length (upd l i x) = length l.
Proof. revert i; induction l as [|y l IH]; intros [|i]; cbn; auto. Qed.

Lemma get_upd_eq (l : list A) i x : i < length l -> get (upd l i x) i = x.
Proof.
  revert i; induction l as [|y l IH]; intros [|i] H; cbn in *; try lia; auto.
  apply IH. lia.
Qed.

Lemma get_upd_neq (l : list A) i j x : i <> j -> get (upd l i x) j = get l j.
Proof.
  revert i j; induction l as [|y l IH]; intros [|i] [|j] H; cbn; auto; try lia.
  apply IH. lia.
Qed.

Lemma upd_same (l : list A) i : upd l i (get l i) = l.
Proof.
  revert i; induction l as [|y l IH]; intros [|i]; cbn; auto. f_equal. apply IH.
Qed.

Lemma firstn_upd_lt (l : list A) n i x : i < n -> firstn n (upd l i x) = upd (firstn n l) i x.
Proof.
  revert n i; induction l as [|y l IH]; intros [|n] [|i] H; cbn; auto; try lia.
  f_equal. apply IH. lia.
Qed.

Lemma firstn_upd_ge (l : list A) n i x : n <= i -> firstn n (upd l i x) = firstn n l.
Proof.
  revert n i; induction l as [|y l IH]; intros [|n] [|i] H; cbn; auto; try lia.
  f_equal. apply IH. lia.
Qed.

Lemma skipn_upd_lt (l : list A) n i x : i < n -> skipn n (upd l i x) = skipn n l.
Proof.
  revert n i; induction l as [|y l IH]; intros [|n] [|i] H; cbn; auto; try lia.
  apply IH. lia.
Qed.

Lemma get_firstn (l : list A) n i : i < n -> get (firstn n l) i = get l i.
Proof.
  revert n i; induction l as [|y l IH]; intros [|n] [|i] H; cbn; auto; try lia.
  apply IH. lia.
Qed.

Lemma get_skipn (l : list A) n i : get (skipn n l) i = get l (n + i).
Proof.
  revert n; induction l as [|y l IH]; intros [|n]; cbn; auto.
  - now destruct i.
  - apply IH.
Qed.

Lemma get_app_l (l1 l2 : list A) i : i < length l1 -> get (l1 ++ l2) i = get l1 i.
Proof. intros. unfold get. now apply app_nth1. Qed.

Lemma get_app_last (l : list A) x : get (l ++ [x]) (length l) = x.
Proof. unfold get. rewrite app_nth2 by lia. now rewrite Nat.sub_diag. Qed.

Lemma In_get (l : list A) x : In x l <-> exists i, i < length l /\ get l i = x.
Proof.
  split.
  - intros H. destruct (In_nth l x zero H) as (i & Hi & E). eauto.
  - intros (i & Hi & <-). now apply nth_In.
Qed.

Lemma firstn_all_get (l : list A) n :
  n < length l -> firstn (S n) l = firstn n l ++ [get l n].
Proof.
  revert n; induction l as [|y l IH]; intros n H; cbn in H; [lia|].
  destruct n as [|n]; cbn; [reflexivity|]. f_equal. apply IH. lia.
Qed.

(* the pure effect of a successful swap *)
Definition swp (l : list A) (i j : nat) : list A := upd (upd l i (get l j)) j (get l i).

Lemma swap_ok (l : list A) i j : i < length l -> j < length l -> swap l i j = Ok (swp l i j).
Proof. intros Hi Hj. unfold swap. rewrite !rd_ok by assumption. reflexivity. Qed.

Lemma swp_length (l : list A) i j : length (swp l i j) = length l.
Proof. unfold swp. now rewrite !upd_length. Qed.

Lemma get_swp_l (l : list A) i j : i < length l -> j < length l -> get (swp l i j) i = get l j.
Proof.
  intros Hi Hj. unfold swp. destruct (Nat.eq_dec i j) as [->|N].
  - now rewrite get_upd_eq by (now rewrite upd_length).
  - rewrite get_upd_neq by auto. now apply get_upd_eq.
Qed.

Lemma get_swp_r (l : list A) i j : i < length l -> j < length l -> get (swp l i j) j = get l i.
Proof. intros Hi Hj. unfold swp. apply get_upd_eq. now rewrite upd_length. Qed.

Lemma get_swp_other (l : list A) i j k : k <> i -> k <> j -> get (swp l i j) k = get l k.
Proof. intros Hi Hj. unfold swp. rewrite !get_upd_neq by auto. reflexivity. Qed.

Lemma swp_same (l : list A) i : swp l i i = l.
Proof.
  unfold swp. rewrite upd_same.
  destruct (Nat.lt_ge_cases i (length l)) as [H|H].
  - apply upd_same.
  - apply upd_same.
Qed.

(* replacing one element: the multiset changes by that element *)
Lemma perm_upd (l : list A) j y : j < length l -> Permutation (y :: l) (get l j :: upd l j y).
Proof.
  revert j; induction l as [|x l IH]; intros [|j] H; cbn in *; try lia.
  - apply perm_swap.
  - rewrite perm_swap. rewrite (IH j) by lia. apply perm_swap.
Qed.

Lemma swp_perm (l : list A) i j : i < length l -> j < length l -> Permutation l (swp l i j).
Proof.
  unfold swp. revert i j; induction l as [|x l IH]; intros [|i] [|j] Hi Hj; cbn in *; try lia.
  - reflexivity.
  - change (nth j l zero) with (get l j). apply perm_upd. lia.
  - change (nth i l zero) with (get l i). apply perm_upd. lia.
  - constructor. apply (IH i j); lia.
Qed.

Lemma firstn_swp (l : list A) n i j : i < n -> j < n -> firstn n (swp l i j) = swp (firstn n l) i j.
Proof.
  intros Hi Hj. unfold swp. rewrite !firstn_upd_lt by assumption.
  now rewrite !get_firstn by assumption.
Qed.

Lemma skipn_swp (l : list A) n i j : i < n -> j < n -> skipn n (swp l i j) = skipn n l.
Proof. intros Hi Hj. unfold swp. now rewrite !skipn_upd_lt by assumption. Qed.

(* a list is determined by its prefix and suffix *)
Lemma perm_prefix_suffix (l l' : list A) n :
  Permutation (firstn n l) (firstn n l') -> skipn n l' = skipn n l -> Permutation l l'.
Proof.
  intros Hp Hs. rewrite <- (firstn_skipn n l), <- (firstn_skipn n l'), Hs.
  now apply Permutation_app_tail.
Qed.

End Lists.

(* ====================================================================== *)
(* index arithmetic of the implicit tree                                   *)
(* ====================================================================== *)

Lemma parent_spec j : 0 < j -> 2 * parent j + 1 <= j <= 2 * parent j + 2.
Proof.
  intros H. unfold parent.
  pose proof (Nat.div_mod_eq (j - 1) 2). pose proof (Nat.mod_upper_bound (j - 1) 2). lia.
Qed.

Lemma parent_0 : parent 0 = 0.
Proof. reflexivity. Qed.

Lemma parent_lt j : 0 < j -> parent j < j.
Proof. intros H. pose proof (parent_spec j H). lia. Qed.

Lemma parent_left i : parent (2 * i + 1) = i.
Proof. pose proof (parent_spec (2 * i + 1)). lia. Qed.

Lemma parent_right i : parent (2 * i + 2) = i.
Proof. pose proof (parent_spec (2 * i + 2)). lia. Qed.

Lemma parent_inv j i : 0 < j -> parent j = i -> j = 2 * i + 1 \/ j = 2 * i + 2.
Proof. intros H E. pose proof (parent_spec j H). lia. Qed.

(* ====================================================================== *)
(* heap order, restricted to a prefix and to the links below a level      *)
(* ====================================================================== *)

Section Sift.
Context {A : Type} (zero : A).
Notation get := (get zero).
Notation swp := (swp zero).

(* hp c m n l: within the prefix l[0..n), every link (j, parent j) whose parent
   index is at least m is in order: the child does not precede the parent *)
Definition hp (c : A -> A -> bool) (m n : nat) (l : list A) : Prop :=
  forall j, 0 < j -> j < n -> m <= parent j -> c (get l j) (get l (parent j)) = false.

(* the heap invariant of the whole array (DESIGN: heap_ok) *)
Definition heap_ok (c : A -> A -> bool) (l : list A) : Prop := hp c 0 (length l) l.

Lemma hp_weaken c m m' n n' l : m <= m' -> n' <= n -> hp c m n l -> hp c m' n' l.
Proof. intros Hm Hn H j H0 Hj Hp. apply H; lia. Qed.

Lemma hp_vacuous c m n l : n <= 2 * m + 1 -> hp c m n l.
Proof. intros H j H0 Hj Hp. pose proof (parent_spec j H0). lia. Qed.

Lemma heap_ok_small c l : length l <= 1 -> heap_ok c l.
Proof. intros H. apply hp_vacuous. lia. Qed.

Lemma hp_ext c m n l l' :
  (forall j, j < n -> get l' j = get l j) -> hp c m n l -> hp c m n l'.
Proof.
  intros E H j H0 Hj Hp. pose proof (parent_lt j H0).
  rewrite !E by lia. now apply H.
Qed.

Variable c : A -> A -> bool.
Hypothesis Hc : SWO c.

(* the root of an ordered prefix is extremal in it *)
Lemma hp_root_extremal n l : hp c 0 n l -> forall j, j < n -> c (get l j) (get l 0) = false.
Proof.
  intros H j. induction j as [j IH] using lt_wf_ind. intros Hj.
  destruct (Nat.eq_dec j 0) as [->|N]; [apply (swo_irrefl c Hc)|].
  pose proof (parent_lt j ltac:(lia)).
  eapply (swo_nc_trans c Hc); [apply H; lia | apply IH; lia].
Qed.

(* ---------------------------------------------------------------------- *)
(* sift-down.  SD m n i l: the prefix l[0..n) is ordered on every link    *)
(* with parent >= m except the links below i, and the children of i do    *)
(* not precede i's parent (when that link is among the tracked ones).     *)
(* ---------------------------------------------------------------------- *)

Definition SD (m n i : nat) (l : list A) : Prop :=
  (forall j, 0 < j -> j < n -> m <= parent j -> parent j <> i ->
             c (get l j) (get l (parent j)) = false) /\
  (0 < i -> m <= parent i ->
   forall j, 0 < j -> j < n -> parent j = i -> c (get l j) (get l (parent i)) = false).

Lemma SD_start m n l : hp c (S m) n l -> SD m n m l.
Proof.
  intros H. split.
  - intros j H0 Hj Hm Hne. apply H; lia.
  - intros H0 Hm. pose proof (parent_lt m H0). lia.
Qed.

(* no child precedes i: the prefix is ordered *)
Lemma SD_stop m n i l :
  SD m n i l ->
  (forall j, 0 < j -> j < n -> parent j = i -> c (get l j) (get l i) = false) ->
  hp c m n l.
Proof.
  intros [H1 _] Hs j H0 Hj Hm.
  destruct (Nat.eq_dec (parent j) i) as [E|N].
  - rewrite E. now apply Hs.
  - now apply H1.
Qed.

(* one step: the child [k] precedes i and no other child of i precedes k *)
Lemma SD_step m n i k l :
  n <= length l -> m <= i ->
  SD m n i l -> 0 < k -> k < n -> parent k = i ->
  c (get l k) (get l i) = true ->
  (forall j, 0 < j -> j < n -> parent j = i -> c (get l j) (get l k) = false) ->
  SD m n k (swp l i k).
Proof.
  intros Hn Hmi [H1 H2] Hk0 Hkn Hpk Hlt Hbest.
  pose proof (parent_lt k Hk0) as Hik. rewrite Hpk in Hik.
  assert (Hgi : get (swp l i k) i = get l k) by (apply get_swp_l; lia).
  assert (Hgk : get (swp l i k) k = get l i) by (apply get_swp_r; lia).
  assert (Hgo : forall x, x <> i -> x <> k -> get (swp l i k) x = get l x)
    by (intros; now apply get_swp_other).
  split.
  - intros j H0 Hj Hm Hne.
    pose proof (parent_lt j H0) as Hpj.
    destruct (Nat.eq_dec (parent j) i) as [E|N].
    + (* j is a child of i: k itself or its sibling *)
      rewrite E, Hgi. destruct (Nat.eq_dec j k) as [->|Njk].
      * rewrite Hgk. now apply (swo_asym c Hc).
      * rewrite Hgo by lia. now apply Hbest.
    + destruct (Nat.eq_dec j i) as [->|Nji].
      * (* the link above i: its child is now l[k] *)
        rewrite Hgi. rewrite Hgo by lia.
        apply H2; lia.
      * assert (j <> k) by (intros ->; lia).
        rewrite (Hgo j) by lia. rewrite (Hgo (parent j)) by lia. now apply H1.
  - (* children of k against k's parent i, which now holds l[k] *)
    intros _ _ j H0 Hj Hpj. rewrite Hpk, Hgi.
    pose proof (parent_lt j H0).
    rewrite Hgo by lia.
    rewrite <- Hpj. apply H1; lia.
Qed.

(* moveDown on a prefix: no panic, no out-of-fuel with fuel > n - i, the
   prefix is permuted, the rest untouched, and the sift invariant becomes
   heap order.  The order part needs SWO; the rest holds for any comparator
   and is stated separately below. *)
Lemma move_down_frame fuel : forall n i l,
  n <= length l -> n - i < fuel ->
  exists l', move_down c fuel n i l = Ok l' /\ length l' = length l /\
             Permutation (firstn n l) (firstn n l') /\ skipn n l' = skipn n l /\
             (forall j, j < i -> get l' j = get l j).
Proof.
  induction fuel as [|f IH]; intros n i l Hn Hf; [lia|].
  cbn [move_down]. unfold left_child, right_child.
  assert (Hstep : forall k, i < k -> k < n ->
            exists l', (l0 <- swap l i k ;; move_down c f n k l0) = Ok l' /\ length l' = length l /\
                       Permutation (firstn n l) (firstn n l') /\ skipn n l' = skipn n l /\
                       (forall j, j < i -> get l' j = get l j)).
  { intros k Hik Hkn. rewrite (swap_ok zero) by lia. cbn [bind].
    destruct (IH n k (swp l i k)) as (l' & E & Hl & Hp & Hs & Hg).
    - rewrite swp_length. lia.
    - lia.
    - exists l'. rewrite swp_length in Hl. repeat split; auto.
      + rewrite <- Hp. rewrite firstn_swp by lia.
        apply swp_perm; rewrite firstn_length; lia.
      + rewrite Hs. apply skipn_swp; lia.
      + intros j Hj. rewrite Hg by lia. apply get_swp_other; lia. }
  assert (Hdone : exists l', Ok l = Ok l' /\ length l' = length l /\
                       Permutation (firstn n l) (firstn n l') /\ skipn n l' = skipn n l /\
                       (forall j, j < i -> get l' j = get l j)).
  { exists l. repeat split; auto. }
  destruct (2 * i + 1 <? n) eqn:EL; [apply Nat.ltb_lt in EL | apply Nat.ltb_ge in EL].
  - rewrite !(rd_ok zero) by lia. cbn [bind].
    destruct (2 * i + 2 <? n) eqn:ER; [apply Nat.ltb_lt in ER | apply Nat.ltb_ge in ER].
    + destruct (c (get l (2 * i + 1)) (get l i)) eqn:C1; rewrite !(rd_ok zero) by lia; cbn [bind].
      * destruct (c (get l (2 * i + 2)) (get l (2 * i + 1))) eqn:C2.
        -- replace (2 * i + 2 =? i) with false by (symmetry; apply Nat.eqb_neq; lia). apply Hstep; lia.
        -- replace (2 * i + 1 =? i) with false by (symmetry; apply Nat.eqb_neq; lia). apply Hstep; lia.
      * destruct (c (get l (2 * i + 2)) (get l i)) eqn:C2.
        -- replace (2 * i + 2 =? i) with false by (symmetry; apply Nat.eqb_neq; lia). apply Hstep; lia.
        -- rewrite Nat.eqb_refl. apply Hdone.
    + destruct (c (get l (2 * i + 1)) (get l i)) eqn:C1; cbn [bind].
      * replace (2 * i + 1 =? i) with false by (symmetry; apply Nat.eqb_neq; lia). apply Hstep; lia.
      * rewrite Nat.eqb_refl. apply Hdone.
  - cbn [bind].
    replace (2 * i + 2 <? n) with false by (symmetry; apply Nat.ltb_ge; lia). cbn [bind].
    rewrite Nat.eqb_refl. apply Hdone.
Qed.

Lemma move_down_order fuel : forall m n i l l',
  n <= length l -> m <= i ->
  SD m n i l -> move_down c fuel n i l = Ok l' -> hp c m n l'.
Proof.
  induction fuel as [|f IH]; intros m n i l l' Hn Hmi HSD E; [discriminate|].
  cbn [move_down] in E. unfold left_child, right_child in E.
  (* the children of i, as indices *)
  assert (Hch : forall j, 0 < j -> parent j = i -> j = 2 * i + 1 \/ j = 2 * i + 2)
    by (intros; now apply parent_inv).
  assert (Hstep : forall k, (k = 2 * i + 1 \/ k = 2 * i + 2) -> k < n ->
            c (get l k) (get l i) = true ->
            (forall j, 0 < j -> j < n -> parent j = i -> c (get l j) (get l k) = false) ->
            (l0 <- swap l i k ;; move_down c f n k l0) = Ok l' -> hp c m n l').
  { intros k Hk Hkn Hlt Hbest E'. rewrite (swap_ok zero) in E' by lia. cbn [bind] in E'.
    assert (Hpk : parent k = i) by (destruct Hk as [-> | ->]; [apply parent_left | apply parent_right]).
    eapply (IH m n k (swp l i k)); [rewrite swp_length; lia | lia | | exact E'].
    apply SD_step; auto; lia. }
  destruct (2 * i + 1 <? n) eqn:EL; [apply Nat.ltb_lt in EL | apply Nat.ltb_ge in EL].
  - rewrite !(rd_ok zero) in E by lia. cbn [bind] in E.
    destruct (2 * i + 2 <? n) eqn:ER; [apply Nat.ltb_lt in ER | apply Nat.ltb_ge in ER].
    + destruct (c (get l (2 * i + 1)) (get l i)) eqn:C1; rewrite !(rd_ok zero) in E by lia; cbn [bind] in E.
      * destruct (c (get l (2 * i + 2)) (get l (2 * i + 1))) eqn:C2.
        -- replace (2 * i + 2 =? i) with false in E by (symmetry; apply Nat.eqb_neq; lia).
           apply (Hstep (2 * i + 2)); auto.
           ++ eapply (swo_trans c Hc); eauto.
           ++ intros j H0 Hj Hp. destruct (Hch j H0 Hp) as [-> | ->].
              ** now apply (swo_asym c Hc).
              ** apply (swo_irrefl c Hc).
        -- replace (2 * i + 1 =? i) with false in E by (symmetry; apply Nat.eqb_neq; lia).
           apply (Hstep (2 * i + 1)); auto.
           intros j H0 Hj Hp. destruct (Hch j H0 Hp) as [-> | ->]; [apply (swo_irrefl c Hc) | exact C2].
      * destruct (c (get l (2 * i + 2)) (get l i)) eqn:C2.
        -- replace (2 * i + 2 =? i) with false in E by (symmetry; apply Nat.eqb_neq; lia).
           apply (Hstep (2 * i + 2)); auto.
           intros j H0 Hj Hp. destruct (Hch j H0 Hp) as [-> | ->]; [| apply (swo_irrefl c Hc)].
           (* left does not precede i, right precedes i: left does not precede right *)
           destruct (c (get l (2 * i + 1)) (get l (2 * i + 2))) eqn:C3; [|reflexivity].
           rewrite <- C1. symmetry. eapply (swo_trans c Hc); eauto.
        -- rewrite Nat.eqb_refl in E. injection E as <-.
           eapply SD_stop; [exact HSD|].
           intros j H0 Hj Hp. destruct (Hch j H0 Hp) as [-> | ->]; assumption.
    + destruct (c (get l (2 * i + 1)) (get l i)) eqn:C1; cbn [bind] in E.
      * replace (2 * i + 1 =? i) with false in E by (symmetry; apply Nat.eqb_neq; lia).
        apply (Hstep (2 * i + 1)); auto.
        intros j H0 Hj Hp. destruct (Hch j H0 Hp) as [-> | ->]; [apply (swo_irrefl c Hc) | lia].
      * rewrite Nat.eqb_refl in E. injection E as <-.
        eapply SD_stop; [exact HSD|].
        intros j H0 Hj Hp. destruct (Hch j H0 Hp) as [-> | ->]; [assumption | lia].
  - cbn [bind] in E.
    replace (2 * i + 2 <? n) with false in E by (symmetry; apply Nat.ltb_ge; lia). cbn [bind] in E.
    rewrite Nat.eqb_refl in E. injection E as <-.
    eapply SD_stop; [exact HSD|].
    intros j H0 Hj Hp. destruct (Hch j H0 Hp) as [-> | ->]; lia.
Qed.

(* sift_down (fuel S n) as the callers use it *)
Lemma sift_down_spec m n l :
  n <= length l -> hp c (S m) n l ->
  exists l', sift_down c n m l = Ok l' /\ length l' = length l /\
             Permutation (firstn n l) (firstn n l') /\ skipn n l' = skipn n l /\
             (forall j, j < m -> get l' j = get l j) /\ hp c m n l'.
Proof.
  intros Hn H. unfold sift_down.
  destruct (move_down_frame (S n) n m l Hn ltac:(lia)) as (l' & E & Hl & Hp & Hs & Hg).
  exists l'. repeat split; auto.
  eapply move_down_order; [exact Hn | reflexivity | apply SD_start; exact H | exact E].
Qed.

(* a sift-down at the root of an ordered prefix changes nothing *)
Lemma move_down_noop fuel n i l :
  n <= length l -> 0 < fuel ->
  (forall j, 0 < j -> j < n -> parent j = i -> c (get l j) (get l i) = false) ->
  move_down c fuel n i l = Ok l.
Proof.
  intros Hn Hf H. destruct fuel as [|f]; [lia|].
  cbn [move_down]. unfold left_child, right_child.
  destruct (2 * i + 1 <? n) eqn:EL; [apply Nat.ltb_lt in EL | apply Nat.ltb_ge in EL].
  - rewrite !(rd_ok zero) by lia. cbn [bind].
    rewrite (H (2 * i + 1)) by (try apply parent_left; lia).
    destruct (2 * i + 2 <? n) eqn:ER; [apply Nat.ltb_lt in ER | apply Nat.ltb_ge in ER].
    + rewrite !(rd_ok zero) by lia. cbn [bind].
      rewrite (H (2 * i + 2)) by (try apply parent_right; lia).
      now rewrite Nat.eqb_refl.
    + cbn [bind]. now rewrite Nat.eqb_refl.
  - cbn [bind]. replace (2 * i + 2 <? n) with false by (symmetry; apply Nat.ltb_ge; lia).
    cbn [bind]. now rewrite Nat.eqb_refl.
Qed.

(* ---------------------------------------------------------------------- *)
(* sift-up.  SU n i l: l[0..n) is ordered except possibly on the link     *)
(* (i, parent i), and the children of i do not precede i's parent.        *)
(* ---------------------------------------------------------------------- *)

Definition SU (n i : nat) (l : list A) : Prop :=
  (forall j, 0 < j -> j < n -> j <> i -> c (get l j) (get l (parent j)) = false) /\
  (forall j, 0 < j -> j < n -> parent j = i -> c (get l j) (get l (parent i)) = false).

Lemma move_up_spec fuel : forall i l,
  i < length l -> i < fuel ->
  exists l', move_up c fuel i l = Ok l' /\ length l' = length l /\ Permutation l l' /\
             (SU (length l) i l -> heap_ok c l').
Proof.
  induction fuel as [|f IH]; intros i l Hi Hf; [lia|].
  cbn [move_up].
  destruct (Nat.eq_dec i 0) as [->|Ni].
  - (* at the root: comp(data[0], data[0]) is false for an irreflexive comparator *)
    rewrite parent_0, !(rd_ok zero) by lia. cbn [bind].
    rewrite (swo_irrefl c Hc). cbn.
    exists l. repeat split; auto.
    intros [H1 _] j H0 Hj _. apply H1; lia.
  - pose proof (parent_lt i ltac:(lia)) as Hp.
    rewrite !(rd_ok zero) by lia. cbn [bind].
    destruct (c (get l i) (get l (parent i))) eqn:C1; cbn [negb].
    + rewrite (swap_ok zero) by lia. cbn [bind].
      destruct (IH (parent i) (swp l i (parent i))) as (l' & E & Hl & Hperm & Hok).
      * rewrite swp_length. lia.
      * lia.
      * exists l'. rewrite swp_length in Hl. repeat split; auto.
        -- rewrite <- Hperm. apply swp_perm; lia.
        -- intros [H1 H2]. apply Hok. rewrite swp_length.
           set (p := parent i) in *.
           assert (Hgi : get (swp l i p) i = get l p) by (apply get_swp_l; lia).
           assert (Hgp : get (swp l i p) p = get l i) by (apply get_swp_r; lia).
           assert (Hgo : forall x, x <> i -> x <> p -> get (swp l i p) x = get l x)
             by (intros; now apply get_swp_other).
           split.
           ++ intros j H0 Hj Hne. pose proof (parent_lt j H0) as Hpj.
              destruct (Nat.eq_dec j i) as [->|Nji].
              ** fold p. rewrite Hgi, Hgp. now apply (swo_asym c Hc).
              ** destruct (Nat.eq_dec (parent j) i) as [Ej|Nj].
                 --- (* a child of i: now under l[p] *)
                     rewrite Ej, Hgi. rewrite Hgo by lia. apply H2; auto.
                 --- destruct (Nat.eq_dec (parent j) p) as [Ep|Np].
                     +++ (* the sibling of i: now under l[i], which precedes l[p] *)
                         rewrite Ep, Hgp. rewrite Hgo by lia.
                         specialize (H1 j H0 Hj Nji). rewrite Ep in H1.
                         destruct (c (get l j) (get l i)) eqn:C2; [|reflexivity].
                         rewrite <- H1. symmetry. eapply (swo_trans c Hc); eauto.
                     +++ rewrite (Hgo j) by lia. rewrite (Hgo (parent j)) by lia. now apply H1.
           ++ intros j H0 Hj Hpj. pose proof (parent_lt j H0).
              destruct (Nat.eq_dec p 0) as [Ep0|Np0].
              ** (* p is the root: parent p = p, which now holds l[i] *)
                 rewrite Ep0, parent_0. rewrite <- Ep0. rewrite Hgp.
                 destruct (Nat.eq_dec j i) as [->|Nji].
                 --- rewrite Hgi. now apply (swo_asym c Hc).
                 --- rewrite Hgo by lia. specialize (H1 j H0 Hj Nji). rewrite Hpj in H1.
                     destruct (c (get l j) (get l i)) eqn:C2; [|reflexivity].
                     rewrite <- H1. symmetry. eapply (swo_trans c Hc); eauto.
              ** pose proof (parent_lt p ltac:(lia)) as Hpp.
                 rewrite (Hgo (parent p)) by lia.
                 assert (Hlink : c (get l p) (get l (parent p)) = false) by (apply H1; lia).
                 destruct (Nat.eq_dec j i) as [->|Nji].
                 --- now rewrite Hgi.
                 --- rewrite Hgo by lia.
                     eapply (swo_nc_trans c Hc); [|exact Hlink].
                     specialize (H1 j H0 Hj Nji). now rewrite Hpj in H1.
    + exists l. repeat split; auto.
      intros [H1 _] j H0 Hj _. destruct (Nat.eq_dec j i) as [->|N]; [exact C1 | now apply H1].
Qed.

End Sift.
