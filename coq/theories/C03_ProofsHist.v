(* C03_ProofsHist.v — lemmas for C03, part 3: every history of the model is a
   history of the reference multiset machine (the specification in
   C03_Model.v), with the order requirement on Peek/Pop in force at every
   point not tainted by an ill-fitting Delete (the pinned defect #20). *)

From Coq Require Import Permutation Sorted.
From Gogu Require Import Base C03_Model C03_Proofs C03_ProofsOps.
Local Open Scope nat_scope.

Section Hist.
Context {A : Type} (zero : A) (eqb : A -> A -> bool).
Hypothesis eqb_spec : forall x y, eqb x y = true <-> x = y.
Notation get := (get zero).
Notation hp := (hp zero).
Notation heap_ok := (heap_ok zero).
Notation heap := (@heap A).
Notation state := (@state A).
Notation sstate := (@sstate A).
Notation op := (@op A).
Notation out := (@out A).
Notation step := (step zero eqb).
Notation spec_step := (spec_step zero eqb).
Notation accepts := (accepts zero eqb).
Notation mem := (mem eqb).
Notation remove1 := (remove1 eqb).
Notation ms_eqb := (ms_eqb eqb).

Lemma eqb_refl x : eqb x x = true.
Proof. now apply eqb_spec. Qed.

(* ---------- the boolean multiset functions of the spec ---------- *)

Lemma mem_In x (l : list A) : mem x l = true <-> In x l.
Proof.
  unfold C03_Model.mem. rewrite existsb_exists. split.
  - intros (y & Hy & E). apply eqb_spec in E. now subst.
  - intros H. exists x. split; [exact H | apply eqb_refl].
Qed.

Lemma mem_perm x (l l' : list A) : Permutation l l' -> mem x l = mem x l'.
Proof.
  intros H. destruct (mem x l') eqn:E.
  - apply mem_In. apply mem_In in E. now apply (Permutation_in _ (Permutation_sym H)).
  - destruct (mem x l) eqn:E'; [|reflexivity].
    apply mem_In in E'. apply (Permutation_in _ H) in E'. apply mem_In in E'. congruence.
Qed.

Lemma remove1_In x (l : list A) : In x l -> Permutation l (x :: remove1 x l).
Proof.
  induction l as [|y t IH]; intros H; [destruct H|]. cbn.
  destruct (eqb x y) eqn:E.
  - apply eqb_spec in E. now subst.
  - destruct H as [->|H]; [rewrite eqb_refl in E; discriminate|].
    rewrite perm_swap. constructor. now apply IH.
Qed.

Lemma remove1_perm x (l l' : list A) : Permutation l (x :: l') -> Permutation (remove1 x l) l'.
Proof.
  intros H. apply Permutation_cons_inv with (a := x). rewrite <- H.
  symmetry. apply remove1_In. apply (Permutation_in _ (Permutation_sym H)). now left.
Qed.

Lemma ms_eqb_perm (l1 l2 : list A) : ms_eqb l1 l2 = true <-> Permutation l1 l2.
Proof.
  revert l2; induction l1 as [|x t IH]; intros l2; cbn.
  - destruct l2; split; intros H; auto; try discriminate.
    apply Permutation_nil in H. discriminate.
  - rewrite andb_true_iff, mem_In, IH. split.
    + intros [Hin Hp]. rewrite (remove1_In x l2 Hin). now constructor.
    + intros Hp. split.
      * apply (Permutation_in _ Hp). now left.
      * symmetry. apply remove1_perm. now symmetry.
Qed.

Lemma extremal_spec c v (l : list A) :
  extremal c v l = true <-> forall y, In y l -> c y v = false.
Proof.
  unfold extremal. rewrite forallb_forall. split; intros H y Hy.
  - apply negb_true_iff. now apply H.
  - apply negb_true_iff. now apply H.
Qed.

Lemma nil_b_perm (l l' : list A) : Permutation l l' -> nil_b l = nil_b l'.
Proof.
  intros H. destruct l, l'; auto.
  - apply Permutation_nil in H. discriminate.
  - symmetry in H. apply Permutation_nil in H. discriminate.
Qed.

(* ---------- taint: where the pinned Delete may have broken the order ---------- *)

(* Delete(v) is benign on array l when v is absent, or its first occurrence is
   the root or the last slot, or the element moved into the hole (the old last
   one) fits there: it does not precede the hole's parent (irrelevant for the
   children of the root, whose link the re-sift from the root repairs) and
   none of the hole's children precedes it. *)
Definition fits_b (c : A -> A -> bool) (l : list A) (idx : nat) : bool :=
  let lastv := get l (length l - 1) in
  let child_ok j := (length l - 1 <=? j) || negb (c (get l j) lastv) in
  ((idx <=? 2) || negb (c lastv (get l (parent idx)))) &&
  child_ok (2 * idx + 1) && child_ok (2 * idx + 2).

Definition benign_delete (c : A -> A -> bool) (l : list A) (v : A) : bool :=
  match get_index eqb l v with
  | None => true
  | Some idx => (idx =? 0) || (idx =? length l - 1) || fits_b c l idx
  end.

(* a heap variable of at most one element is ordered whatever happened before *)
Definition taints := (bool * bool * bool)%type.
Definition tfst (t : taints) : bool := fst (fst t).

Definition norm (s : state) (t : taints) : taints :=
  let '(h0, h1, h2) := s in
  let '(t0, t1, t2) := t in
  (t0 && (1 <? size h0), t1 && (1 <? size h1), t2 && (1 <? size h2)).

(* the taint follows the heap variables around: Merge parks the receiver (with
   its taint) in the third variable and yields a freshly built, ordered heap *)
Definition taint_raw (s : state) (t : taints) (o : op) : taints :=
  let '(h0, h1, h2) := s in
  let '(t0, t1, t2) := t in
  match o with
  | ODelete v => (t0 || negb (benign_delete (comp h0) (data h0) v), t1, t2)
  | OClear | OConvert _ | OFromSlice _ _ => (false, t1, t2)
  | OMerge => (false, t1, t0)
  | OMeld => (false, false, false)
  | OSwap => (t1, t0, t2)
  | OSwap2 => (t2, t1, t0)
  | _ => t
  end.

Definition taint_step (s : state) (t : taints) (o : op) : taints :=
  norm (fst (step s o)) (taint_raw s t o).

(* model and spec side by side: every output of the model must be accepted by
   the spec, WITH the order requirement whenever h0 is untainted *)
Fixpoint hist_ok (s : state) (sp : sstate) (t : taints) (ops : list op) : bool :=
  match ops with
  | [] => true
  | o :: ops' =>
      match spec_step (negb (tfst t)) sp o (snd (step s o)) with
      | Some sp' => hist_ok (fst (step s o)) sp' (taint_step s t o) ops'
      | None => false
      end
  end.

(* the comparators a history installs *)
Definition op_swo (o : op) : Prop :=
  match o with
  | OConvert c | OFromSlice c _ => SWO c
  | _ => True
  end.

(* ---------- the refinement relation ---------- *)

Definition rel1 (h : heap) (sh : sheap) (tainted : bool) : Prop :=
  Permutation (data h) (ms sh) /\ comp h = sc sh /\ SWO (comp h) /\
  (tainted = false -> heap_ok (comp h) (data h)).

Definition rel (s : state) (sp : sstate) (t : taints) : Prop :=
  let '(h0, h1, h2) := s in
  let '(a, b, d) := sp in
  let '(t0, t1, t2) := t in
  rel1 h0 a t0 /\ rel1 h1 b t1 /\ rel1 h2 d t2.

Lemma rel1_norm h sh t : rel1 h sh t -> rel1 h sh (t && (1 <? size h)).
Proof.
  intros (Hp & Hcmp & Hc & Hok). split; [|split; [|split]]; auto.
  intros E. apply andb_false_iff in E as [E|E]; [now apply Hok|].
  apply Nat.ltb_ge in E. now apply heap_ok_small.
Qed.

Lemma fits_b_spec c (l : list A) idx :
  heap_ok c l -> idx < length l - 1 -> fits_b c l idx = true ->
  hp c 1 (length l - 1) (del_array zero l idx).
Proof.
  intros H Hi Hf. unfold fits_b in Hf.
  apply andb_true_iff in Hf as [Hf H2]. apply andb_true_iff in Hf as [Hup H1].
  apply del_array_fits; auto.
  - intros H3. apply orb_true_iff in Hup as [Hup|Hup].
    + apply Nat.leb_le in Hup. lia.
    + now apply negb_true_iff.
  - intros j H0 Hj Hp.
    destruct (parent_inv j idx H0 Hp) as [-> | ->].
    + apply orb_true_iff in H1 as [H1|H1]; [apply Nat.leb_le in H1; lia | now apply negb_true_iff].
    + apply orb_true_iff in H2 as [H2|H2]; [apply Nat.leb_le in H2; lia | now apply negb_true_iff].
Qed.

Lemma benign_spec (h : heap) v idx :
  heap_ok (comp h) (data h) ->
  get_index eqb (data h) v = Some idx -> idx < length (data h) ->
  benign_delete (comp h) (data h) v = true ->
  hp (comp h) 1 (length (data h) - 1) (del_array zero (data h) idx).
Proof.
  intros Hok Hidx Hi Hb. unfold benign_delete in Hb. rewrite Hidx in Hb.
  destruct (Nat.eq_dec idx 0) as [->|N0]; [now apply del_array_root|].
  destruct (Nat.eq_dec idx (length (data h) - 1)) as [->|Nl]; [now apply del_array_last|].
  replace (idx =? 0) with false in Hb by (symmetry; now apply Nat.eqb_neq).
  replace (idx =? length (data h) - 1) with false in Hb by (symmetry; now apply Nat.eqb_neq).
  cbn [orb] in Hb. apply fits_b_spec; auto. lia.
Qed.

Lemma rel_norm s sp t : rel s sp t -> rel s sp (norm s t).
Proof.
  destruct s as [[h0 h1] h2], sp as [[a b] d], t as [[t0 t1] t2].
  intros (H0 & H1 & H2). unfold rel, norm. split; [|split]; now apply rel1_norm.
Qed.

Lemma list_cases (l : list A) : l = [] \/ exists x t, l = x :: t.
Proof. destruct l; eauto. Qed.

Lemma rel1_intro (h : heap) (sh : sheap) (t : bool) :
  Permutation (data h) (ms sh) -> comp h = sc sh -> SWO (comp h) ->
  (t = false -> heap_ok (comp h) (data h)) -> rel1 h sh t.
Proof. intros. repeat split; auto; apply H1. Qed.

Lemma step_refines_raw s sp t o :
  rel s sp t -> op_swo o ->
  exists sp', spec_step (negb (tfst t)) sp o (snd (step s o)) = Some sp' /\
              rel (fst (step s o)) sp' (taint_raw s t o).
Proof.
  destruct s as [[h0 h1] h2], sp as [[a b] d], t as [[t0 t1] t2].
  intros (R0 & R1 & R2) Hswo. unfold tfst. cbn [fst snd].
  pose proof R0 as (P0 & C0 & W0 & K0).
  pose proof R1 as (P1 & C1 & W1 & K1).
  (* closes the goal once the new h0 is related, the other two variables unchanged *)
  Local Ltac fin R1 R2 :=
    eexists; split; [reflexivity|]; unfold rel; split; [|split; [exact R1 | exact R2]].
  destruct o; cbn [C03_Model.step taint_raw fst snd].
  - (* Push *)
    destruct (push_spec zero vs h0 W0) as (l' & E & Hp & Hok). rewrite E. cbn [fst snd C03_Model.spec_step].
    fin R1 R2. apply rel1_intro; cbn [data comp ms sc]; auto.
    rewrite <- Hp. now apply Permutation_app_tail.
  - (* Pop *)
    destruct (list_cases (data h0)) as [El | (x0 & l0 & El)].
    + rewrite (pop_empty zero h0 El). cbn [fst snd C03_Model.spec_step].
      assert (E0 : ms a = []) by (apply Permutation_nil; now rewrite <- El).
      rewrite E0. cbn [nil_b]. rewrite eqb_refl. fin R1 R2. exact R0.
    + destruct (pop_spec zero h0) as (l' & E & Hp & Hok); [congruence|].
      rewrite E. cbn [fst snd C03_Model.spec_step].
      assert (Eg : get (data h0) 0 = x0) by (now rewrite El).
      rewrite Eg in *.
      assert (Hin0 : In x0 (data h0)) by (rewrite El; now left).
      assert (Hin : In x0 (ms a)) by (now apply (Permutation_in _ P0)).
      replace (nil_b (ms a)) with false by (rewrite <- (nil_b_perm _ _ P0), El; reflexivity).
      rewrite (proj2 (mem_In x0 (ms a)) Hin). cbn [andb].
      assert (Hext : negb (negb t0) || extremal (sc a) x0 (ms a) = true).
      { destruct t0; [reflexivity|]. cbn [negb orb]. apply extremal_spec. intros y Hy.
        rewrite <- C0, <- Eg. apply (Permutation_in _ (Permutation_sym P0)) in Hy.
        apply (peek_extremal zero); auto. }
      rewrite Hext. fin R1 R2. apply rel1_intro; cbn [data comp ms sc]; auto.
      symmetry. apply remove1_perm. now rewrite <- P0, <- Hp.
  - (* Peek *)
    rewrite (peek_eq zero). cbn [fst snd C03_Model.spec_step].
    destruct (list_cases (data h0)) as [El | (x0 & l0 & El)].
    + assert (E0 : ms a = []) by (apply Permutation_nil; now rewrite <- El).
      rewrite E0, El. cbn [nil_b]. rewrite eqb_refl. fin R1 R2. exact R0.
    + assert (Eg : get (data h0) 0 = x0) by (now rewrite El).
      assert (Hin0 : In x0 (data h0)) by (rewrite El; now left).
      assert (Hin : In x0 (ms a)) by (now apply (Permutation_in _ P0)).
      replace (nil_b (ms a)) with false by (rewrite <- (nil_b_perm _ _ P0), El; reflexivity).
      replace (match data h0 with [] => zero | x :: _ => x end) with x0 by (now rewrite El).
      rewrite (proj2 (mem_In x0 (ms a)) Hin). cbn [andb].
      assert (Hext : negb (negb t0) || extremal (sc a) x0 (ms a) = true).
      { destruct t0; [reflexivity|]. cbn [negb orb]. apply extremal_spec. intros y Hy.
        rewrite <- C0, <- Eg. apply (Permutation_in _ (Permutation_sym P0)) in Hy.
        apply (peek_extremal zero); auto. }
      rewrite Hext. fin R1 R2. exact R0.
  - (* Clear *)
    cbn [C03_Model.spec_step]. fin R1 R2. unfold clear.
    apply rel1_intro; cbn [data comp ms sc]; auto.
    intros _. apply heap_ok_small. cbn. lia.
  - (* Convert *)
    cbn in Hswo. destruct (convert_spec zero h0 c Hswo) as (l' & E & Hp & Hok). rewrite E.
    cbn [fst snd C03_Model.spec_step]. fin R1 R2.
    apply rel1_intro; cbn [data comp ms sc]; auto. now rewrite <- Hp.
  - (* Delete *)
    destruct (list_cases (data h0)) as [El | (x0 & l0 & El)].
    + rewrite (delete_empty eqb h0 v El). cbn [fst snd C03_Model.spec_step].
      assert (E0 : ms a = []) by (apply Permutation_nil; now rewrite <- El).
      rewrite E0. cbn [C03_Model.mem existsb negb andb Z.eqb err_empty].
      fin R1 R2. apply rel1_intro; auto.
      intros _. apply heap_ok_small. rewrite El. cbn. lia.
    + destruct (mem v (ms a)) eqn:Em.
      * assert (Hin : In v (data h0)).
        { apply mem_In in Em. now apply (Permutation_in _ (Permutation_sym P0)). }
        destruct (delete_present zero eqb eqb_spec h0 v Hin) as (idx & l' & Hidx & E & Hp & Hok).
        rewrite E. cbn [fst snd C03_Model.spec_step]. rewrite Em. cbn [andb Z.eqb].
        fin R1 R2. apply rel1_intro; cbn [data comp ms sc]; auto.
        -- symmetry. apply remove1_perm. now rewrite <- P0, <- Hp.
        -- intros Et. apply orb_false_iff in Et as [Et0 Eb]. apply negb_false_iff in Eb.
           apply Hok; auto. apply benign_spec with (v := v); auto.
           pose proof (get_index_spec zero eqb eqb_spec (data h0) v) as G. rewrite Hidx in G. apply G.
      * assert (Hnin : ~ In v (data h0)).
        { intros H. apply (Permutation_in _ P0) in H. apply mem_In in H. congruence. }
        rewrite (delete_absent zero eqb eqb_spec h0 v); auto; [|congruence].
        cbn [fst snd C03_Model.spec_step]. rewrite Em. cbn [negb andb Z.eqb err_notfound].
        fin R1 R2. apply rel1_intro; auto.
        intros Et. apply orb_false_iff in Et as [Et0 _]. auto.
  - (* Size *)
    cbn [C03_Model.spec_step]. unfold size. rewrite (Permutation_length P0), Nat.eqb_refl.
    fin R1 R2. exact R0.
  - (* IsEmpty *)
    cbn [C03_Model.spec_step]. unfold is_empty, size.
    replace (length (data h0) =? 0) with (nil_b (ms a)).
    2:{ rewrite <- (nil_b_perm _ _ P0). now destruct (data h0). }
    rewrite Bool.eqb_reflx. fin R1 R2. exact R0.
  - (* GetValues *)
    cbn [C03_Model.spec_step]. unfold get_values. rewrite (proj2 (ms_eqb_perm _ _) P0).
    fin R1 R2. exact R0.
  - (* FromSlice *)
    cbn in Hswo. destruct (from_slice_spec zero l c Hswo) as (l' & E & Hp & Hok). rewrite E.
    cbn [fst snd C03_Model.spec_step]. fin R1 R2.
    apply rel1_intro; cbn [data comp ms sc]; auto. now symmetry.
  - (* Merge: fresh ordered result; argument stays; receiver parked with its taint *)
    destruct (merge_spec zero h0 h1 W0) as (l' & E & Hp & Hok). rewrite E.
    cbn [fst snd C03_Model.spec_step].
    rewrite (proj2 (ms_eqb_perm _ _) P0), (proj2 (ms_eqb_perm _ _) P1). cbn [andb].
    fin R1 R0. apply rel1_intro; cbn [data comp ms sc]; auto.
    rewrite <- Hp. now apply Permutation_app.
  - (* Meld *)
    destruct (meld_spec zero h0 h1 W0) as (l' & E & Hp & Hok). rewrite E.
    cbn [fst snd C03_Model.spec_step data nil_b andb].
    eexists. split; [reflexivity|]. unfold rel. split; [|split].
    + apply rel1_intro; cbn [data comp ms sc]; auto.
      rewrite <- Hp. now apply Permutation_app.
    + apply rel1_intro; cbn [data comp ms sc]; auto.
      intros _. apply heap_ok_small. cbn. lia.
    + apply rel1_intro; cbn [data comp ms sc]; auto.
      intros _. apply heap_ok_small. cbn. lia.
  - (* Swap *)
    cbn [C03_Model.spec_step]. eexists. split; [reflexivity|]. unfold rel. auto.
  - (* Swap2 *)
    cbn [C03_Model.spec_step]. eexists. split; [reflexivity|]. unfold rel. auto.
Qed.

Lemma step_refines s sp t o :
  rel s sp t -> op_swo o ->
  exists sp', spec_step (negb (tfst t)) sp o (snd (step s o)) = Some sp' /\
              rel (fst (step s o)) sp' (taint_step s t o).
Proof.
  intros R Hs. destruct (step_refines_raw s sp t o R Hs) as (sp' & E & R').
  exists sp'. split; [exact E|]. unfold taint_step. now apply rel_norm.
Qed.

Theorem hist_ok_all ops : forall s sp t,
  rel s sp t -> Forall op_swo ops -> hist_ok s sp t ops = true.
Proof.
  induction ops as [|o ops IH]; intros s sp t R Hf; [reflexivity|].
  inversion Hf as [|? ? Ho Hf']; subst. cbn [hist_ok].
  destruct (step_refines s sp t o R Ho) as (sp' & E & R'). rewrite E. now apply IH.
Qed.

Lemma rel1_new c t : SWO c -> rel1 (new_heap c) (mkS [] c) t.
Proof. intros H. apply rel1_intro; cbn; auto. intros _. apply heap_ok_small. cbn. lia. Qed.

Lemma rel_init c0 c1 c2 :
  SWO c0 -> SWO c1 -> SWO c2 ->
  rel (new_heap c0, new_heap c1, new_heap c2) (mkS [] c0, mkS [] c1, mkS [] c2) (false, false, false).
Proof. intros H0 H1 H2. unfold rel. split; [|split]; now apply rel1_new. Qed.


(* ---------- corollaries in terms of [run] and [accepts] ---------- *)

Notation run := (run zero eqb).

Lemma run_cons s o ops :
  run s (o :: ops) = (snd (step s o) :: fst (run (fst (step s o)) ops), snd (run (fst (step s o)) ops)).
Proof.
  cbn [C03_Model.run]. destruct (step s o) as [s' r]. cbn [fst snd].
  now destruct (run s' ops).
Qed.

Lemma spec_step_weaken ord sp o r sp' :
  spec_step ord sp o r = Some sp' -> spec_step false sp o r = Some sp'.
Proof.
  destruct sp as [[a b] d]. destruct o, r; cbn [C03_Model.spec_step]; auto.
  - destruct (nil_b (ms a)); auto. cbn [negb orb].
    destruct (mem v (ms a)); cbn [andb]; [|discriminate].
    destruct (negb ord || extremal (sc a) v (ms a)); [auto | discriminate].
  - destruct (nil_b (ms a)); auto. cbn [negb orb].
    destruct (mem v (ms a)); cbn [andb]; [|discriminate].
    destruct (negb ord || extremal (sc a) v (ms a)); [auto | discriminate].
Qed.

(* conservation: EVERY history (any Deletes) is accepted by the multiset
   machine once the order requirement on Peek/Pop is dropped *)
Theorem history_conservation ops : forall s sp t,
  rel s sp t -> Forall op_swo ops ->
  accepts false sp (combine ops (fst (run s ops))) = true.
Proof.
  induction ops as [|o ops IH]; intros s sp t R Hf; [reflexivity|].
  inversion Hf as [|? ? Ho Hf']; subst. rewrite run_cons. cbn [fst combine C03_Model.accepts].
  destruct (step_refines s sp t o R Ho) as (sp' & E & R').
  rewrite (spec_step_weaken _ _ _ _ _ E). eapply IH; eauto.
Qed.

(* h0 is untainted at every step of the history *)
Fixpoint untainted (s : state) (t : taints) (ops : list op) : bool :=
  match ops with
  | [] => true
  | o :: ops' => negb (tfst t) && untainted (fst (step s o)) (taint_step s t o) ops'
  end.

Theorem history_order ops : forall s sp t,
  rel s sp t -> Forall op_swo ops -> untainted s t ops = true ->
  accepts true sp (combine ops (fst (run s ops))) = true.
Proof.
  induction ops as [|o ops IH]; intros s sp t R Hf Hu; [reflexivity|].
  inversion Hf as [|? ? Ho Hf']; subst. rewrite run_cons. cbn [fst combine C03_Model.accepts].
  cbn [untainted] in Hu. apply andb_true_iff in Hu as [Ht Hu].
  destruct (step_refines s sp t o R Ho) as (sp' & E & R').
  rewrite Ht in E. rewrite E. eapply IH; eauto.
Qed.

(* without Delete nothing is ever tainted *)
Definition not_delete (o : op) : Prop := match o with ODelete _ => False | _ => True end.

Lemma no_delete_untainted ops : forall s,
  Forall not_delete ops -> untainted s (false, false, false) ops = true.
Proof.
  induction ops as [|o ops IH]; intros s Hf; [reflexivity|].
  inversion Hf as [|? ? Ho Hf']; subst. cbn [untainted tfst fst negb andb].
  replace (taint_step s (false, false, false) o) with (false, false, false); [now apply IH|].
  unfold taint_step, norm. destruct s as [[h0 h1] h2].
  destruct (fst (C03_Model.step zero eqb (h0, h1, h2) o)) as [[k0 k1] k2].
  destruct o; cbn [taint_raw andb]; try reflexivity. destruct Ho.
Qed.

(* ---------- histories without an "inner" successful Delete ----------
   Delete(v) on array l is INNER when it succeeds and its victim (the first
   occurrence of v, the one getIndex finds) is neither the root nor in the last
   slot.  Only inner Deletes can trigger defect #20. *)
Definition inner_delete (l : list A) (v : A) : bool :=
  match get_index eqb l v with
  | Some idx => negb (idx =? 0) && negb (idx =? length l - 1)
  | None => false
  end.

Definition op_inner (s : state) (o : op) : bool :=
  match o with
  | ODelete v => inner_delete (data (fst (fst s))) v
  | _ => false
  end.

(* no operation of the history is an inner Delete in the state it is applied to *)
Fixpoint no_inner_delete (s : state) (ops : list op) : bool :=
  match ops with
  | [] => true
  | o :: ops' => negb (op_inner s o) && no_inner_delete (fst (step s o)) ops'
  end.

Lemma not_inner_benign c (l : list A) v : inner_delete l v = false -> benign_delete c l v = true.
Proof.
  unfold inner_delete, benign_delete. destruct (get_index eqb l v) as [idx|]; [|reflexivity].
  intros H. apply andb_false_iff in H as [H|H]; apply negb_false_iff in H; rewrite H; cbn.
  - reflexivity.
  - now rewrite orb_true_r.
Qed.

Lemma no_inner_untainted ops : forall s,
  no_inner_delete s ops = true -> untainted s (false, false, false) ops = true.
Proof.
  induction ops as [|o ops IH]; intros s Hn; [reflexivity|].
  cbn [no_inner_delete] in Hn. apply andb_true_iff in Hn as [Ho Hn]. apply negb_true_iff in Ho.
  cbn [untainted tfst fst negb andb].
  replace (taint_step s (false, false, false) o) with (false, false, false); [now apply IH|].
  unfold taint_step, norm. destruct s as [[h0 h1] h2].
  destruct (fst (C03_Model.step zero eqb (h0, h1, h2) o)) as [[k0 k1] k2].
  destruct o; cbn [taint_raw andb]; try reflexivity.
  cbn [op_inner fst data] in Ho. now rewrite (not_inner_benign (comp h0) _ _ Ho).
Qed.

Lemma no_delete_no_inner ops : forall s, Forall not_delete ops -> no_inner_delete s ops = true.
Proof.
  induction ops as [|o ops IH]; intros s Hf; [reflexivity|].
  inversion Hf as [|? ? Ho Hf']; subst. cbn [no_inner_delete].
  rewrite IH by assumption. destruct o; try reflexivity. destruct Ho.
Qed.

(* no operation of any history panics or runs out of fuel *)
Lemma spec_step_fail ord sp o r :
  r = RPanic \/ r = ROof -> spec_step ord sp o r = None.
Proof. destruct sp as [[a b] d]. intros [-> | ->]; destruct o; reflexivity. Qed.

Theorem history_no_failure ops : forall s sp t,
  rel s sp t -> Forall op_swo ops ->
  Forall (fun r => r <> RPanic /\ r <> ROof) (fst (run s ops)).
Proof.
  induction ops as [|o ops IH]; intros s sp t R Hf; [constructor|].
  inversion Hf as [|? ? Ho Hf']; subst. rewrite run_cons. cbn [fst].
  destruct (step_refines s sp t o R Ho) as (sp' & E & R').
  constructor; [|eapply IH; eauto].
  split; intros Er; rewrite spec_step_fail in E; auto; discriminate.
Qed.


(* ---------- Delete is total: never panics, never runs out of fuel, for ANY comparator ---------- *)

Lemma delete_total (h : heap) v :
  exists ok e h', delete eqb h v = Ok (ok, e, h').
Proof.
  destruct (list_cases (data h)) as [El | (x0 & l0 & El)].
  - rewrite (delete_empty eqb h v El). eauto.
  - destruct (mem v (data h)) eqn:Em.
    + apply mem_In in Em. destruct (delete_present zero eqb eqb_spec h v Em) as (idx & l' & _ & E & _).
      rewrite E. eauto.
    + rewrite (delete_absent zero eqb eqb_spec h v); eauto; [congruence|].
      intros H. apply mem_In in H. congruence.
Qed.


End Hist.

(* ---------- the comparators of the harness are strict weak orders ---------- *)

Lemma swo_by_key {A} (f : A -> Z) : SWO (fun a b => (f a <? f b)%Z).
Proof.
  split; [|split].
  - intros x. apply Z.ltb_irrefl.
  - intros x y z H1 H2. apply Z.ltb_lt in H1, H2. apply Z.ltb_lt. lia.
  - intros x y z H. apply Z.ltb_lt in H. destruct (f x <? f y)%Z eqn:E; [now left|].
    right. apply Z.ltb_ge in E. apply Z.ltb_lt. lia.
Qed.

Lemma swo_by_key_desc {A} (f : A -> Z) : SWO (fun a b => (f a >? f b)%Z).
Proof.
  split; [|split].
  - intros x. rewrite Z.gtb_ltb. apply Z.ltb_irrefl.
  - intros x y z H1 H2. rewrite Z.gtb_ltb in *. apply Z.ltb_lt in H1, H2. apply Z.ltb_lt. lia.
  - intros x y z H. rewrite !Z.gtb_ltb in *. apply Z.ltb_lt in H. destruct (f y <? f x)%Z eqn:E; [now left|].
    right. apply Z.ltb_ge in E. apply Z.ltb_lt. lia.
Qed.

Lemma swo_ltb : SWO Z.ltb.
Proof. exact (swo_by_key (fun x : Z => x)). Qed.

Lemma swo_gtb : SWO Z.gtb.
Proof. exact (swo_by_key_desc (fun x : Z => x)). Qed.

Lemma zeqb_spec : forall x y : Z, Z.eqb x y = true <-> x = y.
Proof. exact Z.eqb_eq. Qed.
