(* C03_ProofsMore.v — lemmas for C03, part 5 (session 3):
   * the fuel of the four loops of the model is irrelevant once it suffices
     (an [Ok] or [Panic] answer is the answer for every larger fuel), so the
     [Ok] results of the theorems are the results of Go's unbounded loops;
   * the strict-order hypothesis is NECESSARY for termination: with the
     reflexive comparator [<=] both moveUp (hence Push) and FromSlice loop
     forever — for every fuel the model answers "out of fuel";
   * Convert on a heap of at most one element installs the comparator and
     leaves the array alone, for any comparator whatsoever. *)

From Coq Require Import Permutation Sorted.
From Gogu Require Import Base C03_Model C03_Proofs C03_ProofsOps C03_ProofsHist.
Local Open Scope nat_scope.

Section Fuel.
Context {A : Type}.
Notation cmp := (A -> A -> bool).

(* an answer other than "out of fuel" *)
Definition settled {X} (r : res X) : Prop := r <> Err oof.

Lemma move_up_fuel (c : cmp) f : forall i (l : list A) k,
  settled (move_up c f i l) -> move_up c (f + k) i l = move_up c f i l.
Proof.
  induction f as [|f IH]; intros i l k H; [exfalso; now apply H|].
  cbn [move_up Nat.add] in *.
  destruct (rd l i) as [a| |]; cbn [bind] in *; try reflexivity.
  destruct (rd l (parent i)) as [b| |]; cbn [bind] in *; try reflexivity.
  destruct (negb (c a b)); [reflexivity|].
  destruct (swap l i (parent i)) as [l'| |]; cbn [bind] in *; try reflexivity.
  now apply IH.
Qed.

Lemma move_down_fuel (c : cmp) f : forall n i (l : list A) k,
  settled (move_down c f n i l) -> move_down c (f + k) n i l = move_down c f n i l.
Proof.
  induction f as [|f IH]; intros n i l k H; [exfalso; now apply H|].
  cbn [move_down Nat.add] in *.
  destruct (if left_child i <? n
            then a <- rd l (left_child i);; b <- rd l i;; Ok (if c a b then left_child i else i)
            else Ok i) as [cur1| |]; cbn [bind] in *; try reflexivity.
  destruct (if right_child i <? n
            then a <- rd l (right_child i);; b <- rd l cur1;; Ok (if c a b then right_child i else cur1)
            else Ok cur1) as [cur2| |]; cbn [bind] in *; try reflexivity.
  destruct (cur2 =? i); [reflexivity|].
  destruct (swap l i cur2) as [l'| |]; cbn [bind] in *; try reflexivity.
  now apply IH.
Qed.

Lemma fs_inner_fuel (c : cmp) f : forall i (l : list A) k,
  settled (fs_inner c f i l) -> fs_inner c (f + k) i l = fs_inner c f i l.
Proof.
  induction f as [|f IH]; intros i l k H; [exfalso; now apply H|].
  cbn [fs_inner Nat.add] in *.
  destruct (length l <=? 2 * i + 1); [reflexivity|].
  destruct (if 2 * i + 2 <? length l
            then a <- rd l (2 * i + 2);; b <- rd l (2 * i + 1);; Ok (if c a b then 2 * i + 2 else 2 * i + 1)
            else Ok (2 * i + 1)) as [cur| |]; cbn [bind] in *; try reflexivity.
  destruct (rd l cur) as [a| |]; cbn [bind] in *; try reflexivity.
  destruct (rd l i) as [b| |]; cbn [bind] in *; try reflexivity.
  destruct (negb (c a b)); [reflexivity|].
  destruct (swap l i cur) as [l'| |]; cbn [bind] in *; try reflexivity.
  now apply IH.
Qed.

Lemma fs_outer_fuel (c : cmp) f : forall (i : Z) (l : list A) k,
  settled (fs_outer c f i l) -> fs_outer c (f + k) i l = fs_outer c f i l.
Proof.
  induction f as [|f IH]; intros i l k H; [exfalso; now apply H|].
  cbn [fs_outer Nat.add] in *.
  destruct (i <? 0)%Z; [reflexivity|].
  destruct (fs_inner c (S (length l)) (Z.to_nat i) l) as [r| |]; cbn [bind] in *; try reflexivity.
  now apply IH.
Qed.

(* in the form the theorems use: an [Ok] answer persists under more fuel *)
Corollary fs_outer_ok_more (c : cmp) f f' (i : Z) (l r : list A) :
  fs_outer c f i l = Ok r -> f <= f' -> fs_outer c f' i l = Ok r.
Proof.
  intros E Hle. replace f' with (f + (f' - f)) by lia.
  rewrite fs_outer_fuel; [exact E|]. unfold settled. rewrite E. discriminate.
Qed.

Corollary move_down_ok_more (c : cmp) f f' n i (l r : list A) :
  move_down c f n i l = Ok r -> f <= f' -> move_down c f' n i l = Ok r.
Proof.
  intros E Hle. replace f' with (f + (f' - f)) by lia.
  rewrite move_down_fuel; [exact E|]. unfold settled. rewrite E. discriminate.
Qed.

Corollary move_up_ok_more (c : cmp) f f' i (l r : list A) :
  move_up c f i l = Ok r -> f <= f' -> move_up c f' i l = Ok r.
Proof.
  intros E Hle. replace f' with (f + (f' - f)) by lia.
  rewrite move_up_fuel; [exact E|]. unfold settled. rewrite E. discriminate.
Qed.

(* ---------- Convert on at most one element: comparator installed, array untouched ---------- *)

Lemma convert_small (h : heap (A := A)) (c : cmp) :
  length (data h) <= 1 -> convert h c = Ok (mkHeap (data h) c).
Proof.
  intros H. unfold convert. destruct (data h) as [|x [|y t]]; cbn in H; try lia; reflexivity.
Qed.

End Fuel.

(* ---------- a reflexive comparator: the loops never end ---------- *)

(* heap.NewHeap(func(a, b int) bool { return a <= b }).Push(1):
   moveUp(0) compares data[0] with data[parent(0)] = data[0], finds it "precedes",
   swaps the slot with itself and continues from parent(0) = 0 — forever *)
Lemma move_up_leb_diverges : forall fuel, move_up Z.leb fuel 0 [1%Z] = Err oof.
Proof. induction fuel as [|f IH]; [reflexivity|]. cbn. exact IH. Qed.

(* heap.FromSlice([]int{1, 1, 1}, <=): the inner loop swaps index 0 with a child
   and leaves i = 2 (or 1); the outer loop counts down from there to 0 again and
   finds the same array — forever *)
Lemma fs_outer_leb_diverges : forall fuel,
  fs_outer Z.leb fuel 0%Z [1; 1; 1]%Z = Err oof /\
  fs_outer Z.leb fuel 1%Z [1; 1; 1]%Z = Err oof /\
  fs_outer Z.leb fuel 2%Z [1; 1; 1]%Z = Err oof.
Proof.
  induction fuel as [|f (I0 & I1 & I2)]; [repeat split; reflexivity|].
  repeat split; cbn -[fs_outer]; cbn [fs_outer]; cbn; assumption.
Qed.

(* ---------- heapsort under the concrete comparator kinds ---------- *)

Lemma StronglySorted_impl {A} (R R' : A -> A -> Prop) (l : list A) :
  (forall a b, R a b -> R' a b) -> StronglySorted R l -> StronglySorted R' l.
Proof.
  intros H Hs. induction Hs as [|a t Hs IH Hf]; constructor; [exact IH|].
  eapply Forall_impl; [|exact Hf]. intros b. apply H.
Qed.

Lemma sort_by_key_desc_cmp {A} (zero : A) (key : A -> Z) (l : list A) :
  exists r, sort l (fun a b => (key a >? key b)%Z) = Ok r /\ Permutation l r /\
            StronglySorted (fun a b => (key a <= key b)%Z) r.
Proof.
  destruct (sort_spec zero l _ (C03_ProofsHist.swo_by_key_desc key)) as (r & E & Hp & Hs).
  exists r. repeat split; auto. eapply StronglySorted_impl; [|exact Hs].
  cbn. intros a b Hb. rewrite Z.gtb_ltb in Hb. apply Z.ltb_ge in Hb. lia.
Qed.

Lemma sort_by_key_asc_cmp {A} (zero : A) (key : A -> Z) (l : list A) :
  exists r, sort l (fun a b => (key a <? key b)%Z) = Ok r /\ Permutation l r /\
            StronglySorted (fun a b => (key a >= key b)%Z) r.
Proof.
  destruct (sort_spec zero l _ (C03_ProofsHist.swo_by_key key)) as (r & E & Hp & Hs).
  exists r. repeat split; auto. eapply StronglySorted_impl; [|exact Hs].
  cbn. intros a b Hb. apply Z.ltb_ge in Hb. lia.
Qed.
