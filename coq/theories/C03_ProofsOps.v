(* C03_ProofsOps.v — lemmas for C03, part 2: every heap operation and heapsort. *)

From Coq Require Import Permutation Sorted.
From Gogu Require Import Base C03_Model C03_Proofs.
Local Open Scope nat_scope.

Section Ops.
Context {A : Type} (zero : A) (eqb : A -> A -> bool).
Hypothesis eqb_spec : forall x y, eqb x y = true <-> x = y.
Notation get := (get zero).
Notation swp := (swp zero).
Notation hp := (hp zero).
Notation heap_ok := (heap_ok zero).
Notation heap := (@heap A).

(* ---------- Peek ---------- *)

Lemma peek_eq (h : heap) :
  peek zero h = Ok (match data h with [] => zero | x :: _ => x end).
Proof. unfold peek, size. destruct (data h) as [|x l]; reflexivity. Qed.

Lemma peek_extremal c (l : list A) :
  SWO c -> heap_ok c l -> forall y, In y l -> c y (get l 0) = false.
Proof.
  intros Hc H y Hy. apply (In_get zero) in Hy as (j & Hj & <-).
  now apply (hp_root_extremal zero c Hc (length l)).
Qed.

(* ---------- Push ---------- *)

Lemma push1_spec (h : heap) v :
  SWO (comp h) ->
  exists l', push1 h v = Ok (mkHeap l' (comp h)) /\
             Permutation (v :: data h) l' /\
             (heap_ok (comp h) (data h) -> heap_ok (comp h) l').
Proof.
  intros Hc. unfold push1.
  set (l := data h ++ [v]).
  assert (Hlen : length l = S (length (data h))) by (unfold l; rewrite app_length; cbn; lia).
  destruct (move_up_spec zero (comp h) Hc (length l) (length l - 1) l) as (l' & E & Hl & Hp & Hok); try lia.
  rewrite E. cbn [bind]. exists l'. repeat split.
  - rewrite <- Hp. unfold l. apply Permutation_cons_append.
  - intros H. apply Hok. rewrite Hlen. replace (S (length (data h)) - 1) with (length (data h)) by lia.
    split.
    + intros j H0 Hj Hne. pose proof (parent_lt j H0).
      unfold l. rewrite !(get_app_l zero) by lia. apply H; lia.
    + intros j H0 Hj Hpj. pose proof (parent_lt j H0). lia.
Qed.

Lemma push_spec vs : forall (h : heap),
  SWO (comp h) ->
  exists l', push h vs = Ok (mkHeap l' (comp h)) /\
             Permutation (data h ++ vs) l' /\
             (heap_ok (comp h) (data h) -> heap_ok (comp h) l').
Proof.
  induction vs as [|v vs IH]; intros h Hc; cbn [push].
  - exists (data h). destruct h; cbn. rewrite app_nil_r. auto.
  - destruct (push1_spec h v Hc) as (l1 & E1 & Hp1 & Hok1). rewrite E1. cbn [bind].
    destruct (IH (mkHeap l1 (comp h)) Hc) as (l2 & E2 & Hp2 & Hok2). cbn [data comp] in *.
    exists l2. repeat split; auto.
    rewrite <- Hp2, <- Hp1. cbn. symmetry. apply Permutation_middle.
Qed.

(* ---------- removing a slot: swap with the last, truncate ---------- *)

Lemma trunc_swp (l : list A) idx :
  idx < length l ->
  let l2 := firstn (length l - 1) (swp l idx (length l - 1)) in
  length l2 = length l - 1 /\
  Permutation l (get l idx :: l2) /\
  (forall j, j < length l - 1 -> j <> idx -> get l2 j = get l j) /\
  (idx < length l - 1 -> get l2 idx = get l (length l - 1)).
Proof.
  intros Hi l2. set (n := length l) in *.
  assert (Hl1 : length (swp l idx (n - 1)) = n) by apply swp_length.
  repeat split.
  - unfold l2. rewrite firstn_length. lia.
  - rewrite (swp_perm zero l idx (n - 1)) at 1 by (fold n; lia).
    rewrite <- (firstn_all (swp l idx (n - 1))) at 1. rewrite Hl1.
    replace n with (S (n - 1)) at 1 by lia.
    rewrite (firstn_all_get zero) by lia. fold l2.
    rewrite get_swp_r by (fold n; lia).
    symmetry. apply Permutation_cons_append.
  - intros j Hj Hne. unfold l2. rewrite get_firstn by lia. apply get_swp_other; lia.
  - intros H. unfold l2. rewrite get_firstn by lia. apply get_swp_l; fold n; lia.
Qed.

(* an ordered array stays ordered below the root when its last slot is cut off
   and the root is replaced *)
Lemma hp1_after_root_swap c (l : list A) :
  heap_ok c l ->
  hp c 1 (length l - 1) (firstn (length l - 1) (swp l 0 (length l - 1))).
Proof.
  intros H j H0 Hj Hp.
  destruct (Nat.eq_dec (length l) 0) as [E|N]; [lia|].
  destruct (trunc_swp l 0 ltac:(lia)) as (_ & _ & Hg & _).
  pose proof (parent_lt j H0).
  rewrite !Hg by lia. apply H; lia.
Qed.

(* ---------- Pop ---------- *)

Lemma pop_empty (h : heap) : data h = [] -> pop zero h = Ok (zero, h).
Proof. intros E. unfold pop. now rewrite E. Qed.

Lemma pop_spec (h : heap) :
  data h <> [] ->
  exists l', pop zero h = Ok (get (data h) 0, mkHeap l' (comp h)) /\
             Permutation (data h) (get (data h) 0 :: l') /\
             (SWO (comp h) -> heap_ok (comp h) (data h) -> heap_ok (comp h) l').
Proof.
  intros Hne. unfold pop. rewrite peek_eq.
  remember (data h) as l eqn:El. remember (length l) as n eqn:En.
  assert (Hn : 0 < n) by (destruct l; [congruence | cbn in En; lia]).
  assert (Hx : match l with [] => zero | x :: _ => x end = get l 0) by (destruct l; reflexivity).
  rewrite Hx. clear Hx.
  replace (n =? 0) with false by (symmetry; apply Nat.eqb_neq; lia).
  cbn [bind]. rewrite (rd_ok zero) by lia. cbn [bind].
  assert (Eq : firstn (n - 1) (upd l 0 (get l (n - 1))) = firstn (n - 1) (swp l 0 (n - 1))).
  { unfold C03_Proofs.swp. now rewrite firstn_upd_ge with (i := n - 1) by lia. }
  rewrite Eq.
  pose proof (trunc_swp l 0) as T. pose proof (hp1_after_root_swap (comp h) l) as T1.
  rewrite <- En in T, T1. cbv zeta in T.
  destruct (T Hn) as (Hl2 & Hperm & _). clear T.
  set (l2 := firstn (n - 1) (swp l 0 (n - 1))) in *.
  destruct (move_down_frame zero (comp h) (S (length l2)) (length l2) 0 l2 ltac:(lia) ltac:(lia))
    as (l3 & E3 & Hl3 & Hp3 & Hs3 & _).
  unfold sift_down. rewrite E3. cbn [bind].
  exists l3. repeat split.
  - etransitivity; [exact Hperm|]. constructor. eapply perm_prefix_suffix; eauto.
  - intros Hc Hok. unfold C03_Proofs.heap_ok. rewrite Hl3.
    eapply move_down_order; [exact Hc | | | | exact E3]; try lia.
    apply SD_start. rewrite Hl2. now apply T1.
Qed.

(* ---------- Delete ---------- *)

Lemma get_index_from_spec (l : list A) v : forall k,
  match get_index_from eqb l v k with
  | Some i => k <= i /\ i - k < length l /\ get l (i - k) = v /\
              forall j, j < i - k -> get l j <> v
  | None => ~ In v l
  end.
Proof.
  induction l as [|x t IH]; intros k; cbn [get_index_from].
  - intros [].
  - destruct (eqb x v) eqn:E.
    + apply eqb_spec in E. subst x. rewrite Nat.sub_diag. cbn. repeat split; auto; lia.
    + specialize (IH (S k)). destruct (get_index_from eqb t v (S k)) as [i|].
      * destruct IH as (H1 & H2 & H3 & H4).
        replace (i - k) with (S (i - S k)) by lia. cbn [length]. repeat split; try lia.
        -- exact H3.
        -- intros [|j] Hj; cbn.
           ++ intros ->. rewrite (proj2 (eqb_spec v v) eq_refl) in E. discriminate.
           ++ apply H4. lia.
      * intros [->|H]; [|now apply IH].
        rewrite (proj2 (eqb_spec v v) eq_refl) in E. discriminate.
Qed.

Lemma get_index_spec (l : list A) v :
  match get_index eqb l v with
  | Some i => i < length l /\ get l i = v /\ forall j, j < i -> get l j <> v
  | None => ~ In v l
  end.
Proof.
  unfold get_index. pose proof (get_index_from_spec l v 0) as H.
  destruct (get_index_from eqb l v 0) as [i|]; [|exact H].
  rewrite Nat.sub_0_r in H. tauto.
Qed.

Lemma delete_empty (h : heap) v : data h = [] -> delete eqb h v = Ok (false, err_empty, h).
Proof. intros E. unfold delete, delete_with. now rewrite E. Qed.

Lemma delete_absent (h : heap) v :
  data h <> [] -> ~ In v (data h) -> delete eqb h v = Ok (false, err_notfound, h).
Proof.
  intros Hne Hin. unfold delete, delete_with.
  destruct (data h) as [|x t] eqn:E; [congruence|]. cbn [length Nat.eqb].
  pose proof (get_index_spec (x :: t) v) as H.
  destruct (get_index eqb (x :: t) v) as [i|]; [|reflexivity].
  destruct H as (Hi & Hg & _). exfalso. apply Hin. rewrite <- Hg. apply nth_In. exact Hi.
Qed.

(* the array Delete hands to its final moveDown: victim swapped with the last slot, slot cut off *)
Definition del_array (l : list A) (idx : nat) : list A :=
  firstn (length l - 1) (swp l idx (length l - 1)).

Lemma delete_present (h : heap) v :
  In v (data h) ->
  exists idx l',
    get_index eqb (data h) v = Some idx /\
    delete eqb h v = Ok (true, 0%Z, mkHeap l' (comp h)) /\
    Permutation (data h) (v :: l') /\
    (SWO (comp h) -> hp (comp h) 1 (length (data h) - 1) (del_array (data h) idx) ->
     heap_ok (comp h) l').
Proof.
  intros Hin. unfold delete, delete_with, del_array.
  remember (data h) as l eqn:El. remember (length l) as n eqn:En.
  assert (Hn : 0 < n) by (destruct l; [destruct Hin | cbn in En; lia]).
  replace (n =? 0) with false by (symmetry; apply Nat.eqb_neq; lia).
  pose proof (get_index_spec l v) as H.
  destruct (get_index eqb l v) as [idx|]; [|contradiction].
  destruct H as (Hi & Hg & _). rewrite <- En in Hi.
  exists idx.
  rewrite (swap_ok zero) by lia. cbn [bind].
  pose proof (trunc_swp l idx) as T. rewrite <- En in T. cbv zeta in T.
  destruct (T Hi) as (Hl2 & Hperm & _). clear T.
  set (l2 := firstn (n - 1) (swp l idx (n - 1))) in *.
  destruct (move_down_frame zero (comp h) (S (n - 1)) (n - 1) 0 l2 ltac:(lia) ltac:(lia))
    as (l3 & E3 & Hl3 & Hp3 & Hs3 & _).
  rewrite E3. cbn [bind]. exists l3. repeat split.
  - rewrite Hg in Hperm. etransitivity; [exact Hperm|]. constructor. eapply perm_prefix_suffix; eauto.
  - intros Hc H1. unfold C03_Proofs.heap_ok. rewrite Hl3, Hl2.
    eapply move_down_order; [exact Hc | | | | exact E3]; try lia.
    apply SD_start. exact H1.
Qed.

(* sufficient conditions for the pinned Delete to keep the order *)
Lemma del_array_root c (l : list A) :
  heap_ok c l -> hp c 1 (length l - 1) (del_array l 0).
Proof. apply hp1_after_root_swap. Qed.

Lemma del_array_last c (l : list A) :
  heap_ok c l -> hp c 1 (length l - 1) (del_array l (length l - 1)).
Proof.
  intros H. unfold del_array. rewrite swp_same.
  intros j H0 Hj Hp. pose proof (parent_lt j H0).
  rewrite !get_firstn by lia. apply H; lia.
Qed.

(* the general condition: the element moved into the hole (the old last one)
   fits there — it does not precede the hole's parent (not needed when the
   hole is a child of the root: the re-sift from the root repairs that link)
   and is not preceded by the hole's children *)
Lemma del_array_fits c (l : list A) idx :
  heap_ok c l -> idx < length l - 1 ->
  (2 < idx -> c (get l (length l - 1)) (get l (parent idx)) = false) ->
  (forall j, 0 < j -> j < length l - 1 -> parent j = idx -> c (get l j) (get l (length l - 1)) = false) ->
  hp c 1 (length l - 1) (del_array l idx).
Proof.
  intros H Hi Hup Hdown j H0 Hj Hp.
  destruct (trunc_swp l idx ltac:(lia)) as (_ & _ & Hg & Hgi). fold (del_array l idx) in Hg, Hgi.
  pose proof (parent_lt j H0) as Hpj. pose proof (parent_spec j H0).
  destruct (Nat.eq_dec j idx) as [->|Nj].
  - rewrite Hgi by lia. rewrite Hg by lia. apply Hup. lia.
  - destruct (Nat.eq_dec (parent j) idx) as [Ep|Np].
    + rewrite Ep, Hgi by lia. rewrite Hg by lia. now apply Hdown.
    + rewrite !Hg by lia. apply H; lia.
Qed.

(* ---------- Convert: bottom-up heapify ---------- *)

Lemma heapify_from_spec c (Hc : SWO c) n : forall i l,
  n <= length l -> hp c (S i) n l ->
  exists l', heapify_from c n i l = Ok l' /\ length l' = length l /\
             Permutation (firstn n l) (firstn n l') /\ skipn n l' = skipn n l /\ hp c 0 n l'.
Proof.
  induction i as [|i IH]; intros l Hn H; cbn [heapify_from].
  - destruct (sift_down_spec zero c Hc 0 n l Hn H) as (l' & E & Hl & Hp & Hs & _ & Hh).
    rewrite E. cbn [bind]. exists l'. auto.
  - destruct (sift_down_spec zero c Hc (S i) n l Hn H) as (l1 & E & Hl & Hp & Hs & _ & Hh).
    rewrite E. cbn [bind].
    destruct (IH l1 ltac:(lia) Hh) as (l2 & E2 & Hl2 & Hp2 & Hs2 & Hh2).
    exists l2. repeat split; auto; try congruence.
    now rewrite Hp.
Qed.

Lemma convert_spec (h : heap) c :
  SWO c ->
  exists l', convert h c = Ok (mkHeap l' c) /\ Permutation (data h) l' /\ heap_ok c l'.
Proof.
  intros Hc. unfold convert.
  remember (data h) as l eqn:El. remember (length l) as n eqn:En.
  destruct (Nat.le_gt_cases n 1) as [Hsmall|Hbig].
  - (* sizes 0 and 1 *)
    destruct l as [|x [|y t]]; cbn in En; try lia; subst n.
    + cbn. exists []. repeat split; auto. apply heap_ok_small. cbn. lia.
    + cbn -[heapify_from].
      destruct (heapify_from_spec c Hc 1 0 [x] ltac:(cbn; lia)) as (l' & E & Hl & Hp & _ & Hh).
      { apply hp_vacuous. lia. }
      rewrite E. cbn [bind]. exists l'. repeat split.
      * destruct l' as [|y [|z t]]; cbn in Hl; try lia. exact Hp.
      * unfold C03_Proofs.heap_ok. now rewrite Hl.
  - assert (Hq : (Z.quot (Z.of_nat n - 2) 2 = Z.of_nat ((n - 2) / 2))%Z).
    { rewrite Z.quot_div_nonneg by lia. rewrite Nat2Z.inj_div. f_equal. lia. }
    rewrite Hq. replace (Z.of_nat ((n - 2) / 2) <? 0)%Z with false by (symmetry; apply Z.ltb_ge; lia).
    rewrite Nat2Z.id.
    assert (Hs : n <= 2 * ((n - 2) / 2) + 3).
    { pose proof (Nat.div_mod_eq (n - 2) 2). pose proof (Nat.mod_upper_bound (n - 2) 2). lia. }
    destruct (heapify_from_spec c Hc n ((n - 2) / 2) l ltac:(lia)) as (l' & E & Hl & Hp & _ & Hh).
    { apply hp_vacuous. lia. }
    rewrite E. cbn [bind]. exists l'. repeat split.
    + rewrite En in Hp. rewrite firstn_all in Hp. rewrite <- Hl in Hp. now rewrite firstn_all in Hp.
    + unfold C03_Proofs.heap_ok. now rewrite Hl, <- En.
Qed.

(* ---------- FromSlice ---------- *)

(* the inner loop: one sift-down from i, returning where it stopped *)
Lemma fs_inner_spec c (Hc : SWO c) fuel : forall i l,
  length l - i < fuel ->
  exists i' l', fs_inner c fuel i l = Ok (i', l') /\ length l' = length l /\ Permutation l l' /\
                i <= i' /\ (i < length l -> i' < length l) /\
                (forall m, m <= i -> SD zero c m (length l) i l -> hp c m (length l) l').
Proof.
  induction fuel as [|f IH]; intros i l Hf; [lia|].
  cbn [fs_inner]. set (n := length l).
  destruct (n <=? 2 * i + 1) eqn:EL; [apply Nat.leb_le in EL | apply Nat.leb_gt in EL].
  - exists i, l. repeat split; auto.
    intros m Hm HSD. eapply SD_stop; [exact HSD|].
    intros j H0 Hj Hp. pose proof (parent_spec j H0). lia.
  - assert (Hch : forall j, 0 < j -> parent j = i -> j = 2 * i + 1 \/ j = 2 * i + 2)
      by (intros; now apply parent_inv).
    (* the two continuations, for a chosen child k *)
    assert (Hgo : forall k, (k = 2 * i + 1 \/ k = 2 * i + 2) -> k < n ->
              (forall j, 0 < j -> j < n -> parent j = i -> c (get l j) (get l k) = false) ->
              exists i' l',
                (if negb (c (get l k) (get l i)) then Ok (i, l)
                 else l0 <- swap l i k ;; fs_inner c f k l0) = Ok (i', l') /\
                length l' = length l /\ Permutation l l' /\ i <= i' /\ (i < length l -> i' < length l) /\
                (forall m, m <= i -> SD zero c m (length l) i l -> hp c m (length l) l')).
    { intros k Hk Hkn Hbest. fold n.
      assert (Hpk : parent k = i) by (destruct Hk as [-> | ->]; [apply parent_left | apply parent_right]).
      destruct (c (get l k) (get l i)) eqn:C1; cbn [negb].
      - rewrite (swap_ok zero) by (fold n; lia). cbn [bind].
        destruct (IH k (swp l i k)) as (i' & l' & E & Hl & Hp & Hle & Hlt & Hh).
        { rewrite swp_length. fold n. lia. }
        rewrite swp_length in Hl, Hlt, Hh. fold n in Hl, Hlt, Hh.
        exists i', l'. repeat split; auto; try lia.
        + rewrite <- Hp. apply swp_perm; fold n; lia.
        + intros m Hm HSD. apply Hh; [lia|]. apply SD_step; auto; fold n; lia.
      - exists i, l. repeat split; auto.
        intros m Hm HSD. eapply SD_stop; [exact HSD|].
        intros j H0 Hj Hp. eapply (swo_nc_trans c Hc); [apply Hbest; auto | exact C1]. }
    destruct (2 * i + 2 <? n) eqn:ER; [apply Nat.ltb_lt in ER | apply Nat.ltb_ge in ER].
    + rewrite !(rd_ok zero) by (fold n; lia). cbn [bind].
      destruct (c (get l (2 * i + 2)) (get l (2 * i + 1))) eqn:C0; cbn [bind];
        rewrite ?(rd_ok zero) by (fold n; lia); cbn [bind].
      * apply Hgo; auto.
        intros j H0 Hj Hp. destruct (Hch j H0 Hp) as [-> | ->].
        -- now apply (swo_asym c Hc).
        -- apply (swo_irrefl c Hc).
      * apply Hgo; auto.
        intros j H0 Hj Hp. destruct (Hch j H0 Hp) as [-> | ->]; [apply (swo_irrefl c Hc) | exact C0].
    + cbn [bind]. rewrite !(rd_ok zero) by (fold n; lia). cbn [bind]. apply Hgo; auto.
      intros j H0 Hj Hp. destruct (Hch j H0 Hp) as [-> | ->]; [apply (swo_irrefl c Hc) | lia].
Qed.

(* re-visiting an index whose children do not precede it does nothing: this
   is why the clobbered outer counter is harmless *)
Lemma fs_inner_noop c fuel i l :
  0 < fuel ->
  (forall j, 0 < j -> j < length l -> parent j = i -> c (get l j) (get l i) = false) ->
  fs_inner c fuel i l = Ok (i, l).
Proof.
  intros Hf H. destruct fuel as [|f]; [lia|]. cbn [fs_inner].
  destruct (length l <=? 2 * i + 1) eqn:EL; [reflexivity | apply Nat.leb_gt in EL].
  destruct (2 * i + 2 <? length l) eqn:ER; [apply Nat.ltb_lt in ER | apply Nat.ltb_ge in ER].
  - rewrite !(rd_ok zero) by lia. cbn [bind].
    destruct (c (get l (2 * i + 2)) (get l (2 * i + 1))); rewrite !(rd_ok zero) by lia; cbn [bind].
    + now rewrite (H (2 * i + 2)) by (try apply parent_right; lia).
    + now rewrite (H (2 * i + 1)) by (try apply parent_left; lia).
  - cbn [bind]. rewrite !(rd_ok zero) by lia. cbn [bind].
    now rewrite (H (2 * i + 1)) by (try apply parent_left; lia).
Qed.

(* the outer loop terminates within the fuel and orders the array *)
Lemma fs_outer_spec c (Hc : SWO c) n : forall m k fuel (i : Z) l,
  length l = n -> hp c m n l ->
  (Z.of_nat m - 1 <= i < Z.of_nat n)%Z -> k = Z.to_nat (i - (Z.of_nat m - 1)) ->
  Z.to_nat (i + 2) + m * S n <= fuel ->
  exists l', fs_outer c fuel i l = Ok l' /\ Permutation l l' /\ hp c 0 n l'.
Proof.
  induction m as [|m IHm].
  - (* all indices are roots of ordered subtrees: only no-op visits remain *)
    induction k as [|k IHk]; intros fuel i l Hl Hh Hi Hk Hf.
    + assert (i = (-1)%Z) by lia. subst i.
      destruct fuel as [|f]; [cbn in Hf; lia|]. cbn. exists l. auto.
    + destruct fuel as [|f]; [lia|]. cbn [fs_outer].
      replace (i <? 0)%Z with false by (symmetry; apply Z.ltb_ge; lia).
      rewrite fs_inner_noop; [| lia |].
      2:{ intros j H0 Hj Hp. rewrite <- Hp. apply Hh; lia. }
      cbn [bind fst snd]. rewrite Z2Nat.id by lia.
      apply (IHk f (i - 1)%Z l); auto; lia.
  - induction k as [|k IHk]; intros fuel i l Hl Hh Hi Hk Hf.
    + (* i = m: the one real sift-down of this level *)
      assert (Ei : i = Z.of_nat m) by lia. subst i.
      destruct fuel as [|f]; [lia|]. cbn [fs_outer].
      replace (Z.of_nat m <? 0)%Z with false by (symmetry; apply Z.ltb_ge; lia).
      rewrite Nat2Z.id.
      destruct (fs_inner_spec c Hc (S (length l)) m l ltac:(lia)) as (i' & l' & E & Hl' & Hp & Hle & Hlt & Hh').
      rewrite E. cbn [bind fst snd].
      rewrite Hl in *.
      destruct (IHm (Z.to_nat (Z.of_nat i' - 1 - (Z.of_nat m - 1))) f (Z.of_nat i' - 1)%Z l') as (l2 & E2 & Hp2 & Hh2); auto.
      * apply Hh'; [lia|]. now apply SD_start.
      * lia.
      * assert (i' < n) by (apply Hlt; lia).
        replace (Z.to_nat (Z.of_nat i' - 1 + 2)) with (S i') by lia.
        replace (Z.to_nat (Z.of_nat m + 2)) with (S (S m)) in Hf by lia.
        cbn [Nat.mul] in Hf. lia.
      * exists l2. repeat split; auto. now rewrite Hp.
    + destruct fuel as [|f]; [lia|]. cbn [fs_outer].
      replace (i <? 0)%Z with false by (symmetry; apply Z.ltb_ge; lia).
      rewrite fs_inner_noop; [| lia |].
      2:{ intros j H0 Hj Hp. rewrite <- Hp. apply Hh; lia. }
      cbn [bind fst snd]. rewrite Z2Nat.id by lia.
      apply (IHk f (i - 1)%Z l); auto; lia.
Qed.

Lemma heapify_slice_spec c (l : list A) :
  SWO c -> exists l', heapify_slice c l = Ok l' /\ Permutation l l' /\ heap_ok c l'.
Proof.
  intros Hc. unfold heapify_slice, fs_fuel. set (n := length l).
  assert (Hq : 2 * (n / 2) <= n /\ n <= 2 * (n / 2) + 1).
  { pose proof (Nat.div_mod_eq n 2). pose proof (Nat.mod_upper_bound n 2). lia. }
  destruct (fs_outer_spec c Hc n (n / 2) 0 (S n * S n) (Z.of_nat (n / 2) - 1)%Z l) as (l' & E & Hp & Hh); auto.
  - apply hp_vacuous. lia.
  - lia.
  - lia.
  - replace (Z.to_nat (Z.of_nat (n / 2) - 1 + 2)) with (S (n / 2)) by lia. nia.
  - exists l'. repeat split; auto. unfold C03_Proofs.heap_ok.
    now rewrite <- (Permutation_length Hp).
Qed.

Lemma from_slice_spec (l : list A) c :
  SWO c -> exists l', from_slice l c = Ok (mkHeap l' c) /\ Permutation l l' /\ heap_ok c l'.
Proof.
  intros Hc. unfold from_slice. destruct (heapify_slice_spec c l Hc) as (l' & E & Hp & Hh).
  rewrite E. cbn [bind]. eauto.
Qed.

(* ---------- Merge / Meld ---------- *)

Lemma merge_spec (h h2 : heap) :
  SWO (comp h) ->
  exists l', merge h h2 = Ok (mkHeap l' (comp h)) /\
             Permutation (data h ++ data h2) l' /\ heap_ok (comp h) l'.
Proof.
  intros Hc. unfold merge, new_heap.
  destruct (push_spec (data h) (mkHeap [] (comp h)) Hc) as (l1 & E1 & Hp1 & Hok1). cbn [data comp] in *.
  rewrite E1. cbn [bind].
  destruct (push_spec (data h2) (mkHeap l1 (comp h)) Hc) as (l2 & E2 & Hp2 & Hok2). cbn [data comp] in *.
  rewrite E2. exists l2. repeat split.
  - rewrite <- Hp2, <- Hp1. reflexivity.
  - apply Hok2, Hok1. apply heap_ok_small. cbn. lia.
Qed.

Lemma meld_spec (h h2 : heap) :
  SWO (comp h) ->
  exists l', meld h h2 = Ok (mkHeap l' (comp h), mkHeap [] (comp h), mkHeap [] (comp h2)) /\
             Permutation (data h ++ data h2) l' /\ heap_ok (comp h) l'.
Proof.
  intros Hc. unfold meld. destruct (merge_spec h h2 Hc) as (l' & E & Hp & Hh).
  rewrite E. cbn [bind]. eauto.
Qed.


(* ---------- heapsort ---------- *)

(* stage i of the extraction loop: l[0..i] is an ordered heap, l(i..n) is in
   its final order, and no element of the heap part precedes (under c) an
   element of the finished part *)
Definition sort_inv (c : A -> A -> bool) (n i : nat) (l : list A) : Prop :=
  length l = n /\ hp c 0 (S i) l /\
  (forall p q, p <= i -> i < q -> q < n -> c (get l p) (get l q) = false) /\
  (forall p q, i < p -> p < q -> q < n -> c (get l p) (get l q) = false).

Lemma prefix_perm_get (l1 l2 : list A) k p :
  k <= length l1 -> k <= length l2 ->
  Permutation (firstn k l1) (firstn k l2) -> p < k ->
  exists p', p' < k /\ get l2 p = get l1 p'.
Proof.
  intros H1 H2 Hp Hpk.
  assert (Hin : In (get l2 p) (firstn k l2)).
  { rewrite <- (get_firstn zero l2 k p Hpk). apply nth_In. rewrite firstn_length. lia. }
  apply (Permutation_in _ (Permutation_sym Hp)) in Hin.
  apply (In_get zero) in Hin as (p' & Hp' & E). rewrite firstn_length in Hp'.
  exists p'. split; [lia|]. rewrite <- E. apply get_firstn. lia.
Qed.

Lemma suffix_same_get (l1 l2 : list A) k q :
  skipn k l2 = skipn k l1 -> k <= q -> get l2 q = get l1 q.
Proof.
  intros Hs Hq. replace q with (k + (q - k)) by lia. rewrite <- !get_skipn. now rewrite Hs.
Qed.

Lemma sort_loop_spec c (Hc : SWO c) n : forall i l,
  i < n -> sort_inv c n i l ->
  exists l', sort_loop c i l = Ok l' /\ Permutation l l' /\ length l' = n /\
             forall p q, p < q -> q < n -> c (get l' p) (get l' q) = false.
Proof.
  induction i as [|i IH]; intros l Hi (Hl & Hh & H3 & H4).
  - cbn. exists l. repeat split; auto.
    intros p q Hpq Hq. destruct (Nat.eq_dec p 0) as [->|N]; [apply H3 | apply H4]; lia.
  - cbn [sort_loop]. rewrite (swap_ok zero) by lia. cbn [bind].
    set (l1 := swp l 0 (S i)).
    assert (Hl1 : length l1 = n) by (unfold l1; now rewrite swp_length).
    assert (G0 : get l1 0 = get l (S i)) by (apply get_swp_l; lia).
    assert (Gi : get l1 (S i) = get l 0) by (apply get_swp_r; lia).
    assert (Go : forall x, x <> 0 -> x <> S i -> get l1 x = get l x) by (intros; now apply get_swp_other).
    destruct (sift_down_spec zero c Hc 0 (S i) l1 ltac:(lia)) as (l2 & E & Hl2 & Hp & Hs & _ & Hh2).
    { intros j H0 Hj Hpj. pose proof (parent_lt j H0). rewrite !Go by lia. apply Hh; lia. }
    rewrite E. cbn [bind].
    (* every element of the new heap part is an element of the old heap part *)
    assert (Hpre : forall p, p <= i -> exists p'', p'' <= S i /\ get l2 p = get l p'').
    { intros p Hp'. destruct (prefix_perm_get l1 l2 (S i) p) as (p' & Hp'' & Eg); try lia; auto.
      rewrite Eg. destruct (Nat.eq_dec p' 0) as [->|N].
      - exists (S i). split; [lia | exact G0].
      - exists p'. split; [lia | apply Go; lia]. }
    assert (Hsuf : forall q, S i <= q -> get l2 q = get l1 q) by (intros; now apply (suffix_same_get l1 l2 (S i))).
    destruct (IH l2 ltac:(lia)) as (l3 & E3 & Hp3 & Hl3 & Hsorted).
    { repeat split; auto; try lia.
      - intros p q Hp' Hiq Hq. destruct (Hpre p Hp') as (p'' & Hp'' & ->).
        rewrite Hsuf by lia. destruct (Nat.eq_dec q (S i)) as [->|N].
        + rewrite Gi. apply (hp_root_extremal zero c Hc (S (S i)) l Hh). lia.
        + rewrite Go by lia. apply H3; lia.
      - intros p q Hip Hpq Hq. rewrite !Hsuf by lia.
        rewrite (Go q) by lia. destruct (Nat.eq_dec p (S i)) as [->|N].
        + rewrite Gi. apply H3; lia.
        + rewrite Go by lia. apply H4; lia. }
    exists l3. repeat split; auto.
    rewrite <- Hp3. transitivity l1.
    + apply swp_perm; lia.
    + eapply perm_prefix_suffix; eauto.
Qed.

Lemma sorted_of_index (R : A -> A -> Prop) (l : list A) :
  (forall p q, p < q -> q < length l -> R (get l p) (get l q)) -> StronglySorted R l.
Proof.
  induction l as [|x t IH]; intros H; constructor.
  - apply IH. intros p q Hpq Hq. apply (H (S p) (S q)); cbn; lia.
  - apply Forall_forall. intros y Hy. apply (In_get zero) in Hy as (q & Hq & <-).
    apply (H 0 (S q)); cbn; lia.
Qed.

Lemma sort_spec (l : list A) c :
  SWO c ->
  exists r, sort l c = Ok r /\ Permutation l r /\
            StronglySorted (fun a b => c a b = false) r.
Proof.
  intros Hc. unfold sort.
  destruct (heapify_slice_spec c l Hc) as (l' & E & Hp & Hh). rewrite E. cbn [bind].
  destruct (Nat.eq_dec (length l') 0) as [E0|N].
  - destruct l'; [|discriminate]. cbn. exists []. repeat split; auto. constructor.
  - destruct (sort_loop_spec c Hc (length l') (length l' - 1) l' ltac:(lia)) as (r & Er & Hpr & Hlr & Hs).
    { repeat split; try lia. replace (S (length l' - 1)) with (length l') by lia. exact Hh. }
    exists r. repeat split; auto.
    + now rewrite Hp.
    + apply sorted_of_index. rewrite Hlr. exact Hs.
Qed.


(* ---------- draining an ordered heap by Pop yields its elements in comparator order ---------- *)

Lemma drain_spec c (Hc : SWO c) : forall f (l : list A),
  heap_ok c l -> length l <= f ->
  exists r, drain zero f (mkHeap l c) = Ok (r, mkHeap [] c) /\ Permutation l r /\
            StronglySorted (fun a b => c b a = false) r.
Proof.
  induction f as [|f IH]; intros l Hok Hf.
  - destruct l; [|cbn in Hf; lia]. cbn. exists []. repeat split; auto. constructor.
  - cbn [drain]. unfold is_empty, size. cbn [data].
    destruct l as [|x t] eqn:El.
    + cbn. exists []. repeat split; auto. constructor.
    + rewrite <- El in *. replace (length l =? 0) with false by (symmetry; apply Nat.eqb_neq; rewrite El; cbn; lia).
      destruct (pop_spec (mkHeap l c)) as (l' & E & Hp & Hk); [cbn; congruence|].
      cbn [data comp] in *. rewrite E. cbn [bind fst snd].
      assert (Hl' : length l' <= f).
      { apply Permutation_length in Hp. cbn in Hp. lia. }
      destruct (IH l' (Hk Hc Hok) Hl') as (r & Er & Hpr & Hs).
      rewrite Er. cbn [bind fst snd]. exists (get l 0 :: r). repeat split.
      * etransitivity; [exact Hp|]. now constructor.
      * constructor; [exact Hs|]. apply Forall_forall. intros y Hy.
        apply (peek_extremal c l Hc Hok).
        apply (Permutation_in _ (Permutation_sym Hp)). right.
        now apply (Permutation_in _ (Permutation_sym Hpr)).
Qed.


End Ops.
