(* C03_ProofsWire.v — lemmas for C03, part 4: the histories and comparators the
   wire format (C03_Wire.v, i.e. the correspondence harness) can express are
   within the hypotheses of the history theorems. *)

From Gogu Require Import Base C03_Model C03_Proofs C03_ProofsOps C03_ProofsHist C03_Wire.
Local Open Scope nat_scope.

Lemma cmp_of_swo c : SWO (cmp_of c).
Proof.
  unfold cmp_of. destruct (c =? 0)%Z; [exact swo_ltb|]. destruct (c =? 1)%Z; [exact swo_gtb|].
  destruct (c =? 2)%Z; [apply (swo_by_key key10) | apply (swo_by_key_desc key10)].
Qed.

Lemma dec_ops_swo fuel : forall w ops, dec_ops fuel w = Some ops -> Forall (op_swo (A := Z)) ops.
Proof.
  induction fuel as [|f IH]; intros w ops H; cbn [dec_ops] in H.
  - destruct w; inversion H; constructor.
  - destruct w as [|code w1]; [inversion H; constructor|].
    cbv zeta in H.
    repeat match type of H with
           | (if ?b then _ else _) = _ => destruct b
           end;
    repeat match type of H with
           | match ?x with _ => _ end = _ => destruct x eqn:?
           | (let (_, _) := ?x in _) = _ => destruct x eqn:?
           end;
    try discriminate; inversion H; subst; constructor; cbn; auto using cmp_of_swo; eapply IH; eauto.
Qed.

(* the linear sortedness check of the wire judge is the specification's quadratic one *)
Lemma sorted_adj_opp (c : Z -> Z -> bool) : SWO c -> forall l, sorted_adj c l = sorted_opp c l.
Proof.
  intros Hc. induction l as [|x t IH]; [reflexivity|].
  destruct t as [|y t']; [reflexivity|].
  change (sorted_adj c (x :: y :: t')) with (negb (c x y) && sorted_adj c (y :: t')).
  rewrite IH. cbn [sorted_opp forallb].
  destruct (c x y) eqn:Cxy; cbn [negb andb]; [reflexivity|].
  destruct (forallb (fun y0 => negb (c y y0)) t') eqn:Fy; cbn [andb]; [|now rewrite andb_false_r].
  destruct (sorted_opp c t') eqn:St; [|now rewrite !andb_false_r].
  replace (forallb (fun y0 => negb (c x y0)) t') with true; [reflexivity|].
  symmetry. apply forallb_forall. intros z Hz.
  rewrite forallb_forall in Fy. specialize (Fy z Hz). apply negb_true_iff in Fy.
  apply negb_true_iff. eapply (swo_nc_trans c Hc); eauto.
Qed.

Lemma sort_ok_fast_spec c input result :
  sort_ok_fast (cmp_of c) input result = sort_ok Z.eqb (cmp_of c) input result.
Proof. unfold sort_ok_fast, sort_ok. now rewrite (sorted_adj_opp _ (cmp_of_swo c)). Qed.
