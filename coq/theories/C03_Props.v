(* C03_Props.v — property C03: "Heap yields elements in comparator order and
   conserves them", stated over the model of C03_Model.v (heap.go after the
   repair of defect #19; defect #20 is pinned by the test-suite and mirrored).

   Every theorem holds for EVERY element type A with a zero value and a
   decidable equality [eqb] (Go's ==), and EVERY comparator that is a strict
   weak order ([SWO]: irreflexive, transitive, negatively transitive) — this
   covers <, > and "by key with ties".  Multisets are lists up to [Permutation].

   Reading guide:
     heap_ok zero c l     every element of l does not precede its parent (index (i-1)/2)
     An operation returning [Ok ...] did not panic and did not run out of the
     fuel the model passes (termination is thereby PROVED, not assumed).
     [spec_step], [accepts]  the reference multiset machine = the specification (C03_Model.v)

   Only statements here; proofs are in C03_Proofs.v, C03_ProofsOps.v,
   C03_ProofsHist.v, C03_ProofsWire.v. *)

From Coq Require Import Permutation Sorted.
From Gogu Require Import Base C03_Model C03_Proofs C03_ProofsOps C03_ProofsHist C03_Wire C03_ProofsWire.
Local Open Scope nat_scope.

Definition dec_eq {A} (eqb : A -> A -> bool) : Prop := forall x y, eqb x y = true <-> x = y.

(* ====================================================================== *)
(* Peek / Pop: the returned element is one no held element precedes        *)
(* ====================================================================== *)

(* Peek returns the zero value on an empty heap, else the root; and the root of
   an ordered heap is extremal: no held element precedes it *)
Theorem C03_peek_extremal : forall (A : Type) (zero : A) (h : heap (A := A)),
  SWO (comp h) -> heap_ok zero (comp h) (data h) ->
  match data h with
  | [] => peek zero h = Ok zero
  | _ => exists v, peek zero h = Ok v /\ In v (data h) /\ forall y, In y (data h) -> comp h y v = false
  end.
Proof.
  intros A zero h Hc Hok. rewrite (peek_eq zero). destruct (data h) as [|x t] eqn:E; [reflexivity|].
  exists x. split; [reflexivity|]. split; [now left|].
  intros y Hy. change x with (get zero (x :: t) 0). apply (peek_extremal zero); auto.
Qed.
Print Assumptions C03_peek_extremal.

(* Pop on an empty heap returns the zero value and changes nothing *)
Theorem C03_pop_empty : forall (A : Type) (zero : A) (h : heap (A := A)),
  data h = [] -> pop zero h = Ok (zero, h).
Proof. exact (fun A zero h => pop_empty zero h). Qed.
Print Assumptions C03_pop_empty.

(* Pop on a non-empty heap (ANY comparator, ordered or not): no panic, returns
   what Peek returns, removes exactly one occurrence of it (so Size drops by
   one), keeps the comparator; and if the heap was ordered under an SWO the
   returned element is extremal and the heap stays ordered *)
Theorem C03_pop_spec : forall (A : Type) (zero : A) (h : heap (A := A)),
  data h <> [] ->
  exists v l', pop zero h = Ok (v, mkHeap l' (comp h)) /\
               peek zero h = Ok v /\
               Permutation (data h) (v :: l') /\
               length l' = length (data h) - 1 /\
               (SWO (comp h) -> heap_ok zero (comp h) (data h) ->
                (forall y, In y (data h) -> comp h y v = false) /\ heap_ok zero (comp h) l').
Proof.
  intros A zero h Hne. destruct (pop_spec zero h Hne) as (l' & E & Hp & Hok).
  exists (get zero (data h) 0), l'.
  split; [exact E|]. split; [|split; [exact Hp|split]].
  - rewrite (peek_eq zero). destruct (data h); [congruence | reflexivity].
  - apply Permutation_length in Hp. cbn in Hp. lia.
  - intros Hc Hk. split; [|now apply Hok].
    intros y Hy. now apply (peek_extremal zero).
Qed.
Print Assumptions C03_pop_spec.


(* the headline: draining an ordered heap by Pop (what the harness does at the
   end of every case) empties it and yields ALL its elements in comparator
   order — no later element precedes an earlier one *)
Theorem C03_drain_in_order : forall (A : Type) (zero : A) (c : A -> A -> bool) (l : list A) (fuel : nat),
  SWO c -> heap_ok zero c l -> length l <= fuel ->
  exists r, drain zero fuel (mkHeap l c) = Ok (r, mkHeap [] c) /\ Permutation l r /\
            StronglySorted (fun a b => c b a = false) r.
Proof. exact (fun A zero c l fuel Hc => drain_spec zero c Hc fuel l). Qed.
Print Assumptions C03_drain_in_order.

(* ====================================================================== *)
(* Push, Convert, FromSlice, Merge, Meld: same elements, order established  *)
(* ====================================================================== *)

(* Push(vs...) adds exactly vs and preserves the order invariant *)
Theorem C03_push_ok : forall (A : Type) (zero : A) (h : heap (A := A)) (vs : list A),
  SWO (comp h) ->
  exists l', push h vs = Ok (mkHeap l' (comp h)) /\
             Permutation (data h ++ vs) l' /\
             (heap_ok zero (comp h) (data h) -> heap_ok zero (comp h) l').
Proof. exact (fun A zero h vs => push_spec zero vs h). Qed.
Print Assumptions C03_push_ok.

(* Convert(c) keeps the same elements, installs c and ESTABLISHES the order
   under c whatever the array looked like before *)
Theorem C03_convert_ok : forall (A : Type) (zero : A) (h : heap (A := A)) (c : A -> A -> bool),
  SWO c ->
  exists l', convert h c = Ok (mkHeap l' c) /\ Permutation (data h) l' /\ heap_ok zero c l'.
Proof. exact (fun A zero h c => convert_spec zero h c). Qed.
Print Assumptions C03_convert_ok.

(* FromSlice(l, c): terminates within the fuel despite the clobbered outer loop
   counter, keeps the same elements, establishes the order *)
Theorem C03_from_slice_ok : forall (A : Type) (zero : A) (l : list A) (c : A -> A -> bool),
  SWO c ->
  exists l', from_slice l c = Ok (mkHeap l' c) /\ Permutation l l' /\ heap_ok zero c l'.
Proof. exact (fun A zero l c => from_slice_spec zero l c). Qed.
Print Assumptions C03_from_slice_ok.

(* Merge: a fresh ordered heap under the receiver's comparator holding the
   elements of both; the model's inputs are values, so they are intact by
   construction — [step] below returns them unchanged and the harness observes it *)
Theorem C03_merge_ok : forall (A : Type) (zero : A) (h h2 : heap (A := A)),
  SWO (comp h) ->
  exists l', merge h h2 = Ok (mkHeap l' (comp h)) /\
             Permutation (data h ++ data h2) l' /\ heap_ok zero (comp h) l'.
Proof. exact (fun A zero h h2 => merge_spec zero h h2). Qed.
Print Assumptions C03_merge_ok.

(* Meld: the same new heap, and both inputs are left empty (comparators kept) *)
Theorem C03_meld_ok : forall (A : Type) (zero : A) (h h2 : heap (A := A)),
  SWO (comp h) ->
  exists l', meld h h2 = Ok (mkHeap l' (comp h), mkHeap [] (comp h), mkHeap [] (comp h2)) /\
             Permutation (data h ++ data h2) l' /\ heap_ok zero (comp h) l'.
Proof. exact (fun A zero h h2 => meld_spec zero h h2). Qed.
Print Assumptions C03_meld_ok.

(* ====================================================================== *)
(* Delete                                                                  *)
(* ====================================================================== *)

(* after the repair of #19 Delete never panics and never runs out of fuel — for
   every heap, value and comparator whatsoever (ordered or not, SWO or not) *)
Theorem C03_delete_never_panics : forall (A : Type) (zero : A) (eqb : A -> A -> bool),
  dec_eq eqb -> forall (h : heap (A := A)) v, exists ok e h', delete eqb h v = Ok (ok, e, h').
Proof. exact (fun A zero eqb H h v => delete_total zero eqb H h v). Qed.
Print Assumptions C03_delete_never_panics.

(* Delete reports absence: (false, error) and the heap is untouched *)
Theorem C03_delete_absent : forall (A : Type) (zero : A) (eqb : A -> A -> bool),
  dec_eq eqb -> forall (h : heap (A := A)) v,
  ~ In v (data h) ->
  exists e, delete eqb h v = Ok (false, e, h) /\ e <> 0%Z.
Proof.
  intros A zero eqb H h v Hn. destruct (data h) as [|x t] eqn:E.
  - exists err_empty. split; [now apply delete_empty | discriminate].
  - exists err_notfound. split; [|discriminate].
    apply (delete_absent zero eqb H); rewrite E; [discriminate | exact Hn].
Qed.
Print Assumptions C03_delete_absent.

(* a successful Delete removes exactly one occurrence of the named value
   (any comparator, any array): conservation holds in spite of defect #20 *)
Theorem C03_delete_conserves : forall (A : Type) (zero : A) (eqb : A -> A -> bool),
  dec_eq eqb -> forall (h : heap (A := A)) v,
  In v (data h) ->
  exists l', delete eqb h v = Ok (true, 0%Z, mkHeap l' (comp h)) /\ Permutation (data h) (v :: l').
Proof.
  intros A zero eqb H h v Hin.
  destruct (delete_present zero eqb H h v Hin) as (idx & l' & _ & E & Hp & _). eauto.
Qed.
Print Assumptions C03_delete_conserves.

(* FULL STATEMENT (false for the code as pinned, see the refutation below):
     forall h v, SWO (comp h) -> heap_ok (data h) -> In v (data h) ->
       delete h v = Ok (true, 0, h') -> heap_ok (data h').
   PROVED PART: the order survives when the victim (first occurrence of v) is the
   root, or sits in the last slot, or the element moved into the hole fits there
   ([fits_b]: it does not precede the hole's parent — not required for the two
   children of the root — and no child of the hole precedes it). *)
Theorem C03_delete_keeps_order_partial : forall (A : Type) (zero : A) (eqb : A -> A -> bool),
  dec_eq eqb -> forall (h : heap (A := A)) v,
  SWO (comp h) -> heap_ok zero (comp h) (data h) -> In v (data h) ->
  benign_delete zero eqb (comp h) (data h) v = true ->
  exists l', delete eqb h v = Ok (true, 0%Z, mkHeap l' (comp h)) /\ heap_ok zero (comp h) l'.
Proof.
  intros A zero eqb H h v Hc Hok Hin Hb.
  destruct (delete_present zero eqb H h v Hin) as (idx & l' & Hidx & E & _ & Hk).
  exists l'. split; [exact E|]. apply Hk; auto. apply (benign_spec zero eqb) with (v := v); auto.
  pose proof (get_index_spec zero eqb H (data h) v) as G. rewrite Hidx in G. apply G.
Qed.
Print Assumptions C03_delete_keeps_order_partial.

(* what [benign_delete] says, positionally: root and last slot are always benign *)
Theorem C03_delete_root_or_last_benign : forall (A : Type) (zero : A) (eqb : A -> A -> bool) c (l : list A) v idx,
  get_index eqb l v = Some idx -> idx = 0 \/ idx = length l - 1 ->
  benign_delete zero eqb c l v = true.
Proof.
  intros A zero eqb c l v idx E [-> | ->]; unfold benign_delete; rewrite E.
  - reflexivity.
  - rewrite Nat.eqb_refl. now rewrite orb_true_r.
Qed.
Print Assumptions C03_delete_root_or_last_benign.

(* defect #20 (KNOWN FINDING, pinned by TestHeap_MaxHeap): the min-heap built
   from 1..8, Delete(2): the result [1;8;3;4;5;6;7] violates heap order (4 at index 3 under 8)
   and the following Pops yield 1 3 6 5 4 7 8 — rejected by the specification *)
Theorem C03_delete_breaks_order_refuted :
  exists (l : list Z) (v : Z) (l' : list Z),
    heap_ok 0%Z Z.ltb l /\
    delete Z.eqb (mkHeap l Z.ltb) v = Ok (true, 0%Z, mkHeap l' Z.ltb) /\
    (exists j, 0 < j < length l' /\ Z.ltb (get 0%Z l' j) (get 0%Z l' (parent j)) = true) /\
    accepts 0%Z Z.eqb true (mkS l Z.ltb, mkS [] Z.ltb)
      (combine [ODelete v; OPop; OPop; OPop]
               (fst (run 0%Z Z.eqb (mkHeap l Z.ltb, mkHeap [] Z.ltb) [ODelete v; OPop; OPop; OPop]))) = false.
Proof.
  exists [1; 2; 3; 4; 5; 6; 7; 8]%Z, 2%Z, [1; 8; 3; 4; 5; 6; 7]%Z.
  split; [|split; [|split]].
  - intros j H0 Hj _. cbn in Hj.
    do 8 (destruct j as [|j]; [try lia; reflexivity|]). lia.
  - vm_compute. reflexivity.
  - exists 3. vm_compute. repeat split; lia.
  - vm_compute. reflexivity.
Qed.
Print Assumptions C03_delete_breaks_order_refuted.

(* defect #19 as it was before fixes/builder-c03/0001 (moveDown(len, 0) on the
   truncated slice): Delete(1) on the heap [1;2] panics *)
Theorem C03_delete_unrepaired_panics_refuted :
  exists (l : list Z) (v : Z), heap_ok 0%Z Z.ltb l /\ delete_unrepaired Z.eqb (mkHeap l Z.ltb) v = Panic.
Proof.
  exists [1; 2]%Z, 1%Z. split; [|vm_compute; reflexivity].
  intros j H0 Hj _. cbn in Hj. do 2 (destruct j as [|j]; [try lia; reflexivity|]). lia.
Qed.
Print Assumptions C03_delete_unrepaired_panics_refuted.

(* ====================================================================== *)
(* heapsort                                                                *)
(* ====================================================================== *)

(* Sort returns a permutation of its input in which c r[i] r[j] is false whenever
   i < j: for c = (>) that is ascending order, for c = (<) descending *)
Theorem C03_sort_spec : forall (A : Type) (zero : A) (l : list A) (c : A -> A -> bool),
  SWO c ->
  exists r, sort l c = Ok r /\ Permutation l r /\ StronglySorted (fun a b => c a b = false) r.
Proof. exact (fun A zero l c => sort_spec zero l c). Qed.
Print Assumptions C03_sort_spec.

Theorem C03_sort_max_heap_ascending : forall (l : list Z),
  exists r, sort l Z.gtb = Ok r /\ Permutation l r /\ StronglySorted Z.le r.
Proof.
  intros l. destruct (sort_spec 0%Z l Z.gtb swo_gtb) as (r & E & Hp & Hs).
  exists r. repeat split; auto.
  eapply StronglySorted_ind with (P := StronglySorted Z.le); [constructor | | exact Hs].
  intros a t _ IH Hf. constructor; [exact IH|].
  eapply Forall_impl; [|exact Hf]. cbn. intros b Hb. rewrite Z.gtb_ltb in Hb. apply Z.ltb_ge in Hb. lia.
Qed.
Print Assumptions C03_sort_max_heap_ascending.

(* ====================================================================== *)
(* histories                                                               *)
(* ====================================================================== *)

(* C03_history.  Run ANY sequence of Push, Pop, Peek, Clear, Convert, Delete,
   Size, IsEmpty, GetValues, FromSlice, Merge, Meld (and exchanging the two heap
   variables) from two empty heaps, all comparators being strict weak orders.
   Then the model and the reference multiset machine stay in step for the whole
   history ([hist_ok]): every output is one the specification permits — sizes,
   emptiness, value multisets, Delete's verdict, Merge leaving both inputs
   intact, Meld emptying them, Pop/Peek returning a held element (zero when
   empty) and Pop/Delete removing exactly one occurrence — and, at every point
   where h0 is not tainted, Pop/Peek return an element no held element
   precedes.  A heap variable becomes tainted only by a successful Delete that
   is not benign (victim neither root nor last slot and the moved element does
   not fit the hole: defect #20) and is clean again after Clear, Convert,
   FromSlice, Merge, Meld or when at most one element is left. *)
Theorem C03_history : forall (A : Type) (zero : A) (eqb : A -> A -> bool),
  dec_eq eqb -> forall (c0 c1 : A -> A -> bool) (ops : list (op (A := A))),
  SWO c0 -> SWO c1 -> Forall op_swo ops ->
  hist_ok zero eqb (new_heap c0, new_heap c1) (mkS [] c0, mkS [] c1) (false, false) ops = true.
Proof.
  intros A zero eqb H c0 c1 ops H0 H1 Hf.
  apply (hist_ok_all zero eqb H); auto. now apply rel_init.
Qed.
Print Assumptions C03_history.

(* conservation for EVERY history, Deletes of any kind included: the trace of
   the model is accepted by the multiset machine without the order requirement *)
Theorem C03_history_conservation : forall (A : Type) (zero : A) (eqb : A -> A -> bool),
  dec_eq eqb -> forall (c0 c1 : A -> A -> bool) (ops : list (op (A := A))),
  SWO c0 -> SWO c1 -> Forall op_swo ops ->
  accepts zero eqb false (mkS [] c0, mkS [] c1)
    (combine ops (fst (run zero eqb (new_heap c0, new_heap c1) ops))) = true.
Proof.
  intros A zero eqb H c0 c1 ops H0 H1 Hf.
  apply (history_conservation zero eqb H) with (t := (false, false)); auto. now apply rel_init.
Qed.
Print Assumptions C03_history_conservation.

(* the whole property, order included, for every history in which h0 is never
   tainted when an operation starts ... *)
Theorem C03_history_order : forall (A : Type) (zero : A) (eqb : A -> A -> bool),
  dec_eq eqb -> forall (c0 c1 : A -> A -> bool) (ops : list (op (A := A))),
  SWO c0 -> SWO c1 -> Forall op_swo ops ->
  untainted zero eqb (new_heap c0, new_heap c1) (false, false) ops = true ->
  accepts zero eqb true (mkS [] c0, mkS [] c1)
    (combine ops (fst (run zero eqb (new_heap c0, new_heap c1) ops))) = true.
Proof.
  intros A zero eqb H c0 c1 ops H0 H1 Hf Hu.
  apply (history_order zero eqb H) with (t := (false, false)); auto. now apply rel_init.
Qed.
Print Assumptions C03_history_order.

(* ... in particular for every history without Delete *)
Theorem C03_history_without_delete : forall (A : Type) (zero : A) (eqb : A -> A -> bool),
  dec_eq eqb -> forall (c0 c1 : A -> A -> bool) (ops : list (op (A := A))),
  SWO c0 -> SWO c1 -> Forall op_swo ops -> Forall not_delete ops ->
  accepts zero eqb true (mkS [] c0, mkS [] c1)
    (combine ops (fst (run zero eqb (new_heap c0, new_heap c1) ops))) = true.
Proof.
  intros A zero eqb H c0 c1 ops H0 H1 Hf Hn.
  apply (history_order zero eqb H) with (t := (false, false)); auto.
  - now apply rel_init.
  - now apply no_delete_untainted.
Qed.
Print Assumptions C03_history_without_delete.

(* no operation of any history panics or fails to terminate within its fuel *)
Theorem C03_history_no_panic : forall (A : Type) (zero : A) (eqb : A -> A -> bool),
  dec_eq eqb -> forall (c0 c1 : A -> A -> bool) (ops : list (op (A := A))),
  SWO c0 -> SWO c1 -> Forall op_swo ops ->
  Forall (fun r => r <> RPanic /\ r <> ROof) (fst (run zero eqb (new_heap c0, new_heap c1) ops)).
Proof.
  intros A zero eqb H c0 c1 ops H0 H1 Hf.
  apply (history_no_failure zero eqb H) with (sp := (mkS [] c0, mkS [] c1)) (t := (false, false)); auto.
  now apply rel_init.
Qed.
Print Assumptions C03_history_no_panic.


(* every history the wire format / harness can express is covered: its
   comparators (<, >, by key ascending/descending) are strict weak orders *)
Theorem C03_wire_histories : forall (c0 c1 : Z) (w : list Z) (ops : list (op (A := Z))),
  dec_ops (length w) w = Some ops ->
  hist_ok 0%Z Z.eqb (new_heap (cmp_of c0), new_heap (cmp_of c1))
          (mkS [] (cmp_of c0), mkS [] (cmp_of c1)) (false, false) ops = true.
Proof.
  intros c0 c1 w ops H. apply (hist_ok_all 0%Z Z.eqb zeqb_spec).
  - apply rel_init; apply cmp_of_swo.
  - eapply dec_ops_swo; eauto.
Qed.
Print Assumptions C03_wire_histories.

Theorem C03_wire_sort : forall (c : Z) (l : list Z),
  exists r, sort l (cmp_of c) = Ok r /\ sort_ok Z.eqb (cmp_of c) l r = true.
Proof.
  intros c l. destruct (sort_spec 0%Z l (cmp_of c) (cmp_of_swo c)) as (r & E & Hp & Hs).
  exists r. split; [exact E|]. unfold sort_ok. apply andb_true_iff. split.
  - apply (ms_eqb_perm Z.eqb zeqb_spec). now symmetry.
  - clear E Hp. induction Hs as [|a t Hs IH Hf]; [reflexivity|]. cbn. rewrite IH, andb_true_r.
    apply forallb_forall. intros y Hy. rewrite Forall_forall in Hf. now rewrite (Hf y Hy).
Qed.
Print Assumptions C03_wire_sort.

(* ====================================================================== *)
(* non-vacuity: the hypotheses are met by the comparators of the harness   *)
(* and by concrete non-trivial states                                      *)
(* ====================================================================== *)

Example C03_swo_lt : SWO Z.ltb.
Proof. exact swo_ltb. Qed.
Example C03_swo_gt : SWO Z.gtb.
Proof. exact swo_gtb. Qed.
(* ordering structs by a key: elements with equal keys tie *)
Example C03_swo_by_key : forall (A : Type) (key : A -> Z),
  SWO (fun a b => (key a <? key b)%Z) /\ SWO (fun a b => (key a >? key b)%Z).
Proof. intros A key. split; [apply swo_by_key | apply swo_by_key_desc]. Qed.
Example C03_dec_eq_Z : dec_eq Z.eqb.
Proof. exact zeqb_spec. Qed.

(* a depth-3 ordered heap with duplicate keys, a benign and a non-benign Delete on it *)
Example C03_heap_ok_example :
  heap_ok 0%Z Z.ltb [1; 2; 3; 4; 5; 6; 7; 8]%Z /\
  benign_delete 0%Z Z.eqb Z.ltb [1; 2; 3; 4; 5; 6; 7; 8]%Z 1%Z = true /\
  benign_delete 0%Z Z.eqb Z.ltb [1; 2; 3; 4; 5; 6; 7; 8]%Z 4%Z = true /\
  benign_delete 0%Z Z.eqb Z.ltb [1; 2; 3; 4; 5; 6; 7; 8]%Z 2%Z = false.
Proof.
  split; [|vm_compute; auto].
  intros j H0 Hj _. cbn in Hj. do 8 (destruct j as [|j]; [try lia; reflexivity|]). lia.
Qed.

(* a history with a Delete that stays untainted, and one that gets tainted *)
Example C03_untainted_example :
  untainted 0%Z Z.eqb (new_heap Z.ltb, new_heap Z.gtb) (false, false)
    [OFromSlice Z.ltb [5; 3; 8; 1; 9; 2; 7]%Z; ODelete 1%Z; OPop; ODelete 9%Z; OPeek; OMerge; OPop] = true /\
  untainted 0%Z Z.eqb (new_heap Z.ltb, new_heap Z.gtb) (false, false)
    [OFromSlice Z.ltb [1; 2; 3; 4; 5; 6; 7; 8]%Z; ODelete 2%Z; OPop] = false.
Proof. vm_compute. auto. Qed.
