(* C03_Props.v — property C03: "Heap yields elements in comparator order and
   conserves them", stated over the model of C03_Model.v (heap.go after the
   repair of defect #19; defect #20 is pinned by the test-suite and mirrored).

   Every theorem holds for EVERY element type A with a zero value and a
   decidable equality [eqb] (Go's ==), and EVERY comparator that is a strict
   weak order ([SWO]: irreflexive, transitive, negatively transitive) — this
   covers <, > and "by key with ties".  Multisets are lists up to [Permutation].

   Reading guide:
     heap_ok zero c l     every element of l does not precede its parent (index (i-1)/2)
     An operation returning [Ok ...] did not panic and did not run out of the
     fuel the model passes (termination is thereby PROVED, not assumed).
     [spec_step], [accepts]  the reference multiset machine = the specification (C03_Model.v)

   Histories run over THREE heap variables (C03_Model.v: h0 = the heap operated
   on, h1 = the argument of Merge/Meld, h2 = the receiver of the last Merge/Meld)
   so that "Merge leaves both inputs intact, Meld empties them" is a statement
   about heaps that stay in use afterwards.

   Naming: [_refuted] = a witness that the clause FAILS on the code as shipped
   (mirrored by the model); [_partial] = the strongest true part of a clause
   that is refuted in general; everything else is proved at full strength.

   Only statements here; proofs are in C03_Proofs.v, C03_ProofsOps.v,
   C03_ProofsHist.v, C03_ProofsMore.v, C03_ProofsWire.v. *)

From Coq Require Import Permutation Sorted.
From Gogu Require Import Base C03_Model C03_Proofs C03_ProofsOps C03_ProofsHist C03_ProofsMore C03_Wire C03_ProofsWire.
Local Open Scope nat_scope.

Definition dec_eq {A} (eqb : A -> A -> bool) : Prop := forall x y, eqb x y = true <-> x = y.

(* ====================================================================== *)
(* Peek / Pop: the returned element is one no held element precedes        *)
(* ====================================================================== *)

(* Peek returns the zero value on an empty heap, else the root; and the root of
   an ordered heap is extremal: no held element precedes it *)
Theorem C03_peek_extremal : forall (A : Type) (zero : A) (h : heap (A := A)),
  SWO (comp h) -> heap_ok zero (comp h) (data h) ->
  match data h with
  | [] => peek zero h = Ok zero
  | _ => exists v, peek zero h = Ok v /\ In v (data h) /\ forall y, In y (data h) -> comp h y v = false
  end.
Proof.
  intros A zero h Hc Hok. rewrite (peek_eq zero). destruct (data h) as [|x t] eqn:E; [reflexivity|].
  exists x. split; [reflexivity|]. split; [now left|].
  intros y Hy. change x with (get zero (x :: t) 0). apply (peek_extremal zero); auto.
Qed.
Print Assumptions C03_peek_extremal.

(* Pop on an empty heap returns the zero value and changes nothing *)
Theorem C03_pop_empty : forall (A : Type) (zero : A) (h : heap (A := A)),
  data h = [] -> pop zero h = Ok (zero, h).
Proof. exact (fun A zero h => pop_empty zero h). Qed.
Print Assumptions C03_pop_empty.

(* Pop on a non-empty heap (ANY comparator, ordered or not): no panic, returns
   what Peek returns, removes exactly one occurrence of it (so Size drops by
   one), keeps the comparator; and if the heap was ordered under an SWO the
   returned element is extremal and the heap stays ordered *)
Theorem C03_pop_spec : forall (A : Type) (zero : A) (h : heap (A := A)),
  data h <> [] ->
  exists v l', pop zero h = Ok (v, mkHeap l' (comp h)) /\
               peek zero h = Ok v /\
               Permutation (data h) (v :: l') /\
               length l' = length (data h) - 1 /\
               (SWO (comp h) -> heap_ok zero (comp h) (data h) ->
                (forall y, In y (data h) -> comp h y v = false) /\ heap_ok zero (comp h) l').
Proof.
  intros A zero h Hne. destruct (pop_spec zero h Hne) as (l' & E & Hp & Hok).
  exists (get zero (data h) 0), l'.
  split; [exact E|]. split; [|split; [exact Hp|split]].
  - rewrite (peek_eq zero). destruct (data h); [congruence | reflexivity].
  - apply Permutation_length in Hp. cbn in Hp. lia.
  - intros Hc Hk. split; [|now apply Hok].
    intros y Hy. now apply (peek_extremal zero).
Qed.
Print Assumptions C03_pop_spec.


(* the headline: draining an ordered heap by Pop (what the harness does at the
   end of every case) empties it and yields ALL its elements in comparator
   order — no later element precedes an earlier one *)
Theorem C03_drain_in_order : forall (A : Type) (zero : A) (c : A -> A -> bool) (l : list A) (fuel : nat),
  SWO c -> heap_ok zero c l -> length l <= fuel ->
  exists r, drain zero fuel (mkHeap l c) = Ok (r, mkHeap [] c) /\ Permutation l r /\
            StronglySorted (fun a b => c b a = false) r.
Proof. exact (fun A zero c l fuel Hc => drain_spec zero c Hc fuel l). Qed.
Print Assumptions C03_drain_in_order.

(* ====================================================================== *)
(* Push, Convert, FromSlice, Merge, Meld: same elements, order established  *)
(* ====================================================================== *)

(* Push(vs...) adds exactly vs and preserves the order invariant *)
Theorem C03_push_ok : forall (A : Type) (zero : A) (h : heap (A := A)) (vs : list A),
  SWO (comp h) ->
  exists l', push h vs = Ok (mkHeap l' (comp h)) /\
             Permutation (data h ++ vs) l' /\
             (heap_ok zero (comp h) (data h) -> heap_ok zero (comp h) l').
Proof. exact (fun A zero h vs => push_spec zero vs h). Qed.
Print Assumptions C03_push_ok.

(* Convert(c) keeps the same elements, installs c and ESTABLISHES the order
   under c whatever the array looked like before *)
Theorem C03_convert_ok : forall (A : Type) (zero : A) (h : heap (A := A)) (c : A -> A -> bool),
  SWO c ->
  exists l', convert h c = Ok (mkHeap l' c) /\ Permutation (data h) l' /\ heap_ok zero c l'.
Proof. exact (fun A zero h c => convert_spec zero h c). Qed.
Print Assumptions C03_convert_ok.

(* FromSlice(l, c): terminates within the fuel despite the clobbered outer loop
   counter, keeps the same elements, establishes the order *)
Theorem C03_from_slice_ok : forall (A : Type) (zero : A) (l : list A) (c : A -> A -> bool),
  SWO c ->
  exists l', from_slice l c = Ok (mkHeap l' c) /\ Permutation l l' /\ heap_ok zero c l'.
Proof. exact (fun A zero l c => from_slice_spec zero l c). Qed.
Print Assumptions C03_from_slice_ok.

(* Convert on a heap of 0 or 1 elements (fresh, cleared, drained, melded away):
   the comparator IS installed and the array is untouched — for ANY comparator.
   (Go's loop bound (size-2)/2 truncates to -1 / 0 there; a guard "nothing to
   reorder" placed before [h.comp = comp] would break exactly this.) *)
Theorem C03_convert_small : forall (A : Type) (h : heap (A := A)) (c : A -> A -> bool),
  length (data h) <= 1 -> convert h c = Ok (mkHeap (data h) c).
Proof. exact (fun A h c => convert_small h c). Qed.
Print Assumptions C03_convert_small.

(* ... and the pushes that follow are ordered by the NEW comparator: after
   Convert(c) on such a heap and Push(vs...), Peek/Pop return an element no held
   element precedes under c *)
Theorem C03_convert_small_then_push : forall (A : Type) (zero : A) (h : heap (A := A)) (c : A -> A -> bool) (vs : list A),
  SWO c -> length (data h) <= 1 ->
  exists h1 l', convert h c = Ok h1 /\ push h1 vs = Ok (mkHeap l' c) /\
                Permutation (data h ++ vs) l' /\ heap_ok zero c l' /\
                forall y, In y l' -> c y (get zero l' 0) = false.
Proof.
  intros A zero h c vs Hc Hs. exists (mkHeap (data h) c).
  destruct (push_spec zero vs (mkHeap (data h) c) Hc) as (l' & E & Hp & Hok). cbn [data comp] in *.
  exists l'. split; [now apply convert_small|]. split; [exact E|]. split; [exact Hp|].
  assert (Hk : heap_ok zero c l') by (apply Hok; now apply heap_ok_small).
  split; [exact Hk|]. intros y Hy. now apply (peek_extremal zero).
Qed.
Print Assumptions C03_convert_small_then_push.

(* FUEL.  The model's loops carry fuel; [Ok] in the theorems above means the fuel
   the model passes suffices.  The answer does not depend on it: any larger
   fuel gives the same answer, for ANY comparator — so an [Ok] is the result of
   Go's unbounded loop (FromSlice's two loops, moveDown, moveUp). *)
Theorem C03_fuel_irrelevant : forall (A : Type) (c : A -> A -> bool),
  (forall f f' (i : Z) (l r : list A), fs_outer c f i l = Ok r -> f <= f' -> fs_outer c f' i l = Ok r) /\
  (forall f f' n i (l r : list A), move_down c f n i l = Ok r -> f <= f' -> move_down c f' n i l = Ok r) /\
  (forall f f' i (l r : list A), move_up c f i l = Ok r -> f <= f' -> move_up c f' i l = Ok r).
Proof.
  intros A c. split; [|split].
  - exact (fs_outer_ok_more c).
  - exact (move_down_ok_more c).
  - exact (move_up_ok_more c).
Qed.
Print Assumptions C03_fuel_irrelevant.

(* The strict-order hypothesis is NEEDED for termination (this is about the
   domain of the property, not a defect): with the reflexive comparator <=,
   NewHeap(<=).Push(1) spins in moveUp at the root and FromSlice([1 1 1], <=)
   spins in its clobbered outer loop — out of fuel for EVERY fuel. *)
Theorem C03_nonstrict_comparator_diverges :
  (forall fuel, move_up Z.leb fuel 0 [1%Z] = Err oof) /\
  (forall fuel, fs_outer Z.leb fuel (Z.of_nat (3 / 2) - 1)%Z [1; 1; 1]%Z = Err oof).
Proof.
  split; [exact move_up_leb_diverges|]. intros fuel. exact (proj1 (fs_outer_leb_diverges fuel)).
Qed.
Print Assumptions C03_nonstrict_comparator_diverges.

(* Merge: a fresh ordered heap under the receiver's comparator holding the
   elements of both.  In the model heaps are values, so the inputs cannot
   change; what [step] does with them is stated in C03_merge_step below and the
   harness observes receiver, argument and result again after later operations *)
Theorem C03_merge_ok : forall (A : Type) (zero : A) (h h2 : heap (A := A)),
  SWO (comp h) ->
  exists l', merge h h2 = Ok (mkHeap l' (comp h)) /\
             Permutation (data h ++ data h2) l' /\ heap_ok zero (comp h) l'.
Proof. exact (fun A zero h h2 => merge_spec zero h h2). Qed.
Print Assumptions C03_merge_ok.

(* Meld: the same new heap, and both inputs are left empty (comparators kept) *)
Theorem C03_meld_ok : forall (A : Type) (zero : A) (h h2 : heap (A := A)),
  SWO (comp h) ->
  exists l', meld h h2 = Ok (mkHeap l' (comp h), mkHeap [] (comp h), mkHeap [] (comp h2)) /\
             Permutation (data h ++ data h2) l' /\ heap_ok zero (comp h) l'.
Proof. exact (fun A zero h h2 => meld_spec zero h h2). Qed.
Print Assumptions C03_meld_ok.

(* Merge / Meld as history steps: Merge leaves BOTH inputs exactly as they were
   (the argument stays h1, the receiver is kept as h2) and reports their
   contents; Meld leaves both EMPTY with their comparators; the result is h0 *)
Theorem C03_merge_step : forall (A : Type) (zero : A) (eqb : A -> A -> bool) (h0 h1 h2 : heap (A := A)),
  SWO (comp h0) ->
  exists l', step zero eqb (h0, h1, h2) OMerge = ((mkHeap l' (comp h0), h1, h0), RTwo (data h0) (data h1)) /\
             Permutation (data h0 ++ data h1) l' /\ heap_ok zero (comp h0) l'.
Proof.
  intros A zero eqb h0 h1 h2 Hc. destruct (merge_spec zero h0 h1 Hc) as (l' & E & Hp & Hk).
  exists l'. cbn [step]. rewrite E. auto.
Qed.
Print Assumptions C03_merge_step.

Theorem C03_meld_step : forall (A : Type) (zero : A) (eqb : A -> A -> bool) (h0 h1 h2 : heap (A := A)),
  SWO (comp h0) ->
  exists l', step zero eqb (h0, h1, h2) OMeld =
               ((mkHeap l' (comp h0), mkHeap [] (comp h1), mkHeap [] (comp h0)), RTwo [] []) /\
             Permutation (data h0 ++ data h1) l' /\ heap_ok zero (comp h0) l'.
Proof.
  intros A zero eqb h0 h1 h2 Hc. destruct (meld_spec zero h0 h1 Hc) as (l' & E & Hp & Hk).
  exists l'. cbn [step]. rewrite E. auto.
Qed.
Print Assumptions C03_meld_step.

(* ====================================================================== *)
(* Delete                                                                  *)
(* ====================================================================== *)

(* after the repair of #19 Delete never panics and never runs out of fuel — for
   every heap, value and comparator whatsoever (ordered or not, SWO or not) *)
Theorem C03_delete_never_panics : forall (A : Type) (zero : A) (eqb : A -> A -> bool),
  dec_eq eqb -> forall (h : heap (A := A)) v, exists ok e h', delete eqb h v = Ok (ok, e, h').
Proof. exact (fun A zero eqb H h v => delete_total zero eqb H h v). Qed.
Print Assumptions C03_delete_never_panics.

(* Delete reports absence: (false, error) and the heap is untouched *)
Theorem C03_delete_absent : forall (A : Type) (zero : A) (eqb : A -> A -> bool),
  dec_eq eqb -> forall (h : heap (A := A)) v,
  ~ In v (data h) ->
  exists e, delete eqb h v = Ok (false, e, h) /\ e <> 0%Z.
Proof.
  intros A zero eqb H h v Hn. destruct (data h) as [|x t] eqn:E.
  - exists err_empty. split; [now apply delete_empty | discriminate].
  - exists err_notfound. split; [|discriminate].
    apply (delete_absent zero eqb H); rewrite E; [discriminate | exact Hn].
Qed.
Print Assumptions C03_delete_absent.

(* a successful Delete removes exactly one occurrence of the named value
   (any comparator, any array): conservation holds in spite of defect #20 *)
Theorem C03_delete_conserves : forall (A : Type) (zero : A) (eqb : A -> A -> bool),
  dec_eq eqb -> forall (h : heap (A := A)) v,
  In v (data h) ->
  exists l', delete eqb h v = Ok (true, 0%Z, mkHeap l' (comp h)) /\ Permutation (data h) (v :: l').
Proof.
  intros A zero eqb H h v Hin.
  destruct (delete_present zero eqb H h v Hin) as (idx & l' & _ & E & Hp & _). eauto.
Qed.
Print Assumptions C03_delete_conserves.

(* FULL STATEMENT (false for the code as pinned, see the refutation below):
     forall h v, SWO (comp h) -> heap_ok (data h) -> In v (data h) ->
       delete h v = Ok (true, 0, h') -> heap_ok (data h').
   PROVED PART: the order survives when the victim (first occurrence of v) is the
   root, or sits in the last slot, or the element moved into the hole fits there
   ([fits_b]: it does not precede the hole's parent — not required for the two
   children of the root — and no child of the hole precedes it). *)
Theorem C03_delete_keeps_order_partial : forall (A : Type) (zero : A) (eqb : A -> A -> bool),
  dec_eq eqb -> forall (h : heap (A := A)) v,
  SWO (comp h) -> heap_ok zero (comp h) (data h) -> In v (data h) ->
  benign_delete zero eqb (comp h) (data h) v = true ->
  exists l', delete eqb h v = Ok (true, 0%Z, mkHeap l' (comp h)) /\ heap_ok zero (comp h) l'.
Proof.
  intros A zero eqb H h v Hc Hok Hin Hb.
  destruct (delete_present zero eqb H h v Hin) as (idx & l' & Hidx & E & _ & Hk).
  exists l'. split; [exact E|]. apply Hk; auto. apply (benign_spec zero eqb) with (v := v); auto.
  pose proof (get_index_spec zero eqb H (data h) v) as G. rewrite Hidx in G. apply G.
Qed.
Print Assumptions C03_delete_keeps_order_partial.

(* what [benign_delete] says, positionally: root and last slot are always benign *)
Theorem C03_delete_root_or_last_benign : forall (A : Type) (zero : A) (eqb : A -> A -> bool) c (l : list A) v idx,
  get_index eqb l v = Some idx -> idx = 0 \/ idx = length l - 1 ->
  benign_delete zero eqb c l v = true.
Proof.
  intros A zero eqb c l v idx E [-> | ->]; unfold benign_delete; rewrite E.
  - reflexivity.
  - rewrite Nat.eqb_refl. now rewrite orb_true_r.
Qed.
Print Assumptions C03_delete_root_or_last_benign.

(* ... so: deleting the ROOT value, or a value whose first occurrence sits in the
   LAST slot, keeps the heap ordered (and removes exactly one occurrence) *)
Theorem C03_delete_root_or_last_keeps_order : forall (A : Type) (zero : A) (eqb : A -> A -> bool),
  dec_eq eqb -> forall (h : heap (A := A)) v idx,
  SWO (comp h) -> heap_ok zero (comp h) (data h) ->
  get_index eqb (data h) v = Some idx -> idx = 0 \/ idx = length (data h) - 1 ->
  exists l', delete eqb h v = Ok (true, 0%Z, mkHeap l' (comp h)) /\
             Permutation (data h) (v :: l') /\ heap_ok zero (comp h) l'.
Proof.
  intros A zero eqb H h v idx Hc Hok Hidx Hpos.
  assert (Hin : In v (data h)).
  { pose proof (get_index_spec zero eqb H (data h) v) as G. rewrite Hidx in G.
    destruct G as (Hi & Hg & _). rewrite <- Hg. now apply nth_In. }
  destruct (delete_present zero eqb H h v Hin) as (idx' & l' & Hidx' & E & Hp & Hk).
  exists l'. split; [exact E|]. split; [exact Hp|]. apply Hk; auto.
  rewrite Hidx in Hidx'. injection Hidx' as <-.
  destruct Hpos as [-> | ->]; [now apply del_array_root | now apply del_array_last].
Qed.
Print Assumptions C03_delete_root_or_last_keeps_order.

(* defect #20 (KNOWN FINDING, pinned by TestHeap_MaxHeap): the min-heap built
   from 1..8, Delete(2): the result [1;8;3;4;5;6;7] violates heap order (4 at index 3 under 8)
   and the following Pops yield 1 3 6 5 4 7 8 — rejected by the specification *)
Theorem C03_delete_breaks_order_refuted :
  exists (l : list Z) (v : Z) (l' : list Z),
    heap_ok 0%Z Z.ltb l /\
    delete Z.eqb (mkHeap l Z.ltb) v = Ok (true, 0%Z, mkHeap l' Z.ltb) /\
    (exists j, 0 < j < length l' /\ Z.ltb (get 0%Z l' j) (get 0%Z l' (parent j)) = true) /\
    inner_delete Z.eqb l v = true /\
    accepts 0%Z Z.eqb true (mkS l Z.ltb, mkS [] Z.ltb, mkS [] Z.ltb)
      (combine [ODelete v; OPop; OPop; OPop]
               (fst (run 0%Z Z.eqb (mkHeap l Z.ltb, mkHeap [] Z.ltb, mkHeap [] Z.ltb) [ODelete v; OPop; OPop; OPop]))) = false.
Proof.
  exists [1; 2; 3; 4; 5; 6; 7; 8]%Z, 2%Z, [1; 8; 3; 4; 5; 6; 7]%Z.
  split; [|split; [|split; [|split]]].
  - intros j H0 Hj _. cbn in Hj.
    do 8 (destruct j as [|j]; [try lia; reflexivity|]). lia.
  - vm_compute. reflexivity.
  - exists 3. vm_compute. repeat split; lia.
  - vm_compute. reflexivity.
  - vm_compute. reflexivity.
Qed.
Print Assumptions C03_delete_breaks_order_refuted.

(* defect #19 as it was before fixes/builder-c03/0001 (moveDown(len, 0) on the
   truncated slice): Delete(1) on the heap [1;2] panics *)
Theorem C03_delete_unrepaired_panics_refuted :
  exists (l : list Z) (v : Z), heap_ok 0%Z Z.ltb l /\ delete_unrepaired Z.eqb (mkHeap l Z.ltb) v = Panic.
Proof.
  exists [1; 2]%Z, 1%Z. split; [|vm_compute; reflexivity].
  intros j H0 Hj _. cbn in Hj. do 2 (destruct j as [|j]; [try lia; reflexivity|]). lia.
Qed.
Print Assumptions C03_delete_unrepaired_panics_refuted.

(* ====================================================================== *)
(* heapsort                                                                *)
(* ====================================================================== *)

(* Sort returns a permutation of its input in which c r[i] r[j] is false whenever
   i < j: for c = (>) that is ascending order, for c = (<) descending *)
Theorem C03_sort_spec : forall (A : Type) (zero : A) (l : list A) (c : A -> A -> bool),
  SWO c ->
  exists r, sort l c = Ok r /\ Permutation l r /\ StronglySorted (fun a b => c a b = false) r.
Proof. exact (fun A zero l c => sort_spec zero l c). Qed.
Print Assumptions C03_sort_spec.

Theorem C03_sort_max_heap_ascending : forall (l : list Z),
  exists r, sort l Z.gtb = Ok r /\ Permutation l r /\ StronglySorted Z.le r.
Proof.
  intros l. destruct (sort_spec 0%Z l Z.gtb swo_gtb) as (r & E & Hp & Hs).
  exists r. repeat split; auto.
  eapply StronglySorted_ind with (P := StronglySorted Z.le); [constructor | | exact Hs].
  intros a t _ IH Hf. constructor; [exact IH|].
  eapply Forall_impl; [|exact Hf]. cbn. intros b Hb. rewrite Z.gtb_ltb in Hb. apply Z.ltb_ge in Hb. lia.
Qed.
Print Assumptions C03_sort_max_heap_ascending.

(* the min-heap comparator < gives DESCENDING order *)
Theorem C03_sort_min_heap_descending : forall (l : list Z),
  exists r, sort l Z.ltb = Ok r /\ Permutation l r /\ StronglySorted Z.ge r.
Proof. exact (fun l => sort_by_key_asc_cmp 0%Z (fun x : Z => x) l). Qed.
Print Assumptions C03_sort_min_heap_descending.

(* comparators BY KEY on any element type (structs): elements with equal keys
   TIE; the result is a permutation of the input — every tied element is kept
   with its own payload — with keys ascending for "key a > key b" (max-heap by
   key) and descending for "key a < key b".  Nothing is claimed about the
   relative order of tied elements (heapsort is not stable). *)
Theorem C03_sort_by_key : forall (A : Type) (zero : A) (key : A -> Z) (l : list A),
  (exists r, sort l (fun a b => (key a >? key b)%Z) = Ok r /\ Permutation l r /\
             StronglySorted (fun a b => (key a <= key b)%Z) r) /\
  (exists r, sort l (fun a b => (key a <? key b)%Z) = Ok r /\ Permutation l r /\
             StronglySorted (fun a b => (key a >= key b)%Z) r).
Proof.
  intros A zero key l. split; [apply (sort_by_key_desc_cmp zero) | apply (sort_by_key_asc_cmp zero)].
Qed.
Print Assumptions C03_sort_by_key.

(* ====================================================================== *)
(* histories                                                               *)
(* ====================================================================== *)

(* C03_history.  Run ANY sequence of Push, Pop, Peek, Clear, Convert, Delete,
   Size, IsEmpty, GetValues, FromSlice, Merge, Meld (and exchanging the heap
   variables) from three empty heaps, all comparators being strict weak orders.
   Then the model and the reference multiset machine stay in step for the whole
   history ([hist_ok]): every output is one the specification permits — sizes,
   emptiness, value multisets, Delete's verdict, Merge leaving both inputs
   intact, Meld emptying them, Pop/Peek returning a held element (zero when
   empty) and Pop/Delete removing exactly one occurrence — and, at every point
   where h0 is not tainted, Pop/Peek return an element no held element
   precedes.  A heap variable becomes tainted only by a successful Delete that
   is not benign (victim neither root nor last slot and the moved element does
   not fit the hole: defect #20) and is clean again after Clear, Convert,
   FromSlice, Meld or when at most one element is left; Merge gives a clean
   result and parks the receiver, taint included, in the third variable; the
   taint travels with the heap under Swap / Swap2. *)
Theorem C03_history : forall (A : Type) (zero : A) (eqb : A -> A -> bool),
  dec_eq eqb -> forall (c0 c1 c2 : A -> A -> bool) (ops : list (op (A := A))),
  SWO c0 -> SWO c1 -> SWO c2 -> Forall op_swo ops ->
  hist_ok zero eqb (new_heap c0, new_heap c1, new_heap c2) (mkS [] c0, mkS [] c1, mkS [] c2)
          (false, false, false) ops = true.
Proof.
  intros A zero eqb H c0 c1 c2 ops H0 H1 H2 Hf.
  apply (hist_ok_all zero eqb H); auto. now apply rel_init.
Qed.
Print Assumptions C03_history.

(* conservation for EVERY history, Deletes of any kind included: the trace of
   the model is accepted by the multiset machine without the order requirement *)
Theorem C03_history_conservation : forall (A : Type) (zero : A) (eqb : A -> A -> bool),
  dec_eq eqb -> forall (c0 c1 c2 : A -> A -> bool) (ops : list (op (A := A))),
  SWO c0 -> SWO c1 -> SWO c2 -> Forall op_swo ops ->
  accepts zero eqb false (mkS [] c0, mkS [] c1, mkS [] c2)
    (combine ops (fst (run zero eqb (new_heap c0, new_heap c1, new_heap c2) ops))) = true.
Proof.
  intros A zero eqb H c0 c1 c2 ops H0 H1 H2 Hf.
  apply (history_conservation zero eqb H) with (t := (false, false, false)); auto. now apply rel_init.
Qed.
Print Assumptions C03_history_conservation.

(* the whole property, order included, for every history in which h0 is never
   tainted when an operation starts ... *)
Theorem C03_history_order : forall (A : Type) (zero : A) (eqb : A -> A -> bool),
  dec_eq eqb -> forall (c0 c1 c2 : A -> A -> bool) (ops : list (op (A := A))),
  SWO c0 -> SWO c1 -> SWO c2 -> Forall op_swo ops ->
  untainted zero eqb (new_heap c0, new_heap c1, new_heap c2) (false, false, false) ops = true ->
  accepts zero eqb true (mkS [] c0, mkS [] c1, mkS [] c2)
    (combine ops (fst (run zero eqb (new_heap c0, new_heap c1, new_heap c2) ops))) = true.
Proof.
  intros A zero eqb H c0 c1 c2 ops H0 H1 H2 Hf Hu.
  apply (history_order zero eqb H) with (t := (false, false, false)); auto. now apply rel_init.
Qed.
Print Assumptions C03_history_order.

(* ... in particular for every history WITHOUT AN INNER SUCCESSFUL DELETE: every
   Delete of the history either fails (value absent / heap empty) or removes a
   value whose first occurrence is the root or the last slot of the array at
   that moment ([no_inner_delete], decided along the run of the model).  Then
   the complete property C03 — order and conservation — holds for the whole
   history.  This is the exact boundary of defect #20: the refutation witness
   above is one inner Delete. *)
Theorem C03_history_no_inner_delete : forall (A : Type) (zero : A) (eqb : A -> A -> bool),
  dec_eq eqb -> forall (c0 c1 c2 : A -> A -> bool) (ops : list (op (A := A))),
  SWO c0 -> SWO c1 -> SWO c2 -> Forall op_swo ops ->
  no_inner_delete zero eqb (new_heap c0, new_heap c1, new_heap c2) ops = true ->
  accepts zero eqb true (mkS [] c0, mkS [] c1, mkS [] c2)
    (combine ops (fst (run zero eqb (new_heap c0, new_heap c1, new_heap c2) ops))) = true.
Proof.
  intros A zero eqb H c0 c1 c2 ops H0 H1 H2 Hf Hn.
  apply (history_order zero eqb H) with (t := (false, false, false)); auto.
  - now apply rel_init.
  - now apply no_inner_untainted.
Qed.
Print Assumptions C03_history_no_inner_delete.

(* ... and for every history without Delete at all *)
Theorem C03_history_without_delete : forall (A : Type) (zero : A) (eqb : A -> A -> bool),
  dec_eq eqb -> forall (c0 c1 c2 : A -> A -> bool) (ops : list (op (A := A))),
  SWO c0 -> SWO c1 -> SWO c2 -> Forall op_swo ops -> Forall not_delete ops ->
  accepts zero eqb true (mkS [] c0, mkS [] c1, mkS [] c2)
    (combine ops (fst (run zero eqb (new_heap c0, new_heap c1, new_heap c2) ops))) = true.
Proof.
  intros A zero eqb H c0 c1 c2 ops H0 H1 H2 Hf Hn.
  apply (history_order zero eqb H) with (t := (false, false, false)); auto.
  - now apply rel_init.
  - now apply no_delete_untainted.
Qed.
Print Assumptions C03_history_without_delete.

(* no operation of any history panics or fails to terminate within its fuel *)
Theorem C03_history_no_panic : forall (A : Type) (zero : A) (eqb : A -> A -> bool),
  dec_eq eqb -> forall (c0 c1 c2 : A -> A -> bool) (ops : list (op (A := A))),
  SWO c0 -> SWO c1 -> SWO c2 -> Forall op_swo ops ->
  Forall (fun r => r <> RPanic /\ r <> ROof) (fst (run zero eqb (new_heap c0, new_heap c1, new_heap c2) ops)).
Proof.
  intros A zero eqb H c0 c1 c2 ops H0 H1 H2 Hf.
  apply (history_no_failure zero eqb H) with (sp := (mkS [] c0, mkS [] c1, mkS [] c2)) (t := (false, false, false)); auto.
  now apply rel_init.
Qed.
Print Assumptions C03_history_no_panic.


(* every history the wire format / harness can express is covered: its
   comparators (<, >, by key ascending/descending) are strict weak orders *)
Theorem C03_wire_histories : forall (c0 c1 : Z) (w : list Z) (ops : list (op (A := Z))),
  dec_ops (length w) w = Some ops ->
  hist_ok 0%Z Z.eqb (new_heap (cmp_of c0), new_heap (cmp_of c1), new_heap (cmp_of c1))
          (mkS [] (cmp_of c0), mkS [] (cmp_of c1), mkS [] (cmp_of c1)) (false, false, false) ops = true.
Proof.
  intros c0 c1 w ops H. apply (hist_ok_all 0%Z Z.eqb zeqb_spec).
  - apply rel_init; apply cmp_of_swo.
  - eapply dec_ops_swo; eauto.
Qed.
Print Assumptions C03_wire_histories.

(* the wire judge decides sortedness on adjacent elements (linear); under the
   harness's comparators that is the specification's all-pairs predicate *)
Theorem C03_wire_sort_judge : forall (c : Z) (input result : list Z),
  sort_ok_fast (cmp_of c) input result = sort_ok Z.eqb (cmp_of c) input result.
Proof. exact sort_ok_fast_spec. Qed.
Print Assumptions C03_wire_sort_judge.

Theorem C03_wire_sort : forall (c : Z) (l : list Z),
  exists r, sort l (cmp_of c) = Ok r /\ sort_ok Z.eqb (cmp_of c) l r = true.
Proof.
  intros c l. destruct (sort_spec 0%Z l (cmp_of c) (cmp_of_swo c)) as (r & E & Hp & Hs).
  exists r. split; [exact E|]. unfold sort_ok. apply andb_true_iff. split.
  - apply (ms_eqb_perm Z.eqb zeqb_spec). now symmetry.
  - clear E Hp. induction Hs as [|a t Hs IH Hf]; [reflexivity|]. cbn. rewrite IH, andb_true_r.
    apply forallb_forall. intros y Hy. rewrite Forall_forall in Hf. now rewrite (Hf y Hy).
Qed.
Print Assumptions C03_wire_sort.

(* ====================================================================== *)
(* non-vacuity: the hypotheses are met by the comparators of the harness   *)
(* and by concrete non-trivial states                                      *)
(* ====================================================================== *)

Example C03_swo_lt : SWO Z.ltb.
Proof. exact swo_ltb. Qed.
Example C03_swo_gt : SWO Z.gtb.
Proof. exact swo_gtb. Qed.
(* ordering structs by a key: elements with equal keys tie *)
Example C03_swo_by_key : forall (A : Type) (key : A -> Z),
  SWO (fun a b => (key a <? key b)%Z) /\ SWO (fun a b => (key a >? key b)%Z).
Proof. intros A key. split; [apply swo_by_key | apply swo_by_key_desc]. Qed.
Example C03_dec_eq_Z : dec_eq Z.eqb.
Proof. exact zeqb_spec. Qed.

(* a depth-3 ordered heap with duplicate keys, a benign and a non-benign Delete on it *)
Example C03_heap_ok_example :
  heap_ok 0%Z Z.ltb [1; 2; 3; 4; 5; 6; 7; 8]%Z /\
  benign_delete 0%Z Z.eqb Z.ltb [1; 2; 3; 4; 5; 6; 7; 8]%Z 1%Z = true /\
  benign_delete 0%Z Z.eqb Z.ltb [1; 2; 3; 4; 5; 6; 7; 8]%Z 4%Z = true /\
  benign_delete 0%Z Z.eqb Z.ltb [1; 2; 3; 4; 5; 6; 7; 8]%Z 2%Z = false.
Proof.
  split; [|vm_compute; auto].
  intros j H0 Hj _. cbn in Hj. do 8 (destruct j as [|j]; [try lia; reflexivity|]). lia.
Qed.

(* a history with a Delete that stays untainted, and one that gets tainted *)
Example C03_untainted_example :
  untainted 0%Z Z.eqb (new_heap Z.ltb, new_heap Z.gtb, new_heap Z.gtb) (false, false, false)
    [OFromSlice Z.ltb [5; 3; 8; 1; 9; 2; 7]%Z; ODelete 1%Z; OPop; ODelete 9%Z; OPeek; OMerge; OPop] = true /\
  untainted 0%Z Z.eqb (new_heap Z.ltb, new_heap Z.gtb, new_heap Z.gtb) (false, false, false)
    [OFromSlice Z.ltb [1; 2; 3; 4; 5; 6; 7; 8]%Z; ODelete 2%Z; OPop] = false.
Proof. vm_compute. auto. Qed.

(* [no_inner_delete] is met by a non-trivial history that DOES delete — the root
   of a 7-element heap, then the value in its last slot, with ties — and keeps
   all three variables busy (Merge parks the receiver, Swap2 brings it back);
   it fails on the refutation witness *)
Example C03_no_inner_delete_example :
  no_inner_delete 0%Z Z.eqb (new_heap Z.ltb, new_heap Z.gtb, new_heap Z.gtb)
    [OFromSlice Z.ltb [5; 3; 8; 1; 9; 2; 7; 3]%Z; ODelete 1%Z; OPop; ODelete 8%Z; OPeek;
     OSwap; OPush [4; 4]%Z; OSwap; OMerge; OPop; OSwap2; ODelete 9%Z; ODelete 2%Z; OPush [0]%Z; OPop] = true /\
  no_inner_delete 0%Z Z.eqb (new_heap Z.ltb, new_heap Z.gtb, new_heap Z.gtb)
    [OFromSlice Z.ltb [1; 2; 3; 4; 5; 6; 7; 8]%Z; ODelete 2%Z; OPop] = false.
Proof. vm_compute. auto. Qed.

(* heapsort on structs coded key*10+payload, ordered by key only: ties keep
   their payloads; max-heap-by-key comparator gives keys ascending *)
Example C03_sort_ties_example :
  sort [21; 20; 10; 0; 21; 12; 10]%Z (cmp_of 3) = Ok [0; 10; 12; 10; 21; 20; 21]%Z /\
  sort [21; 20; 10; 0; 21; 12; 10]%Z (cmp_of 2) = Ok [21; 21; 20; 10; 12; 10; 0]%Z.
Proof. vm_compute. auto. Qed.
