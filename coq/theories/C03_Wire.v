(* C03_Wire.v — wire glue for C03 (no proofs; exercised by the correspondence).
   Kept in step with harness/c03.go.

   Elements are integers on the wire.  For the struct element type of the
   harness (struct{key, payload int}) the integer e stands for
   {key: e / 10, payload: e % 10} (Go's truncating / and %), a bijection, so Go's
   == on the structs is equality of the codes and the model is run at A = Z for
   both element types.  The same holds for the two STRING instances of the
   harness (ty 2: Heap[string], e stands for the 20-digit decimal string of
   uint64(e) xor 2^63 — injective and order preserving, built afresh at run time
   for every use; ty 3: Heap[struct{key string; payload int}] with key = the
   string of e / 10): Go's == on strings / on structs with a string field
   compares contents, so it is again equality of the codes, and the string
   comparators are the comparators below on the codes.  The zero value ("" / the
   zero struct) is 0 on the wire; the harness reports a zero value returned by a
   non-empty heap, or a non-zero one by an empty heap, as -777001.

   comparator codes:  0  a < b      1  a > b
                      2  a/10 < b/10 (by key; codes with equal key tie)
                      3  a/10 > b/10

   input, mode 0 (a history):   0 :: ty :: c0 :: c1 :: ops
       ty in {0 (int), 1 (struct of ints), 2 (string), 3 (struct with a string key)}; h0 = NewHeap(c0), h1 = NewHeap(c1), h2 = NewHeap(c1)
       THREE heap variables: every operation acts on h0, h1 is the argument of
       Merge/Meld, h2 receives the receiver of the last Merge/Meld — so the result,
       the argument and the receiver all stay alive and are observed again later
       (that is how storage shared between them shows up).
       ops, variable width:
         1 x  Push(x)       2 Pop          3 Peek        4 Clear       5 c  Convert(c)
         6 x  Delete(x)     7 Size         8 IsEmpty     9 GetValues
        10 c n x1..xn  h0 = FromSlice([x1..xn], c)
        11 Merge  (t = h0.Merge(h1); observe h0, h1; h2 = h0; h0 = t)
        12 Meld   (t = h0.Meld(h1);  observe h0, h1; h2 = h0; h0 = t)
        13 Swap   (h0, h1 = h1, h0)
        14 n x1..xn  Push(x1, ..., xn)
        15 Swap2  (h0, h2 = h2, h0)
   observation: per operation  0 :: payload ++ [h0.Size()]   — or [2] (panic) / [3] (hang), and
       nothing after it; payloads: Pop/Peek [v]; Delete [ok; err != nil]; Size [n];
       IsEmpty [b]; GetValues  enc_zs (sorted values); Merge/Meld  enc_zs (sorted h0)
       ++ enc_zs (sorted h1) (the two inputs AFTER the call); all others [].
     then the end of the case:
       0 :: enc_zs (values popped from h0 while !IsEmpty, at most Size()+8) ++ [h0.IsEmpty()]
       0 :: the same for h1
       0 :: the same for h2
       [h0.Size(); h1.Size(); h2.Size(); h0.Pop(); h0.Peek()]      (all heaps empty: zero values)

   input, mode 1 (heapsort):    1 :: ty :: c :: n :: x1..xn
   observation:                 0 :: enc_zs (Sort([x1..xn], c))   — or [2] / [3]

   modes 2 and 3 ("spec only", the LARGE inputs: heaps and slices of hundreds to
   thousands of elements): the same inputs and observations as modes 0 and 1, but
   the list model — O(n) per array access, unary indices — is NOT run on them:
   [c03_run] answers [not_modelled] and [c03_agree] IS [c03_holds], i.e. the
   observation is judged against the specification alone (the reference multiset
   machine / sorted-permutation check, linear per operation).  A failure in these
   modes can never be attributed to the known finding, so the generator keeps
   histories with inner Deletes in mode 0.                                         *)

From Gogu Require Import Base C03_Model.
Local Open Scope Z_scope.

Definition key10 (a : Z) : Z := Z.quot a 10.

Definition cmp_of (c : Z) : Z -> Z -> bool :=
  if c =? 0 then Z.ltb
  else if c =? 1 then Z.gtb
  else if c =? 2 then (fun a b => key10 a <? key10 b)
  else (fun a b => key10 a >? key10 b).

Definition zop := op (A := Z).
Definition zout := out (A := Z).

(* ---------- decoding a history ---------- *)

Fixpoint dec_ops (fuel : nat) (w : list Z) : option (list zop) :=
  match fuel with
  | O => match w with [] => Some [] | _ => None end
  | S f =>
      match w with
      | [] => Some []
      | code :: w1 =>
          let one (o : zop) (rest : list Z) :=
              match dec_ops f rest with Some l => Some (o :: l) | None => None end in
          let arg (mk : Z -> zop) :=
              match w1 with x :: w2 => one (mk x) w2 | [] => None end in
          if code =? 1 then arg (fun x => OPush [x])
          else if code =? 2 then one OPop w1
          else if code =? 3 then one OPeek w1
          else if code =? 4 then one OClear w1
          else if code =? 5 then arg (fun c => OConvert (cmp_of c))
          else if code =? 6 then arg (fun x => ODelete x)
          else if code =? 7 then one OSize w1
          else if code =? 8 then one OIsEmpty w1
          else if code =? 9 then one OGetValues w1
          else if code =? 10 then
            match w1 with
            | c :: w2 => match rd_zs w2 with
                         | Some (l, w3) => one (OFromSlice (cmp_of c) l) w3
                         | None => None
                         end
            | [] => None
            end
          else if code =? 11 then one OMerge w1
          else if code =? 12 then one OMeld w1
          (* 16 / 17: h0.Merge(h0) / h0.Meld(h0) in the implementation; the generator places them only where
             h1 holds what the code finds in the argument (a twin of h0 / an empty heap), so that the model's
             Merge / Meld with h1 is what the code computes *)
          else if code =? 16 then one OMerge w1
          else if code =? 17 then one OMeld w1
          else if code =? 13 then one OSwap w1
          else if code =? 14 then
            match rd_zs w1 with
            | Some (l, w2) => one (OPush l) w2
            | None => None
            end
          else if code =? 15 then one OSwap2 w1
          else None
      end
  end.

(* ---------- sorting (canonical form of a multiset on the wire) ---------- *)

Fixpoint zinsert (x : Z) (l : list Z) : list Z :=
  match l with
  | [] => [x]
  | y :: t => if x <=? y then x :: l else y :: zinsert x t
  end.
Definition zsort (l : list Z) : list Z := fold_right zinsert [] l.

(* ---------- encoding model outputs ---------- *)

Definition enc_payload (r : zout) : list Z :=
  match r with
  | RUnit => []
  | RVal v => [v]
  | RBool b => enc_bool b
  | RNat n => [Z.of_nat n]
  | RVals l => enc_zs (zsort l)
  | RDel ok e => enc_bool ok ++ enc_bool (negb (e =? 0))
  | RTwo l0 l1 => enc_zs (zsort l0) ++ enc_zs (zsort l1)
  | RPanic | ROof => []
  end.

Definition is_fail (r : zout) : bool :=
  match r with RPanic | ROof => true | _ => false end.
Definition fail_code (r : zout) : list Z :=
  match r with RPanic => [2] | _ => [3] end.

Definition zstate := state (A := Z).

(* the model on a history: stops after the first panic / out-of-fuel, as the
   harness does.  Returns the encoded records and, if nothing failed, the final state *)
Fixpoint run_enc (s : zstate) (ops : list zop) : list Z * option zstate :=
  match ops with
  | [] => ([], Some s)
  | o :: ops' =>
      let (s', r) := step 0 Z.eqb s o in
      if is_fail r then (fail_code r, None)
      else
        let (w, sf) := run_enc s' ops' in
        (0 :: enc_payload r ++ [Z.of_nat (size (fst (fst s')))] ++ w, sf)
  end.

Definition enc_fail {X} (r : res X) : list Z :=
  match r with Panic => [2] | _ => [3] end.

(* end of case: drain h0, h1, h2 in this order, the three sizes, Pop and Peek on
   the emptied h0.  A failure (panic / out of fuel) ends the observation. *)
Definition enc_drained (l : list Z) (h : heap (A := Z)) : list Z :=
  0 :: enc_zs l ++ enc_bool (is_empty h).

Definition run_end (s : zstate) : list Z :=
  let '(h0, h1, h2) := s in
  match drain 0 (size h0 + 8) h0 with
  | Ok (l0, h0') =>
      enc_drained l0 h0' ++
      match drain 0 (size h1 + 8) h1 with
      | Ok (l1, h1') =>
          enc_drained l1 h1' ++
          match drain 0 (size h2 + 8) h2 with
          | Ok (l2, h2') =>
              enc_drained l2 h2' ++
              match pop 0 h0', peek 0 h0' with
              | Ok (v, _), Ok p =>
                  [Z.of_nat (size h0'); Z.of_nat (size h1'); Z.of_nat (size h2'); v; p]
              | _, _ => [2]
              end
          | r => enc_fail r
          end
      | r => enc_fail r
      end
  | r => enc_fail r
  end.

Definition valid_ty (ty : Z) : bool := (0 <=? ty) && (ty <=? 3).

(* the model's "observation" for the spec-only modes 2 and 3 *)
Definition not_modelled : list Z := [-777777].

Definition c03_run (w : list Z) : list Z :=
  match w with
  | 0 :: ty :: c0 :: c1 :: wops =>
      if valid_ty ty then
        match dec_ops (length wops) wops with
        | Some ops =>
            let s0 : zstate := (new_heap (cmp_of c0), new_heap (cmp_of c1), new_heap (cmp_of c1)) in
            match run_enc s0 ops with
            | (enc, Some sf) => enc ++ run_end sf
            | (enc, None) => enc
            end
        | None => wire_error
        end
      else wire_error
  | 1 :: ty :: c :: wl =>
      if valid_ty ty then
        match rd_zs wl with
        | Some (l, []) =>
            match sort l (cmp_of c) with
            | Ok r => 0 :: enc_zs r
            | r => enc_fail r
            end
        | _ => wire_error
        end
      else wire_error
  | 2 :: _ | 3 :: _ => not_modelled
  | _ => wire_error
  end.

(* ---------- the property checker: the observation against the SPEC ---------- *)

Definition rd_status : reader unit := fun w =>
  match w with 0 :: w' => Some (tt, w') | _ => None end.

Definition rd_bool01 : reader bool := fun w =>
  match w with
  | x :: w' => if x =? 0 then Some (false, w') else if x =? 1 then Some (true, w') else None
  | [] => None
  end.

(* a size: 0 .. 100000 ([rd_len] of Base.v; a larger or negative number is a
   malformed observation and never reaches [Z.to_nat]) *)
Definition rd_natz : reader nat := rd_len.

(* payload reader, guided by the operation *)
Definition rd_payload (o : zop) : reader zout := fun w =>
  match o with
  | OPush _ | OClear | OConvert _ | OFromSlice _ _ | OSwap | OSwap2 => Some (RUnit, w)
  | OPop | OPeek => match rd_z w with Some (v, w') => Some (RVal v, w') | None => None end
  | ODelete _ =>
      match rd_bool01 w with
      | Some (ok, w1) =>
          match rd_bool01 w1 with
          | Some (e, w2) => Some (RDel ok (if e then 1 else 0), w2)
          | None => None
          end
      | None => None
      end
  | OSize => match rd_natz w with Some (n, w') => Some (RNat n, w') | None => None end
  | OIsEmpty => match rd_bool01 w with Some (b, w') => Some (RBool b, w') | None => None end
  | OGetValues => match rd_zs w with Some (l, w') => Some (RVals l, w') | None => None end
  | OMerge | OMeld =>
      match rd_zs w with
      | Some (l0, w1) =>
          match rd_zs w1 with
          | Some (l1, w2) => Some (RTwo l0 l1, w2)
          | None => None
          end
      | None => None
      end
  end.

(* the trace of a history: each operation with its observed output, followed
   by the Size observation the harness makes after it *)
Fixpoint rd_trace (ops : list zop) : reader (list (zop * zout)) := fun w =>
  match ops with
  | [] => Some ([], w)
  | o :: ops' =>
      match rd_status w with
      | Some (_, w1) =>
          match rd_payload o w1 with
          | Some (r, w2) =>
              match rd_natz w2 with
              | Some (n, w3) =>
                  match rd_trace ops' w3 with
                  | Some (tr, w4) => Some ((o, r) :: (OSize, RNat n) :: tr, w4)
                  | None => None
                  end
              | None => None
              end
          | None => None
          end
      | None => None
      end
  end.

(* the end of the case as a trace: k Pops, IsEmpty (which must answer true), per heap *)
Definition rd_drain : reader (list (zop * zout)) := fun w =>
  match rd_status w with
  | Some (_, w1) =>
      match rd_zs w1 with
      | Some (l, w2) =>
          match rd_bool01 w2 with
          | Some (true, w3) => Some (map (fun v => (OPop, RVal v)) l ++ [(OIsEmpty, RBool true)], w3)
          | _ => None
          end
      | None => None
      end
  | None => None
  end.

(* h0 drained; bring h1 to the front, drain it; bring h2 to the front, drain it;
   then the three sizes, Pop and Peek on the (empty) h0 *)
Definition rd_end : reader (list (zop * zout)) := fun w =>
  match rd_drain w with
  | Some (t0, w1) =>
      match rd_drain w1 with
      | Some (t1, w2) =>
          match rd_drain w2 with
          | Some (t2, w3) =>
              match rd_natz w3 with
              | Some (n0, w4) =>
                  match rd_natz w4 with
                  | Some (n1, w5) =>
                      match rd_natz w5 with
                      | Some (n2, [v; p]) =>
                          Some (t0 ++ [(OSwap, RUnit)] ++ t1 ++ [(OSize, RNat n1); (OSwap, RUnit)] ++
                                [(OSwap2, RUnit)] ++ t2 ++ [(OSize, RNat n2); (OSwap2, RUnit)] ++
                                [(OSize, RNat n0); (OPop, RVal v); (OPeek, RVal p)], [])
                      | _ => None
                      end
                  | None => None
                  end
              | None => None
              end
          | None => None
          end
      | None => None
      end
  | None => None
  end.

(* The property on one observation: the whole trace (history, then the final
   drains) is accepted by the reference multiset machine with the order
   requirement on.  Any panic, hang, malformed or truncated observation fails. *)
Definition hist_holds (ty c0 c1 : Z) (wops obs : list Z) : bool :=
  if valid_ty ty then
    match dec_ops (length wops) wops with
    | Some ops =>
        match rd_trace ops obs with
        | Some (tr, rest) =>
            match rd_end rest with
            | Some (tre, []) =>
                accepts 0 Z.eqb true (mkS [] (cmp_of c0), mkS [] (cmp_of c1), mkS [] (cmp_of c1)) (tr ++ tre)
            | _ => false
            end
        | None => false
        end
    | None => false
    end
  else false.

(* the sortedness half of [sort_ok] decided on ADJACENT elements only — linear
   instead of quadratic; for a strict weak order it is the same predicate
   (C03_Props.C03_wire_sort_judge) *)
Fixpoint sorted_adj (c : Z -> Z -> bool) (l : list Z) : bool :=
  match l with
  | x :: ((y :: _) as t) => negb (c x y) && sorted_adj c t
  | _ => true
  end.
Definition sort_ok_fast (c : Z -> Z -> bool) (input result : list Z) : bool :=
  ms_eqb Z.eqb result input && sorted_adj c result.

Definition sort_holds (ty c : Z) (wl obs : list Z) : bool :=
  if valid_ty ty then
    match rd_zs wl with
    | Some (l, []) =>
        match obs with
        | 0 :: o1 => match rd_zs o1 with
                     | Some (r, []) => sort_ok_fast (cmp_of c) l r
                     | _ => false
                     end
        | _ => false
        end
    | _ => false
    end
  else false.

Definition c03_holds (w obs : list Z) : bool :=
  match w with
  | 0 :: ty :: c0 :: c1 :: wops => hist_holds ty c0 c1 wops obs
  | 2 :: ty :: c0 :: c1 :: wops => hist_holds ty c0 c1 wops obs
  | 1 :: ty :: c :: wl => sort_holds ty c wl obs
  | 3 :: ty :: c :: wl => sort_holds ty c wl obs
  | _ => false
  end.

(* the implementation is deterministic and the model mirrors its tie-breaking:
   agreement is equality of the projected observations (modes 0, 1); in the
   spec-only modes the specification judges alone *)
Definition c03_agree (w obs : list Z) : bool :=
  match w with
  | 2 :: _ | 3 :: _ => c03_holds w obs
  | _ => zlist_eqb obs (c03_run w)
  end.
