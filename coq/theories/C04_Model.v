(* C04_Model.v — bstree.BsTree (unbalanced binary search tree used as an
   ordered map), transcribed statement by statement from /repo/bstree/bstree.go
   (line numbers below: /repo HEAD, after the two locking repairs 73ab9cb and
   c6ed9af) and generic.go (Compare), as the code IS: including defect #17 of
   DESIGN §7, Delete decrementing [size] whether or not a node was removed

       b.root, err = b.root.delete(b, key)        (bstree.go:137)
       b.size--                                   (bstree.go:138)

   which stays unrepaired because bstree_test.go's Example pins it (it deletes
   the keys 0,1,2,3 from {10,-1,2,-4} and expects Size() = 0): known finding
   KF-C04-size-absent-delete.

   Pointers are only ever built downward (n.Left = n.Left.delete(..)), so the
   tree is a Gallina inductive (DESIGN §3).  [size] is the separate counter of
   the Go struct, updated exactly where the Go code updates it — it is NOT
   computed from the tree.  The locks are not modelled here (C01/C02).
   Traverse streams the in-order walk from a goroutine over an unbuffered
   channel to the caller's callback: [traverse] is the in-order list, and the
   goroutine/channel protocol itself is modelled at the end of this file
   ([tstep]) and shown to hand exactly that list, in that order, to the
   callback on every schedule (the C04_traverse_channel theorems of C04_Props).
   No proofs in this file.

   The second half of the file is the SPECIFICATION: a comparator-sorted
   association list (m_get, m_upsert, m_remove) as reference machine, and
   [latest], the meaning of a history read directly off the list of
   operations. *)

From Gogu Require Import Base.

Section Model.
  Context {K V : Type}.
  Variable comp : K -> K -> bool.          (* gogu.CompFn[K] *)

  (* generic.go:11-18
       if comp(a, b) { return 1 } else if comp(b, a) { return -1 }; return 0 *)
  Definition compare (a b : K) : Z :=
    if comp a b then 1 else if comp b a then -1 else 0.

  (* Node{Left, Right, Item{Key, Val}}; nil = E *)
  Inductive tree : Type :=
  | E
  | T (l : tree) (k : K) (v : V) (r : tree).

  Definition NotFound : Z := 1.            (* ErrorNotFound *)

  (* bstree.go:76-89  func (n *Node) get(b, key) (Item, error) *)
  Fixpoint get (n : tree) (key : K) : res (K * V) :=
    match n with
    | E => Err NotFound
    | T l k v r =>
        if compare key k =? 1 then get l key
        else if compare key k =? -1 then get r key
        else Ok (k, v)
    end.

  (* bstree.go:105-123  func (n *Node) upsert(b, key, val); [size] is b.size,
     threaded through.  The method dereferences n at once (n.Key), so a nil
     receiver panics; Upsert never calls it on nil (and the theorems show that
     Panic is never produced). *)
  Fixpoint upsert_node (n : tree) (key : K) (val : V) (size : Z) : res (tree * Z) :=
    match n with
    | E => Panic
    | T l k v r =>
        if compare key k =? 1 then
          match l with
          | E => Ok (T (T E key val E) k v r, size + 1)        (* n.Left = NewNode; b.size++ *)
          | T _ _ _ _ =>
              match upsert_node l key val size with
              | Ok (l', s') => Ok (T l' k v r, s')
              | Err e => Err e
              | Panic => Panic
              end
          end
        else if compare key k =? -1 then
          match r with
          | E => Ok (T l k v (T E key val E), size + 1)        (* n.Right = NewNode; b.size++ *)
          | T _ _ _ _ =>
              match upsert_node r key val size with
              | Ok (r', s') => Ok (T l k v r', s')
              | Err e => Err e
              | Panic => Panic
              end
          end
        else Ok (T l k val r, size)                            (* n.Val = val *)
    end.

  (* bstree.go:127-131  for ; n.Left != nil; n = n.Left {}; return n
     — the receiver is given by its fields (it is non-nil at the only call
     site); the result is the (Key, Val) read off the returned node. *)
  Fixpoint min_node (l : tree) (k : K) (v : V) : K * V :=
    match l with
    | E => (k, v)
    | T l' k' v' _ => min_node l' k' v'
    end.

  (* bstree.go:144-180  func (n *Node) delete(b, key) returning (node, error);
     the boolean is "err != nil" (the only error is ErrorNotFound).
     Case 3 (bstree.go:169-178): min is a pointer into n.Right's subtree, so
     min.Key / min.Val are read BEFORE the recursive delete unlinks that node;
     the recursive call searches for min.Key from n.Right again (it ends in
     case 1 or 2b: the minimum has no left child) and its error is returned. *)
  Fixpoint delete (n : tree) (key : K) : tree * bool :=
    match n with
    | E => (E, true)
    | T l k v r =>
        if compare key k =? 1 then
          let '(l', err) := delete l key in (T l' k v r, err)
        else if compare key k =? -1 then
          let '(r', err) := delete r key in (T l k v r', err)
        else
          match l, r with
          | E, E => (E, false)                                  (* case 1 *)
          | T _ _ _ _, E => (l, false)                          (* case 2a *)
          | E, T _ _ _ _ => (r, false)                          (* case 2b *)
          | T _ _ _ _, T rl rk rv _ =>                          (* case 3 *)
              let '(mk, mv) := min_node rl rk rv in             (* min := n.Right.min() *)
              let '(r', err) := delete r mk in                  (* n.Right, err = n.Right.delete(b, min.Key) *)
              (T l mk mv r', err)                               (* n.Key, n.Val = min.Key, min.Val *)
          end
    end.

  (* bstree.go:199-209  func (n *Node) traverse(b, ch): in-order; each node's
     Item{Key, Val} is sent on the channel (ch <- ...), in this order *)
  Fixpoint traverse (n : tree) : list (K * V) :=
    match n with
    | E => []
    | T l k v r => traverse l ++ (k, v) :: traverse r
    end.

  (* ---------- the struct and its exported methods ---------- *)

  Record bst : Type := { root : tree; size : Z }.
  Definition empty : bst := {| root := E; size := 0 |}.     (* New(comp) *)

  Inductive op : Type :=
  | Upsert (k : K) (v : V)
  | Delete (k : K)
  | Get (k : K)
  | Size
  | Traverse.

  Inductive out : Type :=
  | ODone                               (* Upsert returns nothing *)
  | OPanic
  | ODel (notfound : bool)              (* Delete: err != nil *)
  | OGet (r : res (K * V))
  | OSize (n : Z)
  | OTrav (items : list (K * V)).

  Definition step (b : bst) (o : op) : bst * out :=
    match o with
    | Upsert key val =>                                     (* bstree.go:92-103 *)
        match root b with
        | E => ({| root := T E key val E; size := size b + 1 |}, ODone)
        | T _ _ _ _ =>
            match upsert_node (root b) key val (size b) with
            | Ok (t', s') => ({| root := t'; size := s' |}, ODone)
            | _ => (b, OPanic)
            end
        end
    | Delete key =>                                         (* bstree.go:134-142 *)
        let '(t', err) := delete (root b) key in
        ({| root := t'; size := size b - 1 |}, ODel err)       (* b.size-- even when err != nil *)
    | Get key => (b, OGet (get (root b) key))               (* bstree.go:69-74 *)
    | Size => (b, OSize (size b))                           (* bstree.go:61-66 *)
    | Traverse => (b, OTrav (traverse (root b)))            (* bstree.go:183-197: the sequence of fn(item) calls;
                                                               see the channel protocol [tstep] below *)
    end.

  (* a history: state after, and the outputs in order *)
  Fixpoint run (ops : list op) (b : bst) : bst * list out :=
    match ops with
    | [] => (b, [])
    | o :: ops' =>
        let '(b1, x) := step b o in
        let '(b2, xs) := run ops' b1 in
        (b2, x :: xs)
    end.

  Definition state_after (ops : list op) : bst := fst (run ops empty).
  Definition outs (ops : list op) : list out := snd (run ops empty).

  (* ================= specification ================= *)

  Variable keqb : K -> K -> bool.          (* decides equality of keys *)

  (* the reference machine: an association list kept sorted by comp *)
  Definition amap := list (K * V).

  Fixpoint m_get (k : K) (m : amap) : option (K * V) :=
    match m with
    | [] => None
    | (k', v') :: m' => if keqb k k' then Some (k', v') else m_get k m'
    end.

  Fixpoint m_upsert (k : K) (v : V) (m : amap) : amap :=
    match m with
    | [] => [(k, v)]
    | (k', v') :: m' =>
        if keqb k k' then (k', v) :: m'
        else if comp k k' then (k, v) :: (k', v') :: m'
        else (k', v') :: m_upsert k v m'
    end.

  Fixpoint m_remove (k : K) (m : amap) : amap :=
    match m with
    | [] => []
    | (k', v') :: m' => if keqb k k' then m' else (k', v') :: m_remove k m'
    end.

  Definition m_step (m : amap) (o : op) : amap * out :=
    match o with
    | Upsert k v => (m_upsert k v m, ODone)
    | Delete k =>
        match m_get k m with
        | Some _ => (m_remove k m, ODel false)
        | None => (m, ODel true)
        end
    | Get k => (m, OGet (match m_get k m with Some kv => Ok kv | None => Err NotFound end))
    | Size => (m, OSize (Z.of_nat (length m)))
    | Traverse => (m, OTrav m)
    end.

  Fixpoint run_map (ops : list op) (m : amap) : amap * list out :=
    match ops with
    | [] => (m, [])
    | o :: ops' =>
        let '(m1, x) := m_step m o in
        let '(m2, xs) := run_map ops' m1 in
        (m2, x :: xs)
    end.

  Definition outs_map (ops : list op) : list out := snd (run_map ops []).

  (* the meaning of a history for one key, read off the operations alone:
     the value of the last Upsert of k that no later Delete of k follows *)
  Definition latest_step (k : K) (acc : option V) (o : op) : option V :=
    match o with
    | Upsert k' v => if keqb k k' then Some v else acc
    | Delete k' => if keqb k k' then None else acc
    | _ => acc
    end.
  Definition latest (k : K) (ops : list op) : option V :=
    fold_left (latest_step k) ops None.

  (* the number of Delete operations of [ops], performed after the history
     [hist], that hit a key which is absent at that moment *)
  Fixpoint absent_deletes_from (hist ops : list op) : nat :=
    match ops with
    | [] => O
    | o :: ops' =>
        (match o with
         | Delete k => match latest k hist with None => 1 | Some _ => 0 end
         | _ => 0
         end + absent_deletes_from (hist ++ [o]) ops')%nat
    end.
  Definition absent_deletes (ops : list op) : nat := absent_deletes_from [] ops.

End Model.

(* ================= Traverse's plumbing (bstree.go:183-197) =================

     ch := make(chan Item[K, V])
     go func() {                      // PRODUCER
         b.mu.RLock()
         n := b.root
         n.traverse(b, ch)            //   ch <- item, for every node in order
         b.mu.RUnlock()
         close(ch)
     }()
     for item := range ch {           // CONSUMER (the caller of Traverse)
         fn(item)
     }

   A small-step model of the two threads and the channel, for any capacity
   [cap] (the code has cap = 0; a buffered channel is covered too, so that this
   harmless change keeps the theorems).  The state records what the producer
   still has to send ([to_send], initially the in-order list [traverse root]),
   the channel buffer, whether close(ch) has happened, the sequence of fn calls
   made so far ([got]) and whether the range loop has ended, i.e. Traverse has
   returned ([fin]).  Go's channel semantics as assumed here (TRUSTED, language
   specification "Channel types", "Send statements", "For statements with range
   clause"): a send on a full (or unbuffered) channel blocks until a receiver
   takes the value; values are received in the order sent; the range loop
   receives until the channel is closed AND drained, then ends; a closed
   channel is never sent on (the producer closes after its last send).
   The producer holds the read lock from before its first send until after its
   last one, so no writer changes the tree while the walk is in progress
   (C01/C02); the callback must not itself call Upsert/Delete (it would wait
   for the read lock held by the producer, which waits for the callback's
   loop: deadlock) — an assumption of C04, recorded in the MANIFEST. *)
Section Chan.
  Context {A : Type}.

  Record tstate : Type :=
    { to_send : list A; buf : list A; closed : bool; got : list A; fin : bool }.

  Definition tinit (items : list A) : tstate :=
    {| to_send := items; buf := []; closed := false; got := []; fin := false |}.

  Inductive tstep (cap : nat) : tstate -> tstate -> Prop :=
  | t_handoff x p g :                  (* ch <- x meets the consumer waiting in range: fn(x) *)
      tstep cap {| to_send := x :: p; buf := []; closed := false; got := g; fin := false |}
                {| to_send := p; buf := []; closed := false; got := g ++ [x]; fin := false |}
  | t_send x p b g f :                 (* ch <- x into a free buffer slot (never when cap = 0) *)
      (length b < cap)%nat ->
      tstep cap {| to_send := x :: p; buf := b; closed := false; got := g; fin := f |}
                {| to_send := p; buf := b ++ [x]; closed := false; got := g; fin := f |}
  | t_recv x p b c g :                 (* range takes the oldest buffered value: fn(x) *)
      tstep cap {| to_send := p; buf := x :: b; closed := c; got := g; fin := false |}
                {| to_send := p; buf := b; closed := c; got := g ++ [x]; fin := false |}
  | t_close b g f :                    (* the walk is over: RUnlock; close(ch) *)
      tstep cap {| to_send := []; buf := b; closed := false; got := g; fin := f |}
                {| to_send := []; buf := b; closed := true; got := g; fin := f |}
  | t_exit g :                         (* range sees the channel closed and drained: Traverse returns *)
      tstep cap {| to_send := []; buf := []; closed := true; got := g; fin := false |}
                {| to_send := []; buf := []; closed := true; got := g; fin := true |}.

  (* any number of steps, i.e. any schedule of the two threads *)
  Inductive tsteps (cap : nat) : tstate -> tstate -> Prop :=
  | ts_refl s : tsteps cap s s
  | ts_step s1 s2 s3 : tsteps cap s1 s2 -> tstep cap s2 s3 -> tsteps cap s1 s3.

  (* bounds the length of every schedule *)
  Definition tmeasure (s : tstate) : nat :=
    2 * length (to_send s) + length (buf s) + (if closed s then 0 else 1) + (if fin s then 0 else 1).
End Chan.

Arguments tstate A : clear implicits.

Arguments E {K V}.
Arguments T {K V} l k v r.
Arguments ODone {K V}.
Arguments OPanic {K V}.
Arguments ODel {K V} notfound.
Arguments OGet {K V} r.
Arguments OSize {K V} n.
Arguments OTrav {K V} items.
Arguments Size {K V}.
Arguments Traverse {K V}.
Arguments Delete {K V} k.
Arguments Get {K V} k.
Arguments Upsert {K V} k v.
Arguments empty {K V}.
