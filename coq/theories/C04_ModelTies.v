(* C04_ModelTies.v — vocabulary for comparators under which DISTINCT keys tie
   (strict weak orders: case-insensitive strings, a/2 < b/2, a struct compared
   on one field) and for non-strict comparators (a <= b).  No proofs here.

   The transcription of bstree.go in C04_Model.v is already generic in the
   comparator: [get], [upsert_node], [delete] decide "same key" the way the code
   does, by gogu.Compare(key, n.Key, comp) == 0, i.e. neither comp(key, n.Key)
   nor comp(n.Key, key).  Nothing is transcribed a second time: the theorems of
   C04_PropsTies.v are about the SAME [run] as those of C04_Props.v, with the
   hypothesis "strict total order" weakened to "strict weak order" and Go's ==
   on keys replaced by the comparator's equivalence [ceq].

   What the code does with tied keys (bstree.go at /repo HEAD, checked by the
   "ties" stream of harness/c04.go): the tree is a map on the equivalence
   classes.  Upsert(k2, v) of a key tied with the stored k1 takes the
   `n.Val = val` branch: the value is replaced, the node KEEPS the key k1 it
   was created with, Size does not change.  Get(k2) returns Item{k1, v}.
   Delete(k2) removes that node.  Traverse yields one item per class, with the
   stored key.  The two-child delete copies Key and Val of the successor
   together, so a stored key always travels with its value. *)

From Gogu Require Import Base C04_Model.

Section Ties.
  Context {K V : Type}.
  Variable comp : K -> K -> bool.

  (* Compare(a, b, comp) == 0 *)
  Definition ceq (a b : K) : bool := negb (comp a b) && negb (comp b a).

  (* The meaning of a history for one key, read off the operations alone, with
     the stored key: the entry for k's class is created by the first Upsert of
     a key tied with k after the last Delete of such a key (that Upsert's key
     is the one the tree keeps), and carries the value of the last such Upsert. *)
  Definition latest_kv_step (k : K) (acc : option (K * V)) (o : @op K V) : option (K * V) :=
    match o with
    | Upsert k' v =>
        if ceq k k' then Some (match acc with Some (k0, _) => k0 | None => k' end, v) else acc
    | Delete k' => if ceq k k' then None else acc
    | _ => acc
    end.
  Definition latest_kv (k : K) (ops : list (@op K V)) : option (K * V) :=
    fold_left (latest_kv_step k) ops None.

  (* ---------- non-strict comparators (a <= b, a >= b) ----------

     Outside the property ("any strict comparator"); recorded because callers
     do pass gogu-style `<=` closures.  Compare(a, b, comp) is never 0 when
     comp(a, b) || comp(b, a) for all a, b — in particular Compare(a, a) = 1.
     So Get and Delete never find anything (Delete still decrements size, the
     known finding), and EVERY Upsert adds a node: to the left of a node whose
     key it is <= to, to the right otherwise.  The tree is a bag kept in
     comparator order, a later entry BEFORE the earlier entries it ties with.
     [b_insert] is that insertion on the in-order listing. *)
  Fixpoint b_insert (k : K) (v : V) (m : list (K * V)) : list (K * V) :=
    match m with
    | [] => [(k, v)]
    | (k', v') :: m' => if comp k k' then (k, v) :: (k', v') :: m' else (k', v') :: b_insert k v m'
    end.

  Definition b_step (m : list (K * V)) (o : @op K V) : list (K * V) * @out K V :=
    match o with
    | Upsert k v => (b_insert k v m, ODone)
    | Delete _ => (m, ODel true)
    | Get _ => (m, OGet (Err NotFound))
    | Size => (m, OSize (Z.of_nat (length m)))
    | Traverse => (m, OTrav m)
    end.

  Fixpoint run_bag (ops : list (@op K V)) (m : list (K * V)) : list (K * V) * list (@out K V) :=
    match ops with
    | [] => (m, [])
    | o :: ops' =>
        let '(m1, x) := b_step m o in
        let '(m2, xs) := run_bag ops' m1 in
        (m2, x :: xs)
    end.

  Definition outs_bag (ops : list (@op K V)) : list (@out K V) := snd (run_bag ops []).

End Ties.
