(* C04_ProofsChan.v — lemmas about the goroutine/channel protocol of
   BsTree.Traverse ([tstep] of C04_Model.v): on EVERY schedule the callback
   receives a prefix of the in-order list, in order; when Traverse returns it
   has received exactly that list; the protocol never deadlocks and every
   schedule is finite. *)

From Gogu Require Import Base C04_Model.
From Coq Require Import Lia.

Section ChanProofs.
  Context {A : Type}.
  Variable cap : nat.
  Variable items : list A.

  (* nothing is lost, duplicated or reordered; close comes after the last
     send; the loop ends only on a closed and drained channel *)
  Definition tinv (s : tstate A) : Prop :=
    got s ++ buf s ++ to_send s = items /\
    (closed s = true -> to_send s = []) /\
    (fin s = true -> closed s = true /\ buf s = []) /\
    (length (buf s) <= cap)%nat.

  Lemma tinv_init : tinv (tinit items).
  Proof.
    unfold tinv, tinit; cbn. repeat split; try discriminate. lia.
  Qed.

  Lemma tinv_step s s' : tinv s -> tstep cap s s' -> tinv s'.
  Proof.
    intros (H1 & H2 & H3 & H4) Hs. destruct Hs; unfold tinv in *; cbn [got buf to_send closed fin] in *;
      (split; [|split; [|split]]).
    - rewrite <- H1, <- !app_assoc. reflexivity.
    - discriminate.
    - discriminate.
    - exact H4.
    - rewrite <- H1, <- !app_assoc. reflexivity.
    - discriminate.
    - intros Hf. destruct (H3 Hf) as [Hc _]. discriminate.
    - rewrite app_length. cbn [length]. lia.
    - rewrite <- H1, <- !app_assoc. reflexivity.
    - exact H2.
    - discriminate.
    - cbn [length] in H4. lia.
    - exact H1.
    - reflexivity.
    - intros Hf. destruct (H3 Hf) as [Hc _]. discriminate.
    - exact H4.
    - exact H1.
    - reflexivity.
    - intros _. split; reflexivity.
    - exact H4.
  Qed.

  Lemma tinv_steps s : tsteps cap (tinit items) s -> tinv s.
  Proof.
    intros H. remember (tinit items) as s0 eqn:E. induction H as [s | s1 s2 s3 H12 IH H23].
    - subst. apply tinv_init.
    - eapply tinv_step; [apply IH, E | exact H23].
  Qed.

  (* at every moment of every schedule the callback has seen a prefix of the list *)
  Lemma got_prefix s : tsteps cap (tinit items) s -> exists rest, items = got s ++ rest.
  Proof.
    intros H. destruct (tinv_steps s H) as (H1 & _). exists (buf s ++ to_send s). now rewrite H1.
  Qed.

  (* when Traverse returns, the callback has seen exactly the list, in order *)
  Lemma got_all s : tsteps cap (tinit items) s -> fin s = true -> got s = items.
  Proof.
    intros H Hf. destruct (tinv_steps s H) as (H1 & H2 & H3 & _).
    destruct (H3 Hf) as [Hc Hb]. rewrite (H2 Hc), Hb, !app_nil_r in H1. exact H1.
  Qed.

  (* no deadlock: until Traverse has returned some thread can move *)
  Lemma progress s : tsteps cap (tinit items) s -> fin s = false -> exists s', tstep cap s s'.
  Proof.
    intros H Hf. destruct (tinv_steps s H) as (_ & H2 & _ & _).
    destruct s as [ts b c g f]. cbn in *. subst f.
    destruct b as [|x b].
    - destruct ts as [|x p].
      + destruct c.
        * eexists. apply t_exit.
        * eexists. apply t_close.
      + destruct c; [specialize (H2 eq_refl); discriminate|].
        eexists. apply t_handoff.
    - eexists. apply t_recv.
  Qed.

  (* every step consumes the measure: schedules are finite (at most tmeasure (tinit items) steps) *)
  Lemma step_decreases (s s' : tstate A) : tstep cap s s' -> (tmeasure s' < tmeasure s)%nat.
  Proof.
    intros Hs. destruct Hs; unfold tmeasure; cbn [to_send buf closed fin length];
      rewrite ?app_length; cbn [length]; try destruct c; try destruct f; lia.
  Qed.

  Lemma steps_bounded s : tsteps cap (tinit items) s -> (tmeasure s <= 2 * length items + 2)%nat.
  Proof.
    intros H. remember (tinit items) as s0 eqn:E. induction H as [s | s1 s2 s3 H12 IH H23].
    - subst. unfold tmeasure, tinit. cbn. lia.
    - pose proof (step_decreases _ _ H23). specialize (IH E). lia.
  Qed.

  (* with the channel of the code (capacity 0) the buffer is always empty:
     every item goes from the producer's send straight into the callback *)
  Lemma unbuffered_buf_empty s : cap = O -> tsteps cap (tinit items) s -> buf s = [].
  Proof.
    intros Hc H. destruct (tinv_steps s H) as (_ & _ & _ & H4). destruct (buf s); [reflexivity|].
    cbn in H4. lia.
  Qed.

  (* and a complete schedule exists (the statements above are not vacuous) *)
  Lemma complete_schedule_exists : exists s : tstate A, tsteps cap (tinit items) s /\ fin s = true.
  Proof.
    assert (G : forall (ts g : list A), exists s : tstate A,
              tsteps cap {| to_send := ts; buf := []; closed := false; got := g; fin := false |} s /\ fin s = true).
    { induction ts as [|x p IH]; intros g.
      - exists {| to_send := []; buf := []; closed := true; got := g; fin := true |}. split; [|reflexivity].
        eapply ts_step; [eapply ts_step; [apply ts_refl | apply t_close] | apply t_exit].
      - destruct (IH (g ++ [x])) as (s & Hs & Hf). exists s. split; [|exact Hf].
        clear Hf. remember {| to_send := p; buf := []; closed := false; got := g ++ [x]; fin := false |} as s1 eqn:E.
        induction Hs as [s | s1 s2 s3 H12 IH' H23].
        + subst. eapply ts_step; [apply ts_refl | apply t_handoff].
        + eapply ts_step; [apply IH', E | exact H23]. }
    apply (G items []).
  Qed.
End ChanProofs.
