(* C04_ProofsTies.v — the lemmas of C04_Proofs.v again, for comparators under
   which distinct keys may TIE.  The hypothesis "strict total order" (STO) is
   weakened to "strict weak order" (SWO: irreflexive, transitive, and a key
   below another is below or above every third one — equivalently, "neither
   below nor above" is an equivalence compatible with the order), and equality
   of keys is replaced throughout by that equivalence, [ceq comp], which is what
   the code tests (gogu.Compare(..) == 0).  Same method: the in-order listing
   is the abstraction function, the reference machine is the comparator-sorted
   association list with [ceq comp] as its notion of "same key".  The model is
   the one of C04_Model.v; nothing is transcribed again.

   The last part is about non-strict comparators (a <= b). *)

From Gogu Require Import Base C04_Model C04_ModelTies.
From Gogu Require C04_Proofs.
From Coq Require Import Sorted Permutation SetoidList SetoidPermutation.

Notation bst := C04_Proofs.bst.
Notation all_keys := C04_Proofs.all_keys.
Notation same_but_size := C04_Proofs.same_but_size.
Notation is_notfound := C04_Proofs.is_notfound.

(* strict weak order, as a boolean comparator *)
Definition SWO {K : Type} (comp : K -> K -> bool) : Prop :=
  (forall a, comp a a = false) /\
  (forall a b c, comp a b = true -> comp b c = true -> comp a c = true) /\
  (forall a b c, comp a b = true -> comp a c = true \/ comp c b = true).

Lemma PermutationA_len {A : Type} (eqA : A -> A -> Prop) (l1 l2 : list A) :
  PermutationA eqA l1 l2 -> length l1 = length l2.
Proof. induction 1; cbn; congruence. Qed.

Section TiesProofs.
  Context {K V : Type}.
  Variable comp : K -> K -> bool.
  Hypothesis Hswo : SWO comp.

  Notation keqb := (ceq comp).

  Notation tree := (@tree K V).
  Notation amap := (@amap K V).
  Notation op := (@op K V).
  Notation out := (@out K V).

  Definition klt (a b : K * V) : Prop := comp (fst a) (fst b) = true.
  Definition sorted (m : amap) : Prop := StronglySorted klt m.

  (* ---------- the order ---------- *)

  Lemma c_irrefl a : comp a a = false.
  Proof. destruct Hswo as (H & _ & _). apply H. Qed.

  Lemma c_trans a b c : comp a b = true -> comp b c = true -> comp a c = true.
  Proof. destruct Hswo as (_ & H & _). apply H. Qed.

  Lemma c_cotrans a b c : comp a b = true -> comp a c = true \/ comp c b = true.
  Proof. destruct Hswo as (_ & _ & H). apply H. Qed.

  Lemma c_asym a b : comp a b = true -> comp b a = false.
  Proof.
    intros H. destruct (comp b a) eqn:E; [|reflexivity].
    pose proof (c_trans _ _ _ H E) as H1. rewrite c_irrefl in H1. discriminate.
  Qed.

  Lemma keqb_iff a b : keqb a b = true <-> comp a b = false /\ comp b a = false.
  Proof. unfold ceq. destruct (comp a b), (comp b a); cbn; split; try tauto; try discriminate; intros [? ?]; discriminate. Qed.

  Lemma keqb_refl a : keqb a a = true.
  Proof. apply keqb_iff. split; apply c_irrefl. Qed.

  Lemma keqb_sym a b : keqb a b = keqb b a.
  Proof. unfold ceq. apply andb_comm. Qed.

  Lemma keqb_lt a b : comp a b = true -> keqb a b = false.
  Proof. intros H. unfold ceq. now rewrite H. Qed.

  Lemma keqb_gt a b : comp b a = true -> keqb a b = false.
  Proof. intros H. unfold ceq. rewrite H. apply andb_false_r. Qed.

  (* tied keys compare alike with every third key *)
  Lemma comp_eq_l a b c : keqb a b = true -> comp a c = comp b c.
  Proof.
    intros H. apply keqb_iff in H as [H1 H2].
    destruct (comp a c) eqn:E1, (comp b c) eqn:E2; try reflexivity.
    - destruct (c_cotrans _ _ b E1) as [H | H]; congruence.
    - destruct (c_cotrans _ _ a E2) as [H | H]; congruence.
  Qed.

  Lemma comp_eq_r a b c : keqb a b = true -> comp c a = comp c b.
  Proof.
    intros H. apply keqb_iff in H as [H1 H2].
    destruct (comp c a) eqn:E1, (comp c b) eqn:E2; try reflexivity.
    - destruct (c_cotrans _ _ b E1) as [H | H]; congruence.
    - destruct (c_cotrans _ _ a E2) as [H | H]; congruence.
  Qed.

  Lemma keqb_eq_l a b c : keqb a b = true -> keqb a c = keqb b c.
  Proof. intros H. unfold ceq. now rewrite (comp_eq_l a b c H), (comp_eq_r a b c H). Qed.

  Lemma keqb_eq_r a b c : keqb a b = true -> keqb c a = keqb c b.
  Proof. intros H. rewrite (keqb_sym c a), (keqb_sym c b). apply keqb_eq_l, H. Qed.

  Lemma keqb_trans a b c : keqb a b = true -> keqb b c = true -> keqb a c = true.
  Proof. intros H1 H2. now rewrite (keqb_eq_l a b c H1). Qed.

  (* the three outcomes of Compare(key, k, comp) *)
  Lemma compare_cases (key k : K) :
    (comp key k = true /\ compare comp key k = 1) \/
    (comp key k = false /\ comp k key = true /\ compare comp key k = -1) \/
    (keqb key k = true /\ compare comp key k = 0).
  Proof.
    unfold compare. destruct (comp key k) eqn:E1; [left; auto|].
    destruct (comp k key) eqn:E2; [right; left; auto|].
    right; right. split; [apply keqb_iff; split; assumption | reflexivity].
  Qed.

  (* ---------- sorted association lists ---------- *)

  Lemma sorted_app (l1 : amap) (l2 : amap) :
    sorted (l1 ++ l2) <->
    sorted l1 /\ sorted l2 /\ (forall a b, In a l1 -> In b l2 -> klt a b).
  Proof.
    unfold sorted. induction l1 as [|x l1 IH]; cbn.
    - split; [intros H; repeat split; [constructor | exact H | intros a b []] | intros (_ & H & _); exact H].
    - split.
      + intros H. inversion H as [|? ? Hs Hf]; subst. apply IH in Hs as (H1 & H2 & H3).
        rewrite Forall_app in Hf. destruct Hf as [Hf1 Hf2]. repeat split.
        * constructor; assumption.
        * assumption.
        * intros a b [<- | Ha] Hb; [rewrite Forall_forall in Hf2; apply Hf2, Hb | apply H3; assumption].
      + intros (H1 & H2 & H3). inversion H1 as [|? ? Hs Hf]; subst. constructor.
        * apply IH. repeat split; [assumption | assumption | intros a b Ha Hb; apply H3; [right|]; assumption].
        * rewrite Forall_app. split; [assumption|]. rewrite Forall_forall. intros b Hb. apply H3; [left; reflexivity | assumption].
  Qed.

  Lemma sorted_cons a (m : amap) : sorted (a :: m) <-> sorted m /\ (forall b, In b m -> klt a b).
  Proof.
    unfold sorted. split.
    - intros H. inversion H as [|? ? Hs Hf]; subst. split; [assumption|]. now rewrite Forall_forall in Hf.
    - intros [H1 H2]. constructor; [assumption|]. now rewrite Forall_forall.
  Qed.

  Lemma m_get_app k (l1 : amap) (l2 : amap) :
    m_get keqb k (l1 ++ l2) = match m_get keqb k l1 with Some x => Some x | None => m_get keqb k l2 end.
  Proof.
    induction l1 as [|[k' v'] l1 IH]; cbn; [reflexivity|]. destruct (keqb k k'); [reflexivity | exact IH].
  Qed.

  Lemma m_get_none_iff k (m : amap) : m_get keqb k m = None <-> (forall a, In a m -> keqb k (fst a) = false).
  Proof.
    induction m as [|[k' v'] m IH]; cbn.
    - split; [intros _ a [] | reflexivity].
    - destruct (keqb k k') eqn:E.
      + split; [discriminate|]. intros H. specialize (H (k', v') (or_introl eq_refl)). cbn in H. congruence.
      + rewrite IH. split.
        * intros H a [<- | Ha]; [exact E | apply H, Ha].
        * intros H a Ha. apply H. right. exact Ha.
  Qed.

  Lemma m_get_none_gt k (m : amap) : (forall a, In a m -> comp k (fst a) = true) -> m_get keqb k m = None.
  Proof. intros H. apply m_get_none_iff. intros a Ha. apply keqb_lt, H, Ha. Qed.

  Lemma m_get_none_lt k (m : amap) : (forall a, In a m -> comp (fst a) k = true) -> m_get keqb k m = None.
  Proof. intros H. apply m_get_none_iff. intros a Ha. apply keqb_gt, H, Ha. Qed.

  Lemma m_get_some k (m : amap) kv : m_get keqb k m = Some kv -> keqb k (fst kv) = true /\ In kv m.
  Proof.
    induction m as [|[k' v'] m IH]; cbn; [discriminate|]. destruct (keqb k k') eqn:E.
    - intros [= <-]. split; [exact E | left; reflexivity].
    - intros H. apply IH in H as [H1 H2]. split; [exact H1 | right; exact H2].
  Qed.

  (* looking up a key gives the entry of the key it ties with *)
  Lemma m_get_in k k0 v (m : amap) :
    sorted m -> In (k0, v) m -> keqb k k0 = true -> m_get keqb k m = Some (k0, v).
  Proof.
    induction m as [|[k' v'] m IH]; cbn; [intros _ []|]. intros Hs Hin Hk. apply sorted_cons in Hs as [Hs Hlt].
    destruct Hin as [[= -> ->] | Hin].
    - now rewrite Hk.
    - rewrite keqb_gt; [apply IH; assumption|]. rewrite (comp_eq_r k k0 k' Hk). apply (Hlt (k0, v) Hin).
  Qed.

  Lemma m_get_some_iff k kv (m : amap) :
    sorted m -> (m_get keqb k m = Some kv <-> In kv m /\ keqb k (fst kv) = true).
  Proof.
    intros Hs. split; [intros H; apply m_get_some in H; tauto|]. destruct kv as [k0 v]. intros [H1 H2].
    apply m_get_in; assumption.
  Qed.

  (* tied keys are looked up alike *)
  Lemma m_get_keqb k k' (m : amap) : keqb k k' = true -> m_get keqb k m = m_get keqb k' m.
  Proof.
    intros H. induction m as [|[k'' v''] m IH]; cbn; [reflexivity|].
    rewrite (keqb_eq_l k k' k'' H). destruct (keqb k' k''); [reflexivity | exact IH].
  Qed.

  (* --- m_upsert --- *)

  Lemma m_upsert_app_l k v (l1 : amap) a (l2 : amap) :
    comp k (fst a) = true ->
    m_upsert comp keqb k v (l1 ++ a :: l2) = m_upsert comp keqb k v l1 ++ a :: l2.
  Proof.
    intros Hlt. induction l1 as [|[k' v'] l1 IH]; cbn.
    - destruct a as [ka va]. cbn in Hlt. now rewrite (keqb_lt _ _ Hlt), Hlt.
    - destruct (keqb k k'); [reflexivity|]. destruct (comp k k'); [reflexivity|]. now rewrite IH.
  Qed.

  Lemma m_upsert_app_r k v (l1 : amap) (l2 : amap) :
    (forall a, In a l1 -> comp (fst a) k = true) ->
    m_upsert comp keqb k v (l1 ++ l2) = l1 ++ m_upsert comp keqb k v l2.
  Proof.
    induction l1 as [|[k' v'] l1 IH]; cbn; intros H; [reflexivity|].
    assert (Hk : comp k' k = true) by apply (H (k', v')), or_introl, eq_refl.
    rewrite (keqb_gt _ _ Hk), (c_asym _ _ Hk), IH; [reflexivity|]. intros a Ha. apply H. right. exact Ha.
  Qed.

  Lemma m_upsert_in k v (m : amap) x : In x (m_upsert comp keqb k v m) -> keqb k (fst x) = true \/ In x m.
  Proof.
    induction m as [|[k' v'] m IH]; cbn.
    - intros [<- | []]. left. apply keqb_refl.
    - destruct (keqb k k') eqn:E.
      + intros [<- | H]; [left; exact E | right; right; exact H].
      + destruct (comp k k').
        * intros [<- | H]; [left; apply keqb_refl | right; exact H].
        * intros [<- | H]; [right; left; reflexivity|]. apply IH in H as [H | H]; [left | right; right]; exact H.
  Qed.

  Lemma m_upsert_sorted k v (m : amap) : sorted m -> sorted (m_upsert comp keqb k v m).
  Proof.
    induction m as [|[k' v'] m IH]; cbn; intros Hs.
    - apply sorted_cons. split; [constructor | intros b []].
    - apply sorted_cons in Hs as [Hs Hlt]. destruct (keqb k k') eqn:E.
      + apply sorted_cons. split; [exact Hs | exact Hlt].
      + destruct (comp k k') eqn:C.
        * apply sorted_cons. split; [apply sorted_cons; split; assumption|].
          intros b [<- | Hb]; [exact C|]. unfold klt; cbn. eapply c_trans; [exact C | apply (Hlt b Hb)].
        * apply sorted_cons. split; [apply IH, Hs|]. intros b Hb. apply m_upsert_in in Hb as [Hb | Hb].
          -- unfold klt; cbn. rewrite <- (comp_eq_r k (fst b) k' Hb). destruct (comp k' k) eqn:C'; [reflexivity|].
             assert (keqb k k' = true) by (apply keqb_iff; split; assumption). congruence.
          -- apply Hlt, Hb.
  Qed.

  (* the key an Upsert of k' leaves in the entry: the one already stored for k''s class, else k' *)
  Definition stored_key (k' : K) (m : amap) : K :=
    match m_get keqb k' m with Some (k0, _) => k0 | None => k' end.

  Lemma m_get_upsert k k' v (m : amap) :
    sorted m ->
    m_get keqb k (m_upsert comp keqb k' v m) = if keqb k k' then Some (stored_key k' m, v) else m_get keqb k m.
  Proof.
    unfold stored_key. induction m as [|[k'' v''] m IH]; cbn; intros Hs.
    - destruct (keqb k k'); reflexivity.
    - apply sorted_cons in Hs as [Hs Hlt]. destruct (keqb k' k'') eqn:E.
      + cbn. rewrite (keqb_eq_r k' k'' k E). destruct (keqb k k''); reflexivity.
      + destruct (comp k' k'') eqn:C; cbn.
        * rewrite (m_get_none_gt k' m); [destruct (keqb k k'); reflexivity|].
          intros a Ha. eapply c_trans; [exact C | apply (Hlt a Ha)].
        * destruct (keqb k k'') eqn:E2.
          -- destruct (keqb k k') eqn:E3; [|reflexivity].
             rewrite (keqb_eq_l k k' k'' E3) in E2. congruence.
          -- exact (IH Hs).
  Qed.

  Lemma m_upsert_length k v (m : amap) :
    sorted m ->
    length (m_upsert comp keqb k v m) =
    (length m + match m_get keqb k m with Some _ => 0 | None => 1 end)%nat.
  Proof.
    induction m as [|[k' v'] m IH]; cbn; intros Hs; [reflexivity|]. apply sorted_cons in Hs as [Hs Hlt].
    destruct (keqb k k'); cbn; [lia|].
    destruct (comp k k') eqn:C; cbn.
    - rewrite m_get_none_gt; [lia|]. intros a Ha. eapply c_trans; [exact C | apply (Hlt a Ha)].
    - rewrite (IH Hs). destruct (m_get keqb k m); lia.
  Qed.

  (* --- m_remove --- *)

  Lemma m_remove_absent k (m : amap) : m_get keqb k m = None -> m_remove keqb k m = m.
  Proof.
    induction m as [|[k' v'] m IH]; cbn; [reflexivity|]. destruct (keqb k k'); [discriminate|].
    intros H. now rewrite IH.
  Qed.

  Lemma m_remove_app_l k (l1 : amap) (l2 : amap) :
    m_get keqb k l2 = None -> m_remove keqb k (l1 ++ l2) = m_remove keqb k l1 ++ l2.
  Proof.
    intros H. induction l1 as [|[k' v'] l1 IH]; cbn; [apply m_remove_absent, H|].
    destruct (keqb k k'); [reflexivity|]. now rewrite IH.
  Qed.

  Lemma m_remove_app_r k (l1 : amap) (l2 : amap) :
    m_get keqb k l1 = None -> m_remove keqb k (l1 ++ l2) = l1 ++ m_remove keqb k l2.
  Proof.
    induction l1 as [|[k' v'] l1 IH]; cbn; [reflexivity|]. destruct (keqb k k'); [discriminate|].
    intros H. now rewrite IH.
  Qed.

  Lemma m_remove_in k (m : amap) x : In x (m_remove keqb k m) -> In x m.
  Proof.
    induction m as [|[k' v'] m IH]; cbn; [tauto|]. destruct (keqb k k'); [intros H; right; exact H|].
    intros [<- | H]; [left; reflexivity | right; apply IH, H].
  Qed.

  Lemma m_remove_sorted k (m : amap) : sorted m -> sorted (m_remove keqb k m).
  Proof.
    induction m as [|[k' v'] m IH]; cbn; intros Hs; [exact Hs|]. apply sorted_cons in Hs as [Hs Hlt].
    destruct (keqb k k'); [exact Hs|]. apply sorted_cons. split; [apply IH, Hs|].
    intros b Hb. apply Hlt. eapply m_remove_in, Hb.
  Qed.

  Lemma m_get_remove k k' (m : amap) :
    sorted m -> m_get keqb k (m_remove keqb k' m) = if keqb k k' then None else m_get keqb k m.
  Proof.
    induction m as [|[k'' v''] m IH]; cbn; intros Hs.
    - destruct (keqb k k'); reflexivity.
    - apply sorted_cons in Hs as [Hs Hlt]. destruct (keqb k' k'') eqn:E.
      + rewrite <- (keqb_eq_r k' k'' k E). destruct (keqb k k') eqn:E2; [|reflexivity].
        apply m_get_none_gt. intros a Ha.
        rewrite (comp_eq_l k k'' (fst a)); [apply (Hlt a Ha) | now rewrite (keqb_eq_l k k' k'' E2)].
      + cbn. destruct (keqb k k'') eqn:E2.
        * destruct (keqb k k') eqn:E3; [|reflexivity].
          rewrite (keqb_eq_l k k' k'' E3) in E2. congruence.
        * apply IH, Hs.
  Qed.

  Lemma m_remove_length k (m : amap) :
    length (m_remove keqb k m) =
    (length m - match m_get keqb k m with Some _ => 1 | None => 0 end)%nat.
  Proof.
    induction m as [|[k' v'] m IH]; cbn; [reflexivity|]. destruct (keqb k k'); cbn; [lia|].
    rewrite IH. destruct (m_get keqb k m) eqn:G; [|lia].
    destruct m; [discriminate | cbn; lia].
  Qed.

  Lemma sorted_keys (m : amap) : sorted m -> StronglySorted (fun a b => comp a b = true) (map fst m).
  Proof.
    induction m as [|a m IH]; cbn; intros Hs; [constructor|]. apply sorted_cons in Hs as [Hs Hlt].
    constructor; [apply IH, Hs|]. rewrite Forall_forall. intros b Hb. apply in_map_iff in Hb as (x & <- & Hx).
    apply (Hlt x Hx).
  Qed.

  Lemma sorted_nodup (m : amap) : sorted m -> NoDup (map fst m).
  Proof.
    induction m as [|a m IH]; cbn; intros Hs; [constructor|]. apply sorted_cons in Hs as [Hs Hlt].
    constructor; [|apply IH, Hs]. intros Hin. apply in_map_iff in Hin as (x & E & Hx).
    specialize (Hlt x Hx). unfold klt in Hlt. rewrite E, c_irrefl in Hlt. discriminate.
  Qed.

  (* no two entries of a sorted list tie: one entry per class *)
  Lemma sorted_inequiv (m : amap) : sorted m -> StronglySorted (fun a b => keqb a b = false) (map fst m).
  Proof.
    induction m as [|a m IH]; cbn; intros Hs; [constructor|]. apply sorted_cons in Hs as [Hs Hlt].
    constructor; [apply IH, Hs|]. rewrite Forall_forall. intros b Hb. apply in_map_iff in Hb as (x & <- & Hx).
    apply keqb_lt, (Hlt x Hx).
  Qed.

  (* ---------- trees: the listing abstracts the operations ---------- *)

  Definition conv (o : option (K * V)) : res (K * V) :=
    match o with Some kv => Ok kv | None => Err NotFound end.

  Lemma all_keys_iff (P : K -> Prop) (t : tree) :
    all_keys P t <-> (forall a, In a (traverse t) -> P (fst a)).
  Proof.
    induction t as [|l IHl k v r IHr]; cbn.
    - split; [intros _ a [] | trivial].
    - rewrite IHl, IHr. split.
      + intros (H1 & H2 & H3) a Ha. apply in_app_or in Ha as [Ha | [<- | Ha]]; [apply H1, Ha | exact H2 | apply H3, Ha].
      + intros H. repeat split.
        * intros a Ha. apply H, in_or_app. left. exact Ha.
        * apply (H (k, v)), in_or_app. right. left. reflexivity.
        * intros a Ha. apply H, in_or_app. right. right. exact Ha.
  Qed.

  Lemma sorted_node (l : tree) k v (r : tree) :
    sorted (traverse l ++ (k, v) :: traverse r) <->
    sorted (traverse l) /\ sorted (traverse r) /\
    (forall a, In a (traverse l) -> comp (fst a) k = true) /\
    (forall a, In a (traverse r) -> comp k (fst a) = true).
  Proof.
    rewrite sorted_app, sorted_cons. split.
    - intros (H1 & (H2 & H3) & H4). repeat split; try assumption.
      intros a Ha. apply (H4 a (k, v) Ha). left. reflexivity.
    - intros (H1 & H2 & H3 & H4). repeat split; try assumption.
      intros a b Ha [<- | Hb]; [apply H3, Ha|]. unfold klt. eapply c_trans; [apply H3, Ha | apply H4, Hb].
  Qed.

  Lemma bst_iff_sorted (t : tree) : bst comp t <-> sorted (traverse t).
  Proof.
    induction t as [|l IHl k v r IHr]; cbn [bst traverse].
    - split; [intros _; constructor | trivial].
    - rewrite sorted_node, IHl, IHr, !all_keys_iff. tauto.
  Qed.

  (* what lies left of k lies left of every key tied with k *)
  Lemma Hl_tied key k (m : amap) :
    keqb key k = true -> (forall a, In a m -> comp (fst a) k = true) -> (forall a, In a m -> comp (fst a) key = true).
  Proof. intros E H a Ha. rewrite (comp_eq_r key k (fst a) E). apply H, Ha. Qed.

  Lemma get_abs (t : tree) key :
    sorted (traverse t) -> get comp t key = conv (m_get keqb key (traverse t)).
  Proof.
    induction t as [|l IHl k v r IHr]; cbn [get traverse]; intros Hs; [reflexivity|].
    apply sorted_node in Hs as (Hsl & Hsr & Hl & Hr). rewrite m_get_app.
    destruct (compare_cases key k) as [(C & ->) | [(C1 & C2 & ->) | (Ek & ->)]]; cbn [Z.eqb Pos.eqb].
    - rewrite (IHl Hsl). rewrite (m_get_none_gt key ((k, v) :: traverse r)).
      + destruct (m_get keqb key (traverse l)); reflexivity.
      + intros a [<- | Ha]; [exact C | eapply c_trans; [exact C | apply Hr, Ha]].
    - rewrite (m_get_none_lt key (traverse l)).
      + cbn [m_get]. rewrite (keqb_gt _ _ C2). apply IHr, Hsr.
      + intros a Ha. eapply c_trans; [apply Hl, Ha | exact C2].
    - rewrite (m_get_none_lt key (traverse l) (Hl_tied _ _ _ Ek Hl)). cbn [m_get]. now rewrite Ek.
  Qed.

  Lemma upsert_abs key val (t : tree) :
    sorted (traverse t) -> forall sz, t <> E ->
    exists t', upsert_node comp t key val sz =
               Ok (t', sz + match m_get keqb key (traverse t) with Some _ => 0 | None => 1 end) /\
               traverse t' = m_upsert comp keqb key val (traverse t).
  Proof.
    induction t as [|l IHl k v r IHr]; intros Hs sz Hne; [contradiction|]. clear Hne.
    cbn [traverse] in *. apply sorted_node in Hs as (Hsl & Hsr & Hl & Hr).
    cbn [upsert_node]. rewrite m_get_app.
    destruct (compare_cases key k) as [(C & ->) | [(C1 & C2 & ->) | (Ek & ->)]]; cbn [Z.eqb Pos.eqb].
    - assert (Hn : m_get keqb key ((k, v) :: traverse r) = None).
      { apply m_get_none_gt. intros a [<- | Ha]; [exact C | eapply c_trans; [exact C | apply Hr, Ha]]. }
      rewrite Hn. rewrite (m_upsert_app_l key val (traverse l) (k, v) (traverse r) C).
      destruct l as [|ll lk lv lr].
      + eexists. split; [reflexivity|]. reflexivity.
      + destruct (IHl Hsl sz) as (l' & E1 & E2); [discriminate|]. rewrite E1. eexists. split.
        * destruct (m_get keqb key (traverse (T ll lk lv lr))); reflexivity.
        * cbn [traverse]. cbn [traverse] in E2. now rewrite E2.
    - assert (Hn : m_get keqb key (traverse l) = None).
      { apply m_get_none_lt. intros a Ha. eapply c_trans; [apply Hl, Ha | exact C2]. }
      rewrite Hn. rewrite (m_upsert_app_r key val (traverse l)).
      2:{ intros a Ha. eapply c_trans; [apply Hl, Ha | exact C2]. }
      cbn [m_get m_upsert]. rewrite (keqb_gt _ _ C2), C1.
      destruct r as [|rl rk rv rr].
      + eexists. split; reflexivity.
      + destruct (IHr Hsr sz) as (r' & E1 & E2); [discriminate|]. rewrite E1. eexists. split; [reflexivity|].
        cbn [traverse]. cbn [traverse] in E2. now rewrite E2.
    - pose proof (Hl_tied _ _ _ Ek Hl) as Hl'.
      rewrite (m_get_none_lt key (traverse l) Hl'). rewrite (m_upsert_app_r key val (traverse l) _ Hl').
      cbn [m_get m_upsert]. rewrite Ek. eexists. split; [rewrite Z.add_0_r; reflexivity | reflexivity].
  Qed.

  Lemma min_node_hd (rl : tree) : forall rk rv (rr : tree),
    exists rest, traverse (T rl rk rv rr) = min_node rl rk rv :: rest.
  Proof.
    induction rl as [|a IHa k' v' b _]; intros rk rv rr.
    - eexists. reflexivity.
    - destruct (IHa k' v' b) as (rest & E1). cbn [min_node].
      exists (rest ++ (rk, rv) :: traverse rr).
      change (traverse (T (T a k' v' b) rk rv rr)) with (traverse (T a k' v' b) ++ (rk, rv) :: traverse rr).
      rewrite E1. reflexivity.
  Qed.

  Lemma delete_abs (t : tree) :
    sorted (traverse t) -> forall key,
    traverse (fst (delete comp t key)) = m_remove keqb key (traverse t) /\
    snd (delete comp t key) = match m_get keqb key (traverse t) with Some _ => false | None => true end.
  Proof.
    induction t as [|l IHl k v r IHr]; intros Hs key; [split; reflexivity|].
    cbn [traverse] in *. apply sorted_node in Hs as (Hsl & Hsr & Hl & Hr).
    cbn [delete]. rewrite m_get_app.
    destruct (compare_cases key k) as [(C & ->) | [(C1 & C2 & ->) | (Ek & ->)]]; cbn [Z.eqb Pos.eqb].
    - assert (Hn : m_get keqb key ((k, v) :: traverse r) = None).
      { apply m_get_none_gt. intros a [<- | Ha]; [exact C | eapply c_trans; [exact C | apply Hr, Ha]]. }
      rewrite Hn, (m_remove_app_l key (traverse l) _ Hn).
      destruct (IHl Hsl key) as [E1 E2]. destruct (delete comp l key) as [l' err]. cbn [fst snd] in *.
      cbn [traverse]. rewrite E1, E2. split; [reflexivity|]. destruct (m_get keqb key (traverse l)); reflexivity.
    - assert (Hn : m_get keqb key (traverse l) = None).
      { apply m_get_none_lt. intros a Ha. eapply c_trans; [apply Hl, Ha | exact C2]. }
      rewrite Hn, (m_remove_app_r key (traverse l) _ Hn). cbn [m_get m_remove]. rewrite (keqb_gt _ _ C2).
      destruct (IHr Hsr key) as [E1 E2]. destruct (delete comp r key) as [r' err]. cbn [fst snd] in *.
      cbn [traverse]. rewrite E1, E2. split; reflexivity.
    - pose proof (m_get_none_lt key (traverse l) (Hl_tied _ _ _ Ek Hl)) as Hn.
      rewrite Hn, (m_remove_app_r key (traverse l) _ Hn). cbn [m_get m_remove]. rewrite Ek.
      destruct l as [|ll lk lv lr]; destruct r as [|rl rk rv rr]; cbn [fst snd].
      + split; reflexivity.
      + split; reflexivity.
      + split; [|reflexivity]. cbn [traverse]. now rewrite app_nil_r.
      + destruct (min_node_hd rl rk rv rr) as (rest & Emin).
        destruct (min_node rl rk rv) as [mk mv] eqn:Em.
        destruct (IHr Hsr mk) as [E1 E2]. rewrite Emin in E1, E2. cbn [m_get m_remove] in E1, E2.
        rewrite keqb_refl in E1, E2.
        destruct (delete comp (T rl rk rv rr) mk) as [r' err]. cbn [fst snd] in *.
        split; [|exact E2]. cbn [traverse]. cbn [traverse] in Emin. rewrite E1, Emin. reflexivity.
  Qed.

  Lemma m_remove_filter k (m : amap) :
    sorted m -> m_remove keqb k m = filter (fun kv => negb (keqb k (fst kv))) m.
  Proof.
    induction m as [|[k' v'] m IH]; cbn; intros Hs; [reflexivity|]. apply sorted_cons in Hs as [Hs Hlt].
    destruct (keqb k k') eqn:E; cbn.
    - clear IH Hs. induction m as [|a m IHm]; cbn; [reflexivity|].
      rewrite keqb_lt; [|rewrite (comp_eq_l k k' (fst a) E); apply (Hlt a); left; reflexivity]. cbn. f_equal. apply IHm.
      intros b Hb. apply Hlt. right. exact Hb.
    - now rewrite IH.
  Qed.

  (* ---------- one step, all states whose tree is a search tree ---------- *)

  Lemma step_abs (b : @C04_Model.bst K V) (o : op) :
    sorted (traverse (root b)) ->
    traverse (root (fst (step comp b o))) = fst (m_step comp keqb (traverse (root b)) o).
  Proof.
    intros Hs. destruct o as [k v | k | k | |]; cbn [step m_step]; try reflexivity.
    - destruct (root b) as [|l nk nv r] eqn:Er; [reflexivity|].
      destruct (upsert_abs k v (T l nk nv r) Hs (size b)) as (t' & E1 & E2); [discriminate|].
      rewrite E1. cbn [fst root]. exact E2.
    - destruct (delete_abs (root b) Hs k) as [E1 E2]. destruct (delete comp (root b) k) as [t' err].
      cbn [fst snd root] in *. rewrite E1.
      destruct (m_get keqb k (traverse (root b))) eqn:G; cbn [fst]; [reflexivity | apply m_remove_absent, G].
  Qed.

  Lemma m_step_sorted (m : amap) (o : op) : sorted m -> sorted (fst (m_step comp keqb m o)).
  Proof.
    intros Hs. destruct o as [k v | k | k | |]; cbn [m_step fst]; try exact Hs.
    - apply m_upsert_sorted, Hs.
    - destruct (m_get keqb k m); cbn [fst]; [apply m_remove_sorted, Hs | exact Hs].
  Qed.

  Lemma step_preserves_bst (b : @C04_Model.bst K V) (o : op) :
    bst comp (root b) -> bst comp (root (fst (step comp b o))).
  Proof.
    rewrite !bst_iff_sorted. intros Hs. rewrite (step_abs b o Hs). apply m_step_sorted, Hs.
  Qed.

  Lemma get_after_upsert (b : @C04_Model.bst K V) k v k' :
    bst comp (root b) ->
    get comp (root (fst (step comp b (Upsert k v)))) k' =
    if keqb k' k then Ok (match get comp (root b) k with Ok (k0, _) => k0 | _ => k end, v)
    else get comp (root b) k'.
  Proof.
    intros Hb. pose proof (step_preserves_bst b (Upsert k v) Hb) as Hb'. apply bst_iff_sorted in Hb, Hb'.
    rewrite (get_abs _ k' Hb'), (step_abs b _ Hb). cbn [m_step fst]. rewrite (m_get_upsert _ _ _ _ Hb).
    destruct (keqb k' k); [|symmetry; apply get_abs, Hb]. cbn [conv]. rewrite (get_abs _ k Hb).
    unfold stored_key. destruct (m_get keqb k (traverse (root b))) as [[k0 v0]|]; reflexivity.
  Qed.

  Lemma get_after_delete (b : @C04_Model.bst K V) k k' :
    bst comp (root b) ->
    get comp (root (fst (step comp b (Delete k)))) k' =
    if keqb k' k then Err NotFound else get comp (root b) k'.
  Proof.
    intros Hb. pose proof (step_preserves_bst b (Delete k) Hb) as Hb'. apply bst_iff_sorted in Hb, Hb'.
    rewrite (get_abs _ k' Hb'), (step_abs b _ Hb). cbn [m_step].
    destruct (m_get keqb k (traverse (root b))) eqn:G; cbn [fst].
    - rewrite (m_get_remove k' k _ Hb). destruct (keqb k' k); [reflexivity | symmetry; apply get_abs, Hb].
    - destruct (keqb k' k) eqn:E; [|symmetry; apply get_abs, Hb]. now rewrite (m_get_keqb k' k _ E), G.
  Qed.

  Lemma delete_reports (b : @C04_Model.bst K V) k :
    bst comp (root b) ->
    snd (step comp b (Delete k)) =
    ODel (match get comp (root b) k with Ok _ => false | _ => true end).
  Proof.
    intros Hb. apply bst_iff_sorted in Hb. cbn [step]. destruct (delete_abs (root b) Hb k) as [_ E2].
    destruct (delete comp (root b) k) as [t' err]. cbn [snd] in *. rewrite E2, (get_abs _ k Hb).
    destruct (m_get keqb k (traverse (root b))); reflexivity.
  Qed.

  Lemma traverse_after_delete (b : @C04_Model.bst K V) k :
    bst comp (root b) ->
    traverse (root (fst (step comp b (Delete k)))) =
    filter (fun kv => negb (keqb k (fst kv))) (traverse (root b)).
  Proof.
    intros Hb. apply bst_iff_sorted in Hb. rewrite (step_abs b _ Hb). cbn [m_step].
    rewrite <- (m_remove_filter k _ Hb).
    destruct (m_get keqb k (traverse (root b))) eqn:G; cbn [fst]; [reflexivity | symmetry; apply m_remove_absent, G].
  Qed.

  (* ---------- histories ---------- *)

  Notation mbst := (@C04_Model.bst K V).

  Lemma run_app ops1 : forall ops2 (b : mbst),
    run comp (ops1 ++ ops2) b =
    (fst (run comp ops2 (fst (run comp ops1 b))),
     snd (run comp ops1 b) ++ snd (run comp ops2 (fst (run comp ops1 b)))).
  Proof.
    induction ops1 as [|o ops1 IH]; intros ops2 b; cbn [app run].
    - cbn. destruct (run comp ops2 b); reflexivity.
    - destruct (step comp b o) as [b1 x]. rewrite IH.
      destruct (run comp ops1 b1) as [b2 xs]. cbn [fst snd]. reflexivity.
  Qed.

  Lemma run_map_app ops1 : forall ops2 (m : amap),
    run_map comp keqb (ops1 ++ ops2) m =
    (fst (run_map comp keqb ops2 (fst (run_map comp keqb ops1 m))),
     snd (run_map comp keqb ops1 m) ++ snd (run_map comp keqb ops2 (fst (run_map comp keqb ops1 m)))).
  Proof.
    induction ops1 as [|o ops1 IH]; intros ops2 m; cbn [app run_map].
    - cbn. destruct (run_map comp keqb ops2 m); reflexivity.
    - destruct (m_step comp keqb m o) as [m1 x]. rewrite IH.
      destruct (run_map comp keqb ops1 m1) as [m2 xs]. cbn [fst snd]. reflexivity.
  Qed.

  (* the reference machine's state after a history *)
  Definition M (hist : list op) : amap := fst (run_map comp keqb hist []).

  Lemma M_snoc (hist : list op) (o : op) : M (hist ++ [o]) = fst (m_step comp keqb (M hist) o).
  Proof.
    unfold M. rewrite run_map_app. cbn [fst run_map].
    destruct (m_step comp keqb (fst (run_map comp keqb hist [])) o); reflexivity.
  Qed.

  Lemma M_sorted hist : sorted (M hist).
  Proof.
    induction hist as [|o hist IH] using rev_ind; [constructor|]. rewrite M_snoc. apply m_step_sorted, IH.
  Qed.

  Lemma latest_snoc k (hist : list op) (o : op) :
    latest keqb k (hist ++ [o]) = latest_step keqb k (latest keqb k hist) o.
  Proof. unfold latest. now rewrite fold_left_app. Qed.

  Lemma latest_kv_snoc k (hist : list op) (o : op) :
    latest_kv comp k (hist ++ [o]) = latest_kv_step comp k (latest_kv comp k hist) o.
  Proof. unfold latest_kv. now rewrite fold_left_app. Qed.

  (* the reference machine holds, for every key, exactly the entry that the history defines *)
  Lemma M_latest hist k : m_get keqb k (M hist) = latest_kv comp k hist.
  Proof.
    induction hist as [|o hist IH] using rev_ind; [reflexivity|].
    rewrite M_snoc, latest_kv_snoc. destruct o as [k' v | k' | k' | |]; cbn [m_step fst latest_kv_step]; try exact IH.
    - rewrite (m_get_upsert _ _ _ _ (M_sorted hist)). destruct (keqb k k') eqn:E; [|exact IH].
      unfold stored_key. rewrite <- (m_get_keqb k k' _ E), IH.
      destruct (latest_kv comp k hist) as [[k0 v0]|]; reflexivity.
    - destruct (m_get keqb k' (M hist)) eqn:G; cbn [fst].
      + rewrite (m_get_remove k k' _ (M_sorted hist)). destruct (keqb k k'); [reflexivity | exact IH].
      + destruct (keqb k k') eqn:E; [|exact IH]. now rewrite (m_get_keqb k k' _ E), G.
  Qed.

  (* [latest] at the comparator's equivalence is the value component of [latest_kv] *)
  Lemma latest_kv_val (hist : list op) k : option_map snd (latest_kv comp k hist) = latest keqb k hist.
  Proof.
    induction hist as [|o hist IH] using rev_ind; [reflexivity|].
    rewrite latest_kv_snoc, latest_snoc. destruct o as [k' v | k' | k' | |]; cbn [latest_kv_step latest_step]; try exact IH.
    - destruct (keqb k k'); [reflexivity | exact IH].
    - destruct (keqb k k'); [reflexivity | exact IH].
  Qed.

  Lemma latest_none_iff (hist : list op) k : latest_kv comp k hist = None <-> latest keqb k hist = None.
  Proof. rewrite <- latest_kv_val. destruct (latest_kv comp k hist); cbn; split; congruence. Qed.

  Lemma latest_some_iff_in hist k kv :
    latest_kv comp k hist = Some kv <-> In kv (M hist) /\ keqb k (fst kv) = true.
  Proof. rewrite <- (m_get_some_iff k kv _ (M_sorted hist)), M_latest. reflexivity. Qed.

  (* --- the reference machine with the defect written in: a second component
     counts the Deletes that reported not-found, and Size answers
     (number of entries) - (that count) --- *)
  Definition md_step (s : amap * nat) (o : op) : (amap * nat) * out :=
    match o with
    | Delete k =>
        match m_get keqb k (fst s) with
        | Some _ => ((m_remove keqb k (fst s), snd s), ODel false)
        | None => ((fst s, S (snd s)), ODel true)
        end
    | Size => (s, OSize (Z.of_nat (length (fst s)) - Z.of_nat (snd s)))
    | _ => ((fst (m_step comp keqb (fst s) o), snd s), snd (m_step comp keqb (fst s) o))
    end.

  Fixpoint run_md (ops : list op) (s : amap * nat) : (amap * nat) * list out :=
    match ops with
    | [] => (s, [])
    | o :: ops' =>
        let '(s1, x) := md_step s o in
        let '(s2, xs) := run_md ops' s1 in
        (s2, x :: xs)
    end.

  Definition R (b : mbst) (s : amap * nat) : Prop :=
    traverse (root b) = fst s /\ sorted (fst s) /\
    size b = Z.of_nat (length (fst s)) - Z.of_nat (snd s).

  Lemma m_remove_length_some k (m : amap) kv :
    m_get keqb k m = Some kv -> S (length (m_remove keqb k m)) = length m.
  Proof.
    revert kv. induction m as [|[k' v'] m IH]; cbn; intros kv; [discriminate|].
    destruct (keqb k k'); [reflexivity|]. intros G. cbn. now rewrite (IH _ G).
  Qed.

  Lemma step_sim (b : mbst) s o :
    R b s -> R (fst (step comp b o)) (fst (md_step s o)) /\ snd (step comp b o) = snd (md_step s o).
  Proof.
    intros (Ht & Hs & Hz). destruct s as [m d]. cbn [fst snd] in *.
    destruct o as [k v | k | k | |]; cbn [step md_step m_step fst snd].
    - destruct (root b) as [|l nk nv r] eqn:Er.
      + cbn [traverse] in Ht. subst m. cbn [fst snd]. split; [|reflexivity]. unfold R. cbn [fst snd root size traverse m_upsert length app].
        repeat split; [apply sorted_cons; split; [constructor | intros ? []] | cbn in Hz; lia].
      + rewrite <- Ht in Hs. destruct (upsert_abs k v (T l nk nv r) Hs (size b)) as (t' & E1 & E2); [discriminate|].
        rewrite E1. cbn [fst snd]. split; [|reflexivity]. unfold R. cbn [fst snd root size].
        rewrite Ht in *. repeat split; [exact E2 | apply m_upsert_sorted, Hs |].
        rewrite (m_upsert_length k v m Hs). destruct (m_get keqb k m); lia.
    - rewrite <- Ht in Hs. destruct (delete_abs (root b) Hs k) as [E1 E2].
      destruct (delete comp (root b) k) as [t' err]. cbn [fst snd] in *. rewrite Ht in *.
      destruct (m_get keqb k m) eqn:G; cbn [fst snd]; subst err; (split; [|reflexivity]); unfold R; cbn [fst snd root size].
      + repeat split; [exact E1 | apply m_remove_sorted, Hs |]. pose proof (m_remove_length_some k m _ G). lia.
      + repeat split; [rewrite E1; apply m_remove_absent, G | exact Hs | lia].
    - split; [unfold R; cbn [fst snd]; auto|]. rewrite <- Ht in Hs. rewrite (get_abs _ k Hs), Ht. reflexivity.
    - split; [unfold R; cbn [fst snd]; auto|]. now rewrite Hz.
    - split; [unfold R; cbn [fst snd]; auto|]. now rewrite Ht.
  Qed.

  Lemma run_sim ops : forall (b : mbst) s,
    R b s -> R (fst (run comp ops b)) (fst (run_md ops s)) /\ snd (run comp ops b) = snd (run_md ops s).
  Proof.
    induction ops as [|o ops IH]; intros b s HR; cbn [run run_md]; [split; [exact HR | reflexivity]|].
    destruct (step_sim b s o HR) as [HR1 Ho].
    destruct (step comp b o) as [b1 x]. destruct (md_step s o) as [s1 y]. cbn [fst snd] in *.
    destruct (IH b1 s1 HR1) as [HR2 Hos].
    destruct (run comp ops b1) as [b2 xs]. destruct (run_md ops s1) as [s2 ys]. cbn [fst snd] in *.
    split; [exact HR2 | congruence].
  Qed.

  Lemma R_init : R empty ([], O).
  Proof. unfold R. cbn. repeat split. constructor. Qed.

  (* --- the defect-aware machine against the plain reference machine --- *)

  Lemma md_step_fst s o : fst (fst (md_step s o)) = fst (m_step comp keqb (fst s) o).
  Proof.
    destruct o as [k v | k | k | |]; cbn [md_step m_step fst]; try reflexivity.
    destruct (m_get keqb k (fst s)); reflexivity.
  Qed.

  Lemma md_step_out s o : same_but_size (snd (md_step s o)) (snd (m_step comp keqb (fst s) o)).
  Proof.
    destruct o as [k v | k | k | |]; cbn [md_step m_step fst snd same_but_size]; try reflexivity; try exact I.
    destruct (m_get keqb k (fst s)); reflexivity.
  Qed.

  Lemma run_md_map ops : forall s,
    fst (fst (run_md ops s)) = fst (run_map comp keqb ops (fst s)) /\
    Forall2 same_but_size (snd (run_md ops s)) (snd (run_map comp keqb ops (fst s))).
  Proof.
    induction ops as [|o ops IH]; intros s; cbn [run_md run_map]; [split; [reflexivity | constructor]|].
    pose proof (md_step_fst s o) as Hf. pose proof (md_step_out s o) as Ho.
    destruct (md_step s o) as [s1 x]. destruct (m_step comp keqb (fst s) o) as [m1 y]. cbn [fst snd] in *.
    destruct (IH s1) as [H1 H2]. rewrite Hf in H1, H2.
    destruct (run_md ops s1) as [s2 xs]. destruct (run_map comp keqb ops m1) as [m2 ys]. cbn [fst snd] in *.
    split; [exact H1 | constructor; assumption].
  Qed.

  Lemma run_md_count ops : forall hist d,
    snd (fst (run_md ops (M hist, d))) = (d + absent_deletes_from keqb hist ops)%nat.
  Proof.
    induction ops as [|o ops IH]; intros hist d; cbn [run_md absent_deletes_from]; [cbn; lia|].
    pose proof (md_step_fst (M hist, d) o) as Hf. cbn [fst] in Hf. rewrite <- M_snoc in Hf.
    assert (Hd : snd (fst (md_step (M hist, d) o)) =
                 (d + match o with Delete k => match latest keqb k hist with None => 1 | Some _ => 0 end | _ => 0 end)%nat).
    { destruct o as [k v | k | k | |]; cbn [md_step fst snd]; try lia.
      rewrite M_latest, <- latest_kv_val. destruct (latest_kv comp k hist); cbn; lia. }
    destruct (md_step (M hist, d) o) as [[m1 d1] x]. cbn [fst snd] in *. subst m1 d1.
    specialize (IH (hist ++ [o])). 
    destruct (run_md ops (M (hist ++ [o]), _)) as [s2 xs] eqn:Erun. cbn [fst snd].
    specialize (IH (d + match o with Delete k => match latest keqb k hist with None => 1 | Some _ => 0 end | _ => 0 end)%nat).
    rewrite Erun in IH. cbn [fst snd] in IH. rewrite IH. lia.
  Qed.

  Lemma run_md_exact ops : forall hist,
    absent_deletes_from keqb hist ops = O ->
    snd (run_md ops (M hist, O)) = snd (run_map comp keqb ops (M hist)).
  Proof.
    induction ops as [|o ops IH]; intros hist H0; cbn [run_md run_map absent_deletes_from] in *; [reflexivity|].
    assert (Hstep : md_step (M hist, O) o = ((M (hist ++ [o]), O), snd (m_step comp keqb (M hist) o))).
    { rewrite M_snoc. destruct o as [k v | k | k | |]; cbn [md_step m_step fst snd]; try reflexivity.
      - rewrite M_latest. rewrite <- latest_kv_val in H0.
        destruct (latest_kv comp k hist) eqn:L; cbn; [reflexivity | cbn in H0; lia].
      - cbn. now rewrite Z.sub_0_r. }
    rewrite Hstep. pose proof (M_snoc hist o) as Hm.
    destruct (m_step comp keqb (M hist) o) as [m1 y]. cbn [fst snd] in *. subst m1.
    assert (H1 : absent_deletes_from keqb (hist ++ [o]) ops = O) by lia.
    specialize (IH _ H1).
    destruct (run_md ops (M (hist ++ [o]), O)) as [s2 xs]. destruct (run_map comp keqb ops (M (hist ++ [o]))) as [m2 ys].
    cbn [snd] in *. now rewrite IH.
  Qed.

  (* ---------- the statements used by C04_Props ---------- *)

  Lemma state_after_R (ops : list op) : R (state_after comp ops) (fst (run_md ops ([], O))).
  Proof. apply (run_sim ops empty ([], O) R_init). Qed.

  Lemma state_after_M (ops : list op) : traverse (root (state_after comp ops)) = M ops.
  Proof.
    destruct (state_after_R ops) as (H & _ & _). rewrite H.
    apply (proj1 (run_md_map ops ([], O))).
  Qed.

  Lemma state_after_snoc (ops : list op) (o : op) :
    state_after comp (ops ++ [o]) = fst (step comp (state_after comp ops) o).
  Proof.
    unfold state_after. rewrite run_app. cbn [fst run].
    destruct (step comp (fst (run comp ops empty)) o); reflexivity.
  Qed.

  Lemma bst_invariant (ops : list op) : bst comp (root (state_after comp ops)).
  Proof. apply bst_iff_sorted. rewrite state_after_M. apply M_sorted. Qed.

  Lemma get_is_latest (ops : list op) k :
    get comp (root (state_after comp ops)) k = conv (latest_kv comp k ops).
  Proof.
    pose proof (bst_invariant ops) as Hb. apply bst_iff_sorted in Hb.
    now rewrite (get_abs _ k Hb), state_after_M, M_latest.
  Qed.

  Lemma delete_err_iff_absent (ops : list op) k :
    snd (step comp (state_after comp ops) (Delete k)) =
    ODel (match latest_kv comp k ops with None => true | Some _ => false end).
  Proof.
    rewrite (delete_reports _ k (bst_invariant ops)), get_is_latest.
    destruct (latest_kv comp k ops); reflexivity.
  Qed.

  Lemma traverse_sorted_complete (ops : list op) :
    let items := traverse (root (state_after comp ops)) in
    StronglySorted (fun a b => comp a b = true) (map fst items) /\
    StronglySorted (fun a b => keqb a b = false) (map fst items) /\
    (forall k kv, (In kv items /\ keqb k (fst kv) = true) <-> latest_kv comp k ops = Some kv).
  Proof.
    cbn zeta. rewrite state_after_M. pose proof (M_sorted ops) as Hs. repeat split.
    - apply sorted_keys, Hs.
    - apply sorted_inequiv, Hs.
    - intros H. apply latest_some_iff_in. exact H.
    - apply latest_some_iff_in in H. tauto.
    - apply latest_some_iff_in in H. tauto.
  Qed.

  Lemma size_exact (ops : list op) :
    size (state_after comp ops) =
    Z.of_nat (length (traverse (root (state_after comp ops)))) - Z.of_nat (absent_deletes keqb ops).
  Proof.
    destruct (state_after_R ops) as (H1 & _ & H3). rewrite H3, H1. unfold absent_deletes.
    pose proof (run_md_count ops [] O) as Hc. cbn [Nat.add] in Hc. change (M []) with (@nil (K * V)) in Hc.
    f_equal. f_equal. exact Hc.
  Qed.

  (* --- counting the present keys up to the comparator's equivalence --- *)

  Definition keq : K -> K -> Prop := fun a b => keqb a b = true.

  Lemma keq_equiv : Equivalence keq.
  Proof.
    split.
    - intros a. apply keqb_refl.
    - intros a b H. unfold keq. now rewrite keqb_sym.
    - intros a b c. apply keqb_trans.
  Qed.

  Lemma sorted_nodupA (m : amap) : sorted m -> NoDupA keq (map fst m).
  Proof.
    induction m as [|a m IH]; cbn; intros Hs; [constructor|]. apply sorted_cons in Hs as [Hs Hlt].
    constructor; [|apply IH, Hs]. intros Hin. apply InA_alt in Hin as (y & Hy & Hin).
    apply in_map_iff in Hin as (x & <- & Hx). specialize (Hlt x Hx). unfold klt in Hlt.
    unfold keq in Hy. rewrite (keqb_lt _ _ Hlt) in Hy. discriminate.
  Qed.

  Lemma present_keys_length (ops : list op) (ks : list K) :
    NoDupA keq ks -> (forall k, InA keq k ks <-> latest_kv comp k ops <> None) ->
    length ks = length (traverse (root (state_after comp ops))).
  Proof.
    intros Hnd Hks. rewrite state_after_M, <- (map_length fst (M ops)).
    apply (PermutationA_len keq).
    apply (NoDupA_equivlistA_PermutationA keq_equiv); [exact Hnd | apply sorted_nodupA, M_sorted|].
    intros k. rewrite Hks. split.
    - intros Hl. destruct (latest_kv comp k ops) as [kv|] eqn:L; [|contradiction].
      apply latest_some_iff_in in L as [L1 L2]. apply InA_alt. exists (fst kv). split; [exact L2|].
      apply in_map, L1.
    - intros Hin. apply InA_alt in Hin as (y & Hy & Hin). apply in_map_iff in Hin as (kv & <- & Hin).
      assert (L : latest_kv comp k ops = Some kv) by (apply latest_some_iff_in; split; assumption).
      congruence.
  Qed.

  Lemma size_cardinal_exact (ops : list op) (ks : list K) :
    NoDupA keq ks -> (forall k, InA keq k ks <-> latest_kv comp k ops <> None) ->
    size (state_after comp ops) = Z.of_nat (length ks) - Z.of_nat (absent_deletes keqb ops).
  Proof. intros H1 H2. rewrite size_exact, (present_keys_length ops ks H1 H2). reflexivity. Qed.

  Lemma refines_map_but_size (ops : list op) :
    Forall2 same_but_size (outs comp ops) (outs_map comp keqb ops).
  Proof.
    unfold outs, outs_map. rewrite (proj2 (run_sim ops empty ([], O) R_init)).
    apply (proj2 (run_md_map ops ([], O))).
  Qed.

  Lemma refines_map_no_absent_delete (ops : list op) :
    absent_deletes keqb ops = O -> outs comp ops = outs_map comp keqb ops.
  Proof.
    intros H0. unfold outs, outs_map. rewrite (proj2 (run_sim ops empty ([], O) R_init)).
    apply (run_md_exact ops [] H0).
  Qed.

  Lemma delete_removes_only (ops : list op) k k' :
    keqb k' k = false ->
    get comp (root (state_after comp (ops ++ [Delete k]))) k' = get comp (root (state_after comp ops)) k'.
  Proof.
    intros Hne. rewrite state_after_snoc, (get_after_delete _ k k' (bst_invariant ops)).
    now rewrite Hne.
  Qed.

  (* the count used in the Size law is the number of ErrorNotFound answers
     that the Delete calls of the history actually returned *)
  Lemma absent_deletes_from_count (ops : list op) : forall hist,
    absent_deletes_from keqb hist ops =
    length (filter is_notfound (snd (run comp ops (state_after comp hist)))).
  Proof.
    induction ops as [|o ops IH]; intros hist; cbn [absent_deletes_from run]; [reflexivity|].
    rewrite (IH (hist ++ [o])), state_after_snoc.
    assert (Hx : (match o with
                  | Delete k => match latest keqb k hist with None => 1 | Some _ => 0 end
                  | _ => 0
                  end)%nat = if is_notfound (snd (step comp (state_after comp hist) o)) then 1%nat else 0%nat).
    { destruct o as [k v | k | k | |].
      - cbn [step]. destruct (root (state_after comp hist)); [reflexivity|].
        destruct (upsert_node comp _ k v _) as [[t' s']| |]; reflexivity.
      - rewrite (delete_err_iff_absent hist k), <- latest_kv_val. destruct (latest_kv comp k hist); reflexivity.
      - reflexivity.
      - reflexivity.
      - reflexivity. }
    rewrite Hx. destruct (step comp (state_after comp hist) o) as [b1 x]. cbn [fst snd].
    destruct (run comp ops b1) as [b2 xs]. cbn [snd filter].
    destruct (is_notfound x); reflexivity.
  Qed.

  Lemma absent_deletes_count (ops : list op) :
    absent_deletes keqb ops = length (filter is_notfound (outs comp ops)).
  Proof. apply (absent_deletes_from_count ops []). Qed.

  Lemma run_map_no_panic (ops : list op) : forall m : amap, ~ In OPanic (snd (run_map comp keqb ops m)).
  Proof.
    induction ops as [|o ops IH]; intros m; cbn [run_map]; [intros []|].
    pose proof (IH (fst (m_step comp keqb m o))) as IH'.
    assert (Ho : snd (m_step comp keqb m o) <> OPanic).
    { destruct o as [k v | k | k | |]; cbn [m_step snd]; try discriminate.
      destruct (m_get keqb k m); discriminate. }
    destruct (m_step comp keqb m o) as [m1 y]. cbn [fst snd] in *.
    destruct (run_map comp keqb ops m1) as [m2 ys]. cbn [snd] in *.
    intros [H | H]; [apply Ho; exact H | apply IH', H].
  Qed.

  Lemma never_panics (ops : list op) : ~ In OPanic (outs comp ops).
  Proof.
    pose proof (refines_map_but_size ops) as HF. pose proof (run_map_no_panic ops []) as Hn.
    fold (outs_map comp keqb ops) in Hn. revert Hn. induction HF as [|x y xs ys Hxy HF IH]; [auto|].
    intros Hn [Hx | Hx].
    - subst x. apply Hn. left. destruct y; cbn in Hxy; congruence.
    - apply IH; [|exact Hx]. intros H. apply Hn. right. exact H.
  Qed.

End TiesProofs.

(* ---------- conservativity: the strict total orders of C04_Props.v are strict
   weak orders, their equivalence is equality, and [latest_kv] is [latest] ---------- *)
Section Conservative.
  Context {K V : Type}.
  Variable comp : K -> K -> bool.
  Hypothesis Hsto : C04_Proofs.STO comp.

  Lemma sto_swo : SWO comp.
  Proof.
    destruct Hsto as (Hi & Ht & Htot). repeat split; [exact Hi | exact Ht|].
    intros a b c Hab. destruct (comp a c) eqn:E1; [left; reflexivity|]. right.
    destruct (comp c a) eqn:E2; [apply (Ht _ _ _ E2 Hab)|].
    rewrite <- (Htot _ _ E1 E2). exact Hab.
  Qed.

  Lemma sto_ceq a b : ceq comp a b = true <-> a = b.
  Proof.
    destruct Hsto as (Hi & Ht & Htot). unfold ceq. split.
    - intros H. apply andb_prop in H as [H1 H2]. apply negb_true_iff in H1, H2. apply Htot; assumption.
    - intros ->. now rewrite Hi.
  Qed.

  Lemma latest_kv_sto (ops : list (@op K V)) k :
    latest_kv comp k ops = option_map (pair k) (latest (ceq comp) k ops).
  Proof.
    induction ops as [|o ops IH] using rev_ind; [reflexivity|].
    unfold latest_kv, latest in *. rewrite !fold_left_app. cbn [fold_left]. rewrite IH.
    destruct o as [k' v | k' | k' | |]; cbn [latest_kv_step latest_step]; try reflexivity.
    - destruct (ceq comp k k') eqn:E; [|reflexivity]. apply sto_ceq in E. subst k'.
      destruct (fold_left (latest_step (ceq comp) k) ops None); reflexivity.
    - destruct (ceq comp k k'); reflexivity.
  Qed.
End Conservative.

(* ---------- non-strict comparators (a <= b): what the code does ----------

   For a comparator that is reflexive-total (comp a b or comp b a, for all a, b)
   and transitive, Compare never answers 0.  So Get never finds, Delete never
   removes (and answers ErrorNotFound), every Upsert adds a node; the in-order
   listing is the bag machine's list [b_insert]. *)
Section NonStrict.
  Context {K V : Type}.
  Variable comp : K -> K -> bool.
  Hypothesis Hconnex : forall a b, comp a b = true \/ comp b a = true.
  Hypothesis Htrans : forall a b c, comp a b = true -> comp b c = true -> comp a c = true.

  Notation tree := (@tree K V).
  Notation op := (@op K V).

  Lemma ns_compare key k :
    (comp key k = true /\ compare comp key k = 1) \/ (comp key k = false /\ compare comp key k = -1).
  Proof.
    unfold compare. destruct (comp key k) eqn:E; [left; auto|]. right. split; [reflexivity|].
    destruct (Hconnex key k) as [H | H]; [congruence | now rewrite H].
  Qed.

  Lemma ns_get (t : tree) key : get comp t key = Err NotFound.
  Proof.
    induction t as [|l IHl k v r IHr]; cbn [get]; [reflexivity|].
    destruct (ns_compare key k) as [(_ & ->) | (_ & ->)]; cbn [Z.eqb Pos.eqb]; assumption.
  Qed.

  Lemma ns_delete (t : tree) key : delete comp t key = (t, true).
  Proof.
    induction t as [|l IHl k v r IHr]; cbn [delete]; [reflexivity|].
    destruct (ns_compare key k) as [(_ & ->) | (_ & ->)]; cbn [Z.eqb Pos.eqb]; [now rewrite IHl | now rewrite IHr].
  Qed.

  (* the shape invariant under such a comparator: what is left of k is <= k, what is right is not *)
  Fixpoint nsbst (t : tree) : Prop :=
    match t with
    | E => True
    | T l k _ r =>
        nsbst l /\ nsbst r /\
        all_keys (fun x => comp x k = true) l /\ all_keys (fun x => comp x k = false) r
    end.

  Lemma b_insert_in key val (m : list (K * V)) a : In a (b_insert comp key val m) <-> a = (key, val) \/ In a m.
  Proof.
    induction m as [|[k' v'] m IH]; cbn; [intuition congruence|].
    destruct (comp key k'); cbn; [intuition congruence|]. rewrite IH. intuition congruence.
  Qed.

  Lemma b_insert_app_l key val (l : list (K * V)) k v r :
    comp key k = true ->
    b_insert comp key val (l ++ (k, v) :: r) = b_insert comp key val l ++ (k, v) :: r.
  Proof.
    intros C. induction l as [|[k' v'] l IH]; cbn; [now rewrite C|].
    destruct (comp key k'); [reflexivity | now rewrite IH].
  Qed.

  Lemma b_insert_app_r key val (l m : list (K * V)) :
    (forall a, In a l -> comp key (fst a) = false) ->
    b_insert comp key val (l ++ m) = l ++ b_insert comp key val m.
  Proof.
    induction l as [|[k' v'] l IH]; cbn; intros H; [reflexivity|].
    pose proof (H (k', v') (or_introl eq_refl)) as H0. cbn in H0. rewrite H0, IH; [reflexivity|].
    intros a Ha. apply H. right. exact Ha.
  Qed.

  Lemma ns_all_keys (P : K -> Prop) (t : tree) : all_keys P t <-> (forall a, In a (traverse t) -> P (fst a)).
  Proof.
    induction t as [|l IHl k v r IHr]; cbn.
    - split; [intros _ a [] | trivial].
    - rewrite IHl, IHr. split.
      + intros (H1 & H2 & H3) a Ha. apply in_app_or in Ha as [Ha | [<- | Ha]]; [apply H1, Ha | exact H2 | apply H3, Ha].
      + intros H. repeat split.
        * intros a Ha. apply H, in_or_app. left. exact Ha.
        * apply (H (k, v)), in_or_app. right. left. reflexivity.
        * intros a Ha. apply H, in_or_app. right. right. exact Ha.
  Qed.

  Lemma ns_upsert key val (t : tree) :
    nsbst t -> t <> E -> forall sz,
    exists t', upsert_node comp t key val sz = Ok (t', sz + 1) /\
               traverse t' = b_insert comp key val (traverse t) /\ nsbst t'.
  Proof.
    induction t as [|l IHl k v r IHr]; intros Hb Hne sz; [contradiction|]. clear Hne.
    destruct Hb as (Hbl & Hbr & Hl & Hr). cbn [upsert_node traverse].
    destruct (ns_compare key k) as [(C & ->) | (C & ->)]; cbn [Z.eqb Pos.eqb].
    - rewrite (b_insert_app_l key val (traverse l) k v (traverse r) C).
      destruct l as [|ll lk lv lr].
      + eexists. split; [reflexivity|]. split; [reflexivity|]. cbn. tauto.
      + destruct (IHl Hbl ltac:(discriminate) sz) as (l' & E1 & E2 & E3). rewrite E1. eexists.
        split; [reflexivity|]. split; [cbn [traverse]; now rewrite E2|].
        cbn [nsbst]. repeat split; try assumption. apply ns_all_keys. intros a Ha. rewrite E2 in Ha.
        apply b_insert_in in Ha as [-> | Ha]; [exact C|]. apply (proj1 (ns_all_keys _ _) Hl a Ha).
    - assert (Hnl : forall a, In a (traverse l) -> comp key (fst a) = false).
      { intros a Ha. destruct (comp key (fst a)) eqn:E; [|reflexivity].
        rewrite (Htrans _ _ _ E (proj1 (ns_all_keys _ _) Hl a Ha)) in C. discriminate. }
      rewrite (b_insert_app_r key val (traverse l) _ Hnl). cbn [b_insert]. rewrite C.
      destruct r as [|rl rk rv rr].
      + eexists. split; [reflexivity|]. split; [reflexivity|]. cbn. tauto.
      + destruct (IHr Hbr ltac:(discriminate) sz) as (r' & E1 & E2 & E3). rewrite E1. eexists.
        split; [reflexivity|]. split; [cbn [traverse]; now rewrite E2|].
        cbn [nsbst]. repeat split; try assumption. apply ns_all_keys. intros a Ha. rewrite E2 in Ha.
        apply b_insert_in in Ha as [-> | Ha]; [exact C|]. apply (proj1 (ns_all_keys _ _) Hr a Ha).
  Qed.

  Definition count_ops (f : op -> bool) (ops : list op) : Z := Z.of_nat (length (filter f ops)).
  Definition is_upsert (o : op) : bool := match o with Upsert _ _ => true | _ => false end.
  Definition is_delete (o : op) : bool := match o with Delete _ => true | _ => false end.

  (* one run of the code against one run of the bag machine *)
  Lemma ns_run (ops : list op) : forall (b : @C04_Model.bst K V),
    nsbst (root b) ->
    traverse (root (fst (run comp ops b))) = fst (run_bag comp ops (traverse (root b))) /\
    nsbst (root (fst (run comp ops b))) /\
    Forall2 same_but_size (snd (run comp ops b)) (snd (run_bag comp ops (traverse (root b)))) /\
    size (fst (run comp ops b)) = size b + count_ops is_upsert ops - count_ops is_delete ops.
  Proof.
    unfold count_ops. induction ops as [|o ops IH]; intros b Hb; cbn [run run_bag].
    - cbn. repeat split; [exact Hb | constructor | lia].
    - assert (Hstep : traverse (root (fst (step comp b o))) = fst (b_step comp (traverse (root b)) o) /\
                      nsbst (root (fst (step comp b o))) /\
                      same_but_size (snd (step comp b o)) (snd (b_step comp (traverse (root b)) o)) /\
                      size (fst (step comp b o)) =
                      size b + (if is_upsert o then 1 else 0) - (if is_delete o then 1 else 0)).
      { destruct o as [k v | k | k | |]; cbn [step b_step is_upsert is_delete].
        - destruct (root b) as [|l nk nv r] eqn:Er.
          + cbn. repeat split; trivial. lia.
          + destruct (ns_upsert k v (T l nk nv r) Hb ltac:(discriminate) (size b)) as (t' & E1 & E2 & E3).
            rewrite E1. cbn [fst snd root size]. repeat split; trivial. lia.
        - rewrite ns_delete. cbn [fst snd root size]. repeat split; trivial. lia.
        - rewrite ns_get. cbn [fst snd]. repeat split; trivial. lia.
        - cbn [fst snd same_but_size]. repeat split; trivial. lia.
        - cbn [fst snd same_but_size]. repeat split; trivial. lia. }
      destruct Hstep as (H1 & H2 & H3 & H4).
      destruct (step comp b o) as [b1 x]. destruct (b_step comp (traverse (root b)) o) as [m1 y]. cbn [fst snd] in *.
      destruct (IH b1 H2) as (I1 & I2 & I3 & I4). rewrite H1 in I1, I3.
      destruct (run comp ops b1) as [b2 xs]. destruct (run_bag comp ops m1) as [m2 ys]. cbn [fst snd] in *.
      repeat split; [exact I1 | exact I2 | constructor; assumption|].
      rewrite I4, H4. cbn [filter]. destruct (is_upsert o), (is_delete o); cbn [length]; lia.
  Qed.

End NonStrict.
