(* C04_Props.v — property C04 (binary search tree behaves as an ordered map),
   stated over the model of C04_Model.v.  Only statements here; each is closed
   by [exact] of a lemma of C04_Proofs.v and followed by Print Assumptions.

   Every theorem is for EVERY key type K, value type V, every comparator that
   is a strict total order on K (STO: irreflexive, transitive, total) and every
   history — nothing is bounded.  [keqb] is any boolean decision of key
   equality; it only occurs in the specification side (latest, m_get, ...).

   Reading guide (clauses of the statement -> theorems)
     Get returns the latest value / not-found        C04_get_is_latest (+ the one-step laws
                                                     C04_get_upsert_same/other, C04_get_delete_same/other)
     Delete reports not-found exactly for absent     C04_delete_err_iff_absent
     ... and otherwise removes only that key         C04_delete_removes_only, C04_delete_removes_only_traverse
     Size = number of present keys                   REFUTED on the code as it is: C04_size_is_cardinal_refuted;
                                                     exact law C04_size_exact_partial (in observable terms:
                                                     C04_size_exact_observable_partial — Size = present keys
                                                     minus the ErrorNotFound answers returned so far), and
                                                     C04_size_is_cardinal_partial on the histories that
                                                     never delete an absent key
     Traverse: each present key once, current        C04_traverse_sorted_complete (the in-order list), and
       value, comparator order                       C04_traverse_channel_delivers / _no_deadlock /
                                                     _terminates: the goroutine + channel hand exactly that
                                                     list, in order, to the callback on every schedule
     all together, as a refinement                   C04_refines_map_refuted / C04_refines_map_partial /
                                                     C04_refines_map_no_absent_delete_partial
     search-tree invariant                           C04_bst_invariant, C04_step_preserves_bst
     no nil dereference                              C04_never_panics

   The theorems named _refuted are about the code AS SHIPPED (the Size defect is
   pinned by the package's Example and stays); there is no repaired variant. *)

From Gogu Require Import Base C04_Model C04_Proofs C04_ProofsChan.
From Coq Require Import Sorted.
Local Open Scope Z_scope.

(* ---------- the invariant ---------- *)

(* every reachable tree is a search tree for the comparator *)
Theorem C04_bst_invariant :
  forall (K V : Type) (comp keqb : K -> K -> bool), STO comp -> decides_eq keqb ->
  forall ops : list (@op K V), bst comp (root (state_after comp ops)).
Proof. intros K V comp keqb Hs Hk. exact (bst_invariant comp keqb Hs Hk). Qed.
Print Assumptions C04_bst_invariant.

(* ... and every operation preserves it from ANY search tree, reachable or not *)
Theorem C04_step_preserves_bst :
  forall (K V : Type) (comp keqb : K -> K -> bool), STO comp -> decides_eq keqb ->
  forall (b : @C04_Model.bst K V) (o : op), bst comp (root b) -> bst comp (root (fst (step comp b o))).
Proof. intros K V comp keqb Hs Hk. exact (step_preserves_bst comp keqb Hs Hk). Qed.
Print Assumptions C04_step_preserves_bst.

(* ---------- one-step map laws, from any search tree ---------- *)

Theorem C04_get_upsert_same :
  forall (K V : Type) (comp keqb : K -> K -> bool), STO comp -> decides_eq keqb ->
  forall (b : @C04_Model.bst K V) k v, bst comp (root b) ->
  get comp (root (fst (step comp b (Upsert k v)))) k = Ok (k, v).
Proof.
  intros K V comp keqb Hs Hk b k v Hb. rewrite (get_after_upsert comp keqb Hs Hk b k v k Hb).
  now rewrite (keqb_refl keqb Hk).
Qed.
Print Assumptions C04_get_upsert_same.

Theorem C04_get_upsert_other :
  forall (K V : Type) (comp keqb : K -> K -> bool), STO comp -> decides_eq keqb ->
  forall (b : @C04_Model.bst K V) k v k', bst comp (root b) -> k' <> k ->
  get comp (root (fst (step comp b (Upsert k v)))) k' = get comp (root b) k'.
Proof.
  intros K V comp keqb Hs Hk b k v k' Hb Hne. rewrite (get_after_upsert comp keqb Hs Hk b k v k' Hb).
  now rewrite (keqb_neq keqb Hk _ _ Hne).
Qed.
Print Assumptions C04_get_upsert_other.

Theorem C04_get_delete_same :
  forall (K V : Type) (comp keqb : K -> K -> bool), STO comp -> decides_eq keqb ->
  forall (b : @C04_Model.bst K V) k, bst comp (root b) ->
  get comp (root (fst (step comp b (Delete k)))) k = Err NotFound.
Proof.
  intros K V comp keqb Hs Hk b k Hb. rewrite (get_after_delete comp keqb Hs Hk b k k Hb).
  now rewrite (keqb_refl keqb Hk).
Qed.
Print Assumptions C04_get_delete_same.

Theorem C04_get_delete_other :
  forall (K V : Type) (comp keqb : K -> K -> bool), STO comp -> decides_eq keqb ->
  forall (b : @C04_Model.bst K V) k k', bst comp (root b) -> k' <> k ->
  get comp (root (fst (step comp b (Delete k)))) k' = get comp (root b) k'.
Proof.
  intros K V comp keqb Hs Hk b k k' Hb Hne. rewrite (get_after_delete comp keqb Hs Hk b k k' Hb).
  now rewrite (keqb_neq keqb Hk _ _ Hne).
Qed.
Print Assumptions C04_get_delete_other.

(* ---------- over all histories ---------- *)

(* Get after any history: the value of the last Upsert of the key that no
   later Delete of it follows ([latest] reads exactly that off the history),
   not-found for every other key *)
Theorem C04_get_is_latest :
  forall (K V : Type) (comp keqb : K -> K -> bool), STO comp -> decides_eq keqb ->
  forall (ops : list (@op K V)) k,
  get comp (root (state_after comp ops)) k =
  match latest keqb k ops with Some v => Ok (k, v) | None => Err NotFound end.
Proof. intros K V comp keqb Hs Hk. exact (get_is_latest comp keqb Hs Hk). Qed.
Print Assumptions C04_get_is_latest.

(* Delete reports not-found exactly when the key is absent *)
Theorem C04_delete_err_iff_absent :
  forall (K V : Type) (comp keqb : K -> K -> bool), STO comp -> decides_eq keqb ->
  forall (ops : list (@op K V)) k,
  snd (step comp (state_after comp ops) (Delete k)) =
  ODel (match latest keqb k ops with None => true | Some _ => false end).
Proof. intros K V comp keqb Hs Hk. exact (delete_err_iff_absent comp keqb Hs Hk). Qed.
Print Assumptions C04_delete_err_iff_absent.

(* ... and removes only that key: every other key answers as before *)
Theorem C04_delete_removes_only :
  forall (K V : Type) (comp keqb : K -> K -> bool), STO comp -> decides_eq keqb ->
  forall (ops : list (@op K V)) k k', k' <> k ->
  get comp (root (state_after comp (ops ++ [Delete k]))) k' =
  get comp (root (state_after comp ops)) k'.
Proof. intros K V comp keqb Hs Hk. exact (delete_removes_only comp keqb Hs Hk). Qed.
Print Assumptions C04_delete_removes_only.

(* ... the traversal after a Delete is the traversal before with that key's
   entry struck out (order and all other entries untouched), from any search tree *)
Theorem C04_delete_removes_only_traverse :
  forall (K V : Type) (comp keqb : K -> K -> bool), STO comp -> decides_eq keqb ->
  forall (b : @C04_Model.bst K V) k, bst comp (root b) ->
  traverse (root (fst (step comp b (Delete k)))) =
  filter (fun kv => negb (keqb k (fst kv))) (traverse (root b)).
Proof. intros K V comp keqb Hs Hk. exact (traverse_after_delete comp keqb Hs Hk). Qed.
Print Assumptions C04_delete_removes_only_traverse.

(* Traverse: comparator order, every key once, exactly the present keys with
   their current values *)
Theorem C04_traverse_sorted_complete :
  forall (K V : Type) (comp keqb : K -> K -> bool), STO comp -> decides_eq keqb ->
  forall ops : list (@op K V),
  let items := traverse (root (state_after comp ops)) in
  StronglySorted (fun a b => comp a b = true) (map fst items) /\
  NoDup (map fst items) /\
  (forall k v, In (k, v) items <-> latest keqb k ops = Some v).
Proof. intros K V comp keqb Hs Hk. exact (traverse_sorted_complete comp keqb Hs Hk). Qed.
Print Assumptions C04_traverse_sorted_complete.

(* Upsert never dereferences nil (the model's only Panic) *)
Theorem C04_never_panics :
  forall (K V : Type) (comp keqb : K -> K -> bool), STO comp -> decides_eq keqb ->
  forall ops : list (@op K V), ~ In OPanic (outs comp ops).
Proof. intros K V comp keqb Hs Hk. exact (never_panics comp keqb Hs Hk). Qed.
Print Assumptions C04_never_panics.

(* ---------- Size ----------

   The clause of the property, in full:

     C04_size_is_cardinal :
       forall comp keqb, STO comp -> decides_eq keqb -> forall ops ks,
       NoDup ks -> (forall k, In k ks <-> latest keqb k ops <> None) ->
       size (state_after comp ops) = Z.of_nat (length ks)

   ("for any duplicate-free enumeration ks of the present keys, Size is its
   length").  It is FALSE of bstree.go as it is: Delete decrements the counter
   also when it reports not-found (bstree.go:138).  The defect is pinned by
   bstree_test.go's Example and therefore recorded, not repaired
   (KF-C04-size-absent-delete). *)
Theorem C04_size_is_cardinal_refuted :
  exists (ops : list (@op Z Z)) (ks : list Z),
    NoDup ks /\ (forall k, In k ks <-> latest Z.eqb k ops <> None) /\
    size (state_after Z.ltb ops) <> Z.of_nat (length ks).
Proof.
  exists [Upsert 1 10; Delete 5], [1]. split; [repeat constructor; intros []|]. split.
  - intros k. unfold latest. cbn [fold_left latest_step].
    destruct (Z.eqb_spec k 5) as [-> | H5]; [cbn; split; [intros [H | []]; lia | congruence]|].
    destruct (Z.eqb_spec k 1) as [-> | H1]; cbn; split; try congruence; auto.
    intros [H | []]. congruence.
  - vm_compute. discriminate.
Qed.
Print Assumptions C04_size_is_cardinal_refuted.

(* What IS true, exactly and for every history: Size is the number of present
   keys minus the number of Deletes so far that hit an absent key. *)
Theorem C04_size_exact_partial :
  forall (K V : Type) (comp keqb : K -> K -> bool), STO comp -> decides_eq keqb ->
  forall (ops : list (@op K V)) (ks : list K),
  NoDup ks -> (forall k, In k ks <-> latest keqb k ops <> None) ->
  size (state_after comp ops) = Z.of_nat (length ks) - Z.of_nat (absent_deletes keqb ops).
Proof. intros K V comp keqb Hs Hk. exact (size_cardinal_exact comp keqb Hs Hk). Qed.
Print Assumptions C04_size_exact_partial.

(* the count in that law is observable: it is the number of ErrorNotFound
   answers the Delete calls of the history returned *)
Theorem C04_notfound_deletes_counted :
  forall (K V : Type) (comp keqb : K -> K -> bool), STO comp -> decides_eq keqb ->
  forall ops : list (@op K V),
  absent_deletes keqb ops = length (filter is_notfound (outs comp ops)).
Proof. intros K V comp keqb Hs Hk. exact (absent_deletes_count comp keqb Hs Hk). Qed.
Print Assumptions C04_notfound_deletes_counted.

(* so: Size = number of present keys - number of Deletes that answered ErrorNotFound.
   (This is the deviation, and the only one, that tools/matchers.d/c04.py attributes
   to the known finding.) *)
Theorem C04_size_exact_observable_partial :
  forall (K V : Type) (comp keqb : K -> K -> bool), STO comp -> decides_eq keqb ->
  forall (ops : list (@op K V)) (ks : list K),
  NoDup ks -> (forall k, In k ks <-> latest keqb k ops <> None) ->
  size (state_after comp ops) =
  Z.of_nat (length ks) - Z.of_nat (length (filter is_notfound (outs comp ops))).
Proof.
  intros K V comp keqb Hs Hk ops ks H1 H2.
  rewrite <- (absent_deletes_count comp keqb Hs Hk ops). exact (size_cardinal_exact comp keqb Hs Hk ops ks H1 H2).
Qed.
Print Assumptions C04_size_exact_observable_partial.

(* hence the clause holds on every history that never deletes an absent key *)
Theorem C04_size_is_cardinal_partial :
  forall (K V : Type) (comp keqb : K -> K -> bool), STO comp -> decides_eq keqb ->
  forall (ops : list (@op K V)) (ks : list K),
  absent_deletes keqb ops = O ->
  NoDup ks -> (forall k, In k ks <-> latest keqb k ops <> None) ->
  size (state_after comp ops) = Z.of_nat (length ks).
Proof.
  intros K V comp keqb Hs Hk ops ks H0 H1 H2.
  rewrite (size_cardinal_exact comp keqb Hs Hk ops ks H1 H2), H0. cbn. lia.
Qed.
Print Assumptions C04_size_is_cardinal_partial.

(* ... and Size always equals the number of items Traverse yields minus the same count *)
Theorem C04_size_vs_traverse_partial :
  forall (K V : Type) (comp keqb : K -> K -> bool), STO comp -> decides_eq keqb ->
  forall ops : list (@op K V),
  size (state_after comp ops) =
  Z.of_nat (length (traverse (root (state_after comp ops)))) - Z.of_nat (absent_deletes keqb ops).
Proof. intros K V comp keqb Hs Hk. exact (size_exact comp keqb Hs Hk). Qed.
Print Assumptions C04_size_vs_traverse_partial.

(* ---------- refinement of the ordered association list ----------

   In full:   C04_refines_map :
                forall comp keqb, STO comp -> decides_eq keqb ->
                forall ops, outs comp ops = outs_map comp keqb ops

   false for the same reason (a Size answer after a failed Delete): *)
Theorem C04_refines_map_refuted :
  exists ops : list (@op Z Z), outs Z.ltb ops <> outs_map Z.ltb Z.eqb ops.
Proof. exists [Upsert 1 10; Delete 5; Size]. vm_compute. discriminate. Qed.
Print Assumptions C04_refines_map_refuted.

(* For every history every output — Delete's error, Get's item or not-found,
   Traverse's sequence, in order — is the reference machine's; only the number
   inside a Size answer may differ (and C04_size_exact_partial says by how much) *)
Theorem C04_refines_map_partial :
  forall (K V : Type) (comp keqb : K -> K -> bool), STO comp -> decides_eq keqb ->
  forall ops : list (@op K V),
  Forall2 same_but_size (outs comp ops) (outs_map comp keqb ops).
Proof. intros K V comp keqb Hs Hk. exact (refines_map_but_size comp keqb Hs Hk). Qed.
Print Assumptions C04_refines_map_partial.

(* and the refinement is exact on every history that never deletes an absent key *)
Theorem C04_refines_map_no_absent_delete_partial :
  forall (K V : Type) (comp keqb : K -> K -> bool), STO comp -> decides_eq keqb ->
  forall ops : list (@op K V),
  absent_deletes keqb ops = O -> outs comp ops = outs_map comp keqb ops.
Proof. intros K V comp keqb Hs Hk. exact (refines_map_no_absent_delete comp keqb Hs Hk). Qed.
Print Assumptions C04_refines_map_no_absent_delete_partial.

(* ---------- Traverse's goroutine and channel ----------

   [step _ Traverse] answers [traverse (root b)], the in-order list.  The code
   does not build that list: a goroutine walks the tree under the read lock and
   sends each item over a channel to the range loop that calls fn
   (bstree.go:183-197).  [tstep cap] (C04_Model.v) is the small-step model of
   that protocol for a channel of capacity cap (0 in the code); [tsteps] is any
   schedule.  For EVERY capacity, EVERY list of items — in particular
   items = traverse (root b) — and EVERY schedule: *)

(* the calls fn has received so far are a prefix of the in-order list (nothing
   lost, duplicated or reordered), and once Traverse has returned they are
   exactly that list *)
Theorem C04_traverse_channel_delivers :
  forall (A : Type) (cap : nat) (items : list A) (s : tstate A),
  tsteps cap (tinit items) s ->
  (exists rest, items = got s ++ rest) /\ (fin s = true -> got s = items).
Proof.
  intros A cap items s H. split; [exact (got_prefix cap items s H) | exact (got_all cap items s H)].
Qed.
Print Assumptions C04_traverse_channel_delivers.

(* no deadlock: until Traverse has returned one of the two threads can move *)
Theorem C04_traverse_channel_no_deadlock :
  forall (A : Type) (cap : nat) (items : list A) (s : tstate A),
  tsteps cap (tinit items) s -> fin s = false -> exists s', tstep cap s s'.
Proof. intros A cap items. exact (progress cap items). Qed.
Print Assumptions C04_traverse_channel_no_deadlock.

(* termination: every step consumes the measure, which starts at 2 * length items + 2 *)
Theorem C04_traverse_channel_terminates :
  forall (A : Type) (cap : nat) (items : list A),
  (forall s s' : tstate A, tstep cap s s' -> (tmeasure s' < tmeasure s)%nat) /\
  (forall s, tsteps cap (tinit items) s -> (tmeasure s <= 2 * length items + 2)%nat).
Proof.
  intros A cap items. split; [exact (step_decreases cap) | exact (steps_bounded cap items)].
Qed.
Print Assumptions C04_traverse_channel_terminates.

(* non-vacuity: a complete schedule exists for every list and capacity; and on
   the code's unbuffered channel nothing is ever parked in the channel *)
Example traverse_channel_complete_schedule :
  forall (A : Type) (cap : nat) (items : list A),
  exists s : tstate A, tsteps cap (tinit items) s /\ fin s = true.
Proof. intros A cap items. exact (complete_schedule_exists cap items). Qed.

Example traverse_channel_unbuffered :
  forall (A : Type) (items : list A) (s : tstate A), tsteps 0 (tinit items) s -> buf s = [].
Proof. intros A items s. exact (unbuffered_buf_empty 0 items s eq_refl). Qed.

(* ---------- non-vacuity: the hypotheses are met by the comparators the
   harness uses, and by a history that exercises the successor splice ---------- *)

Example sto_ltb : STO Z.ltb.
Proof. repeat split; intros; rewrite ?Z.ltb_lt, ?Z.ltb_ge, ?Z.ltb_irrefl in *; lia. Qed.
Example sto_gtb : STO Z.gtb.
Proof.
  repeat split; intros; rewrite ?Z.gtb_ltb, ?Z.ltb_lt, ?Z.ltb_ge, ?Z.ltb_irrefl in *; lia.
Qed.
Example eqb_decides : decides_eq Z.eqb.
Proof. intros a b. apply Z.eqb_eq. Qed.

(* keys 3,1,5,4,6 inserted, the two-child root 3 deleted (successor 4 spliced
   in), an absent key deleted, the successor looked up *)
Example history_example :
  let ops := [Upsert 3 30; Upsert 1 10; Upsert 5 50; Upsert 4 40; Upsert 6 60;
              Delete 3; Delete 3; Get 4; Size; Traverse] in
  outs Z.ltb ops =
    [ODone; ODone; ODone; ODone; ODone; ODel false; ODel true; OGet (Ok (4, 40)); OSize 3;
     OTrav [(1, 10); (4, 40); (5, 50); (6, 60)]] /\
  absent_deletes Z.eqb ops = 1%nat /\
  root (state_after Z.ltb ops) = T (T E 1 10 E) 4 40 (T E 5 50 (T E 6 60 E)).
Proof. vm_compute. repeat split. Qed.

(* a two-child node whose successor is DEEP and has a right subtree of its own:
   keys 2,0,9,5,7,6 — deleting the root 2 takes 5 (left-most of the right
   subtree, two levels down) and re-hangs 5's right subtree 7(6) under 9; then
   the deleted key is upserted again, the successor overwritten and deleted *)
Example history_example_deep :
  let ops := [Upsert 2 20; Upsert 0 1; Upsert 9 90; Upsert 5 50; Upsert 7 70; Upsert 6 60;
              Delete 2; Get 5; Get 2; Upsert 2 21; Upsert 5 51; Delete 5; Delete 5; Get 6; Size; Traverse] in
  outs Z.ltb ops =
    [ODone; ODone; ODone; ODone; ODone; ODone;
     ODel false; OGet (Ok (5, 50)); OGet (Err NotFound); ODone; ODone; ODel false; ODel true;
     OGet (Ok (6, 60)); OSize 4; OTrav [(0, 1); (2, 21); (6, 60); (7, 70); (9, 90)]] /\
  root (state_after Z.ltb [Upsert 2 20; Upsert 0 1; Upsert 9 90; Upsert 5 50; Upsert 7 70; Upsert 6 60; Delete 2]) =
    T (T E 0 1 E) 5 50 (T (T (T E 6 60 E) 7 70 E) 9 90 E) /\
  length (filter is_notfound (outs Z.ltb ops)) = 1%nat.
Proof. vm_compute. repeat split. Qed.
