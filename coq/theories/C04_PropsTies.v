(* C04_PropsTies.v — property C04 for comparators under which DISTINCT keys
   TIE (case-insensitive strings, a/2 < b/2, a struct compared on one field),
   and what the code does under a non-strict comparator (a <= b).  Only
   statements here; each is closed by a lemma of C04_ProofsTies.v and followed
   by Print Assumptions.

   The theorems are about the SAME model as C04_Props.v ([C04_Model.run], the
   transcription of bstree.go, which is generic in the comparator) — nothing is
   transcribed a second time.  What changes is the hypothesis and the notion of
   "the same key":

     hypothesis   SWO comp, a strict WEAK order: irreflexive, transitive, and
                  a < b  implies  a < c or c < b  (so "neither below nor above"
                  is an equivalence compatible with the order).  Every strict
                  total order is one (C04_ties_conservative).
     same key     [ceq comp a b] = neither comp a b nor comp b a — what the code
                  tests (gogu.Compare(..) == 0).  Under a strict total order it
                  is equality (C04_ties_conservative).

   "Keys up to comparator equivalence": the tree is an ordered map on the
   equivalence classes.  An entry keeps the key of the Upsert that CREATED it (a
   later Upsert of a tied key replaces only the value: bstree.go:121), so Get of
   any key of the class returns Item{stored key, latest value}.  [latest_kv]
   (C04_ModelTies.v) reads exactly that off the history.

   Reading guide (clauses of the statement -> theorems, all for every K, V,
   every SWO comparator, every history)
     Get returns the latest value / not-found        C04_ties_get_is_latest (+ one-step C04_ties_get_upsert,
                                                     C04_ties_get_delete, from any search tree)
     Delete reports not-found exactly for absent     C04_ties_delete_err_iff_absent
     ... and otherwise removes only that key         C04_ties_delete_removes_only, C04_ties_delete_removes_only_traverse
     Size = number of present keys (classes)         refuted as shipped already for strict total orders
                                                     (C04_size_is_cardinal_refuted); exact law
                                                     C04_ties_size_exact_partial, C04_ties_size_vs_traverse_partial
     Traverse: each present key once, current        C04_ties_traverse_sorted_complete
       value, comparator order
     all together, as a refinement                   C04_ties_refines_map_partial, C04_ties_refines_map_no_absent_delete_partial
     search-tree invariant / no nil dereference      C04_ties_bst_invariant, C04_ties_step_preserves_bst, C04_ties_never_panics
     non-strict comparators (outside the property)   C04_nonstrict_get_never_finds, C04_nonstrict_delete_never_removes,
                                                     C04_nonstrict_refines_bag *)

From Gogu Require Import Base C04_Model C04_ModelTies C04_ProofsTies.
From Gogu Require C04_Proofs.
From Coq Require Import Sorted SetoidList.
Local Open Scope Z_scope.

(* ---------- conservativity ---------- *)

(* a strict total order is a strict weak order whose equivalence is equality,
   and then [latest_kv] is [latest] with the key itself as the stored key: the
   theorems below, instantiated at a strict total order, are those of C04_Props.v *)
Theorem C04_ties_conservative :
  forall (K V : Type) (comp : K -> K -> bool), C04_Proofs.STO comp ->
  SWO comp /\
  (forall a b, ceq comp a b = true <-> a = b) /\
  (forall (ops : list (@op K V)) k,
     latest_kv comp k ops = option_map (pair k) (latest (ceq comp) k ops)).
Proof.
  intros K V comp Hs. split; [exact (sto_swo comp Hs)|]. split; [exact (sto_ceq comp Hs)|].
  exact (latest_kv_sto comp Hs).
Qed.
Print Assumptions C04_ties_conservative.

(* ---------- the invariant ---------- *)

(* every reachable tree is a STRICT search tree: two tied keys are never both in the tree *)
Theorem C04_ties_bst_invariant :
  forall (K V : Type) (comp : K -> K -> bool), SWO comp ->
  forall ops : list (@op K V), bst comp (root (state_after comp ops)).
Proof. intros K V comp Hs. exact (bst_invariant comp Hs). Qed.
Print Assumptions C04_ties_bst_invariant.

Theorem C04_ties_step_preserves_bst :
  forall (K V : Type) (comp : K -> K -> bool), SWO comp ->
  forall (b : @C04_Model.bst K V) (o : op), bst comp (root b) -> bst comp (root (fst (step comp b o))).
Proof. intros K V comp Hs. exact (step_preserves_bst comp Hs). Qed.
Print Assumptions C04_ties_step_preserves_bst.

(* ---------- one-step map laws, from any search tree ---------- *)

(* after Upsert k v: every key tied with k finds the value v, under the key that
   was stored for the class before (k itself if the class was absent); every
   other key answers as before *)
Theorem C04_ties_get_upsert :
  forall (K V : Type) (comp : K -> K -> bool), SWO comp ->
  forall (b : @C04_Model.bst K V) k v k', bst comp (root b) ->
  get comp (root (fst (step comp b (Upsert k v)))) k' =
  if ceq comp k' k then Ok (match get comp (root b) k with Ok (k0, _) => k0 | _ => k end, v)
  else get comp (root b) k'.
Proof. intros K V comp Hs. exact (get_after_upsert comp Hs). Qed.
Print Assumptions C04_ties_get_upsert.

(* after Delete k: every key tied with k is gone, every other key answers as before *)
Theorem C04_ties_get_delete :
  forall (K V : Type) (comp : K -> K -> bool), SWO comp ->
  forall (b : @C04_Model.bst K V) k k', bst comp (root b) ->
  get comp (root (fst (step comp b (Delete k)))) k' =
  if ceq comp k' k then Err NotFound else get comp (root b) k'.
Proof. intros K V comp Hs. exact (get_after_delete comp Hs). Qed.
Print Assumptions C04_ties_get_delete.

(* ---------- over all histories ---------- *)

(* Get after any history: the entry of the key's class — the key of the Upsert
   that created it, the value of the last Upsert of a tied key — if no Delete
   of a tied key came after; not-found otherwise.  (The seeded change C04-9,
   `key == n.Key` in get, breaks exactly this: Upsert 0; Upsert 1; Get 1.) *)
Theorem C04_ties_get_is_latest :
  forall (K V : Type) (comp : K -> K -> bool), SWO comp ->
  forall (ops : list (@op K V)) k,
  get comp (root (state_after comp ops)) k =
  match latest_kv comp k ops with Some kv => Ok kv | None => Err NotFound end.
Proof. intros K V comp Hs. exact (get_is_latest comp Hs). Qed.
Print Assumptions C04_ties_get_is_latest.

(* ... in particular the value is [latest] at the comparator's equivalence, and
   the key returned is tied with the key asked for *)
Theorem C04_ties_get_value :
  forall (K V : Type) (comp : K -> K -> bool), SWO comp ->
  forall (ops : list (@op K V)) k,
  match get comp (root (state_after comp ops)) k with
  | Ok (k0, v) => ceq comp k k0 = true /\ latest (ceq comp) k ops = Some v
  | _ => latest (ceq comp) k ops = None
  end.
Proof.
  intros K V comp Hs ops k. rewrite (get_is_latest comp Hs ops k).
  pose proof (latest_kv_val comp ops k) as Hv. destruct (latest_kv comp k ops) as [[k0 v]|] eqn:L; cbn in *.
  - split; [|symmetry; exact Hv]. apply (latest_some_iff_in comp Hs) in L. tauto.
  - symmetry. exact Hv.
Qed.
Print Assumptions C04_ties_get_value.

Theorem C04_ties_delete_err_iff_absent :
  forall (K V : Type) (comp : K -> K -> bool), SWO comp ->
  forall (ops : list (@op K V)) k,
  snd (step comp (state_after comp ops) (Delete k)) =
  ODel (match latest_kv comp k ops with None => true | Some _ => false end).
Proof. intros K V comp Hs. exact (delete_err_iff_absent comp Hs). Qed.
Print Assumptions C04_ties_delete_err_iff_absent.

(* removes only that key (class): every key NOT tied with it answers as before *)
Theorem C04_ties_delete_removes_only :
  forall (K V : Type) (comp : K -> K -> bool), SWO comp ->
  forall (ops : list (@op K V)) k k', ceq comp k' k = false ->
  get comp (root (state_after comp (ops ++ [Delete k]))) k' =
  get comp (root (state_after comp ops)) k'.
Proof. intros K V comp Hs. exact (delete_removes_only comp Hs). Qed.
Print Assumptions C04_ties_delete_removes_only.

Theorem C04_ties_delete_removes_only_traverse :
  forall (K V : Type) (comp : K -> K -> bool), SWO comp ->
  forall (b : @C04_Model.bst K V) k, bst comp (root b) ->
  traverse (root (fst (step comp b (Delete k)))) =
  filter (fun kv => negb (ceq comp k (fst kv))) (traverse (root b)).
Proof. intros K V comp Hs. exact (traverse_after_delete comp Hs). Qed.
Print Assumptions C04_ties_delete_removes_only_traverse.

(* Traverse: strictly ascending under the comparator; no two items tie (one item
   per present class); the items are exactly the present entries: kv is visited
   and ties with k  iff  kv is the entry the history defines for k *)
Theorem C04_ties_traverse_sorted_complete :
  forall (K V : Type) (comp : K -> K -> bool), SWO comp ->
  forall ops : list (@op K V),
  let items := traverse (root (state_after comp ops)) in
  StronglySorted (fun a b => comp a b = true) (map fst items) /\
  StronglySorted (fun a b => ceq comp a b = false) (map fst items) /\
  (forall k kv, (In kv items /\ ceq comp k (fst kv) = true) <-> latest_kv comp k ops = Some kv).
Proof. intros K V comp Hs. exact (traverse_sorted_complete comp Hs). Qed.
Print Assumptions C04_ties_traverse_sorted_complete.

Theorem C04_ties_never_panics :
  forall (K V : Type) (comp : K -> K -> bool), SWO comp ->
  forall ops : list (@op K V), ~ In OPanic (outs comp ops).
Proof. intros K V comp Hs. exact (never_panics comp Hs). Qed.
Print Assumptions C04_ties_never_panics.

(* ---------- Size (see C04_Props.v: the clause is refuted on the code as
   shipped, KF-C04-size-absent-delete; the exact law, with keys counted up to
   the comparator's equivalence: for any list ks of pairwise non-tied keys that
   has a member tied with k exactly for the present k) ---------- *)
Theorem C04_ties_size_exact_partial :
  forall (K V : Type) (comp : K -> K -> bool), SWO comp ->
  forall (ops : list (@op K V)) (ks : list K),
  NoDupA (fun a b => ceq comp a b = true) ks ->
  (forall k, InA (fun a b => ceq comp a b = true) k ks <-> latest_kv comp k ops <> None) ->
  size (state_after comp ops) = Z.of_nat (length ks) - Z.of_nat (absent_deletes (ceq comp) ops).
Proof. intros K V comp Hs. exact (size_cardinal_exact comp Hs). Qed.
Print Assumptions C04_ties_size_exact_partial.

Theorem C04_ties_notfound_deletes_counted :
  forall (K V : Type) (comp : K -> K -> bool), SWO comp ->
  forall ops : list (@op K V),
  absent_deletes (ceq comp) ops = length (filter is_notfound (outs comp ops)).
Proof. intros K V comp Hs. exact (absent_deletes_count comp Hs). Qed.
Print Assumptions C04_ties_notfound_deletes_counted.

Theorem C04_ties_size_vs_traverse_partial :
  forall (K V : Type) (comp : K -> K -> bool), SWO comp ->
  forall ops : list (@op K V),
  size (state_after comp ops) =
  Z.of_nat (length (traverse (root (state_after comp ops)))) - Z.of_nat (absent_deletes (ceq comp) ops).
Proof. intros K V comp Hs. exact (size_exact comp Hs). Qed.
Print Assumptions C04_ties_size_vs_traverse_partial.

(* ---------- refinement of the ordered association list keyed on classes ---------- *)

Theorem C04_ties_refines_map_partial :
  forall (K V : Type) (comp : K -> K -> bool), SWO comp ->
  forall ops : list (@op K V),
  Forall2 same_but_size (outs comp ops) (outs_map comp (ceq comp) ops).
Proof. intros K V comp Hs. exact (refines_map_but_size comp Hs). Qed.
Print Assumptions C04_ties_refines_map_partial.

Theorem C04_ties_refines_map_no_absent_delete_partial :
  forall (K V : Type) (comp : K -> K -> bool), SWO comp ->
  forall ops : list (@op K V),
  absent_deletes (ceq comp) ops = O -> outs comp ops = outs_map comp (ceq comp) ops.
Proof. intros K V comp Hs. exact (refines_map_no_absent_delete comp Hs). Qed.
Print Assumptions C04_ties_refines_map_no_absent_delete_partial.

(* ---------- non-strict comparators: outside the property, recorded ----------

   For a comparator with comp a b or comp b a for ALL a, b (so comp a a: a <= b,
   a >= b) that is transitive, Compare never answers 0: *)

(* Get never finds anything, whatever the tree *)
Theorem C04_nonstrict_get_never_finds :
  forall (K V : Type) (comp : K -> K -> bool),
  (forall a b, comp a b = true \/ comp b a = true) ->
  forall (t : @tree K V) k, get comp t k = Err NotFound.
Proof. intros K V comp Hc. exact (ns_get comp Hc). Qed.
Print Assumptions C04_nonstrict_get_never_finds.

(* Delete never removes anything and answers ErrorNotFound (and Delete still decrements size) *)
Theorem C04_nonstrict_delete_never_removes :
  forall (K V : Type) (comp : K -> K -> bool),
  (forall a b, comp a b = true \/ comp b a = true) ->
  forall (t : @tree K V) k, delete comp t k = (t, true).
Proof. intros K V comp Hc. exact (ns_delete comp Hc). Qed.
Print Assumptions C04_nonstrict_delete_never_removes.

(* every history: the outputs are the bag machine's (every Upsert adds an entry,
   placed before the first entry it is <= to; nothing is found or removed)
   except the number inside a Size answer; Size = Upserts - Deletes; the final
   in-order listing is the bag *)
Theorem C04_nonstrict_refines_bag :
  forall (K V : Type) (comp : K -> K -> bool),
  (forall a b, comp a b = true \/ comp b a = true) ->
  (forall a b c, comp a b = true -> comp b c = true -> comp a c = true) ->
  forall ops : list (@op K V),
  Forall2 same_but_size (outs comp ops) (outs_bag comp ops) /\
  traverse (root (state_after comp ops)) = fst (run_bag comp ops []) /\
  size (state_after comp ops) =
  Z.of_nat (length (filter (@is_upsert K V) ops)) - Z.of_nat (length (filter (@is_delete K V) ops)).
Proof.
  intros K V comp Hc Ht ops. destruct (ns_run comp Hc Ht ops empty I) as (H1 & _ & H3 & H4).
  split; [exact H3|]. split; [exact H1|]. unfold state_after. rewrite H4. unfold count_ops. cbn. lia.
Qed.
Print Assumptions C04_nonstrict_refines_bag.

(* ---------- non-vacuity ---------- *)

(* the comparators of the "ties" stream are strict weak orders that are not total *)
Example swo_half_lt : SWO (fun a b : Z => Z.quot a 2 <? Z.quot b 2).
Proof.
  repeat split; intros; rewrite ?Z.ltb_lt, ?Z.ltb_irrefl in *; try lia.
Qed.
Example swo_half_gt : SWO (fun a b : Z => Z.quot a 2 >? Z.quot b 2).
Proof.
  repeat split; intros; rewrite ?Z.gtb_ltb, ?Z.ltb_lt, ?Z.ltb_irrefl in *; try lia.
Qed.
Example swo_rem3_lt : SWO (fun a b : Z => Z.rem a 3 <? Z.rem b 3).
Proof.
  repeat split; intros; rewrite ?Z.ltb_lt, ?Z.ltb_irrefl in *; try lia.
Qed.
Example half_ties_not_total : ceq (fun a b : Z => Z.quot a 2 <? Z.quot b 2) 0 1 = true /\ 0 <> 1.
Proof. split; [reflexivity | discriminate]. Qed.
Example leb_nonstrict :
  (forall a b, Z.leb a b = true \/ Z.leb b a = true) /\
  (forall a b c, Z.leb a b = true -> Z.leb b c = true -> Z.leb a c = true).
Proof. split; intros; rewrite ?Z.leb_le in *; lia. Qed.

(* a history with ties: 0 and 1 tie, 2 and 3 tie, 4 and 5 tie; the root 2 has two
   children and is deleted through the tied key 3 (successor 4 spliced in with
   ITS stored key); Upsert 1 after Upsert 0 replaces the value and keeps key 0 *)
Example history_example_ties :
  let comp := fun a b : Z => Z.quot a 2 <? Z.quot b 2 in
  let ops := [Upsert 2 20; Upsert 0 1; Upsert 4 40; Upsert 1 11; Get 1; Get 0; Size;
              Delete 3; Get 2; Get 5; Upsert 5 51; Get 4; Delete 1; Delete 0; Size; Traverse] in
  outs comp ops =
    [ODone; ODone; ODone; ODone; OGet (Ok (0, 11)); OGet (Ok (0, 11)); OSize 3;
     ODel false; OGet (Err NotFound); OGet (Ok (4, 40)); ODone; OGet (Ok (4, 51)); ODel false; ODel true;
     OSize 0; OTrav [(4, 51)]] /\
  latest_kv comp 1 [Upsert 2 20; Upsert 0 1; Upsert 4 40; Upsert 1 11] = Some (0, 11).
Proof. vm_compute. repeat split. Qed.

(* under a <= b: duplicates pile up (the later one first), nothing is found or deleted *)
Example history_example_nonstrict :
  outs Z.leb [Upsert 1 10; Upsert 1 11; Upsert 0 5; Get 1; Delete 1; Size; Traverse] =
    [ODone; ODone; ODone; OGet (Err NotFound); ODel true; OSize 2; OTrav [(0, 5); (1, 11); (1, 10)]].
Proof. vm_compute. reflexivity. Qed.
