(* C04_Wire.v — wire glue for C04 (no proofs; exercised by the correspondence).

   input    = cmp :: concat [op; a; b]       cmp: 0 ascending (a < b), otherwise descending (a > b)
              op: 0 Upsert a b | 1 Delete a | 2 Get a | 3 Size | 4 Traverse   (unused fields are 0)
   observed = concat (per-op results) ++ [final Size] ++ final Traverse
              Upsert   -> [0]            ([2] if it panicked)
              Delete   -> [0] | [1; 1]   (nil | ErrorNotFound)
              Get      -> [0; key; val] | [1; 1]
              Size     -> [n]
              Traverse -> n :: k1 :: v1 :: ... :: kn :: vn     ([3] if the goroutine hung)
   kept in step with harness/c04.go. *)

From Gogu Require Import Base C04_Model.

Definition cmp_of (c : Z) : Z -> Z -> bool :=
  match c with 0 => Z.ltb | _ => Z.gtb end.

Definition zop := @op Z Z.
Definition zout := @out Z Z.

Definition dec_op (r : list Z) : option zop :=
  match r with
  | [0; k; v] => Some (Upsert k v)
  | [1; k; _] => Some (Delete k)
  | [2; k; _] => Some (Get k)
  | [3; _; _] => Some Size
  | [4; _; _] => Some Traverse
  | _ => None
  end.

Fixpoint dec_ops (rs : list (list Z)) : option (list zop) :=
  match rs with
  | [] => Some []
  | r :: rs' =>
      match dec_op r, dec_ops rs' with
      | Some o, Some os => Some (o :: os)
      | _, _ => None
      end
  end.

Definition enc_pairs (l : list (Z * Z)) : list Z :=
  Z.of_nat (length l) :: flat_map (fun kv => [fst kv; snd kv]) l.

Definition enc_out (o : zout) : list Z :=
  match o with
  | ODone => [0]
  | OPanic => [2]
  | ODel e => if e then [1; 1] else [0]
  | OGet r => enc_res (fun kv => [fst kv; snd kv]) r
  | OSize n => [n]
  | OTrav l => enc_pairs l
  end.

(* the model (C04_Model.run) on a wire input *)
Definition c04_run (w : list Z) : list Z :=
  match w with
  | c :: rest =>
      match dec_ops (chunks 3 rest) with
      | Some ops =>
          let '(b, xs) := run (cmp_of c) ops empty in
          flat_map enc_out xs ++ [size b] ++ enc_pairs (traverse (root b))
      | None => wire_error
      end
  | [] => wire_error
  end.

(* the specification (the sorted association list machine C04_Model.run_map)
   on a wire input *)
Definition c04_spec (w : list Z) : list Z :=
  match w with
  | c :: rest =>
      match dec_ops (chunks 3 rest) with
      | Some ops =>
          let '(m, xs) := run_map (cmp_of c) Z.eqb ops [] in
          flat_map enc_out xs ++ [Z.of_nat (length m)] ++ enc_pairs m
      | None => wire_error
      end
  | [] => wire_error
  end.

Definition c04_agree (w obs : list Z) : bool := zlist_eqb obs (c04_run w).

(* The property determines every observable uniquely (the outputs of the
   reference machine; C04_Props.C04_refines_map proves the repaired model
   produces exactly these for every history), so the property holds on an
   observation iff it is the reference machine's. *)
Definition c04_holds (w obs : list Z) : bool := zlist_eqb obs (c04_spec w).
