(* C04_Wire.v — wire glue for C04 (no proofs; exercised by the correspondence).

   input    = cmp :: concat [op; a; b]       cmp: 0 ascending (a < b), 2 / 3 ascending / descending over
                                             EXTREME keys (below), 4 / 5 and 6 / 7 ascending / descending
                                             at OTHER TYPE INSTANCES (below), anything else descending (a > b)
              op: 0 Upsert a b | 1 Delete a | 2 Get a | 3 Size | 4 Traverse   (unused fields are 0)
   observed = concat (per-op results) ++ [final Size] ++ final Traverse
              Upsert   -> [0]            ([2] if it panicked)
              Delete   -> [0] | [1; 1]   (nil | ErrorNotFound)
              Get      -> [0; key; val] | [1; 1]
              Size     -> [n]
              Traverse -> n :: k1 :: v1 :: ... :: kn :: vn     ([3] if the goroutine hung)
   kept in step with harness/c04.go.

   Extreme keys.  The model runner reads 63-bit integers, so MinInt64, MaxInt64
   and +-2^62 cannot appear on the wire.  With cmp = 2 or 3 a wire key k in
   0..4999 STANDS FOR the Go key [ext_key k] (five windows of 1000 consecutive
   integers: around 0, up to MaxInt64, from MinInt64, around 2^62, around
   -2^62).  The harness hands ext_key k to the real tree (ordered by < or > on
   int) and maps the keys coming back through the inverse; this side runs the
   model on the wire keys themselves under the comparator pulled back along
   ext_key, which is the same tree up to renaming the keys because ext_key is
   injective on 0..4999 (and the harness refuses other keys in these modes).
   No Z.to_nat anywhere: the window is selected by matching k / 1000.

   Type instances.  cmp = 0..3 drive BsTree[int, int].  With cmp = 4 / 5 the
   harness drives BsTree[string, string], with 6 / 7 BsTree[K, V] for a NAMED
   string type K and a struct type V (with a slice field), under the comparator
   a < b / a > b ON THE STRINGS.  A wire key k stands for the fixed-width decimal
   string of k + 10^12 (13 digits; injective and order preserving for |k| <
   10^12), a wire value v for the decimal string of v (resp. the struct built
   from it); every string is built afresh at run time for every call, so equal
   keys never share a backing array.  Keys and values coming back are parsed
   back to integers.  Because the codec preserves the order, this side is just
   the model at Z with Z.ltb / Z.gtb.

   Comparators with TIES (cmp = 8..13) and NON-STRICT comparators (14, 15):
     8 / 9    BsTree[int, int] under  a/2 < b/2  /  a/2 > b/2   (Go's truncating division: Z.quot)
     10 / 11  BsTree[int, int] under  a%3 < b%3  /  a%3 > b%3   (Go's remainder: Z.rem; the classes interleave)
     12 / 13  BsTree[string, string] under strings.ToLower(a) < / > strings.ToLower(b): a wire key k >= 0
              stands for a 4-letter word, the letters spell k/4 in base 26 and k%4 selects which of the
              first two letters are upper case, so k and k' tie iff k/4 = k'/4; on this side it is the
              model at Z under a/4 < b/4 (the harness refuses negative keys in these modes)
     14 / 15  BsTree[int, int] under  a <= b  /  a >= b
   In the modes 8..13 "the same key" of the specification machine is the comparator's equivalence
   [ceq] (keys that tie), not Z.eqb; in the modes 14 / 15 the property says nothing (it is about strict
   comparators) and [c04_spec] is the bag machine [run_bag] of C04_ModelTies.v, which writes down what
   the code does there (C04_nonstrict_* in C04_PropsTies.v). *)

From Gogu Require Import Base C04_Model C04_ModelTies.

Definition ext_key (k : Z) : Z :=
  if (0 <=? k) && (k <? 5000) then
    match k / 1000 with
    | 0 => k mod 1000 - 500                              (*  -500 .. 499            *)
    | 1 => 9223372036854775807 - 999 + k mod 1000        (*  .. MaxInt64            *)
    | 2 => -9223372036854775808 + k mod 1000             (*  MinInt64 ..            *)
    | 3 => 4611686018427387904 - 500 + k mod 1000        (*  2^62-500 .. 2^62+499   *)
    | _ => -4611686018427387904 - 500 + k mod 1000       (* -2^62-500 .. -2^62+499  *)
    end
  else k.

Definition cmp_of (c : Z) : Z -> Z -> bool :=
  match c with
  | 0 => Z.ltb
  | 2 => fun a b => Z.ltb (ext_key a) (ext_key b)
  | 3 => fun a b => Z.gtb (ext_key a) (ext_key b)
  | 4 | 6 => Z.ltb
  | 8 => fun a b => Z.ltb (Z.quot a 2) (Z.quot b 2)
  | 9 => fun a b => Z.gtb (Z.quot a 2) (Z.quot b 2)
  | 10 => fun a b => Z.ltb (Z.rem a 3) (Z.rem b 3)
  | 11 => fun a b => Z.gtb (Z.rem a 3) (Z.rem b 3)
  | 12 => fun a b => Z.ltb (Z.quot a 4) (Z.quot b 4)
  | 13 => fun a b => Z.gtb (Z.quot a 4) (Z.quot b 4)
  | 14 => Z.leb
  | 15 => Z.geb
  | _ => Z.gtb
  end.

(* "the same key" for the specification machine: Go's == on the keys where the comparator is a strict
   total order (there the two coincide), the comparator's equivalence where keys tie *)
Definition keq_of (c : Z) : Z -> Z -> bool :=
  match c with
  | 8 | 9 | 10 | 11 | 12 | 13 => ceq (cmp_of c)
  | _ => Z.eqb
  end.

Definition nonstrict (c : Z) : bool := (c =? 14) || (c =? 15).

Definition zop := @op Z Z.
Definition zout := @out Z Z.

Definition dec_op (r : list Z) : option zop :=
  match r with
  | [0; k; v] => Some (Upsert k v)
  | [1; k; _] => Some (Delete k)
  | [2; k; _] => Some (Get k)
  | [3; _; _] => Some Size
  | [4; _; _] => Some Traverse
  | _ => None
  end.

Fixpoint dec_ops (rs : list (list Z)) : option (list zop) :=
  match rs with
  | [] => Some []
  | r :: rs' =>
      match dec_op r, dec_ops rs' with
      | Some o, Some os => Some (o :: os)
      | _, _ => None
      end
  end.

Definition enc_pairs (l : list (Z * Z)) : list Z :=
  Z.of_nat (length l) :: flat_map (fun kv => [fst kv; snd kv]) l.

Definition enc_out (o : zout) : list Z :=
  match o with
  | ODone => [0]
  | OPanic => [2]
  | ODel e => if e then [1; 1] else [0]
  | OGet r => enc_res (fun kv => [fst kv; snd kv]) r
  | OSize n => [n]
  | OTrav l => enc_pairs l
  end.

(* the model (C04_Model.run) on a wire input *)
Definition c04_run (w : list Z) : list Z :=
  match w with
  | c :: rest =>
      match dec_ops (chunks 3 rest) with
      | Some ops =>
          let '(b, xs) := run (cmp_of c) ops empty in
          flat_map enc_out xs ++ [size b] ++ enc_pairs (traverse (root b))
      | None => wire_error
      end
  | [] => wire_error
  end.

(* the specification (the sorted association list machine C04_Model.run_map)
   on a wire input *)
Definition c04_spec (w : list Z) : list Z :=
  match w with
  | c :: rest =>
      match dec_ops (chunks 3 rest) with
      | Some ops =>
          let '(m, xs) := if nonstrict c then run_bag (cmp_of c) ops []
                          else run_map (cmp_of c) (keq_of c) ops [] in
          flat_map enc_out xs ++ [Z.of_nat (length m)] ++ enc_pairs m
      | None => wire_error
      end
  | [] => wire_error
  end.

Definition c04_agree (w obs : list Z) : bool := zlist_eqb obs (c04_run w).

(* The property determines every observable uniquely: the outputs of the
   reference machine [run_map] (the comparator-sorted association list), so the
   property holds on an observation iff it is the reference machine's.  This
   judges against the SPECIFICATION, not the model: on a history with a Delete
   of an absent key the model (= the code as it is) answers a smaller Size and
   [c04_holds] is false there (C04_refines_map_refuted); such cases are
   attributed to KF-C04-size-absent-delete by tools/matchers.d/c04.py only when
   nothing but the Size answers deviates, by exactly the number of not-found
   Deletes.  Everywhere else model and reference machine agree
   (C04_refines_map_partial, C04_refines_map_no_absent_delete_partial). *)
Definition c04_holds (w obs : list Z) : bool := zlist_eqb obs (c04_spec w).
