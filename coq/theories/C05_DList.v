(* C05_DList.v — node-heap transcription of EXACTLY the methods of
   /repo/list/dlist.go that queue/lqueue.go and stack/lstack.go call:
   InitDList, Append, Shift, Pop, First, Last, Find, Clear, Val.
   (Shared by C05 and C06; C19 has its own, complete, model of DList.)
   Source state: list/dlist.go as of /repo commit b974c31 — of the four DList
   repairs (Unshift, InsertBefore, Delete, Shift) only the one to Shift touches a
   method transcribed here: after moving the second node into the list struct it
   now clears l.prev and re-points l.next.prev.

   Memory model (DESIGN §3 "Pointers"):
     * [mem] = list of nodes, the address of a node is its index; allocation
       appends (monotone, nothing is ever freed);
     * a Go pointer *DoubleNode is an [option addr] ([None] = nil);
     * the list struct [DList{DoubleNode}] that a queue/stack owns is the node
       at ADDRESS 0 ("head embedded by value"): [&l.DoubleNode] is address 0,
       [l.DoubleNode = *p] overwrites address 0 with a copy of the node at p,
       [node := l.DoubleNode] is a copy; the copy lives in the heap iff its
       address is taken ([return &node] in Shift and Pop), otherwise it is a
       Gallina value;
     * dereferencing nil is [Panic] (the Go runtime panic); dereferencing an
       address that was never allocated cannot happen in Go and is reported as
       [Err 99] (Dangling) so that it is not confused with anything real;
     * loops that follow pointers take fuel and answer [Err 98] (OutOfFuel)
       when it runs out; C05_Proofs proves [length mem] always suffices on the
       states the queue/stack can reach.

   Every Go statement is one line below, in the order of the source.
   No proofs in this file. *)

From Gogu Require Import Base.

Definition addr := nat.

Record node := mkNode { nval : Z; nnext : option addr; nprev : option addr }.

Definition mem := list node.

Definition OutOfFuel {A} : res A := Err 98.
Definition Dangling {A} : res A := Err 99.

Definition bind {A B} (r : res A) (f : A -> res B) : res B :=
  match r with
  | Ok a => f a
  | Err k => Err k
  | Panic => Panic
  end.

Notation "'do' x <- r ; k" := (bind r (fun x => k))
  (at level 200, x pattern, r at level 100, k at level 200, right associativity).

(* *(address a) *)
Definition load (m : mem) (a : addr) : res node :=
  match nth_error m a with
  | Some nd => Ok nd
  | None => Dangling
  end.

(* *p for a Go pointer p *)
Definition deref (m : mem) (p : option addr) : res node :=
  match p with
  | None => Panic
  | Some a => load m a
  end.

(* *(address a) = nd *)
Fixpoint upd (a : addr) (nd : node) (m : mem) {struct m} : mem :=
  match m, a with
  | [], _ => []
  | _ :: m', O => nd :: m'
  | x :: m', S a' => x :: upd a' nd m'
  end.

(* &DoubleNode{...} / a local whose address escapes *)
Definition alloc (nd : node) (m : mem) : addr * mem := (length m, m ++ [nd]).

(* a.next = p ; a.prev = p ; a.Value = v *)
Definition set_next (m : mem) (a : addr) (p : option addr) : res mem :=
  do nd <- load m a; Ok (upd a (mkNode (nval nd) p (nprev nd)) m).
Definition set_prev (m : mem) (a : addr) (p : option addr) : res mem :=
  do nd <- load m a; Ok (upd a (mkNode (nval nd) (nnext nd) p) m).
Definition set_val (m : mem) (a : addr) (v : Z) : res mem :=
  do nd <- load m a; Ok (upd a (mkNode v (nnext nd) (nprev nd)) m).

(* *dst = *src *)
Definition copy_node (m : mem) (dst src : addr) : res mem :=
  do nd <- load m src; Ok (upd dst nd m).

(* the address of the list struct *)
Definition L : addr := O.

(* ---------- func InitDList(value) *DList ----------
     return &DList[T]{ *newDNode(value) }                                    *)
Definition dl_init (v : Z) : mem := [mkNode v None None].

(* ---------- func (l *DList[T]) Append(value T) ---------- *)

(* for head.next != nil { head = head.next } *)
Fixpoint walk_last (fuel : nat) (m : mem) (head : addr) : res addr :=
  match fuel with
  | O => OutOfFuel
  | S f =>
      do h <- load m head;
      match nnext h with
      | None => Ok head
      | Some nx => walk_last f m nx
      end
  end.

Definition dl_append (value : Z) (m : mem) : res mem :=
  (* newNode := newDNode(value) *)
  let '(newNode, m) := alloc (mkNode value None None) m in
  (* head := &l.DoubleNode *)
  let head := L in
  (* if l.next == nil { l.DoubleNode = *head } *)
  do l <- load m L;
  do m <- match nnext l with
          | None => copy_node m L head
          | Some _ => Ok m
          end;
  (* for head.next != nil { head = head.next } *)
  do head <- walk_last (length m) m head;
  (* newNode.next = head.next *)
  do h <- load m head;
  do m <- set_next m newNode (nnext h);
  (* head.next = newNode *)
  do m <- set_next m head (Some newNode);
  (* newNode.prev = head *)
  set_prev m newNode (Some head).

(* ---------- func (l *DList[T]) Shift() *DoubleNode[T] ---------- *)
Definition dl_shift (m : mem) : res (mem * addr) :=
  (* head := &l.DoubleNode *)
  let head := L in
  (* node := l.DoubleNode          (its address is returned: heap-allocated copy) *)
  do l <- load m L;
  let '(node, m) := alloc l m in
  do h <- load m head;
  match nnext h with
  | None =>
      (* var value T; head.next = nil; head.prev = nil; head.Value = value *)
      do m <- set_next m head None;
      do m <- set_prev m head None;
      do m <- set_val m head 0;
      (* l.DoubleNode = *head *)
      do m <- copy_node m L head;
      (* return &node *)
      Ok (m, node)
  | Some nx =>
      (* head = head.next *)
      let head := nx in
      (* l.DoubleNode = *head *)
      do m <- copy_node m L head;
      (* l.prev = nil *)
      do m <- set_prev m L None;
      (* if l.next != nil { l.next.prev = &l.DoubleNode } *)
      do l <- load m L;
      do m <- match nnext l with
              | None => Ok m
              | Some nn => set_prev m nn (Some L)
              end;
      (* return &node *)
      Ok (m, node)
  end.

(* ---------- func (l *DList[T]) Pop() *DoubleNode[T] ---------- *)

(* for tmp.next.next != nil { tmp = tmp.next; node = *tmp } *)
Fixpoint pop_loop (fuel : nat) (m : mem) (tmp node : addr) : res (mem * addr) :=
  match fuel with
  | O => OutOfFuel
  | S f =>
      do t <- load m tmp;
      do tn <- deref m (nnext t);               (* tmp.next.next dereferences tmp.next *)
      match nnext tn with
      | None => Ok (m, tmp)
      | Some _ =>
          match nnext t with
          | None => Panic                        (* unreachable: deref above succeeded *)
          | Some nx =>
              (* tmp = tmp.next *)
              let tmp := nx in
              (* node = *tmp *)
              do m <- copy_node m node tmp;
              pop_loop f m tmp node
          end
      end
  end.

Definition dl_pop (m : mem) : res (mem * addr) :=
  (* head := &l.DoubleNode *)
  let head := L in
  (* node := DoubleNode[T]{}       (its address is returned: heap-allocated) *)
  let '(node, m) := alloc (mkNode 0 None None) m in
  do h <- load m head;
  match nnext h with
  | None =>
      (* head = nil                 (a dead store to the local) *)
      Ok (m, node)
  | Some _ =>
      (* tmp := head; node = *tmp *)
      let tmp := head in
      do m <- copy_node m node tmp;
      (* for tmp.next.next != nil { ... } *)
      do (m, tmp) <- pop_loop (length m) m tmp node;
      (* tmp.next = nil *)
      do m <- set_next m tmp None;
      (* return &node *)
      Ok (m, node)
  end.

(* ---------- func (l *DList[T]) Find(val T) ( *DoubleNode[T], bool ) ---------- *)

(* for n := &l.DoubleNode; n != nil; n = n.next { if n.Value == val { return n } } *)
Fixpoint find_loop (fuel : nat) (m : mem) (n : option addr) (val : Z) : res (option addr) :=
  match fuel with
  | O => OutOfFuel
  | S f =>
      match n with
      | None => Ok None
      | Some a =>
          do nd <- load m a;
          if nval nd =? val then Ok (Some a) else find_loop f m (nnext nd) val
      end
  end.

Definition dl_find (val : Z) (m : mem) : res (mem * option addr * bool) :=
  (* head := &l.DoubleNode *)
  let head := L in
  do r <- find_loop (S (length m)) m (Some L) val;
  match r with
  | Some n =>
      (* l.DoubleNode = *head; return n, true *)
      do m <- copy_node m L head;
      Ok (m, Some n, true)
  | None =>
      (* l.DoubleNode = *head; return nil, false *)
      do m <- copy_node m L head;
      Ok (m, None, false)
  end.

(* ---------- func (l *DList[T]) First() T ----------
     head := l.DoubleNode; return head.Value                                 *)
Definition dl_first (m : mem) : res Z :=
  do head <- load m L; Ok (nval head).

(* ---------- func (l *DList[T]) Last() T ---------- *)

(* for l.DoubleNode.next != nil { l.DoubleNode = *l.DoubleNode.next } *)
Fixpoint last_loop (fuel : nat) (m : mem) : res mem :=
  match fuel with
  | O => OutOfFuel
  | S f =>
      do l <- load m L;
      match nnext l with
      | None => Ok m
      | Some nx => do m <- copy_node m L nx; last_loop f m
      end
  end.

Definition dl_last (m : mem) : res (mem * Z) :=
  (* head := l.DoubleNode          (a value copy; its address is not taken) *)
  do head <- load m L;
  (* for ... *)
  do m <- last_loop (length m) m;
  (* value = l.DoubleNode.Value *)
  do l <- load m L;
  let value := nval l in
  (* l.DoubleNode = head *)
  let m := upd L head m in
  Ok (m, value).

(* ---------- func (l *DList[T]) Val(node *DoubleNode[T]) T ----------
     return node.Value                                                       *)
Definition dl_val (m : mem) (node : option addr) : res Z :=
  do nd <- deref m node; Ok (nval nd).

(* ---------- func (l *DList[T]) Clear() ----------
     head := &l.DoubleNode; head.next = nil; head.prev = nil                 *)
Definition dl_clear (m : mem) : res mem :=
  let head := L in
  do m <- set_next m head None;
  set_prev m head None.
