(* C05_Model.v — the two FIFO queues of /repo/queue, transcribed statement by
   statement, and the functional FIFO they are compared with.

     queue/queue.go   Queue[T]   slice-backed        -> [sq]  = list Z (front at index 0)
     queue/lqueue.go  LQueue[T]  DList + counter n   -> [lq]  = {node heap; n : Z}
                                 over C05_DList.v, AFTER the repair
                                 fixes/builder-c05c06/0001-*.patch (empty-state
                                 guards driven by n; see notes/C05.md)

   The element type T is instantiated at Z; its zero value is 0.
   Locking (sync.RWMutex) is not modelled here: C01/C02 own it.
   No proofs in this file. *)

From Gogu Require Import Base C05_DList.

(* ---------- operations and their observable results ---------- *)

Inductive qop :=
| Enqueue (x : Z)
| Dequeue
| Peek
| Search (x : Z)
| Size
| Clear.

Inductive qout :=
| ONone                       (* Enqueue, Clear: no result *)
| ODeq (err : bool) (v : Z)   (* Dequeue: (item, err != nil) *)
| OVal (v : Z)                (* Peek *)
| OBool (b : bool)            (* Search *)
| OSize (n : Z)               (* Size *)
| OFail (k : Z).              (* the model itself panicked (k = 0) or got stuck (k = 98, 99):
                                 never happens — C05_Props *)

Definition fail_of {A} (r : res A) : qout :=
  match r with
  | Ok _ => ONone
  | Err k => OFail k
  | Panic => OFail 0
  end.

(* ---------- a machine = a step function; running a history ----------
   (generic in the operation and result types: C06 reuses it) *)

Section Machine.
  Context {S Op Out : Type}.
  Variable step : S -> Op -> S * Out.

  Fixpoint run (s : S) (ops : list Op) : S * list Out :=
    match ops with
    | [] => (s, [])
    | o :: ops' =>
        let '(s1, r) := step s o in
        let '(s2, rs) := run s1 ops' in
        (s2, r :: rs)
    end.

  Definition outs (s : S) (ops : list Op) : list Out := snd (run s ops).
  Definition state_after (s : S) (ops : list Op) : S := fst (run s ops).
End Machine.

(* ======================================================================
   queue/queue.go — slice-backed
   ====================================================================== *)

Definition sq := list Z.

(* func (q *Queue[T]) size() int { return len(q.items) } *)
Definition sq_size (q : sq) : Z := Z.of_nat (length q).

(* q.items = append(q.items, item) *)
Definition sq_enqueue (item : Z) (q : sq) : sq := q ++ [item].

(* if q.size() == 0 { return item, fmt.Errorf("queue is empty") }
   item = q.items[0]
   q.items = q.items[1:]                                                    *)
Definition sq_dequeue (q : sq) : res (sq * qout) :=
  if sq_size q =? 0 then Ok (q, ODeq true 0)
  else
    match nth_error q 0 with
    | None => Panic                               (* index out of range *)
    | Some item => Ok (skipn 1 q, ODeq false item)
    end.

(* if q.size() == 0 { return }; return q.items[0] *)
Definition sq_peek (q : sq) : res Z :=
  if sq_size q =? 0 then Ok 0
  else
    match nth_error q 0 with
    | None => Panic
    | Some item => Ok item
    end.

(* for i := 0; i < q.size(); i++ { if q.items[i] == item { return true } }
   return false            — [k] is the loop variant q.size() - i           *)
Fixpoint sq_search_loop (k i : nat) (q : sq) (item : Z) : res bool :=
  match k with
  | O => Ok false
  | S k' =>
      match nth_error q i with
      | None => Panic
      | Some y => if y =? item then Ok true else sq_search_loop k' (S i) q item
      end
  end.
Definition sq_search (item : Z) (q : sq) : res bool :=
  sq_search_loop (length q) 0 q item.

(* q.items = nil *)
Definition sq_clear (q : sq) : sq := [].

Definition sq_new : sq := [].

Definition sq_step (q : sq) (o : qop) : sq * qout :=
  match o with
  | Enqueue x => (sq_enqueue x q, ONone)
  | Dequeue =>
      match sq_dequeue q with
      | Ok (q', r) => (q', r)
      | r => (q, fail_of r)
      end
  | Peek =>
      match sq_peek q with
      | Ok v => (q, OVal v)
      | r => (q, fail_of r)
      end
  | Search x =>
      match sq_search x q with
      | Ok b => (q, OBool b)
      | r => (q, fail_of r)
      end
  | Size => (q, OSize (sq_size q))
  | Clear => (sq_clear q, ONone)
  end.

(* ======================================================================
   queue/lqueue.go — linked (repaired)
   ====================================================================== *)

Record lq := mkLq { lq_mem : mem; lq_n : Z }.

(* return &LQueue[T]{ list: list.InitDList(t), n: 1 } *)
Definition lq_new (t : Z) : lq := mkLq (dl_init t) 1.

(* if l.n == 0 { l.list = list.InitDList(item); l.n = 1; return }   <- repair
   l.n++
   l.list.Append(item)
   (the list struct a queue points to is address 0 of ITS heap; pointing
   l.list at a freshly initialised list is a fresh heap: nothing else ever
   held a pointer into the old one)                                          *)
Definition lq_enqueue (item : Z) (q : lq) : res lq :=
  if lq_n q =? 0 then Ok (mkLq (dl_init item) 1)
  else
    let n := lq_n q + 1 in
    do m <- dl_append item (lq_mem q);
    Ok (mkLq m n).

(* if l.n == 0 { return }                                           <- repair
   node := l.list.Shift()
   l.n--
   return l.list.Val(node)                                                   *)
Definition lq_dequeue (q : lq) : res (lq * Z) :=
  if lq_n q =? 0 then Ok (q, 0)
  else
    do (m, node) <- dl_shift (lq_mem q);
    let n := lq_n q - 1 in
    do v <- dl_val m (Some node);
    Ok (mkLq m n, v).

(* if l.n == 0 { var zero T; return zero }                          <- repair
   return l.list.First()                                                     *)
Definition lq_peek (q : lq) : res Z :=
  if lq_n q =? 0 then Ok 0 else dl_first (lq_mem q).

(* if l.n == 0 { return false }                                     <- repair
   if _, ok := l.list.Find(item); ok { return true }
   return false                                                              *)
Definition lq_search (item : Z) (q : lq) : res (lq * bool) :=
  if lq_n q =? 0 then Ok (q, false)
  else
    do (m, _, ok) <- dl_find item (lq_mem q);
    Ok (mkLq m (lq_n q), if ok then true else false).

(* return l.n *)
Definition lq_size (q : lq) : Z := lq_n q.

(* l.n = 0
   l.list.Clear()                                                            *)
Definition lq_clear (q : lq) : res lq :=
  let n := 0 in
  do m <- dl_clear (lq_mem q);
  Ok (mkLq m n).

(* a failing operation (never happens) leaves the state alone and is reported *)
Definition lq_step (q : lq) (o : qop) : lq * qout :=
  match o with
  | Enqueue x =>
      match lq_enqueue x q with
      | Ok q' => (q', ONone)
      | r => (q, fail_of r)
      end
  | Dequeue =>
      match lq_dequeue q with
      | Ok (q', v) => (q', ODeq false v)          (* LQueue.Dequeue has no error result *)
      | r => (q, fail_of r)
      end
  | Peek =>
      match lq_peek q with
      | Ok v => (q, OVal v)
      | r => (q, fail_of r)
      end
  | Search x =>
      match lq_search x q with
      | Ok (q', b) => (q', OBool b)
      | r => (q, fail_of r)
      end
  | Size => (q, OSize (lq_size q))
  | Clear =>
      match lq_clear q with
      | Ok q' => (q', ONone)
      | r => (q, fail_of r)
      end
  end.

(* ======================================================================
   The specification: a functional FIFO, front at the head of a list
   ====================================================================== *)

Definition fifo_step (l : list Z) (o : qop) : list Z * qout :=
  match o with
  | Enqueue x => (l ++ [x], ONone)
  | Dequeue =>
      match l with
      | [] => ([], ODeq true 0)                   (* reports emptiness, changes nothing *)
      | x :: l' => (l', ODeq false x)
      end
  | Peek => (l, OVal (hd 0 l))
  | Search x => (l, OBool (existsb (Z.eqb x) l))
  | Size => (l, OSize (Z.of_nat (length l)))
  | Clear => ([], ONone)
  end.

(* LQueue.Dequeue returns the item only: emptiness shows as the zero value *)
Definition forget_err (r : qout) : qout :=
  match r with
  | ODeq _ v => ODeq false v
  | r => r
  end.

(* ======================================================================
   What one test case observes (shared by model, spec and Go harness):
   the result of every operation, then Size, then that many Dequeues (the
   drain), then Size, Dequeue, Size, Peek on the emptied queue.
   ====================================================================== *)

Definition drain_cap : Z := 4096.

Definition tail_ops (n : Z) : list qop :=
  repeat Dequeue (Z.to_nat (Z.min n drain_cap)) ++ [Size; Dequeue; Size; Peek].

Section Observe.
  Context {S : Type}.
  Variable step : S -> qop -> S * qout.

  Definition observe (s : S) (ops : list qop) : list qout :=
    let '(s1, o1) := run step s (ops ++ [Size]) in
    let n := match last o1 ONone with OSize n => n | _ => 0 end in
    o1 ++ outs step s1 (tail_ops n).
End Observe.
