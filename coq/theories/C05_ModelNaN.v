(* C05_ModelNaN.v — the two queues of /repo/queue over element types whose `==`
   is NOT the identity of values (brief nan0506; shared with C06_ModelNaN.v):

     float64                    NaN != NaN,  -0 == +0
     struct{X, Y float64}       the same, field by field
     any                        an interface holding a NaN is not equal to itself;
                                two interfaces of DIFFERENT dynamic types are
                                simply unequal, also when the types are
                                uncomparable (slices, maps); comparing two
                                values of the SAME uncomparable dynamic type is a
                                run-time panic of Go's `==` itself

   Elements are still named by integers (Z is the wire's carrier and every
   element type in question is countable), but Go's `==` on the element type is
   now a PARAMETER

        eqv : Z -> Z -> bool          eqv a b  =  "a == b" in Go

   about which NOTHING is assumed: not reflexive (NaN), not the identity (-0 and
   +0 are two values, i.e. two codes, that are equal).  The zero value of the
   element type keeps the code 0.

   What is transcribed again.  In queue/queue.go, queue/lqueue.go and in the
   DList methods they call (C05_DList.v) exactly two lines compare elements:

        queue.go   Search:   if q.items[i] == item { return true }
        dlist.go   Find:     if n.Value == val { return n, true }

   Enqueue, Dequeue, Peek, Size, Clear, DList.Append / Shift / First / Val / Clear
   move values and follow pointers but never compare two elements (read against
   the source at /repo 1b07b96), so their transcriptions in C05_Model.v /
   C05_DList.v are already generic in the element type.  The two comparing loops
   are transcribed below with [eqv] in place of [Z.eqb]; the step functions
   [gsq_step] / [glq_step] use them for Search and ARE [sq_step] / [lq_step] for
   every other operation.  At [eqv := Z.eqb] they are the models of C05_Model.v
   (C05_nan_conservative in C05_PropsNaN.v).

   Uncomparable dynamic types: [eqv] is total.  A history in which Go would have
   to compare two values of the same uncomparable dynamic type (Search for a
   slice on a queue holding a slice) panics in Go's `==` in the UNCHANGED code —
   that is the language, not the library — and is outside the model: the
   generator never produces such a comparison (harness/c05_nan.go, static rule).

   No proofs in this file. *)

From Gogu Require Import Base C05_DList C05_Model.
Local Open Scope Z_scope.

Section GenericEq.
  Variable eqv : Z -> Z -> bool.

  (* ---------- queue/queue.go  Search ----------
     for i := 0; i < q.size(); i++ { if q.items[i] == item { return true } }
     return false                                                            *)
  Fixpoint gsq_search_loop (k i : nat) (q : sq) (item : Z) : res bool :=
    match k with
    | O => Ok false
    | S k' =>
        match nth_error q i with
        | None => Panic
        | Some y => if eqv y item then Ok true else gsq_search_loop k' (S i) q item
        end
    end.
  Definition gsq_search (item : Z) (q : sq) : res bool :=
    gsq_search_loop (length q) 0 q item.

  Definition gsq_step (q : sq) (o : qop) : sq * qout :=
    match o with
    | Search x =>
        match gsq_search x q with
        | Ok b => (q, OBool b)
        | r => (q, fail_of r)
        end
    | _ => sq_step q o                  (* no comparison of elements in the other methods *)
    end.

  (* ---------- list/dlist.go  Find ----------
     for n := &l.DoubleNode; n != nil; n = n.next { if n.Value == val { return n } } *)
  Fixpoint gfind_loop (fuel : nat) (m : mem) (n : option addr) (val : Z) : res (option addr) :=
    match fuel with
    | O => OutOfFuel
    | S f =>
        match n with
        | None => Ok None
        | Some a =>
            do nd <- load m a;
            if eqv (nval nd) val then Ok (Some a) else gfind_loop f m (nnext nd) val
        end
    end.

  Definition gdl_find (val : Z) (m : mem) : res (mem * option addr * bool) :=
    (* head := &l.DoubleNode *)
    let head := L in
    do r <- gfind_loop (S (length m)) m (Some L) val;
    match r with
    | Some n =>
        (* l.DoubleNode = *head; return n, true *)
        do m <- copy_node m L head;
        Ok (m, Some n, true)
    | None =>
        (* l.DoubleNode = *head; return nil, false *)
        do m <- copy_node m L head;
        Ok (m, None, false)
    end.

  (* ---------- queue/lqueue.go  Search ----------
     if l.n == 0 { return false }
     if _, ok := l.list.Find(item); ok { return true }
     return false                                                            *)
  Definition glq_search (item : Z) (q : lq) : res (lq * bool) :=
    if lq_n q =? 0 then Ok (q, false)
    else
      do (m, _, ok) <- gdl_find item (lq_mem q);
      Ok (mkLq m (lq_n q), if ok then true else false).

  Definition glq_step (q : lq) (o : qop) : lq * qout :=
    match o with
    | Search x =>
        match glq_search x q with
        | Ok (q', b) => (q', OBool b)
        | r => (q, fail_of r)
        end
    | _ => lq_step q o                  (* no comparison of elements in the other methods *)
    end.

  (* ---------- the specification ----------
     the functional FIFO; "Search reports exactly the elements currently held"
     reads, for an arbitrary `==`: true iff some held element is == the argument *)
  Definition ghas (x : Z) (l : list Z) : bool := existsb (fun y => eqv y x) l.

  Definition gfifo_step (l : list Z) (o : qop) : list Z * qout :=
    match o with
    | Search x => (l, OBool (ghas x l))
    | _ => fifo_step l o
    end.
End GenericEq.

(* ======================================================================
   The executable instance: the codes the harness uses (harness/c05_nan.go) and
   Go's `==` on them.  Every other integer v names an ordinary value (the float
   v, the struct made from v, the int / string / float64 made from v inside an
   `any`), equal to itself and to nothing else; 0 names the zero value.
   ====================================================================== *)

Definition c_nan  : Z := -999999999.   (* a NaN / a value with a NaN inside *)
Definition c_nan2 : Z := -999999998.   (* another one (other payload / other field / other dynamic type) *)
Definition c_nz   : Z := -999999997.   (* negative zero: a second value that is == the zero value *)
Definition c_u1   : Z := -999999996.   (* any([]int{1})             uncomparable dynamic type []int *)
Definition c_u2   : Z := -999999995.   (* any([]int{2})             the same dynamic type *)
Definition c_m1   : Z := -999999994.   (* any(map[string]int{"k":1}) another uncomparable dynamic type *)

Definition is_nan (c : Z) : bool := (c =? c_nan) || (c =? c_nan2).
Definition is_unc (c : Z) : bool := (c =? c_u1) || (c =? c_u2) || (c =? c_m1).
Definition cls (c : Z) : Z := if c =? c_nz then 0 else c.

(* a == b.  For two uncomparable codes of DIFFERENT dynamic types, and for an
   uncomparable code against a comparable one, Go answers false; two of the
   same uncomparable dynamic type are never compared (see the header). *)
Definition go_eq (a b : Z) : bool :=
  if is_nan a || is_nan b then false
  else if is_unc a || is_unc b then false
  else cls a =? cls b.
