(* C05_Proofs.v — lemmas for C05; the DList part (§2) is reused by C06.

   §1 generic facts about [run]
   §2 node heap: frame lemmas, the representation predicate [dl_repr m vs]
      ("the next-chain from address 0 spells the values vs"), and one
      specification lemma per transcribed DList method
   §3 slice queue  = FIFO (step-wise equality)
   §4 linked queue ~ FIFO (representation invariant [lq_abs])
   §5 clauses of C05 on the FIFO machine and their transfer to the models *)

From Gogu Require Import Base C05_DList C05_Model.
Local Open Scope Z_scope.

(* ====================================================================== *)
(* §1  run                                                                 *)
(* ====================================================================== *)

Section RunFacts.
  Context {S Op Out : Type}.
  Variable step : S -> Op -> S * Out.

  Lemma run_app s ops1 ops2 :
    run step s (ops1 ++ ops2) =
    let '(s1, o1) := run step s ops1 in
    let '(s2, o2) := run step s1 ops2 in
    (s2, o1 ++ o2).
  Proof.
    revert s; induction ops1 as [|o ops1 IH]; intros s; cbn.
    - destruct (run step s ops2); reflexivity.
    - destruct (step s o) as [s1 r]. rewrite IH.
      destruct (run step s1 ops1) as [s2 o1]. destruct (run step s2 ops2). reflexivity.
  Qed.

  Lemma outs_app s ops1 ops2 :
    outs step s (ops1 ++ ops2) = outs step s ops1 ++ outs step (state_after step s ops1) ops2.
  Proof.
    unfold outs, state_after. rewrite run_app.
    destruct (run step s ops1) as [s1 o1]. cbn. destruct (run step s1 ops2). reflexivity.
  Qed.

  Lemma state_after_app s ops1 ops2 :
    state_after step s (ops1 ++ ops2) = state_after step (state_after step s ops1) ops2.
  Proof.
    unfold state_after. rewrite run_app.
    destruct (run step s ops1) as [s1 o1]. cbn. destruct (run step s1 ops2). reflexivity.
  Qed.

  Lemma outs_cons s o ops :
    outs step s (o :: ops) = snd (step s o) :: outs step (fst (step s o)) ops.
  Proof.
    unfold outs. cbn. destruct (step s o) as [s1 r]. cbn. destruct (run step s1 ops). reflexivity.
  Qed.

  Lemma state_after_cons s o ops :
    state_after step s (o :: ops) = state_after step (fst (step s o)) ops.
  Proof.
    unfold state_after. cbn. destruct (step s o) as [s1 r]. cbn. destruct (run step s1 ops). reflexivity.
  Qed.

  Lemma run_pair s ops : run step s ops = (state_after step s ops, outs step s ops).
  Proof. unfold state_after, outs. destruct (run step s ops); reflexivity. Qed.

  Lemma outs_length s ops : length (outs step s ops) = length ops.
  Proof.
    unfold outs. revert s; induction ops as [|o ops IH]; intros s; cbn; [reflexivity|].
    destruct (step s o) as [s1 r]. specialize (IH s1). destruct (run step s1 ops). cbn in *. lia.
  Qed.
End RunFacts.

(* two machines related by a simulation produce related outputs *)
Section Simulation.
  Context {S1 S2 Op Out1 Out2 : Type}.
  Variable step1 : S1 -> Op -> S1 * Out1.
  Variable step2 : S2 -> Op -> S2 * Out2.
  Variable R : S1 -> S2 -> Prop.
  Variable f : Out2 -> Out1.
  Hypothesis Hstep : forall s1 s2 o, R s1 s2 ->
    R (fst (step1 s1 o)) (fst (step2 s2 o)) /\ snd (step1 s1 o) = f (snd (step2 s2 o)).

  Lemma sim_run s1 s2 ops : R s1 s2 ->
    R (state_after step1 s1 ops) (state_after step2 s2 ops) /\
    outs step1 s1 ops = map f (outs step2 s2 ops).
  Proof.
    unfold state_after, outs. revert s1 s2; induction ops as [|o ops IH]; intros s1 s2 HR; cbn.
    - split; [exact HR|reflexivity].
    - destruct (Hstep s1 s2 o HR) as [HR' Ho].
      destruct (step1 s1 o) as [s1' r1]. destruct (step2 s2 o) as [s2' r2]. cbn in *.
      destruct (IH s1' s2' HR') as [HR'' Hos].
      destruct (run step1 s1' ops) as [s1'' o1]. destruct (run step2 s2' ops) as [s2'' o2].
      cbn in *. split; [exact HR''|]. now rewrite Ho, Hos.
  Qed.
End Simulation.

(* ====================================================================== *)
(* §2  the node heap                                                       *)
(* ====================================================================== *)

Lemma length_upd a nd m : length (upd a nd m) = length m.
Proof. revert a; induction m as [|x m IH]; intros [|a]; cbn; auto. Qed.

Lemma nth_upd_same a nd m : (a < length m)%nat -> nth_error (upd a nd m) a = Some nd.
Proof.
  revert a; induction m as [|x m IH]; intros [|a] H; cbn in *; try lia; auto.
  apply IH; lia.
Qed.

Lemma nth_upd_other a b nd m : a <> b -> nth_error (upd a nd m) b = nth_error m b.
Proof.
  revert a b; induction m as [|x m IH]; intros [|a] [|b] H; cbn; auto; try congruence.
Qed.

Lemma upd_same_id a nd m : nth_error m a = Some nd -> upd a nd m = m.
Proof.
  revert a; induction m as [|x m IH]; intros [|a] H; cbn in *; try discriminate; auto.
  - congruence.
  - f_equal; auto.
Qed.

Lemma upd_upd a x y m : upd a x (upd a y m) = upd a x m.
Proof. revert a; induction m as [|z m IH]; intros [|a]; cbn; auto. f_equal; auto. Qed.

Lemma nth_some_lt {A} (l : list A) a x : nth_error l a = Some x -> (a < length l)%nat.
Proof. intros H. apply nth_error_Some. congruence. Qed.

Lemma nth_app_old {A} (l : list A) x a y : nth_error l a = Some y -> nth_error (l ++ [x]) a = Some y.
Proof. intros H. rewrite nth_error_app1; [exact H|]. eapply nth_some_lt; eauto. Qed.

Lemma nth_app_new {A} (l : list A) x : nth_error (l ++ [x]) (length l) = Some x.
Proof. rewrite nth_error_app2 by lia. now rewrite Nat.sub_diag. Qed.

Lemma load_ok m a nd : nth_error m a = Some nd -> load m a = Ok nd.
Proof. unfold load. now intros ->. Qed.

Lemma set_next_ok m a nd p : nth_error m a = Some nd ->
  set_next m a p = Ok (upd a (mkNode (nval nd) p (nprev nd)) m).
Proof. intros H. unfold set_next. now rewrite (load_ok _ _ _ H). Qed.
Lemma set_prev_ok m a nd p : nth_error m a = Some nd ->
  set_prev m a p = Ok (upd a (mkNode (nval nd) (nnext nd) p) m).
Proof. intros H. unfold set_prev. now rewrite (load_ok _ _ _ H). Qed.
Lemma set_val_ok m a nd v : nth_error m a = Some nd ->
  set_val m a v = Ok (upd a (mkNode v (nnext nd) (nprev nd)) m).
Proof. intros H. unfold set_val. now rewrite (load_ok _ _ _ H). Qed.
Lemma copy_node_ok m dst src nd : nth_error m src = Some nd ->
  copy_node m dst src = Ok (upd dst nd m).
Proof. intros H. unfold copy_node. now rewrite (load_ok _ _ _ H). Qed.

(* ---- the representation: a chain of cells (address, value) ---- *)

Definition nxt (rest : list (addr * Z)) : option addr :=
  match rest with
  | [] => None
  | (b, _) :: _ => Some b
  end.

Fixpoint chain (m : mem) (cells : list (addr * Z)) : Prop :=
  match cells with
  | [] => True
  | (a, v) :: rest =>
      (exists p, nth_error m a = Some (mkNode v (nxt rest) p)) /\ chain m rest
  end.

(* the list struct at address 0 heads a nil-terminated, duplicate-free chain
   that spells the values [vs]; prev pointers are not constrained (nothing
   the queue or the stack observes depends on them) *)
Definition dl_repr (m : mem) (vs : list Z) : Prop :=
  exists v rest,
    vs = v :: map snd rest /\
    chain m ((L, v) :: rest) /\
    NoDup (L :: map fst rest).

Lemma chain_lt m cells a : chain m cells -> In a (map fst cells) -> (a < length m)%nat.
Proof.
  induction cells as [|[b v] rest IH]; cbn; [tauto|].
  intros [[p Hp] Hc] [<-|Hin]; [eapply nth_some_lt; eauto|auto].
Qed.

Lemma chain_upd_other m cells a nd :
  ~ In a (map fst cells) -> chain m cells -> chain (upd a nd m) cells.
Proof.
  induction cells as [|[b v] rest IH]; cbn; [tauto|].
  intros Hn [[p Hp] Hc]. split.
  - exists p. rewrite nth_upd_other; [exact Hp|]. intros ->. apply Hn. now left.
  - apply IH; [|exact Hc]. intros Hin. apply Hn. now right.
Qed.

(* rewriting only the prev pointer of any node keeps every chain *)
Lemma chain_set_prev m cells a nd p :
  nth_error m a = Some nd -> chain m cells ->
  chain (upd a (mkNode (nval nd) (nnext nd) p) m) cells.
Proof.
  intros Ha. induction cells as [|[b v] rest IH]; cbn; [tauto|].
  intros [[q Hq] Hc]. split; [|auto].
  destruct (Nat.eq_dec a b) as [->|Hne].
  - rewrite Hq in Ha. injection Ha as <-. cbn [nval nnext].
    exists p. apply nth_upd_same. eapply nth_some_lt; eauto.
  - exists q. now rewrite nth_upd_other.
Qed.

Lemma chain_alloc m cells nd : chain m cells -> chain (m ++ [nd]) cells.
Proof.
  induction cells as [|[b v] rest IH]; cbn; [tauto|].
  intros [[p Hp] Hc]. split; [|auto]. exists p. now apply nth_app_old.
Qed.

Lemma chain_length_le m cells :
  chain m cells -> NoDup (map fst cells) -> (length cells <= length m)%nat.
Proof.
  intros Hc Hnd. rewrite <- (map_length fst cells), <- (seq_length (length m) 0).
  apply NoDup_incl_length; [exact Hnd|].
  intros a Ha. apply in_seq. pose proof (chain_lt _ _ _ Hc Ha). lia.
Qed.

Lemma chain_app_inv m c1 c2 : chain m (c1 ++ c2) -> chain m c2.
Proof.
  induction c1 as [|[a v] c1 IH]; cbn; [tauto|]. intros [_ H]. auto.
Qed.

Lemma last_cons {A} (l : list A) : forall x d, last (x :: l) d = last l x.
Proof.
  induction l as [|y l IH]; intros x d; [reflexivity|].
  change (last (x :: y :: l) d) with (last (y :: l) d). now rewrite !IH.
Qed.

Lemma NoDup_app_snoc {A} (l : list A) x : NoDup l -> ~ In x l -> NoDup (l ++ [x]).
Proof.
  intros Hnd Hx. induction Hnd as [|y l Hy Hnd IH]; cbn.
  - constructor; [tauto|constructor].
  - constructor.
    + intros Hin. apply in_app_or in Hin as [Hin|[->|[]]]; [tauto|]. apply Hx. now left.
    + apply IH. intros Hin. apply Hx. now right.
Qed.

(* ---- Append ---- *)

Lemma walk_last_spec m rest : forall a v fuel,
  chain m ((a, v) :: rest) -> (length rest < fuel)%nat ->
  walk_last fuel m a = Ok (fst (last rest (a, v))).
Proof.
  induction rest as [|[b w] rest IH]; intros a v fuel Hc Hf.
  - destruct fuel as [|f]; [lia|]. cbn in Hc. destruct Hc as [[p Hp] _].
    cbn. rewrite (load_ok _ _ _ Hp). reflexivity.
  - destruct fuel as [|f]; [cbn in Hf; lia|]. destruct Hc as [[p Hp] Hc].
    cbn [walk_last]. rewrite (load_ok _ _ _ Hp). cbn [bind nnext nxt].
    rewrite (IH b w f Hc) by (cbn in Hf; lia).
    now rewrite last_cons.
Qed.

(* hooking a new last cell behind the current last one *)
Lemma chain_snoc m cells : forall a v p b w q,
  chain m (cells ++ [(a, v)]) ->
  NoDup (map fst (cells ++ [(a, v)])) ->
  nth_error m a = Some (mkNode v None p) ->
  ~ In b (map fst (cells ++ [(a, v)])) -> (b < length m)%nat ->
  chain (upd b (mkNode w None q) (upd a (mkNode v (Some b) p) m)) (cells ++ [(a, v); (b, w)]).
Proof.
  induction cells as [|[c u] cells IH]; intros a v p b w q Hc Hnd Ha Hb Hlt.
  - cbn in *. assert (a <> b) by tauto.
    assert (a < length m)%nat by (eapply nth_some_lt; eauto).
    repeat split; auto.
    + exists p. rewrite nth_upd_other by congruence. now apply nth_upd_same.
    + exists q. apply nth_upd_same. now rewrite length_upd.
  - cbn [app map fst chain] in *. destruct Hc as [[pc Hpc] Hc].
    inversion Hnd as [|? ? Hnotin Hnd']; subst.
    split.
    + exists pc.
      assert (c <> b) by (intros ->; apply Hb; now left).
      assert (c <> a).
      { intros ->. apply Hnotin. rewrite map_app. apply in_or_app. right. now left. }
      rewrite !nth_upd_other by congruence.
      rewrite Hpc. f_equal. f_equal. destruct cells as [|[d x] cells]; reflexivity.
    + apply IH; auto. intros Hin. apply Hb. now right.
Qed.

Lemma dl_append_spec m vs x :
  dl_repr m vs -> exists m', dl_append x m = Ok m' /\ dl_repr m' (vs ++ [x]).
Proof.
  intros (v & rest & -> & Hc & Hnd).
  unfold dl_append, alloc.
  set (m1 := m ++ [mkNode x None None]).
  set (nw := length m).
  assert (Hc1 : chain m1 ((L, v) :: rest)) by now apply chain_alloc.
  destruct Hc1 as [[p0 Hp0] Hc1r].
  assert (Hc1 : chain m1 ((L, v) :: rest)) by (split; eauto).
  rewrite (load_ok _ _ _ Hp0). cbn [bind nnext].
  assert (Hcopy : copy_node m1 L L = Ok m1).
  { unfold copy_node. rewrite (load_ok _ _ _ Hp0). cbn. now rewrite (upd_same_id _ _ _ Hp0). }
  assert (Hstep1 : forall o : option addr,
             (match o with None => copy_node m1 L L | Some _ => Ok m1 end) = Ok m1).
  { intros [?|]; auto. }
  rewrite Hstep1. cbn [bind].
  assert (Hlen : (length ((L, v) :: rest) <= length m)%nat).
  { apply chain_length_le; [exact Hc|exact Hnd]. }
  assert (Hlen1 : length m1 = S (length m)) by (unfold m1; rewrite app_length; cbn; lia).
  rewrite (walk_last_spec m1 rest L v (length m1) Hc1) by (cbn in Hlen; lia).
  cbn [bind].
  (* the last cell *)
  destruct (exists_last (l := (L, v) :: rest)) as (cells & [a va] & Hsplit); [discriminate|].
  assert (Hlast : last rest (L, v) = (a, va)).
  { rewrite <- (last_cons rest (L, v) (L, v)), Hsplit. apply last_last. }
  rewrite Hlast. cbn [fst].
  assert (Hca : chain m1 (cells ++ [(a, va)])) by (rewrite <- Hsplit; exact Hc1).
  destruct (chain_app_inv _ _ _ Hca) as [[pa Hpa] _]. cbn [nxt] in Hpa.
  assert (Hnd1 : NoDup (map fst (cells ++ [(a, va)]))) by (rewrite <- Hsplit; exact Hnd).
  assert (Hfresh : ~ In nw (map fst (cells ++ [(a, va)]))).
  { rewrite <- Hsplit. intros Hin. pose proof (chain_lt _ _ _ Hc Hin). unfold nw in *. lia. }
  assert (Hnw : nth_error m1 nw = Some (mkNode x None None)) by apply nth_app_new.
  assert (Hane : a <> nw).
  { intros ->. apply Hfresh. rewrite map_app. apply in_or_app. right. now left. }
  rewrite (load_ok _ _ _ Hpa). cbn [bind nnext].
  rewrite (set_next_ok _ _ _ _ Hnw). cbn [bind nval nprev].
  rewrite (upd_same_id _ _ _ Hnw).
  rewrite (set_next_ok _ _ _ _ Hpa). cbn [bind nval nprev].
  assert (Hnw2 : nth_error (upd a (mkNode va (Some nw) pa) m1) nw = Some (mkNode x None None)).
  { now rewrite nth_upd_other. }
  rewrite (set_prev_ok _ _ _ _ Hnw2). cbn [nval nnext].
  eexists. split; [reflexivity|].
  exists v, (rest ++ [(nw, x)]). split; [|split].
  - now rewrite map_app, app_comm_cons.
  - rewrite app_comm_cons, Hsplit, <- app_assoc. cbn [app].
    apply chain_snoc; auto. unfold nw. lia.
  - change (L :: map fst (rest ++ [(nw, x)])) with (map fst (((L, v) :: rest) ++ [(nw, x)])).
    rewrite Hsplit in *. rewrite map_app. cbn [map fst].
    apply NoDup_app_snoc; auto.
Qed.

(* ---- Shift ---- *)

Lemma dl_shift_spec m v vs :
  dl_repr m (v :: vs) ->
  exists m' node p q,
    dl_shift m = Ok (m', node) /\
    nth_error m' node = Some (mkNode v p q) /\
    match vs with
    | [] => dl_repr m' [0]            (* the list cannot be empty: a zeroed node stays *)
    | _ => dl_repr m' vs
    end.
Proof.
  intros (v0 & rest & Hvs & Hc & Hnd). injection Hvs as <- ->.
  destruct Hc as [[p0 Hp0] Hcr].
  unfold dl_shift, alloc. rewrite (load_ok _ _ _ Hp0). cbn [bind].
  set (nd0 := mkNode v (nxt rest) p0) in *.
  set (m1 := m ++ [nd0]).
  assert (Hp1 : nth_error m1 L = Some nd0) by now apply nth_app_old.
  assert (Hnode : nth_error m1 (length m) = Some nd0) by apply nth_app_new.
  assert (HL : (L < length m)%nat) by (eapply nth_some_lt; eauto).
  assert (HLne : L <> length m) by lia.
  rewrite (load_ok _ _ _ Hp1). cbn [bind].
  destruct rest as [|[b w] rest].
  - (* single node *)
    cbn [nd0 nxt nnext].
    rewrite (set_next_ok _ _ _ _ Hp1). cbn [bind nd0 nval nprev nxt].
    assert (HLm1 : (L < length m1)%nat) by (eapply nth_some_lt; eauto).
    erewrite set_prev_ok by (apply nth_upd_same; exact HLm1). cbn [bind nval nnext]. rewrite upd_upd.
    erewrite set_val_ok by (apply nth_upd_same; exact HLm1). cbn [bind nprev nnext]. rewrite upd_upd.
    erewrite copy_node_ok by (apply nth_upd_same; exact HLm1). cbn [bind]. rewrite upd_upd.
    exists (upd L (mkNode 0 None None) m1), (length m), None, p0. split; [reflexivity|]. split.
    + rewrite nth_upd_other by exact HLne. exact Hnode.
    + cbn [map]. exists 0, []. split; [reflexivity|]. split.
      * cbn [chain nxt]. split; [|exact I]. exists None. now apply nth_upd_same.
      * constructor; [cbn; tauto|constructor].
  - (* at least two nodes: the second one is copied over the list struct, its
       prev is cleared and the prev of ITS successor is pointed at the struct *)
    cbn [nd0 nxt nnext].
    destruct Hcr as [[pb Hpb] Hcr].
    assert (Hpb1 : nth_error m1 b = Some (mkNode w (nxt rest) pb)) by now apply nth_app_old.
    rewrite (copy_node_ok _ _ _ _ Hpb1). cbn [bind].
    assert (HLm1 : (L < length m1)%nat) by (eapply nth_some_lt; eauto).
    erewrite set_prev_ok by (apply nth_upd_same; exact HLm1). cbn [bind nval nnext]. rewrite upd_upd.
    set (m3 := upd L (mkNode w (nxt rest) None) m1).
    assert (HL3 : nth_error m3 L = Some (mkNode w (nxt rest) None)) by (apply nth_upd_same; exact HLm1).
    rewrite (load_ok _ _ _ HL3). cbn [bind nnext].
    inversion Hnd as [|? ? HnL Hnd']; subst. inversion Hnd' as [|? ? Hnb Hnd'']; subst.
    assert (Hc3 : chain m3 ((L, w) :: rest)).
    { split.
      - exists None. exact HL3.
      - apply chain_upd_other; [|now apply chain_alloc].
        intros Hin. apply HnL. now right. }
    assert (Hnd3 : NoDup (L :: map fst rest)).
    { constructor; [|exact Hnd'']. intros Hin. apply HnL. now right. }
    assert (Hnode3 : nth_error m3 (length m) = Some nd0).
    { unfold m3. rewrite nth_upd_other by exact HLne. exact Hnode. }
    destruct rest as [|[c u] rest'].
    + (* the new head has no successor *)
      cbn [nxt]. cbn [bind].
      exists m3, (length m), (Some b), p0. split; [reflexivity|]. split; [exact Hnode3|].
      cbn [map snd]. exists w, []. split; [reflexivity|]. split; [exact Hc3|exact Hnd3].
    + cbn [nxt].
      destruct Hc3 as [HcL [[pc Hpc] Hcr3]].
      rewrite (set_prev_ok _ _ _ _ Hpc). cbn [bind nval nnext].
      assert (Hcne : c <> length m).
      { intros ->. destruct Hcr as [[pc0 Hpc0] _]. apply nth_some_lt in Hpc0. lia. }
      eexists _, (length m), (Some b), p0. split; [reflexivity|]. split.
      * rewrite nth_upd_other by exact Hcne. exact Hnode3.
      * cbn [map snd]. exists w, ((c, u) :: rest'). split; [reflexivity|]. split; [|exact Hnd3].
        apply (chain_set_prev m3 ((L, w) :: (c, u) :: rest') c _ (Some L) Hpc).
        split; [exact HcL|]. split; [eauto|exact Hcr3].
Qed.

(* ---- First ---- *)

Lemma dl_first_spec m v vs : dl_repr m (v :: vs) -> dl_first m = Ok v.
Proof.
  intros (v0 & rest & Hvs & Hc & _). injection Hvs as <- ->.
  destruct Hc as [[p0 Hp0] _]. unfold dl_first. now rewrite (load_ok _ _ _ Hp0).
Qed.

(* ---- Val ---- *)

Lemma dl_val_spec m (a : addr) v p q : nth_error m a = Some (mkNode v p q) -> dl_val m (Some a) = Ok v.
Proof. intros H. unfold dl_val, deref. now rewrite (load_ok _ _ _ H). Qed.

(* ---- Find ---- *)

Definition has (x : Z) (vs : list Z) : bool := existsb (Z.eqb x) vs.

Lemma find_loop_spec m x cells : forall fuel,
  chain m cells -> (length cells < fuel)%nat ->
  exists r, find_loop fuel m (nxt cells) x = Ok r /\
            (if r then true else false) = has x (map snd cells).
Proof.
  induction cells as [|[a v] rest IH]; intros fuel Hc Hf.
  - destruct fuel as [|f]; [lia|]. cbn. exists None. auto.
  - destruct fuel as [|f]; [lia|]. destruct Hc as [[p Hp] Hc].
    cbn [nxt find_loop]. rewrite (load_ok _ _ _ Hp). cbn [bind nval nnext map snd has existsb].
    rewrite (Z.eqb_sym x v).
    destruct (v =? x) eqn:E.
    + exists (Some a). auto.
    + cbn [orb]. apply IH; [exact Hc|]. cbn in Hf. lia.
Qed.

Lemma dl_find_spec m vs x :
  dl_repr m vs -> exists r, dl_find x m = Ok (m, r, has x vs).
Proof.
  intros (v & rest & -> & Hc & Hnd).
  pose proof (chain_length_le _ _ Hc Hnd) as Hlen.
  destruct (find_loop_spec m x ((L, v) :: rest) (S (length m)) Hc) as (r & Hr & Hb); [lia|].
  destruct Hc as [[p0 Hp0] _].
  unfold dl_find. cbn [nxt] in Hr. rewrite Hr. cbn [bind].
  rewrite (copy_node_ok _ _ _ _ Hp0), (upd_same_id _ _ _ Hp0). cbn [bind].
  change (v :: map snd rest) with (map snd ((L, v) :: rest)). rewrite <- Hb.
  destruct r as [n|]; eexists; reflexivity.
Qed.

(* ---- Clear ---- *)

Lemma dl_clear_spec m v vs : dl_repr m (v :: vs) -> exists m', dl_clear m = Ok m' /\ dl_repr m' [v].
Proof.
  intros (v0 & rest & Hvs & Hc & _). injection Hvs as <- ->.
  destruct Hc as [[p0 Hp0] _].
  assert (HL : (L < length m)%nat) by (eapply nth_some_lt; eauto).
  unfold dl_clear. rewrite (set_next_ok _ _ _ _ Hp0). cbn [bind nval nprev].
  erewrite set_prev_ok by (apply nth_upd_same; exact HL). cbn [nval nnext]. rewrite upd_upd.
  eexists. split; [reflexivity|].
  exists v, []. split; [reflexivity|]. split.
  - cbn [chain nxt]. split; [|exact I]. exists None. now apply nth_upd_same.
  - constructor; [cbn; tauto|constructor].
Qed.

Lemma dl_init_repr v : dl_repr (dl_init v) [v].
Proof.
  exists v, []. split; [reflexivity|]. split.
  - cbn [chain nxt]. split; [|exact I]. exists None. reflexivity.
  - constructor; [cbn; tauto|constructor].
Qed.

Lemma dl_repr_alloc m vs : dl_repr m vs -> (L < length m)%nat.
Proof. intros (v & rest & _ & [[p Hp] _] & _). eapply nth_some_lt; eauto. Qed.

Lemma dl_clear_total m : (L < length m)%nat ->
  exists m', dl_clear m = Ok m' /\ length m' = length m.
Proof.
  intros HL. destruct (nth_error m L) as [nd|] eqn:E; [|apply nth_error_None in E; lia].
  unfold dl_clear. rewrite (set_next_ok _ _ _ _ E). cbn [bind].
  erewrite set_prev_ok by (apply nth_upd_same; exact HL).
  eexists. split; [reflexivity|]. now rewrite !length_upd.
Qed.

(* ====================================================================== *)
(* §3  the slice-backed queue IS the functional FIFO                       *)
(* ====================================================================== *)

Lemma sq_search_loop_spec x q : forall pre,
  sq_search_loop (length q) (length pre) (pre ++ q) x = Ok (has x q).
Proof.
  induction q as [|y q IH]; intros pre; cbn [length sq_search_loop has existsb]; [reflexivity|].
  rewrite nth_error_app2 by lia. rewrite Nat.sub_diag. cbn [nth_error].
  rewrite (Z.eqb_sym x y). destruct (y =? x); [reflexivity|]. cbn [orb].
  specialize (IH (pre ++ [y])). rewrite app_length, <- app_assoc in IH. cbn in IH.
  rewrite Nat.add_1_r in IH. exact IH.
Qed.

Lemma sq_search_spec x q : sq_search x q = Ok (has x q).
Proof. exact (sq_search_loop_spec x q []). Qed.

Lemma sq_step_fifo q o : sq_step q o = fifo_step q o.
Proof.
  destruct o as [x| | |x| |]; cbn [sq_step fifo_step]; try reflexivity.
  - unfold sq_dequeue, sq_size. destruct q as [|y q]; [reflexivity|].
    replace (Z.of_nat (length (y :: q)) =? 0) with false by (symmetry; apply Z.eqb_neq; cbn [length]; lia).
    reflexivity.
  - unfold sq_peek, sq_size. destruct q as [|y q]; [reflexivity|].
    replace (Z.of_nat (length (y :: q)) =? 0) with false by (symmetry; apply Z.eqb_neq; cbn [length]; lia).
    reflexivity.
  - now rewrite sq_search_spec.
Qed.

Lemma sq_run_fifo q ops : run sq_step q ops = run fifo_step q ops.
Proof.
  revert q; induction ops as [|o ops IH]; intros q; cbn; [reflexivity|].
  rewrite sq_step_fifo. destruct (fifo_step q o) as [q' r]. now rewrite IH.
Qed.

(* ====================================================================== *)
(* §4  the (repaired) linked queue refines the functional FIFO             *)
(* ====================================================================== *)

(* representation invariant: the counter is the length; a non-empty queue's
   heap spells its contents from address 0; when n = 0 whatever node sits at
   address 0 (zeroed by Shift, or stale after Clear) is ignored *)
Definition lq_abs (q : lq) (l : list Z) : Prop :=
  lq_n q = Z.of_nat (length l) /\
  (l <> [] -> dl_repr (lq_mem q) l) /\
  (L < length (lq_mem q))%nat.

Lemma lq_new_abs t : lq_abs (lq_new t) [t].
Proof.
  split; [reflexivity|]. split; [intros _; apply dl_init_repr|]. cbn; unfold L; lia.
Qed.

Lemma lq_step_fifo q l o : lq_abs q l ->
  lq_abs (fst (lq_step q o)) (fst (fifo_step l o)) /\
  snd (lq_step q o) = forget_err (snd (fifo_step l o)).
Proof.
  intros (Hn & Hrepr & HL).
  assert (Hz : (lq_n q =? 0) = match l with [] => true | _ => false end).
  { rewrite Hn. destruct l; [reflexivity|]. apply Z.eqb_neq. cbn [length]. lia. }
  destruct o as [x| | |x| |]; cbn [lq_step fifo_step].
  - (* Enqueue *)
    unfold lq_enqueue. rewrite Hz. destruct l as [|v l].
    + cbn [fst snd app forget_err]. split; [|reflexivity].
      split; [reflexivity|]. split; [intros _; apply dl_init_repr|]. cbn; unfold L; lia.
    + destruct (dl_append_spec _ _ x (Hrepr ltac:(discriminate))) as (m' & Hm' & Hr').
      rewrite Hm'. cbn [bind fst snd forget_err]. split; [|reflexivity].
      split; [|split].
      * cbn [lq_n]. rewrite Hn, app_length. cbn [length]. lia.
      * intros _. exact Hr'.
      * cbn [lq_mem]. eapply dl_repr_alloc; eauto.
  - (* Dequeue *)
    unfold lq_dequeue. rewrite Hz. destruct l as [|v l].
    + cbn [fst snd forget_err]. split; [|reflexivity]. split; [exact Hn|]. split; [exact Hrepr|exact HL].
    + destruct (dl_shift_spec _ _ _ (Hrepr ltac:(discriminate))) as (m' & node & p & p' & Hs & Hnode & Hr').
      rewrite Hs. cbn [bind]. rewrite (dl_val_spec _ _ _ _ _ Hnode). cbn [bind fst snd forget_err].
      split; [|reflexivity]. split; [|split].
      * cbn [lq_n]. rewrite Hn. cbn [length]. lia.
      * intros Hne. destruct l; [congruence|exact Hr'].
      * cbn [lq_mem]. destruct l; eapply dl_repr_alloc; eauto.
  - (* Peek *)
    unfold lq_peek. rewrite Hz. destruct l as [|v l].
    + cbn [fst snd hd forget_err]. split; [|reflexivity]. split; [exact Hn|]. split; [exact Hrepr|exact HL].
    + rewrite (dl_first_spec _ _ _ (Hrepr ltac:(discriminate))). cbn [fst snd hd forget_err].
      split; [|reflexivity]. split; [exact Hn|]. split; [exact Hrepr|exact HL].
  - (* Search *)
    unfold lq_search. rewrite Hz. destruct l as [|v l].
    + cbn [fst snd existsb forget_err]. split; [|reflexivity]. split; [exact Hn|]. split; [exact Hrepr|exact HL].
    + destruct (dl_find_spec _ _ x (Hrepr ltac:(discriminate))) as (r & Hf).
      rewrite Hf. cbn [bind fst snd forget_err]. fold (has x (v :: l)).
      destruct q as [m n]. cbn [lq_mem lq_n] in *.
      split; [|destruct (has x (v :: l)); reflexivity].
      split; [exact Hn|]. split; [exact Hrepr|exact HL].
  - (* Size *)
    cbn [fst snd forget_err]. unfold lq_size.
    split; [|now rewrite Hn]. split; [exact Hn|]. split; [exact Hrepr|exact HL].
  - (* Clear *)
    unfold lq_clear. destruct (dl_clear_total _ HL) as (m' & Hm' & Hlen).
    rewrite Hm'. cbn [bind fst snd forget_err]. split; [|reflexivity].
    split; [reflexivity|]. split; [congruence|]. cbn [lq_mem]. lia.
Qed.

Lemma lq_run_fifo q l ops : lq_abs q l ->
  lq_abs (state_after lq_step q ops) (state_after fifo_step l ops) /\
  outs lq_step q ops = map forget_err (outs fifo_step l ops).
Proof. apply sim_run. intros s1 s2 o. apply lq_step_fifo. Qed.

(* ====================================================================== *)
(* §5  the clauses of C05                                                  *)
(* ====================================================================== *)

(* vocabulary of the statements *)
Definition enqueued (ops : list qop) : list Z :=
  flat_map (fun o => match o with Enqueue x => [x] | _ => [] end) ops.
(* the items handed out by successful Dequeues *)
Definition served (rs : list qout) : list Z :=
  flat_map (fun r => match r with ODeq false v => [v] | _ => [] end) rs.
Definition no_clear (ops : list qop) : Prop :=
  forallb (fun o => match o with Clear => false | _ => true end) ops = true.

(* ---- on the FIFO machine ---- *)

Lemma served_cons r rs :
  served (r :: rs) = (match r with ODeq false v => [v] | _ => [] end) ++ served rs.
Proof. reflexivity. Qed.
Lemma enqueued_cons o ops :
  enqueued (o :: ops) = (match o with Enqueue x => [x] | _ => [] end) ++ enqueued ops.
Proof. reflexivity. Qed.

Lemma fifo_conservation ops : forall l, no_clear ops ->
  l ++ enqueued ops = served (outs fifo_step l ops) ++ state_after fifo_step l ops.
Proof.
  unfold no_clear.
  induction ops as [|o ops IH]; intros l Hnc.
  - cbn. now rewrite app_nil_r.
  - cbn [forallb] in Hnc. apply andb_prop in Hnc as [Ho Hnc].
    rewrite outs_cons, state_after_cons, served_cons, enqueued_cons.
    destruct o as [x| | |x| |]; try discriminate; cbn [fifo_step fst snd app].
    + rewrite <- IH by exact Hnc. now rewrite <- app_assoc.
    + destruct l as [|y l]; cbn [fst snd app]; rewrite <- IH by exact Hnc; reflexivity.
    + now apply IH.
    + now apply IH.
    + now apply IH.
Qed.

Lemma fifo_clear_restarts l pre ops :
  outs fifo_step l (pre ++ Clear :: ops) = outs fifo_step l pre ++ ONone :: outs fifo_step [] ops /\
  state_after fifo_step l (pre ++ Clear :: ops) = state_after fifo_step [] ops.
Proof.
  rewrite outs_app, state_after_app. split.
  - f_equal. unfold outs. cbn. destruct (run fifo_step [] ops). reflexivity.
  - unfold state_after at 1. cbn. unfold state_after. destruct (run fifo_step [] ops). reflexivity.
Qed.

Lemma fifo_peek_is_next l : exists e v,
  outs fifo_step l [Peek; Dequeue] = [OVal v; ODeq e v].
Proof. destruct l as [|x l]; [exists true, 0|exists false, x]; reflexivity. Qed.

Lemma fifo_size_counts l ops : no_clear ops ->
  outs fifo_step (state_after fifo_step l ops) [Size] =
  [OSize (Z.of_nat (length l) + Z.of_nat (length (enqueued ops))
          - Z.of_nat (length (served (outs fifo_step l ops))))].
Proof.
  intros Hnc. pose proof (fifo_conservation ops l Hnc) as H.
  apply (f_equal (@length Z)) in H. rewrite !app_length in H.
  unfold outs at 1. cbn. f_equal. f_equal. lia.
Qed.

Lemma fifo_search_exact l x : exists b,
  outs fifo_step l [Search x] = [OBool b] /\ (b = true <-> In x l).
Proof.
  exists (existsb (Z.eqb x) l). split; [reflexivity|].
  rewrite existsb_exists. split.
  - intros (y & Hy & E). apply Z.eqb_eq in E. now subst.
  - intros H. exists x. split; [exact H|apply Z.eqb_refl].
Qed.

(* well-formed outputs: sizes are non-negative, the machine never fails *)
Definition out_wf (r : qout) : Prop :=
  match r with
  | OSize n => 0 <= n
  | OFail _ => False
  | _ => True
  end.

Lemma fifo_out_wf ops : forall l r, In r (outs fifo_step l ops) -> out_wf r.
Proof.
  unfold outs. induction ops as [|o ops IH]; intros l r Hin; cbn [run] in Hin; [destruct Hin|].
  destruct (fifo_step l o) as [l' r0] eqn:E. specialize (IH l' r).
  destruct (run fifo_step l' ops) as [s rs]. cbn [snd] in *. destruct Hin as [<-|Hin]; [|auto].
  destruct o; cbn in E; try (injection E as <- <-; cbn; auto; lia).
  destruct l; injection E as <- <-; exact I.
Qed.

Lemma forget_err_wf r : out_wf r -> out_wf (forget_err r).
Proof. destruct r; cbn; auto. Qed.

(* draining *)
Lemma fifo_drain l :
  outs fifo_step l (repeat Dequeue (length l)) = map (ODeq false) l /\
  state_after fifo_step l (repeat Dequeue (length l)) = [].
Proof.
  unfold outs, state_after. induction l as [|x l [IH1 IH2]]; cbn; [auto|].
  destruct (run fifo_step l (repeat Dequeue (length l))) as [s rs]. cbn in *. subst. auto.
Qed.

(* ---- transfer to the linked model ---- *)

(* the items handed out by Dequeues executed while Size() was not 0: the
   linked queue has no error result, emptiness is only visible through Size *)
Fixpoint lq_served (q : lq) (ops : list qop) : list Z :=
  match ops with
  | [] => []
  | o :: ops' =>
      let '(q', r) := lq_step q o in
      match o, r with
      | Dequeue, ODeq _ v => if lq_size q =? 0 then lq_served q' ops' else v :: lq_served q' ops'
      | _, _ => lq_served q' ops'
      end
  end.

Lemma lq_served_fifo ops : forall q l, lq_abs q l ->
  lq_served q ops = served (outs fifo_step l ops).
Proof.
  unfold outs. induction ops as [|o ops IH]; intros q l Habs; cbn [lq_served run]; [reflexivity|].
  destruct (lq_step_fifo q l o Habs) as [Habs' Hout].
  destruct (lq_step q o) as [q' r]. destruct (fifo_step l o) as [l' r'] eqn:E. cbn [fst snd] in *.
  specialize (IH q' l' Habs'). destruct (run fifo_step l' ops) as [s rs]. cbn [snd served flat_map] in *.
  fold (served rs).
  destruct o; cbn in E; try (injection E as <- <-; cbn [forget_err] in Hout; subst r; cbn [app]; exact IH).
  unfold lq_size. destruct Habs as [Hn _].
  destruct l as [|y l]; injection E as <- <-; cbn [forget_err] in Hout; subst r.
  - rewrite Hn. cbn [length Z.of_nat Z.eqb app]. exact IH.
  - replace (lq_n q =? 0) with false by (symmetry; apply Z.eqb_neq; rewrite Hn; cbn [length]; lia).
    cbn [app]. now rewrite IH.
Qed.

Lemma lq_out_wf t ops r : In r (outs lq_step (lq_new t) ops) -> out_wf r.
Proof.
  destruct (lq_run_fifo (lq_new t) [t] ops (lq_new_abs t)) as [_ ->].
  intros Hin. apply in_map_iff in Hin as (r' & <- & Hin).
  apply forget_err_wf. eapply fifo_out_wf; eauto.
Qed.

(* ---- the statements of C05_Props ---- *)

(* slice *)
Lemma sq_refines ops : run sq_step sq_new ops = run fifo_step [] ops.
Proof. apply sq_run_fifo. Qed.

Lemma sq_outs_fifo q ops : outs sq_step q ops = outs fifo_step q ops.
Proof. unfold outs. now rewrite sq_run_fifo. Qed.
Lemma sq_state_fifo q ops : state_after sq_step q ops = state_after fifo_step q ops.
Proof. unfold state_after. now rewrite sq_run_fifo. Qed.

Lemma sq_out_wf ops r : In r (outs sq_step sq_new ops) -> out_wf r.
Proof. rewrite sq_outs_fifo. apply fifo_out_wf. Qed.

Lemma sq_dequeue_order ops : no_clear ops ->
  enqueued ops = served (outs sq_step sq_new ops) ++ state_after sq_step sq_new ops.
Proof. intros H. rewrite sq_outs_fifo, sq_state_fifo. exact (fifo_conservation ops [] H). Qed.

Lemma sq_clear_restarts pre ops :
  outs sq_step sq_new (pre ++ Clear :: ops) = outs sq_step sq_new pre ++ ONone :: outs sq_step sq_new ops /\
  state_after sq_step sq_new (pre ++ Clear :: ops) = state_after sq_step sq_new ops.
Proof. rewrite !sq_outs_fifo, !sq_state_fifo. apply fifo_clear_restarts. Qed.

Lemma sq_peek_is_next ops : exists e v,
  outs sq_step sq_new (ops ++ [Peek; Dequeue]) = outs sq_step sq_new ops ++ [OVal v; ODeq e v].
Proof.
  rewrite !sq_outs_fifo, outs_app.
  destruct (fifo_peek_is_next (state_after fifo_step sq_new ops)) as (e & v & H).
  exists e, v. now rewrite H.
Qed.

Lemma sq_size_counts ops : no_clear ops ->
  outs sq_step sq_new (ops ++ [Size]) =
  outs sq_step sq_new ops ++
  [OSize (Z.of_nat (length (enqueued ops)) - Z.of_nat (length (served (outs sq_step sq_new ops))))].
Proof.
  intros H. unfold sq_new. rewrite !sq_outs_fifo, outs_app. f_equal.
  rewrite (fifo_size_counts [] ops H). reflexivity.
Qed.

Lemma sq_search_exact ops x : exists b,
  outs sq_step sq_new (ops ++ [Search x]) = outs sq_step sq_new ops ++ [OBool b] /\
  (b = true <-> In x (state_after sq_step sq_new ops)).
Proof.
  rewrite !sq_outs_fifo, sq_state_fifo, outs_app.
  destruct (fifo_search_exact (state_after fifo_step sq_new ops) x) as (b & H & Hb).
  exists b. now rewrite H.
Qed.

Lemma sq_empty_dequeue ops :
  outs sq_step sq_new (ops ++ [Size]) = outs sq_step sq_new ops ++ [OSize 0] ->
  sq_step (state_after sq_step sq_new ops) Dequeue = (state_after sq_step sq_new ops, ODeq true 0).
Proof.
  rewrite outs_app. intros H. apply app_inv_head in H.
  destruct (state_after sq_step sq_new ops) as [|y q]; [reflexivity|].
  unfold outs in H. cbn in H. injection H as H. lia.
Qed.

(* linked *)
Lemma lq_refines t ops :
  outs lq_step (lq_new t) ops = map forget_err (outs fifo_step [t] ops) /\
  lq_abs (state_after lq_step (lq_new t) ops) (state_after fifo_step [t] ops).
Proof. destruct (lq_run_fifo (lq_new t) [t] ops (lq_new_abs t)); auto. Qed.

Lemma lq_dequeue_order_gen q l ops : lq_abs q l -> no_clear ops ->
  exists held, lq_abs (state_after lq_step q ops) held /\
               l ++ enqueued ops = lq_served q ops ++ held.
Proof.
  intros Habs Hnc. exists (state_after fifo_step l ops).
  destruct (lq_run_fifo q l ops Habs) as [Habs' _]. split; [exact Habs'|].
  rewrite (lq_served_fifo ops q l Habs). now apply fifo_conservation.
Qed.

Lemma lq_drain q held : lq_abs q held ->
  outs lq_step q (repeat Dequeue (length held)) = map (ODeq false) held /\
  lq_size (state_after lq_step q (repeat Dequeue (length held))) = 0.
Proof.
  intros Habs.
  destruct (lq_run_fifo q held (repeat Dequeue (length held)) Habs) as [Habs' Ho].
  destruct (fifo_drain held) as [H1 H2]. rewrite Ho, H1, H2 in *. split.
  - rewrite map_map. reflexivity.
  - destruct Habs' as [Hn _]. exact Hn.
Qed.

Lemma lq_after_clear q l : lq_abs q l -> lq_abs (fst (lq_step q Clear)) [].
Proof. intros H. exact (proj1 (lq_step_fifo q l Clear H)). Qed.

Lemma lq_peek_is_next t ops : exists v,
  outs lq_step (lq_new t) (ops ++ [Peek; Dequeue]) = outs lq_step (lq_new t) ops ++ [OVal v; ODeq false v].
Proof.
  destruct (lq_refines t (ops ++ [Peek; Dequeue])) as [H1 _]. destruct (lq_refines t ops) as [H2 _].
  rewrite H1, H2, outs_app, map_app.
  destruct (fifo_peek_is_next (state_after fifo_step [t] ops)) as (e & v & H).
  exists v. now rewrite H.
Qed.

Lemma lq_size_counts q l ops : lq_abs q l -> no_clear ops ->
  outs lq_step (state_after lq_step q ops) [Size] =
  [OSize (Z.of_nat (length l) + Z.of_nat (length (enqueued ops)) - Z.of_nat (length (lq_served q ops)))].
Proof.
  intros Habs Hnc. destruct (lq_run_fifo q l ops Habs) as [Habs' _].
  destruct (lq_run_fifo _ _ [Size] Habs') as [_ Ho]. rewrite Ho.
  rewrite (fifo_size_counts l ops Hnc), (lq_served_fifo ops q l Habs). reflexivity.
Qed.

Lemma lq_search_exact q l x : lq_abs q l -> exists b,
  outs lq_step q [Search x] = [OBool b] /\ (b = true <-> In x l).
Proof.
  intros Habs. destruct (lq_run_fifo q l [Search x] Habs) as [_ Ho].
  destruct (fifo_search_exact l x) as (b & H & Hb). exists b. rewrite Ho, H. auto.
Qed.

Lemma lq_empty_dequeue q : lq_size q = 0 -> lq_step q Dequeue = (q, ODeq false 0).
Proof. unfold lq_size. intros H. cbn [lq_step]. unfold lq_dequeue. now rewrite H. Qed.

Lemma lq_size_zero_iff q l : lq_abs q l -> (lq_size q = 0 <-> l = []).
Proof.
  intros [Hn _]. unfold lq_size. rewrite Hn. destruct l; cbn [length]; split; intros; try congruence; lia.
Qed.

(* ---- histories with Clear; history-level forms of the clauses ---- *)

Lemma fifo_state_clear l pre : state_after fifo_step l (pre ++ [Clear]) = [].
Proof. rewrite state_after_app. reflexivity. Qed.

Lemma lq_abs_after_clear t pre :
  lq_abs (state_after lq_step (lq_new t) (pre ++ [Clear])) [].
Proof.
  destruct (lq_refines t (pre ++ [Clear])) as [_ H]. now rewrite fifo_state_clear in H.
Qed.

(* after a Clear the linked queue answers like the FIFO started EMPTY: nothing
   held before the Clear can come back *)
Lemma lq_clear_restarts t pre ops :
  outs lq_step (lq_new t) (pre ++ Clear :: ops) =
    outs lq_step (lq_new t) pre ++ ONone :: map forget_err (outs fifo_step [] ops) /\
  lq_abs (state_after lq_step (lq_new t) (pre ++ Clear :: ops)) (state_after fifo_step [] ops).
Proof.
  destruct (lq_refines t (pre ++ Clear :: ops)) as [H1 H2].
  destruct (lq_refines t pre) as [H3 _].
  destruct (fifo_clear_restarts [t] pre ops) as [F1 F2].
  rewrite H1, H3, F1, map_app. rewrite F2 in H2. split; [reflexivity|exact H2].
Qed.

(* Size = enqueues - successful dequeues SINCE THE LAST CLEAR, in one statement *)
Lemma sq_size_since_clear pre suf : no_clear suf ->
  outs sq_step sq_new (pre ++ Clear :: suf ++ [Size]) =
  outs sq_step sq_new (pre ++ Clear :: suf) ++
  [OSize (Z.of_nat (length (enqueued suf)) - Z.of_nat (length (served (outs sq_step sq_new suf))))].
Proof.
  intros Hnc.
  replace (pre ++ Clear :: suf ++ [Size]) with ((pre ++ Clear :: suf) ++ [Size])
    by (rewrite <- app_assoc; reflexivity).
  rewrite outs_app. f_equal.
  rewrite (proj2 (sq_clear_restarts pre suf)).
  pose proof (sq_size_counts suf Hnc) as H. rewrite outs_app in H.
  now apply app_inv_head in H.
Qed.

Lemma lq_size_since_clear t pre suf : no_clear suf ->
  outs lq_step (lq_new t) (pre ++ Clear :: suf ++ [Size]) =
  outs lq_step (lq_new t) (pre ++ Clear :: suf) ++
  [OSize (Z.of_nat (length (enqueued suf)) -
          Z.of_nat (length (lq_served (state_after lq_step (lq_new t) (pre ++ [Clear])) suf)))].
Proof.
  intros Hnc.
  replace (pre ++ Clear :: suf ++ [Size]) with ((pre ++ Clear :: suf) ++ [Size])
    by (rewrite <- app_assoc; reflexivity).
  rewrite outs_app. f_equal.
  replace (pre ++ Clear :: suf) with ((pre ++ [Clear]) ++ suf) by (rewrite <- app_assoc; reflexivity).
  rewrite state_after_app.
  rewrite (lq_size_counts _ [] suf (lq_abs_after_clear t pre) Hnc). reflexivity.
Qed.

(* the counter itself (not only what Size printed) is never negative *)
Lemma lq_counter_nonneg t ops : 0 <= lq_size (state_after lq_step (lq_new t) ops).
Proof.
  destruct (lq_refines t ops) as [_ [Hn _]]. unfold lq_size. rewrite Hn. lia.
Qed.

(* Search after any history: exactly membership in what the FIFO holds, and
   the contents are untouched (DList.Find rewrites the list head in place) *)
Lemma lq_search_exact_hist t ops x : exists b,
  outs lq_step (lq_new t) (ops ++ [Search x]) = outs lq_step (lq_new t) ops ++ [OBool b] /\
  (b = true <-> In x (state_after fifo_step [t] ops)) /\
  lq_abs (state_after lq_step (lq_new t) (ops ++ [Search x])) (state_after fifo_step [t] ops).
Proof.
  destruct (lq_refines t ops) as [_ Habs].
  destruct (lq_search_exact _ _ x Habs) as (b & Ho & Hb).
  exists b. rewrite outs_app, Ho. split; [reflexivity|]. split; [exact Hb|].
  destruct (lq_refines t (ops ++ [Search x])) as [_ H].
  rewrite (state_after_app fifo_step) in H. exact H.
Qed.

(* ====================================================================== *)
(* §6  the remaining DList methods (used by stack/lstack.go, C06)          *)
(* ====================================================================== *)

(* ---- Last: walks by copying node after node over the list struct, then
        restores it: the heap is unchanged ---- *)

Lemma last_loop_spec m rest : forall a v nd fuel,
  chain m ((a, v) :: rest) ->
  nth_error m a = Some nd ->
  ~ In L (map fst rest) ->
  (L < length m)%nat ->
  (length rest < fuel)%nat ->
  exists ndl, last_loop fuel (upd L nd m) = Ok (upd L ndl m) /\
              nval ndl = snd (last rest (a, v)).
Proof.
  induction rest as [|[b w] rest IH]; intros a v nd fuel Hc Ha HnL HL Hf.
  - destruct fuel as [|f]; [lia|]. destruct Hc as [[p Hp] _]. rewrite Hp in Ha. injection Ha as <-.
    cbn [last_loop]. rewrite (load_ok _ _ _ (nth_upd_same _ _ _ HL)). cbn [bind nnext nxt].
    eexists. split; [reflexivity|reflexivity].
  - destruct fuel as [|f]; [cbn in Hf; lia|]. destruct Hc as [[p Hp] Hc]. rewrite Hp in Ha. injection Ha as <-.
    cbn [last_loop]. rewrite (load_ok _ _ _ (nth_upd_same _ _ _ HL)). cbn [bind nnext nxt].
    assert (HbL : L <> b) by (intros <-; apply HnL; now left).
    destruct Hc as [[pb Hpb] Hcr].
    erewrite copy_node_ok by (rewrite nth_upd_other by exact HbL; exact Hpb).
    cbn [bind]. rewrite upd_upd.
    destruct (IH b w _ f (conj (ex_intro _ pb Hpb) Hcr) Hpb) as (ndl & Hl & Hv); auto.
    + intros Hin. apply HnL. now right.
    + cbn in Hf. lia.
    + exists ndl. split; [exact Hl|]. now rewrite last_cons.
Qed.

Lemma dl_last_spec m vs : dl_repr m vs -> dl_last m = Ok (m, last vs 0).
Proof.
  intros (v & rest & -> & Hc & Hnd).
  pose proof (chain_length_le _ _ Hc Hnd) as Hlen.
  destruct Hc as [[p0 Hp0] Hcr].
  assert (HL : (L < length m)%nat) by (eapply nth_some_lt; eauto).
  inversion Hnd as [|? ? HnL _]; subst.
  destruct (last_loop_spec m rest L v _ (length m) (conj (ex_intro _ p0 Hp0) Hcr) Hp0 HnL HL)
    as (ndl & Hl & Hv); [cbn in Hlen; lia|].
  unfold dl_last. rewrite (load_ok _ _ _ Hp0). cbn [bind].
  rewrite (upd_same_id _ _ _ Hp0) in Hl. rewrite Hl. cbn [bind].
  rewrite (load_ok _ _ _ (nth_upd_same _ _ _ HL)). cbn [bind].
  rewrite upd_upd, (upd_same_id _ _ _ Hp0), Hv. f_equal. f_equal.
  rewrite last_cons.
  clear. generalize L. intros a. revert a v.
  induction rest as [|[b w] rest IH]; intros a v; [reflexivity|].
  cbn [map snd]. rewrite !last_cons. apply IH.
Qed.

(* ---- Pop: cuts the last node off but hands back a copy of the node BEFORE
        it; on a single node it cuts nothing and hands back a zero node ---- *)

Lemma NoDup_app_left {A} (l1 l2 : list A) : NoDup (l1 ++ l2) -> NoDup l1.
Proof.
  induction l1 as [|x l1 IH]; cbn; intros H; [constructor|].
  inversion H as [|? ? Hx Hnd]; subst. constructor; [|auto].
  intros Hin. apply Hx. apply in_or_app. now left.
Qed.

Lemma nxt_app seg c t : nxt (seg ++ c :: t) = Some (fst (hd c seg)).
Proof. destruct seg as [|[a v] seg]; destruct c; reflexivity. Qed.

(* the loop runs from the head of [seg ++ [(ya,y)]] to ya, the node before the
   last one, keeping in [node] a copy of the node it stands on *)
Lemma pop_loop_spec (ya : addr) y (za : addr) z (node : addr) ndy : forall seg m fuel,
  chain m (seg ++ [(ya, y); (za, z)]) ->
  ~ In node (map fst (seg ++ [(ya, y); (za, z)])) ->
  (node < length m)%nat ->
  nth_error m ya = Some ndy ->
  nth_error m node = nth_error m (fst (hd (ya, y) seg)) ->
  (length seg < fuel)%nat ->
  pop_loop fuel m (fst (hd (ya, y) seg)) node = Ok (upd node ndy m, ya).
Proof.
  induction seg as [|[a v] seg IH]; intros m fuel Hc Hnode Hlt Hya Hcopy Hf.
  - destruct fuel as [|f]; [lia|]. cbn [app hd fst] in *.
    destruct Hc as [[py Hpy] [[pz Hpz] _]].
    cbn [pop_loop]. rewrite (load_ok _ _ _ Hpy). cbn [bind nnext nxt deref].
    rewrite (load_ok _ _ _ Hpz). cbn [bind nnext nxt].
    rewrite upd_same_id; [reflexivity|]. now rewrite Hcopy.
  - destruct fuel as [|f]; [cbn in Hf; lia|]. cbn [app hd fst] in *.
    destruct Hc as [[pa Hpa] Hc]. rewrite nxt_app in Hpa.
    set (a2 := fst (hd (ya, y) seg)) in *.
    assert (Ha2 : exists v2 n2 p2, nth_error m a2 = Some (mkNode v2 (Some n2) p2)).
    { unfold a2. destruct seg as [|[b w] seg]; cbn [app hd fst] in *.
      - destruct Hc as [[py Hpy] _]. cbn [nxt] in Hpy. eauto.
      - destruct Hc as [[pb Hpb] _]. rewrite nxt_app in Hpb. eauto. }
    destruct Ha2 as (v2 & n2 & p2 & Hp2).
    cbn [pop_loop]. rewrite (load_ok _ _ _ Hpa). cbn [bind nnext deref].
    rewrite (load_ok _ _ _ Hp2). cbn [bind nnext].
    rewrite (copy_node_ok _ _ _ _ Hp2). cbn [bind].
    set (m2 := upd node (mkNode v2 (Some n2) p2) m).
    assert (Hnotin : ~ In node (map fst (seg ++ [(ya, y); (za, z)]))).
    { intros Hin. apply Hnode. now right. }
    assert (Hna2 : node <> a2).
    { intros ->. apply Hnotin. unfold a2. rewrite map_app.
      destruct seg as [|[b w] seg]; cbn; auto. }
    assert (Hnya : node <> ya).
    { intros ->. apply Hnotin. rewrite map_app. apply in_or_app. right. now left. }
    rewrite (IH m2 f); unfold m2.
    + now rewrite upd_upd.
    + apply chain_upd_other; assumption.
    + exact Hnotin.
    + now rewrite length_upd.
    + now rewrite nth_upd_other.
    + rewrite nth_upd_same by exact Hlt. rewrite nth_upd_other by exact Hna2. now rewrite Hp2.
    + cbn in Hf. lia.
Qed.

Lemma chain_cut m (ya : addr) y (za : addr) z py : forall seg,
  chain m (seg ++ [(ya, y); (za, z)]) ->
  NoDup (map fst (seg ++ [(ya, y); (za, z)])) ->
  (ya < length m)%nat ->
  chain (upd ya (mkNode y None py) m) (seg ++ [(ya, y)]).
Proof.
  induction seg as [|[a v] seg IH]; intros Hc Hnd Hlt; cbn [app] in *.
  - cbn [chain nxt]. split; [|exact I]. exists py. now apply nth_upd_same.
  - destruct Hc as [[pa Hpa] Hc]. inversion Hnd as [|? ? Hnotin Hnd']; subst.
    cbn [chain]. split; [|now apply IH].
    exists pa. rewrite nth_upd_other.
    + rewrite Hpa. now rewrite !nxt_app.
    + intros <-. apply Hnotin. cbn [map fst]. rewrite map_app. apply in_or_app. right. now left.
Qed.

Lemma dl_pop_single m v : dl_repr m [v] ->
  exists m' node, dl_pop m = Ok (m', node) /\ nth_error m' node = Some (mkNode 0 None None) /\ dl_repr m' [v].
Proof.
  intros (v0 & rest & Hvs & Hc & Hnd). injection Hvs as <- Hrest.
  destruct rest; [|discriminate]. clear Hrest.
  unfold dl_pop, alloc. pose proof Hc as [[p0 Hp0] _]. cbn [nxt] in Hp0.
  rewrite (load_ok _ _ _ (nth_app_old _ _ _ _ Hp0)). cbn [bind nnext].
  eexists _, _. split; [reflexivity|]. split; [apply nth_app_new|].
  exists v, []. split; [reflexivity|]. split; [now apply chain_alloc|exact Hnd].
Qed.

Lemma dl_pop_many m vs y z : dl_repr m (vs ++ [y; z]) ->
  exists m' node p q, dl_pop m = Ok (m', node) /\ nth_error m' node = Some (mkNode y p q) /\ dl_repr m' (vs ++ [y]).
Proof.
  intros (v0 & rest & Hvs & Hc & Hnd).
  change (v0 :: map snd rest) with (map snd ((L, v0) :: rest)) in Hvs.
  symmetry in Hvs. apply map_eq_app in Hvs as (seg & tl & Hcells & Hseg & Htl).
  destruct tl as [|[ya y'] [|[za z'] [|? ?]]]; try discriminate.
  cbn in Htl. injection Htl as -> ->.
  assert (Hhd : fst (hd (ya, y) seg) = L).
  { destruct seg as [|c seg]; cbn [app] in Hcells; injection Hcells as <-; reflexivity. }
  change (L :: map fst rest) with (map fst ((L, v0) :: rest)) in Hnd.
  pose proof (chain_length_le _ _ Hc Hnd) as Hlen.
  rewrite Hcells in Hc, Hnd, Hlen.
  unfold dl_pop, alloc.
  set (m1 := m ++ [mkNode 0 None None]). set (node := length m).
  assert (Hc1 : chain m1 (seg ++ [(ya, y); (za, z)])) by now apply chain_alloc.
  assert (Hfresh : ~ In node (map fst (seg ++ [(ya, y); (za, z)]))).
  { intros Hin. pose proof (chain_lt _ _ _ Hc Hin). unfold node in *. lia. }
  (* the list struct has a successor *)
  assert (HL1 : exists vL nL pL, nth_error m1 L = Some (mkNode vL (Some nL) pL)).
  { rewrite <- Hhd. destruct seg as [|[a v] seg]; cbn [app hd fst] in *.
    - destruct Hc1 as [[py Hpy] _]. cbn [nxt] in Hpy. eauto.
    - destruct Hc1 as [[pa Hpa] _]. rewrite nxt_app in Hpa. eauto. }
  destruct HL1 as (vL & nL & pL & HpL).
  rewrite (load_ok _ _ _ HpL). cbn [bind nnext].
  rewrite (copy_node_ok _ _ _ _ HpL). cbn [bind].
  set (m2 := upd node (mkNode vL (Some nL) pL) m1).
  assert (Hnode1 : (node < length m1)%nat) by (unfold m1, node; rewrite app_length; cbn; lia).
  assert (Hc2 : chain m2 (seg ++ [(ya, y); (za, z)])) by (apply chain_upd_other; assumption).
  destruct (chain_app_inv _ _ _ Hc2) as [[py Hpy] _]. cbn [nxt] in Hpy.
  assert (HnL : node <> L).
  { intros E. apply Hfresh. rewrite E, <- Hhd, map_app. destruct seg as [|[a v] seg]; cbn; auto. }
  assert (Hnya : node <> ya).
  { intros ->. apply Hfresh. rewrite map_app. apply in_or_app. right. now left. }
  replace (pop_loop (length m2) m2 L node) with (pop_loop (length m2) m2 (fst (hd (ya, y) seg)) node)
    by now rewrite Hhd.
  rewrite (pop_loop_spec ya y za z node (mkNode y (Some za) py) seg m2 (length m2) Hc2 Hfresh); cbn [bind].
  - set (ndy := mkNode y (Some za) py) in *.
    assert (Hya3 : nth_error (upd node ndy m2) ya = Some ndy) by now rewrite nth_upd_other.
    rewrite (set_next_ok _ _ _ _ Hya3). cbn [bind ndy nval nprev].
    eexists _, _, _, _. split; [reflexivity|]. split.
    + rewrite nth_upd_other by congruence. unfold ndy. apply nth_upd_same. unfold m2. now rewrite length_upd.
    + assert (Hcells' : exists rest', seg ++ [(ya, y)] = (L, v0) :: rest').
      { destruct seg as [|c seg]; cbn [app] in Hcells |- *; inversion Hcells; subst; eauto. }
      destruct Hcells' as (rest' & Hcells').
      exists v0, rest'. split; [|split].
      * change (v0 :: map snd rest') with (map snd ((L, v0) :: rest')).
        rewrite <- Hcells', map_app, Hseg. reflexivity.
      * rewrite <- Hcells'. apply (chain_cut _ ya y za z).
        -- apply chain_upd_other; assumption.
        -- exact Hnd.
        -- rewrite length_upd. eapply nth_some_lt; eauto.
      * change (L :: map fst rest') with (map fst ((L, v0) :: rest')). rewrite <- Hcells'.
        replace (seg ++ [(ya, y); (za, z)]) with ((seg ++ [(ya, y)]) ++ [(za, z)]) in Hnd
          by now rewrite <- app_assoc.
        rewrite map_app in Hnd. now apply NoDup_app_left in Hnd.
  - unfold m2. now rewrite length_upd.
  - exact Hpy.
  - rewrite Hhd. unfold m2. rewrite nth_upd_same by exact Hnode1. now rewrite nth_upd_other.
  - unfold m2. rewrite length_upd. unfold m1. rewrite app_length. rewrite app_length in Hlen. cbn in *. lia.
Qed.

(* ====================================================================== *)
(* §7  indifference to the element type                                    *)
(* ====================================================================== *)

(* The containers are generic in a comparable T; the models fix T := Z.  What
   the harness does at T = string / struct (harness/c05_instances.go) is to run
   the history through an injective codec that maps the zero value to 0.  The
   specification commutes with every such renaming of the elements: *)

Definition qop_map (f : Z -> Z) (o : qop) : qop :=
  match o with
  | Enqueue x => Enqueue (f x)
  | Search x => Search (f x)
  | o => o
  end.

Definition qout_map (f : Z -> Z) (r : qout) : qout :=
  match r with
  | ODeq e v => ODeq e (f v)
  | OVal v => OVal (f v)
  | r => r
  end.

Lemma existsb_eqb_map (f : Z -> Z) x l : (forall a b, f a = f b -> a = b) ->
  existsb (Z.eqb (f x)) (map f l) = existsb (Z.eqb x) l.
Proof.
  intros Hinj. induction l as [|y l IH]; [reflexivity|]. cbn [map existsb]. rewrite IH. f_equal.
  destruct (x =? y) eqn:E.
  - apply Z.eqb_eq in E. subst. apply Z.eqb_refl.
  - apply Z.eqb_neq. intros H. apply Hinj in H. apply Z.eqb_neq in E. contradiction.
Qed.

Lemma fifo_step_equivariant (f : Z -> Z) l o :
  (forall a b, f a = f b -> a = b) -> f 0 = 0 ->
  fifo_step (map f l) (qop_map f o) =
  (map f (fst (fifo_step l o)), qout_map f (snd (fifo_step l o))).
Proof.
  intros Hinj H0. destruct o as [x| | |x| |]; cbn [qop_map fifo_step fst snd qout_map].
  - now rewrite map_app.
  - destruct l as [|y l]; cbn [map fst snd qout_map]; [now rewrite H0|reflexivity].
  - destruct l as [|y l]; cbn [map hd]; [now rewrite H0|reflexivity].
  - now rewrite existsb_eqb_map.
  - now rewrite map_length.
  - reflexivity.
Qed.

Lemma fifo_equivariant (f : Z -> Z) ops :
  (forall a b, f a = f b -> a = b) -> f 0 = 0 -> forall l,
  outs fifo_step (map f l) (map (qop_map f) ops) = map (qout_map f) (outs fifo_step l ops) /\
  state_after fifo_step (map f l) (map (qop_map f) ops) = map f (state_after fifo_step l ops).
Proof.
  intros Hinj H0. induction ops as [|o ops IH]; intros l; [split; reflexivity|].
  cbn [map]. rewrite !outs_cons, !state_after_cons, (fifo_step_equivariant f l o Hinj H0). cbn [fst snd map].
  destruct (IH (fst (fifo_step l o))) as [IH1 IH2]. rewrite IH1, IH2. split; reflexivity.
Qed.

Lemma forget_err_map f r : forget_err (qout_map f r) = qout_map f (forget_err r).
Proof. destruct r; reflexivity. Qed.

Lemma sq_equivariant (f : Z -> Z) ops :
  (forall a b, f a = f b -> a = b) -> f 0 = 0 ->
  outs sq_step sq_new (map (qop_map f) ops) = map (qout_map f) (outs sq_step sq_new ops).
Proof.
  intros Hinj H0. rewrite !sq_outs_fifo. exact (proj1 (fifo_equivariant f ops Hinj H0 [])).
Qed.

Lemma lq_equivariant (f : Z -> Z) t ops :
  (forall a b, f a = f b -> a = b) -> f 0 = 0 ->
  outs lq_step (lq_new (f t)) (map (qop_map f) ops) = map (qout_map f) (outs lq_step (lq_new t) ops).
Proof.
  intros Hinj H0.
  rewrite (proj1 (lq_refines (f t) _)), (proj1 (lq_refines t ops)).
  change [f t] with (map f [t]). rewrite (proj1 (fifo_equivariant f ops Hinj H0 [t])).
  rewrite !map_map. apply map_ext. intros r. apply forget_err_map.
Qed.
