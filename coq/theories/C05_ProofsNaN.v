(* C05_ProofsNaN.v — lemmas for the extension of C05 to element types whose `==`
   is not the identity of values (C05_ModelNaN.v).  Everything is proved for an
   ARBITRARY [eqv : Z -> Z -> bool]; the lemmas of C05_Proofs.v are reused for
   every operation but Search (the generic step functions ARE the old ones
   there), the two comparing loops are re-proved. *)

From Gogu Require Import Base C05_DList C05_Model C05_Proofs C05_ModelNaN.
Local Open Scope Z_scope.

Section Generic.
  Variable eqv : Z -> Z -> bool.

  (* ---- the two comparing loops ---- *)

  Lemma gsq_search_loop_spec x q : forall pre,
    gsq_search_loop eqv (length q) (length pre) (pre ++ q) x = Ok (ghas eqv x q).
  Proof.
    induction q as [|y q IH]; intros pre; cbn [length gsq_search_loop ghas existsb]; [reflexivity|].
    rewrite nth_error_app2 by lia. rewrite Nat.sub_diag. cbn [nth_error].
    destruct (eqv y x); [reflexivity|]. cbn [orb].
    specialize (IH (pre ++ [y])). rewrite app_length, <- app_assoc in IH. cbn in IH.
    rewrite Nat.add_1_r in IH. exact IH.
  Qed.

  Lemma gsq_search_spec x q : gsq_search eqv x q = Ok (ghas eqv x q).
  Proof. exact (gsq_search_loop_spec x q []). Qed.

  Lemma gfind_loop_spec m x cells : forall fuel,
    chain m cells -> (length cells < fuel)%nat ->
    exists r, gfind_loop eqv fuel m (nxt cells) x = Ok r /\
              (if r then true else false) = ghas eqv x (map snd cells).
  Proof.
    induction cells as [|[a v] rest IH]; intros fuel Hc Hf.
    - destruct fuel as [|f]; [lia|]. cbn. exists None. auto.
    - destruct fuel as [|f]; [lia|]. destruct Hc as [[p Hp] Hc].
      cbn [nxt gfind_loop]. rewrite (load_ok _ _ _ Hp). cbn [bind nval nnext map snd ghas existsb].
      destruct (eqv v x) eqn:E.
      + exists (Some a). auto.
      + cbn [orb]. apply IH; [exact Hc|]. cbn in Hf. lia.
  Qed.

  Lemma gdl_find_spec m vs x :
    dl_repr m vs -> exists r, gdl_find eqv x m = Ok (m, r, ghas eqv x vs).
  Proof.
    intros (v & rest & -> & Hc & Hnd).
    pose proof (chain_length_le _ _ Hc Hnd) as Hlen.
    destruct (gfind_loop_spec m x ((L, v) :: rest) (S (length m)) Hc) as (r & Hr & Hb); [lia|].
    destruct Hc as [[p0 Hp0] _].
    unfold gdl_find. cbn [nxt] in Hr. rewrite Hr. cbn [bind].
    rewrite (copy_node_ok _ _ _ _ Hp0), (upd_same_id _ _ _ Hp0). cbn [bind].
    change (v :: map snd rest) with (map snd ((L, v) :: rest)). rewrite <- Hb.
    destruct r as [n|]; eexists; reflexivity.
  Qed.

  (* ---- slice queue = generic FIFO ---- *)

  Lemma gsq_step_fifo q o : gsq_step eqv q o = gfifo_step eqv q o.
  Proof.
    destruct o as [x| | |x| |]; cbn [gsq_step gfifo_step]; try apply sq_step_fifo.
    now rewrite gsq_search_spec.
  Qed.

  Lemma gsq_run_fifo q ops : run (gsq_step eqv) q ops = run (gfifo_step eqv) q ops.
  Proof.
    revert q; induction ops as [|o ops IH]; intros q; cbn; [reflexivity|].
    rewrite gsq_step_fifo. destruct (gfifo_step eqv q o) as [q' r]. now rewrite IH.
  Qed.

  (* ---- linked queue ~ generic FIFO ---- *)

  Lemma glq_step_fifo q l o : lq_abs q l ->
    lq_abs (fst (glq_step eqv q o)) (fst (gfifo_step eqv l o)) /\
    snd (glq_step eqv q o) = forget_err (snd (gfifo_step eqv l o)).
  Proof.
    intros Habs.
    destruct o as [x| | |x| |]; cbn [glq_step gfifo_step]; try (apply lq_step_fifo; exact Habs).
    destruct Habs as (Hn & Hrepr & HL).
    assert (Hz : (lq_n q =? 0) = match l with [] => true | _ => false end).
    { rewrite Hn. destruct l; [reflexivity|]. apply Z.eqb_neq. cbn [length]. lia. }
    unfold glq_search. rewrite Hz. destruct l as [|v l].
    - cbn [fst snd ghas existsb forget_err]. split; [|reflexivity]. split; [exact Hn|]. split; [exact Hrepr|exact HL].
    - destruct (gdl_find_spec _ _ x (Hrepr ltac:(discriminate))) as (r & Hf).
      rewrite Hf. cbn [bind fst snd forget_err].
      destruct q as [m n]. cbn [lq_mem lq_n] in *.
      split; [|destruct (ghas eqv x (v :: l)); reflexivity].
      split; [exact Hn|]. split; [exact Hrepr|exact HL].
  Qed.

  Lemma glq_run_fifo q l ops : lq_abs q l ->
    lq_abs (state_after (glq_step eqv) q ops) (state_after (gfifo_step eqv) l ops) /\
    outs (glq_step eqv) q ops = map forget_err (outs (gfifo_step eqv) l ops).
  Proof. apply sim_run. intros s1 s2 o. apply glq_step_fifo. Qed.

  (* ---- the generic FIFO against the FIFO of C05_Model: the same machine but
          for the answers of Search ---- *)

  Definition blind (r : qout) : qout := match r with OBool _ => OBool false | r => r end.

  Lemma gfifo_step_blind l o :
    fst (gfifo_step eqv l o) = fst (fifo_step l o) /\
    blind (snd (gfifo_step eqv l o)) = blind (snd (fifo_step l o)).
  Proof. destruct o; cbn; auto. Qed.

  Lemma gfifo_run_blind ops : forall l,
    state_after (gfifo_step eqv) l ops = state_after fifo_step l ops /\
    map blind (outs (gfifo_step eqv) l ops) = map blind (outs fifo_step l ops).
  Proof.
    induction ops as [|o ops IH]; intros l; [split; reflexivity|].
    rewrite !state_after_cons, !outs_cons. destruct (gfifo_step_blind l o) as [H1 H2].
    rewrite H1. destruct (IH (fst (fifo_step l o))) as [I1 I2]. split; [exact I1|].
    cbn [map]. now rewrite H2, I2.
  Qed.

  Lemma gfifo_state l ops : state_after (gfifo_step eqv) l ops = state_after fifo_step l ops.
  Proof. apply gfifo_run_blind. Qed.

  Lemma served_blind rs : served (map blind rs) = served rs.
  Proof.
    induction rs as [|r rs IH]; [reflexivity|]. cbn [map]. rewrite !served_cons, IH.
    destruct r; reflexivity.
  Qed.

  Lemma gfifo_served l ops : served (outs (gfifo_step eqv) l ops) = served (outs fifo_step l ops).
  Proof. rewrite <- served_blind, (proj2 (gfifo_run_blind ops l)). apply served_blind. Qed.

  (* ---- the clauses on the generic FIFO ---- *)

  Lemma gfifo_conservation ops l : no_clear ops ->
    l ++ enqueued ops = served (outs (gfifo_step eqv) l ops) ++ state_after (gfifo_step eqv) l ops.
  Proof. intros H. rewrite gfifo_served, gfifo_state. now apply fifo_conservation. Qed.

  Lemma gfifo_clear_restarts l pre ops :
    outs (gfifo_step eqv) l (pre ++ Clear :: ops) =
      outs (gfifo_step eqv) l pre ++ ONone :: outs (gfifo_step eqv) [] ops /\
    state_after (gfifo_step eqv) l (pre ++ Clear :: ops) = state_after (gfifo_step eqv) [] ops.
  Proof.
    rewrite outs_app, state_after_app. split.
    - f_equal. rewrite outs_cons. reflexivity.
    - rewrite state_after_cons. reflexivity.
  Qed.

  Lemma gfifo_peek_is_next l : exists e v,
    outs (gfifo_step eqv) l [Peek; Dequeue] = [OVal v; ODeq e v].
  Proof. destruct l as [|x l]; [exists true, 0|exists false, x]; reflexivity. Qed.

  Lemma gfifo_size_counts l ops : no_clear ops ->
    outs (gfifo_step eqv) (state_after (gfifo_step eqv) l ops) [Size] =
    [OSize (Z.of_nat (length l) + Z.of_nat (length (enqueued ops))
            - Z.of_nat (length (served (outs (gfifo_step eqv) l ops))))].
  Proof.
    intros Hnc. pose proof (gfifo_conservation ops l Hnc) as H.
    apply (f_equal (@length Z)) in H. rewrite !app_length in H.
    unfold outs at 1. cbn. f_equal. f_equal. lia.
  Qed.

  (* Search: true iff some held element is == the argument *)
  Lemma ghas_true_iff x l : ghas eqv x l = true <-> exists y, In y l /\ eqv y x = true.
  Proof. unfold ghas. apply existsb_exists. Qed.

  Lemma gfifo_search_exact l x : exists b,
    outs (gfifo_step eqv) l [Search x] = [OBool b] /\
    (b = true <-> exists y, In y l /\ eqv y x = true).
  Proof. exists (ghas eqv x l). split; [reflexivity|apply ghas_true_iff]. Qed.

  Lemma gfifo_out_wf ops l r : In r (outs (gfifo_step eqv) l ops) -> out_wf r.
  Proof.
    intros Hin. apply (in_map blind) in Hin. rewrite (proj2 (gfifo_run_blind ops l)) in Hin.
    apply in_map_iff in Hin as (r' & Hr' & Hin'). apply fifo_out_wf in Hin'.
    destruct r, r'; cbn in *; try discriminate; try congruence; auto.
  Qed.

  Lemma gfifo_drain l :
    outs (gfifo_step eqv) l (repeat Dequeue (length l)) = map (ODeq false) l /\
    state_after (gfifo_step eqv) l (repeat Dequeue (length l)) = [].
  Proof.
    induction l as [|x l [IH1 IH2]]; [split; reflexivity|].
    cbn [length repeat]. rewrite outs_cons, state_after_cons. cbn [gfifo_step fifo_step fst snd map].
    now rewrite IH1, IH2.
  Qed.

  (* ---- transfer to the linked model ---- *)

  Fixpoint glq_served (q : lq) (ops : list qop) : list Z :=
    match ops with
    | [] => []
    | o :: ops' =>
        let '(q', r) := glq_step eqv q o in
        match o, r with
        | Dequeue, ODeq _ v => if lq_size q =? 0 then glq_served q' ops' else v :: glq_served q' ops'
        | _, _ => glq_served q' ops'
        end
    end.

  Lemma glq_served_fifo ops : forall q l, lq_abs q l ->
    glq_served q ops = served (outs (gfifo_step eqv) l ops).
  Proof.
    induction ops as [|o ops IH]; intros q l Habs; [reflexivity|].
    cbn [glq_served]. rewrite outs_cons, served_cons.
    destruct (glq_step_fifo q l o Habs) as [Habs' Hout].
    destruct (glq_step eqv q o) as [q' r]. cbn [fst snd] in *.
    specialize (IH q' _ Habs').
    destruct o as [x| | |x| |]; cbn [gfifo_step fifo_step fst snd] in *;
      try (cbn [forget_err] in Hout; subst r; cbn [app]; exact IH).
    unfold lq_size. destruct Habs as [Hn _].
    destruct l as [|y l]; cbn [fst snd forget_err] in *; subst r.
    - rewrite Hn. cbn [length Z.of_nat Z.eqb app]. exact IH.
    - replace (lq_n q =? 0) with false by (symmetry; apply Z.eqb_neq; rewrite Hn; cbn [length]; lia).
      cbn [app]. now rewrite IH.
  Qed.

  (* ---- the statements of C05_PropsNaN ---- *)

  Lemma gsq_refines ops : run (gsq_step eqv) sq_new ops = run (gfifo_step eqv) [] ops.
  Proof. apply gsq_run_fifo. Qed.

  Lemma gsq_outs_fifo q ops : outs (gsq_step eqv) q ops = outs (gfifo_step eqv) q ops.
  Proof. unfold outs. now rewrite gsq_run_fifo. Qed.
  Lemma gsq_state_fifo q ops : state_after (gsq_step eqv) q ops = state_after (gfifo_step eqv) q ops.
  Proof. unfold state_after. now rewrite gsq_run_fifo. Qed.

  Lemma glq_refines t ops :
    outs (glq_step eqv) (lq_new t) ops = map forget_err (outs (gfifo_step eqv) [t] ops) /\
    lq_abs (state_after (glq_step eqv) (lq_new t) ops) (state_after (gfifo_step eqv) [t] ops).
  Proof. destruct (glq_run_fifo (lq_new t) [t] ops (lq_new_abs t)); auto. Qed.

  Lemma gsq_out_wf ops r : In r (outs (gsq_step eqv) sq_new ops) -> out_wf r.
  Proof. rewrite gsq_outs_fifo. apply gfifo_out_wf. Qed.

  Lemma glq_out_wf t ops r : In r (outs (glq_step eqv) (lq_new t) ops) -> out_wf r.
  Proof.
    rewrite (proj1 (glq_refines t ops)). intros Hin. apply in_map_iff in Hin as (r' & <- & Hin).
    apply forget_err_wf. eapply gfifo_out_wf; eauto.
  Qed.

  (* everything but the answers of Search is independent of the equality *)
  Lemma gsq_blind ops :
    state_after (gsq_step eqv) sq_new ops = state_after sq_step sq_new ops /\
    map blind (outs (gsq_step eqv) sq_new ops) = map blind (outs sq_step sq_new ops).
  Proof.
    rewrite gsq_state_fifo, gsq_outs_fifo, sq_state_fifo, sq_outs_fifo. apply gfifo_run_blind.
  Qed.

  Lemma forget_err_blind r : blind (forget_err r) = forget_err (blind r).
  Proof. destruct r; reflexivity. Qed.

  Lemma glq_blind t ops :
    map blind (outs (glq_step eqv) (lq_new t) ops) = map blind (outs lq_step (lq_new t) ops).
  Proof.
    rewrite (proj1 (glq_refines t ops)), (proj1 (lq_refines t ops)), !map_map.
    rewrite !(map_ext (fun x => blind (forget_err x)) (fun x => forget_err (blind x)) forget_err_blind).
    rewrite <- !(map_map blind forget_err). f_equal. apply gfifo_run_blind.
  Qed.

  (* slice *)
  Lemma gsq_dequeue_order ops : no_clear ops ->
    enqueued ops = served (outs (gsq_step eqv) sq_new ops) ++ state_after (gsq_step eqv) sq_new ops.
  Proof. intros H. rewrite gsq_outs_fifo, gsq_state_fifo. exact (gfifo_conservation ops [] H). Qed.

  Lemma gsq_clear_restarts pre ops :
    outs (gsq_step eqv) sq_new (pre ++ Clear :: ops) =
      outs (gsq_step eqv) sq_new pre ++ ONone :: outs (gsq_step eqv) sq_new ops /\
    state_after (gsq_step eqv) sq_new (pre ++ Clear :: ops) = state_after (gsq_step eqv) sq_new ops.
  Proof. rewrite !gsq_outs_fifo, !gsq_state_fifo. apply gfifo_clear_restarts. Qed.

  Lemma gsq_peek_is_next ops : exists e v,
    outs (gsq_step eqv) sq_new (ops ++ [Peek; Dequeue]) = outs (gsq_step eqv) sq_new ops ++ [OVal v; ODeq e v].
  Proof.
    rewrite !gsq_outs_fifo, outs_app.
    destruct (gfifo_peek_is_next (state_after (gfifo_step eqv) sq_new ops)) as (e & v & H).
    exists e, v. now rewrite H.
  Qed.

  Lemma gsq_size_counts ops : no_clear ops ->
    outs (gsq_step eqv) sq_new (ops ++ [Size]) =
    outs (gsq_step eqv) sq_new ops ++
    [OSize (Z.of_nat (length (enqueued ops)) - Z.of_nat (length (served (outs (gsq_step eqv) sq_new ops))))].
  Proof.
    intros H. unfold sq_new. rewrite !gsq_outs_fifo, outs_app. f_equal.
    rewrite (gfifo_size_counts [] ops H). reflexivity.
  Qed.

  Lemma gsq_size_since_clear pre suf : no_clear suf ->
    outs (gsq_step eqv) sq_new (pre ++ Clear :: suf ++ [Size]) =
    outs (gsq_step eqv) sq_new (pre ++ Clear :: suf) ++
    [OSize (Z.of_nat (length (enqueued suf)) - Z.of_nat (length (served (outs (gsq_step eqv) sq_new suf))))].
  Proof.
    intros Hnc.
    replace (pre ++ Clear :: suf ++ [Size]) with ((pre ++ Clear :: suf) ++ [Size])
      by (rewrite <- app_assoc; reflexivity).
    rewrite outs_app. f_equal.
    rewrite (proj2 (gsq_clear_restarts pre suf)).
    pose proof (gsq_size_counts suf Hnc) as H. rewrite outs_app in H.
    now apply app_inv_head in H.
  Qed.

  Lemma gsq_search_exact ops x : exists b,
    outs (gsq_step eqv) sq_new (ops ++ [Search x]) = outs (gsq_step eqv) sq_new ops ++ [OBool b] /\
    (b = true <-> exists y, In y (state_after (gsq_step eqv) sq_new ops) /\ eqv y x = true).
  Proof.
    rewrite !gsq_outs_fifo, gsq_state_fifo, outs_app.
    destruct (gfifo_search_exact (state_after (gfifo_step eqv) sq_new ops) x) as (b & H & Hb).
    exists b. now rewrite H.
  Qed.

  Lemma gsq_empty_dequeue ops :
    outs (gsq_step eqv) sq_new (ops ++ [Size]) = outs (gsq_step eqv) sq_new ops ++ [OSize 0] ->
    gsq_step eqv (state_after (gsq_step eqv) sq_new ops) Dequeue =
      (state_after (gsq_step eqv) sq_new ops, ODeq true 0).
  Proof.
    rewrite outs_app. intros H. apply app_inv_head in H.
    destruct (state_after (gsq_step eqv) sq_new ops) as [|y q]; [reflexivity|].
    unfold outs in H. cbn in H. injection H as H. lia.
  Qed.

  (* linked *)
  Lemma glq_dequeue_order_gen q l ops : lq_abs q l -> no_clear ops ->
    exists held, lq_abs (state_after (glq_step eqv) q ops) held /\
                 l ++ enqueued ops = glq_served q ops ++ held.
  Proof.
    intros Habs Hnc. exists (state_after (gfifo_step eqv) l ops).
    destruct (glq_run_fifo q l ops Habs) as [Habs' _]. split; [exact Habs'|].
    rewrite (glq_served_fifo ops q l Habs). now apply gfifo_conservation.
  Qed.

  Lemma glq_drain q held : lq_abs q held ->
    outs (glq_step eqv) q (repeat Dequeue (length held)) = map (ODeq false) held /\
    lq_size (state_after (glq_step eqv) q (repeat Dequeue (length held))) = 0.
  Proof.
    intros Habs.
    destruct (glq_run_fifo q held (repeat Dequeue (length held)) Habs) as [Habs' Ho].
    destruct (gfifo_drain held) as [H1 H2]. rewrite Ho, H1, H2 in *. split.
    - rewrite map_map. reflexivity.
    - destruct Habs' as [Hn _]. exact Hn.
  Qed.

  Lemma glq_clear_restarts t pre ops :
    outs (glq_step eqv) (lq_new t) (pre ++ Clear :: ops) =
      outs (glq_step eqv) (lq_new t) pre ++ ONone :: map forget_err (outs (gfifo_step eqv) [] ops) /\
    lq_abs (state_after (glq_step eqv) (lq_new t) (pre ++ Clear :: ops)) (state_after (gfifo_step eqv) [] ops).
  Proof.
    destruct (glq_refines t (pre ++ Clear :: ops)) as [H1 H2].
    destruct (glq_refines t pre) as [H3 _].
    destruct (gfifo_clear_restarts [t] pre ops) as [F1 F2].
    rewrite H1, H3, F1, map_app. rewrite F2 in H2. split; [reflexivity|exact H2].
  Qed.

  Lemma glq_peek_is_next t ops : exists v,
    outs (glq_step eqv) (lq_new t) (ops ++ [Peek; Dequeue]) =
    outs (glq_step eqv) (lq_new t) ops ++ [OVal v; ODeq false v].
  Proof.
    destruct (glq_refines t (ops ++ [Peek; Dequeue])) as [H1 _]. destruct (glq_refines t ops) as [H2 _].
    rewrite H1, H2, outs_app, map_app.
    destruct (gfifo_peek_is_next (state_after (gfifo_step eqv) [t] ops)) as (e & v & H).
    exists v. now rewrite H.
  Qed.

  Lemma glq_size_counts q l ops : lq_abs q l -> no_clear ops ->
    outs (glq_step eqv) (state_after (glq_step eqv) q ops) [Size] =
    [OSize (Z.of_nat (length l) + Z.of_nat (length (enqueued ops)) - Z.of_nat (length (glq_served q ops)))].
  Proof.
    intros Habs Hnc. destruct (glq_run_fifo q l ops Habs) as [Habs' _].
    destruct (glq_run_fifo _ _ [Size] Habs') as [_ Ho]. rewrite Ho.
    rewrite (gfifo_size_counts l ops Hnc), (glq_served_fifo ops q l Habs). reflexivity.
  Qed.

  Lemma glq_abs_after_clear t pre :
    lq_abs (state_after (glq_step eqv) (lq_new t) (pre ++ [Clear])) [].
  Proof.
    destruct (glq_refines t (pre ++ [Clear])) as [_ H].
    rewrite gfifo_state, fifo_state_clear in H. exact H.
  Qed.

  Lemma glq_size_since_clear t pre suf : no_clear suf ->
    outs (glq_step eqv) (lq_new t) (pre ++ Clear :: suf ++ [Size]) =
    outs (glq_step eqv) (lq_new t) (pre ++ Clear :: suf) ++
    [OSize (Z.of_nat (length (enqueued suf)) -
            Z.of_nat (length (glq_served (state_after (glq_step eqv) (lq_new t) (pre ++ [Clear])) suf)))].
  Proof.
    intros Hnc.
    replace (pre ++ Clear :: suf ++ [Size]) with ((pre ++ Clear :: suf) ++ [Size])
      by (rewrite <- app_assoc; reflexivity).
    rewrite outs_app. f_equal.
    replace (pre ++ Clear :: suf) with ((pre ++ [Clear]) ++ suf) by (rewrite <- app_assoc; reflexivity).
    rewrite state_after_app.
    rewrite (glq_size_counts _ [] suf (glq_abs_after_clear t pre) Hnc). reflexivity.
  Qed.

  Lemma glq_counter_nonneg t ops : 0 <= lq_size (state_after (glq_step eqv) (lq_new t) ops).
  Proof. destruct (glq_refines t ops) as [_ [Hn _]]. unfold lq_size. rewrite Hn. lia. Qed.

  Lemma glq_search_exact q l x : lq_abs q l -> exists b,
    outs (glq_step eqv) q [Search x] = [OBool b] /\
    (b = true <-> exists y, In y l /\ eqv y x = true).
  Proof.
    intros Habs. destruct (glq_run_fifo q l [Search x] Habs) as [_ Ho].
    destruct (gfifo_search_exact l x) as (b & H & Hb). exists b. rewrite Ho, H. auto.
  Qed.

  Lemma glq_search_exact_hist t ops x : exists b,
    outs (glq_step eqv) (lq_new t) (ops ++ [Search x]) = outs (glq_step eqv) (lq_new t) ops ++ [OBool b] /\
    (b = true <-> exists y, In y (state_after fifo_step [t] ops) /\ eqv y x = true) /\
    lq_abs (state_after (glq_step eqv) (lq_new t) (ops ++ [Search x])) (state_after fifo_step [t] ops).
  Proof.
    destruct (glq_refines t ops) as [_ Habs]. rewrite gfifo_state in Habs.
    destruct (glq_search_exact _ _ x Habs) as (b & Ho & Hb).
    exists b. rewrite outs_app, Ho. split; [reflexivity|]. split; [exact Hb|].
    destruct (glq_refines t (ops ++ [Search x])) as [_ H].
    rewrite gfifo_state, (state_after_app fifo_step) in H. exact H.
  Qed.

  Lemma glq_empty_dequeue q : lq_size q = 0 -> glq_step eqv q Dequeue = (q, ODeq false 0).
  Proof. exact (lq_empty_dequeue q). Qed.
End Generic.

(* ---- conservativity: at Z.eqb the generic models ARE those of C05_Model.v ---- *)

Lemma ghas_eqb x l : ghas Z.eqb x l = has x l.
Proof.
  unfold ghas, has. induction l as [|y l IH]; [reflexivity|]. cbn [existsb].
  now rewrite IH, (Z.eqb_sym y x).
Qed.

Lemma gsq_search_loop_eqb k : forall i q x, gsq_search_loop Z.eqb k i q x = sq_search_loop k i q x.
Proof. induction k as [|k IH]; intros i q x; cbn; [reflexivity|]. destruct (nth_error q i); try reflexivity; now rewrite IH. Qed.

Lemma gfind_loop_eqb fuel : forall m n x, gfind_loop Z.eqb fuel m n x = find_loop fuel m n x.
Proof.
  induction fuel as [|f IH]; intros m n x; cbn [gfind_loop find_loop]; [reflexivity|]. destruct n as [a|]; [|reflexivity].
  destruct (load m a) as [nd|k|]; cbn [bind]; try reflexivity; now rewrite IH.
Qed.

Lemma gsq_step_eqb q o : gsq_step Z.eqb q o = sq_step q o.
Proof.
  destruct o; try reflexivity; cbn [gsq_step sq_step]; unfold gsq_search, sq_search;
  now rewrite gsq_search_loop_eqb.
Qed.

Lemma glq_step_eqb q o : glq_step Z.eqb q o = lq_step q o.
Proof.
  destruct o; try reflexivity; cbn [glq_step lq_step]; unfold glq_search, lq_search, gdl_find, dl_find;
  now rewrite gfind_loop_eqb.
Qed.

Lemma gfifo_step_eqb l o : gfifo_step Z.eqb l o = fifo_step l o.
Proof. destruct o; try reflexivity; cbn [gfifo_step fifo_step]; now rewrite ghas_eqb. Qed.

Lemma nan_conservative :
  (forall q o, gsq_step Z.eqb q o = sq_step q o) /\
  (forall q o, glq_step Z.eqb q o = lq_step q o) /\
  (forall l o, gfifo_step Z.eqb l o = fifo_step l o).
Proof. split; [exact gsq_step_eqb|]. split; [exact glq_step_eqb|exact gfifo_step_eqb]. Qed.

(* ---- the instance go_eq ---- *)

Lemma go_eq_nan_l a b : is_nan a = true -> go_eq a b = false.
Proof. intros H. unfold go_eq. now rewrite H. Qed.
Lemma go_eq_nan_r a b : is_nan b = true -> go_eq a b = false.
Proof. intros H. unfold go_eq. rewrite H, orb_true_r. reflexivity. Qed.

Lemma go_eq_ordinary a b : is_nan a = false -> is_unc a = false -> a <> c_nz ->
  is_nan b = false -> is_unc b = false -> b <> c_nz -> go_eq a b = (a =? b).
Proof.
  intros Ha Ua Za Hb Ub Zb. unfold go_eq, cls. rewrite Ha, Hb, Ua, Ub. cbn [orb].
  apply Z.eqb_neq in Za, Zb. now rewrite Za, Zb.
Qed.
