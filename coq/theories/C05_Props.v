(* C05_Props.v — property C05: "Queues deliver elements first-in first-out
   without loss", stated over the models of C05_Model.v (queue/queue.go and the
   repaired queue/lqueue.go — /repo commit 2e9c0f9 — over the DList transcription
   C05_DList.v, which follows list/dlist.go as of /repo commit b974c31).
   Only statements here; each is closed by [exact] of a lemma of C05_Proofs.v
   and followed by Print Assumptions.

   Vocabulary (C05_Model / C05_Proofs):
     run step s ops = (state after, list of results)   outs / state_after = projections
     fifo_step     the specification: a functional FIFO on [list Z], front = head;
                   Dequeue on [] answers [ODeq true 0] and stays []
     forget_err    LQueue.Dequeue has no error result: its observable is the item only
     enqueued ops  the items of the Enqueue operations of [ops], in order
     served outs   the items of the successful Dequeues ([ODeq false v]) of [outs]
     lq_served     the same for the linked queue, where "successful" can only mean
                   "executed while Size() <> 0"
     no_clear ops  [ops] contains no Clear
     lq_abs q l    representation invariant of the linked queue: n = length l, and if
                   l <> [] the next-chain from address 0 of the heap spells l (when
                   n = 0 the node left at address 0 is ignored)
     out_wf r      r is not a failure of the model, and if it is a Size it is >= 0 *)

From Gogu Require Import Base C05_DList C05_Model C05_Proofs.
Local Open Scope Z_scope.

(* ------------------------------------------------------------------ *)
(* 1. Refinement: after EVERY history both queues answer exactly like  *)
(*    the functional FIFO (drain-and-refill, Dequeue on empty, Clear   *)
(*    included: [ops] is arbitrary).                                   *)
(* ------------------------------------------------------------------ *)

(* slice-backed: same results AND same contents *)
Theorem C05_queue_refines_fifo : forall ops,
  run sq_step sq_new ops = run fifo_step [] ops.
Proof. exact sq_refines. Qed.
Print Assumptions C05_queue_refines_fifo.

(* linked (repaired), started at its mandatory element t *)
Theorem C05_lqueue_refines_fifo : forall t ops,
  outs lq_step (lq_new t) ops = map forget_err (outs fifo_step [t] ops) /\
  lq_abs (state_after lq_step (lq_new t) ops) (state_after fifo_step [t] ops).
Proof. exact lq_refines. Qed.
Print Assumptions C05_lqueue_refines_fifo.

(* hence neither model ever panics (nil dereference, index out of range) or
   runs out of loop fuel, and Size is never negative *)
Theorem C05_queue_outputs_wf : forall ops r,
  In r (outs sq_step sq_new ops) -> out_wf r.
Proof. exact sq_out_wf. Qed.
Print Assumptions C05_queue_outputs_wf.

Theorem C05_lqueue_outputs_wf : forall t ops r,
  In r (outs lq_step (lq_new t) ops) -> out_wf r.
Proof. exact lq_out_wf. Qed.
Print Assumptions C05_lqueue_outputs_wf.

(* ------------------------------------------------------------------ *)
(* 2. The clauses of the statement on the FIFO machine (from any       *)
(*    contents l); by 1. they are facts about both queues.             *)
(* ------------------------------------------------------------------ *)

(* in order, each exactly once, nothing lost: what was held or enqueued is
   what was served followed by what is still held *)
Theorem C05_fifo_dequeue_order : forall ops l, no_clear ops ->
  l ++ enqueued ops = served (outs fifo_step l ops) ++ state_after fifo_step l ops.
Proof. exact fifo_conservation. Qed.
Print Assumptions C05_fifo_dequeue_order.

(* Clear forgets everything: afterwards the machine is the empty FIFO *)
Theorem C05_fifo_clear_restarts : forall l pre ops,
  outs fifo_step l (pre ++ Clear :: ops) = outs fifo_step l pre ++ ONone :: outs fifo_step [] ops /\
  state_after fifo_step l (pre ++ Clear :: ops) = state_after fifo_step [] ops.
Proof. exact fifo_clear_restarts. Qed.
Print Assumptions C05_fifo_clear_restarts.

(* ------------------------------------------------------------------ *)
(* 3. The clauses on the slice-backed queue (state = the slice).       *)
(* ------------------------------------------------------------------ *)

Theorem C05_queue_dequeue_order : forall ops, no_clear ops ->
  enqueued ops = served (outs sq_step sq_new ops) ++ state_after sq_step sq_new ops.
Proof. exact sq_dequeue_order. Qed.
Print Assumptions C05_queue_dequeue_order.

Theorem C05_queue_clear_restarts : forall pre ops,
  outs sq_step sq_new (pre ++ Clear :: ops) = outs sq_step sq_new pre ++ ONone :: outs sq_step sq_new ops /\
  state_after sq_step sq_new (pre ++ Clear :: ops) = state_after sq_step sq_new ops.
Proof. exact sq_clear_restarts. Qed.
Print Assumptions C05_queue_clear_restarts.

(* Peek returns the element the next Dequeue returns (the zero value, with the
   error, when empty) *)
Theorem C05_queue_peek_is_next : forall ops, exists e v,
  outs sq_step sq_new (ops ++ [Peek; Dequeue]) = outs sq_step sq_new ops ++ [OVal v; ODeq e v].
Proof. exact sq_peek_is_next. Qed.
Print Assumptions C05_queue_peek_is_next.

(* Size = enqueues - successful dequeues since the last Clear (with
   C05_queue_clear_restarts: a history after a Clear counts from zero);
   non-negativity is C05_queue_outputs_wf *)
Theorem C05_queue_size_counts : forall ops, no_clear ops ->
  outs sq_step sq_new (ops ++ [Size]) =
  outs sq_step sq_new ops ++
  [OSize (Z.of_nat (length (enqueued ops)) - Z.of_nat (length (served (outs sq_step sq_new ops))))].
Proof. exact sq_size_counts. Qed.
Print Assumptions C05_queue_size_counts.

(* the same clause in ONE statement, histories with Clear included: after the
   last Clear of a history (suf contains none) Size is the enqueues minus the
   successful dequeues of suf alone — whatever happened before (pre) *)
Theorem C05_queue_size_since_last_clear : forall pre suf, no_clear suf ->
  outs sq_step sq_new (pre ++ Clear :: suf ++ [Size]) =
  outs sq_step sq_new (pre ++ Clear :: suf) ++
  [OSize (Z.of_nat (length (enqueued suf)) - Z.of_nat (length (served (outs sq_step sq_new suf))))].
Proof. exact sq_size_since_clear. Qed.
Print Assumptions C05_queue_size_since_last_clear.

Theorem C05_queue_search_exact : forall ops x, exists b,
  outs sq_step sq_new (ops ++ [Search x]) = outs sq_step sq_new ops ++ [OBool b] /\
  (b = true <-> In x (state_after sq_step sq_new ops)).
Proof. exact sq_search_exact. Qed.
Print Assumptions C05_queue_search_exact.

(* when Size reports 0, Dequeue reports the error and the state is unchanged *)
Theorem C05_queue_empty_dequeue_changes_nothing : forall ops,
  outs sq_step sq_new (ops ++ [Size]) = outs sq_step sq_new ops ++ [OSize 0] ->
  sq_step (state_after sq_step sq_new ops) Dequeue = (state_after sq_step sq_new ops, ODeq true 0).
Proof. exact sq_empty_dequeue. Qed.
Print Assumptions C05_queue_empty_dequeue_changes_nothing.

(* ------------------------------------------------------------------ *)
(* 4. The clauses on the linked queue, from any represented state q    *)
(*    (reachable states are: C05_lqueue_refines_fifo; after a Clear    *)
(*    the contents are []: C05_lqueue_clear_empties).                  *)
(* ------------------------------------------------------------------ *)

Theorem C05_lqueue_dequeue_order : forall q l ops, lq_abs q l -> no_clear ops ->
  exists held, lq_abs (state_after lq_step q ops) held /\
               l ++ enqueued ops = lq_served q ops ++ held.
Proof. exact lq_dequeue_order_gen. Qed.
Print Assumptions C05_lqueue_dequeue_order.

(* "held" is observable: draining hands out exactly the contents, in order,
   and leaves Size 0 *)
Theorem C05_lqueue_drain : forall q held, lq_abs q held ->
  outs lq_step q (repeat Dequeue (length held)) = map (ODeq false) held /\
  lq_size (state_after lq_step q (repeat Dequeue (length held))) = 0.
Proof. exact lq_drain. Qed.
Print Assumptions C05_lqueue_drain.

Theorem C05_lqueue_clear_empties : forall q l, lq_abs q l -> lq_abs (fst (lq_step q Clear)) [].
Proof. exact lq_after_clear. Qed.
Print Assumptions C05_lqueue_clear_empties.

(* history level: after a Clear anywhere in a history the linked queue answers
   like the FIFO started EMPTY — nothing held before the Clear comes back, is
   found by Search or shows in Peek; refilling works (ops is arbitrary) *)
Theorem C05_lqueue_clear_restarts : forall t pre ops,
  outs lq_step (lq_new t) (pre ++ Clear :: ops) =
    outs lq_step (lq_new t) pre ++ ONone :: map forget_err (outs fifo_step [] ops) /\
  lq_abs (state_after lq_step (lq_new t) (pre ++ Clear :: ops)) (state_after fifo_step [] ops).
Proof. exact lq_clear_restarts. Qed.
Print Assumptions C05_lqueue_clear_restarts.

Theorem C05_lqueue_peek_is_next : forall t ops, exists v,
  outs lq_step (lq_new t) (ops ++ [Peek; Dequeue]) =
  outs lq_step (lq_new t) ops ++ [OVal v; ODeq false v].
Proof. exact lq_peek_is_next. Qed.
Print Assumptions C05_lqueue_peek_is_next.

Theorem C05_lqueue_size_counts : forall q l ops, lq_abs q l -> no_clear ops ->
  outs lq_step (state_after lq_step q ops) [Size] =
  [OSize (Z.of_nat (length l) + Z.of_nat (length (enqueued ops)) - Z.of_nat (length (lq_served q ops)))].
Proof. exact lq_size_counts. Qed.
Print Assumptions C05_lqueue_size_counts.

(* Size = enqueues - successful dequeues since the last Clear, one statement
   (a Dequeue of the linked queue is "successful" iff executed while Size() <> 0) *)
Theorem C05_lqueue_size_since_last_clear : forall t pre suf, no_clear suf ->
  outs lq_step (lq_new t) (pre ++ Clear :: suf ++ [Size]) =
  outs lq_step (lq_new t) (pre ++ Clear :: suf) ++
  [OSize (Z.of_nat (length (enqueued suf)) -
          Z.of_nat (length (lq_served (state_after lq_step (lq_new t) (pre ++ [Clear])) suf)))].
Proof. exact lq_size_since_clear. Qed.
Print Assumptions C05_lqueue_size_since_last_clear.

(* "never negative", for the counter field itself after every history (every
   Size that was printed: C05_lqueue_outputs_wf) *)
Theorem C05_lqueue_counter_never_negative : forall t ops,
  0 <= lq_size (state_after lq_step (lq_new t) ops).
Proof. exact lq_counter_nonneg. Qed.
Print Assumptions C05_lqueue_counter_never_negative.

(* Search after ANY history: true exactly for the elements the FIFO holds at
   that point, and it leaves the contents alone *)
Theorem C05_lqueue_search_exact_after_history : forall t ops x, exists b,
  outs lq_step (lq_new t) (ops ++ [Search x]) = outs lq_step (lq_new t) ops ++ [OBool b] /\
  (b = true <-> In x (state_after fifo_step [t] ops)) /\
  lq_abs (state_after lq_step (lq_new t) (ops ++ [Search x])) (state_after fifo_step [t] ops).
Proof. exact lq_search_exact_hist. Qed.
Print Assumptions C05_lqueue_search_exact_after_history.

Theorem C05_lqueue_search_exact : forall q l x, lq_abs q l -> exists b,
  outs lq_step q [Search x] = [OBool b] /\ (b = true <-> In x l).
Proof. exact lq_search_exact. Qed.
Print Assumptions C05_lqueue_search_exact.

(* on an empty linked queue (Size() = 0, which by the invariant is exactly
   "holds nothing") Dequeue returns the zero value and the state — heap and
   counter — is literally unchanged *)
Theorem C05_lqueue_empty_dequeue_changes_nothing : forall q,
  lq_size q = 0 -> lq_step q Dequeue = (q, ODeq false 0).
Proof. exact lq_empty_dequeue. Qed.
Print Assumptions C05_lqueue_empty_dequeue_changes_nothing.

Theorem C05_lqueue_size_zero_iff_empty : forall q l, lq_abs q l -> (lq_size q = 0 <-> l = []).
Proof. exact lq_size_zero_iff. Qed.
Print Assumptions C05_lqueue_size_zero_iff_empty.

(* ------------------------------------------------------------------ *)
(* 5. Indifference to the element type.  The models fix T := Z; the    *)
(*    code is generic in a comparable T.  Both models (hence, by 1.,   *)
(*    the specification) commute with every injective renaming f of    *)
(*    the elements that fixes the zero value: running the renamed      *)
(*    history gives the renamed answers.  This is what licenses the    *)
(*    harness to run Queue[string], LQueue[struct] ... through an      *)
(*    injective codec int <-> T and to judge the decoded observation   *)
(*    with the Z-model (stream "instances").  All other theorems of    *)
(*    this file are stated over Z only.                                *)
(* ------------------------------------------------------------------ *)

Theorem C05_queue_element_type_indifferent : forall (f : Z -> Z) ops,
  (forall a b, f a = f b -> a = b) -> f 0 = 0 ->
  outs sq_step sq_new (map (qop_map f) ops) = map (qout_map f) (outs sq_step sq_new ops).
Proof. exact sq_equivariant. Qed.
Print Assumptions C05_queue_element_type_indifferent.

Theorem C05_lqueue_element_type_indifferent : forall (f : Z -> Z) t ops,
  (forall a b, f a = f b -> a = b) -> f 0 = 0 ->
  outs lq_step (lq_new (f t)) (map (qop_map f) ops) = map (qout_map f) (outs lq_step (lq_new t) ops).
Proof. exact lq_equivariant. Qed.
Print Assumptions C05_lqueue_element_type_indifferent.

(* ------------------------------------------------------------------ *)
(* Non-vacuity: a concrete history that drains and refills meets the   *)
(* hypotheses, and the invariant is inhabited in its "ghost" state.    *)
(* ------------------------------------------------------------------ *)

Example C05_example_drain_refill :
  let ops := [Dequeue; Dequeue; Enqueue 2; Enqueue 3; Peek; Dequeue; Search 3; Size] in
  no_clear ops /\
  outs lq_step (lq_new 1) ops =
    [ODeq false 1; ODeq false 0; ONone; ONone; OVal 2; ODeq false 2; OBool true; OSize 1] /\
  lq_served (lq_new 1) ops = [1; 2] /\
  lq_size (state_after lq_step (lq_new 1) [Dequeue]) = 0 /\
  lq_mem (state_after lq_step (lq_new 1) [Dequeue]) <> [].
Proof. vm_compute. repeat split; congruence. Qed.

(* Clear on a queue holding three elements, then refill: the cleared elements
   are gone for Dequeue, Peek and Search; the history splits as pre ++ Clear :: suf
   with no_clear suf, so C05_lqueue_size_since_last_clear applies non-vacuously *)
Example C05_example_clear_refill :
  let pre := [Enqueue 2; Enqueue 3] in
  let suf := [Size; Dequeue; Enqueue 4; Enqueue 5; Search 2; Search 3; Search 1; Peek; Dequeue] in
  no_clear suf /\
  outs lq_step (lq_new 1) (pre ++ Clear :: suf ++ [Size; Dequeue; Size; Dequeue]) =
    [ONone; ONone; ONone; OSize 0; ODeq false 0; ONone; ONone; OBool false; OBool false; OBool false;
     OVal 4; ODeq false 4; OSize 1; ODeq false 5; OSize 0; ODeq false 0] /\
  lq_served (state_after lq_step (lq_new 1) (pre ++ [Clear])) suf = [4] /\
  outs sq_step sq_new ([Enqueue 1] ++ pre ++ Clear :: suf ++ [Size; Dequeue; Size; Dequeue]) =
    [ONone; ONone; ONone; ONone; OSize 0; ODeq true 0; ONone; ONone; OBool false; OBool false; OBool false;
     OVal 4; ODeq false 4; OSize 1; ODeq false 5; OSize 0; ODeq true 0].
Proof. vm_compute. repeat split; reflexivity. Qed.

(* the hypotheses on f are satisfiable by a non-identity renaming *)
Example C05_example_renaming :
  let f := fun x => 2 * x in
  (forall a b, f a = f b -> a = b) /\ f 0 = 0 /\
  outs lq_step (lq_new (f 1)) (map (qop_map f) [Enqueue 2; Search 2; Dequeue; Peek]) =
    [ONone; OBool true; ODeq false 2; OVal 4].
Proof. cbn beta zeta. split; [intros a b H; lia|]. split; reflexivity. Qed.
