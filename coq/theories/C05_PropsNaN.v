(* C05_PropsNaN.v — property C05 ("Queues deliver elements first-in first-out
   without loss") over element types whose `==` is NOT the identity of values:
   float64 (NaN != NaN, -0 == +0), structs with float fields, `any` holding NaN
   or values of uncomparable dynamic types.  Extension of C05_Props.v (brief
   nan0506); only statements here, each closed by [exact] of a lemma of
   C05_ProofsNaN.v and followed by Print Assumptions.

   Setting (C05_ModelNaN.v).  Elements are named by integers, the zero value by
   0, and Go's `==` on the element type is an ARBITRARY function

        eqv : Z -> Z -> bool

   — every theorem below is quantified over it and assumes NOTHING about it (not
   reflexive: NaN; not the identity: -0 and +0).  [gsq_step eqv] / [glq_step eqv]
   are the two queues with the two comparing loops (Queue.Search, DList.Find)
   transcribed over [eqv]; no other method of queue.go / lqueue.go / dlist.go
   (as called by the queues) compares elements, so the other operations ARE the
   steps of C05_Model.v.  [gfifo_step eqv] is the specification: the functional
   FIFO whose Search answers "some held element is == the argument".

   How the clauses read when `==` is not the identity:
     * order / exactly once / without loss / Peek / Size / Clear / Dequeue on
       empty do not mention `==`: they are stated as in C05_Props.v, about the
       very VALUES (codes) that were enqueued — a NaN comes out where it went in,
       and -0 comes out as -0, not as +0;
     * "Search reports exactly the elements currently held" is membership UP TO
       `==`: Search x is true iff some held y has y == x.  Hence Search never
       finds a value that is not equal to itself even while it is held
       (C05_nan_search_never_finds_irreflexive), and Search(+0) finds a held -0.

   Uncomparable dynamic types inside an `any`: [eqv] is total; a history in
   which Go's `==` itself panics (Search for a slice on a queue that holds a
   slice) is outside the model — that panic is the language's, happens in the
   unchanged code, and the generator keeps such cases out (harness/c05_nan.go). *)

From Gogu Require Import Base C05_DList C05_Model C05_Proofs C05_ModelNaN C05_ProofsNaN.
Local Open Scope Z_scope.

(* ------------------------------------------------------------------ *)
(* 0. Conservativity: at eqv := Z.eqb the generic models and the       *)
(*    generic specification ARE those of C05_Model.v, step by step —   *)
(*    the theorems of C05_Props.v are about the same code.             *)
(* ------------------------------------------------------------------ *)

Theorem C05_nan_conservative :
  (forall q o, gsq_step Z.eqb q o = sq_step q o) /\
  (forall q o, glq_step Z.eqb q o = lq_step q o) /\
  (forall l o, gfifo_step Z.eqb l o = fifo_step l o).
Proof. exact nan_conservative. Qed.
Print Assumptions C05_nan_conservative.

(* and for EVERY equality, everything but the answers of Search is what the
   Z-models of C05_Model.v produce: same contents, same results with the Search
   answers blanked ([blind]) — the equality can influence nothing else *)
Theorem C05_nan_only_search_depends_on_eq : forall eqv t ops,
  state_after (gsq_step eqv) sq_new ops = state_after sq_step sq_new ops /\
  map blind (outs (gsq_step eqv) sq_new ops) = map blind (outs sq_step sq_new ops) /\
  map blind (outs (glq_step eqv) (lq_new t) ops) = map blind (outs lq_step (lq_new t) ops).
Proof.
  intros eqv t ops. destruct (gsq_blind eqv ops) as [H1 H2].
  split; [exact H1|]. split; [exact H2|apply glq_blind].
Qed.
Print Assumptions C05_nan_only_search_depends_on_eq.

(* ------------------------------------------------------------------ *)
(* 1. Refinement: after EVERY history both queues answer exactly like  *)
(*    the functional FIFO over the same `==`.                          *)
(* ------------------------------------------------------------------ *)

Theorem C05_nan_queue_refines_fifo : forall eqv ops,
  run (gsq_step eqv) sq_new ops = run (gfifo_step eqv) [] ops.
Proof. exact gsq_refines. Qed.
Print Assumptions C05_nan_queue_refines_fifo.

Theorem C05_nan_lqueue_refines_fifo : forall eqv t ops,
  outs (glq_step eqv) (lq_new t) ops = map forget_err (outs (gfifo_step eqv) [t] ops) /\
  lq_abs (state_after (glq_step eqv) (lq_new t) ops) (state_after (gfifo_step eqv) [t] ops).
Proof. exact glq_refines. Qed.
Print Assumptions C05_nan_lqueue_refines_fifo.

(* neither model ever panics or runs out of fuel; Size is never negative *)
Theorem C05_nan_queue_outputs_wf : forall eqv ops r,
  In r (outs (gsq_step eqv) sq_new ops) -> out_wf r.
Proof. exact gsq_out_wf. Qed.
Print Assumptions C05_nan_queue_outputs_wf.

Theorem C05_nan_lqueue_outputs_wf : forall eqv t ops r,
  In r (outs (glq_step eqv) (lq_new t) ops) -> out_wf r.
Proof. exact glq_out_wf. Qed.
Print Assumptions C05_nan_lqueue_outputs_wf.

(* ------------------------------------------------------------------ *)
(* 2. The clauses on the specification machine (from any contents l).  *)
(* ------------------------------------------------------------------ *)

(* in order, each exactly once, nothing lost — the values themselves, whatever
   `==` says about them: a NaN enqueued is a NaN served, in its place *)
Theorem C05_nan_fifo_dequeue_order : forall eqv ops l, no_clear ops ->
  l ++ enqueued ops = served (outs (gfifo_step eqv) l ops) ++ state_after (gfifo_step eqv) l ops.
Proof. intros eqv ops l. exact (gfifo_conservation eqv ops l). Qed.
Print Assumptions C05_nan_fifo_dequeue_order.

Theorem C05_nan_fifo_clear_restarts : forall eqv l pre ops,
  outs (gfifo_step eqv) l (pre ++ Clear :: ops) =
    outs (gfifo_step eqv) l pre ++ ONone :: outs (gfifo_step eqv) [] ops /\
  state_after (gfifo_step eqv) l (pre ++ Clear :: ops) = state_after (gfifo_step eqv) [] ops.
Proof. exact gfifo_clear_restarts. Qed.
Print Assumptions C05_nan_fifo_clear_restarts.

(* ------------------------------------------------------------------ *)
(* 3. The clauses on the slice-backed queue.                           *)
(* ------------------------------------------------------------------ *)

Theorem C05_nan_queue_dequeue_order : forall eqv ops, no_clear ops ->
  enqueued ops = served (outs (gsq_step eqv) sq_new ops) ++ state_after (gsq_step eqv) sq_new ops.
Proof. exact gsq_dequeue_order. Qed.
Print Assumptions C05_nan_queue_dequeue_order.

Theorem C05_nan_queue_clear_restarts : forall eqv pre ops,
  outs (gsq_step eqv) sq_new (pre ++ Clear :: ops) =
    outs (gsq_step eqv) sq_new pre ++ ONone :: outs (gsq_step eqv) sq_new ops /\
  state_after (gsq_step eqv) sq_new (pre ++ Clear :: ops) = state_after (gsq_step eqv) sq_new ops.
Proof. exact gsq_clear_restarts. Qed.
Print Assumptions C05_nan_queue_clear_restarts.

(* Peek returns the element the next Dequeue returns — the same VALUE [v] (when
   it is a NaN, Go's == cannot confirm that; the statement is about identity) *)
Theorem C05_nan_queue_peek_is_next : forall eqv ops, exists e v,
  outs (gsq_step eqv) sq_new (ops ++ [Peek; Dequeue]) = outs (gsq_step eqv) sq_new ops ++ [OVal v; ODeq e v].
Proof. exact gsq_peek_is_next. Qed.
Print Assumptions C05_nan_queue_peek_is_next.

Theorem C05_nan_queue_size_counts : forall eqv ops, no_clear ops ->
  outs (gsq_step eqv) sq_new (ops ++ [Size]) =
  outs (gsq_step eqv) sq_new ops ++
  [OSize (Z.of_nat (length (enqueued ops)) - Z.of_nat (length (served (outs (gsq_step eqv) sq_new ops))))].
Proof. exact gsq_size_counts. Qed.
Print Assumptions C05_nan_queue_size_counts.

Theorem C05_nan_queue_size_since_last_clear : forall eqv pre suf, no_clear suf ->
  outs (gsq_step eqv) sq_new (pre ++ Clear :: suf ++ [Size]) =
  outs (gsq_step eqv) sq_new (pre ++ Clear :: suf) ++
  [OSize (Z.of_nat (length (enqueued suf)) - Z.of_nat (length (served (outs (gsq_step eqv) sq_new suf))))].
Proof. exact gsq_size_since_clear. Qed.
Print Assumptions C05_nan_queue_size_since_last_clear.

(* Search after any history: true exactly when some held element is == x *)
Theorem C05_nan_queue_search_exact : forall eqv ops x, exists b,
  outs (gsq_step eqv) sq_new (ops ++ [Search x]) = outs (gsq_step eqv) sq_new ops ++ [OBool b] /\
  (b = true <-> exists y, In y (state_after (gsq_step eqv) sq_new ops) /\ eqv y x = true).
Proof. exact gsq_search_exact. Qed.
Print Assumptions C05_nan_queue_search_exact.

Theorem C05_nan_queue_empty_dequeue_changes_nothing : forall eqv ops,
  outs (gsq_step eqv) sq_new (ops ++ [Size]) = outs (gsq_step eqv) sq_new ops ++ [OSize 0] ->
  gsq_step eqv (state_after (gsq_step eqv) sq_new ops) Dequeue =
    (state_after (gsq_step eqv) sq_new ops, ODeq true 0).
Proof. exact gsq_empty_dequeue. Qed.
Print Assumptions C05_nan_queue_empty_dequeue_changes_nothing.

(* ------------------------------------------------------------------ *)
(* 4. The clauses on the linked queue.                                 *)
(* ------------------------------------------------------------------ *)

(* order, exactly once, without loss — from any represented state; [glq_served]
   = the items handed out by Dequeues executed while Size() <> 0 *)
Theorem C05_nan_lqueue_dequeue_order : forall eqv q l ops, lq_abs q l -> no_clear ops ->
  exists held, lq_abs (state_after (glq_step eqv) q ops) held /\
               l ++ enqueued ops = glq_served eqv q ops ++ held.
Proof. exact glq_dequeue_order_gen. Qed.
Print Assumptions C05_nan_lqueue_dequeue_order.

(* "held" is observable: draining hands out exactly the contents, in order —
   also the elements queued BEHIND a value that is not equal to itself *)
Theorem C05_nan_lqueue_drain : forall eqv q held, lq_abs q held ->
  outs (glq_step eqv) q (repeat Dequeue (length held)) = map (ODeq false) held /\
  lq_size (state_after (glq_step eqv) q (repeat Dequeue (length held))) = 0.
Proof. exact glq_drain. Qed.
Print Assumptions C05_nan_lqueue_drain.

Theorem C05_nan_lqueue_clear_restarts : forall eqv t pre ops,
  outs (glq_step eqv) (lq_new t) (pre ++ Clear :: ops) =
    outs (glq_step eqv) (lq_new t) pre ++ ONone :: map forget_err (outs (gfifo_step eqv) [] ops) /\
  lq_abs (state_after (glq_step eqv) (lq_new t) (pre ++ Clear :: ops)) (state_after (gfifo_step eqv) [] ops).
Proof. exact glq_clear_restarts. Qed.
Print Assumptions C05_nan_lqueue_clear_restarts.

Theorem C05_nan_lqueue_peek_is_next : forall eqv t ops, exists v,
  outs (glq_step eqv) (lq_new t) (ops ++ [Peek; Dequeue]) =
  outs (glq_step eqv) (lq_new t) ops ++ [OVal v; ODeq false v].
Proof. exact glq_peek_is_next. Qed.
Print Assumptions C05_nan_lqueue_peek_is_next.

Theorem C05_nan_lqueue_size_counts : forall eqv q l ops, lq_abs q l -> no_clear ops ->
  outs (glq_step eqv) (state_after (glq_step eqv) q ops) [Size] =
  [OSize (Z.of_nat (length l) + Z.of_nat (length (enqueued ops)) - Z.of_nat (length (glq_served eqv q ops)))].
Proof. exact glq_size_counts. Qed.
Print Assumptions C05_nan_lqueue_size_counts.

Theorem C05_nan_lqueue_size_since_last_clear : forall eqv t pre suf, no_clear suf ->
  outs (glq_step eqv) (lq_new t) (pre ++ Clear :: suf ++ [Size]) =
  outs (glq_step eqv) (lq_new t) (pre ++ Clear :: suf) ++
  [OSize (Z.of_nat (length (enqueued suf)) -
          Z.of_nat (length (glq_served eqv (state_after (glq_step eqv) (lq_new t) (pre ++ [Clear])) suf)))].
Proof. exact glq_size_since_clear. Qed.
Print Assumptions C05_nan_lqueue_size_since_last_clear.

Theorem C05_nan_lqueue_counter_never_negative : forall eqv t ops,
  0 <= lq_size (state_after (glq_step eqv) (lq_new t) ops).
Proof. exact glq_counter_nonneg. Qed.
Print Assumptions C05_nan_lqueue_counter_never_negative.

(* Search after ANY history: true exactly when some element the FIFO holds at
   that point is == x; the contents are untouched (DList.Find rewrites the head) *)
Theorem C05_nan_lqueue_search_exact_after_history : forall eqv t ops x, exists b,
  outs (glq_step eqv) (lq_new t) (ops ++ [Search x]) = outs (glq_step eqv) (lq_new t) ops ++ [OBool b] /\
  (b = true <-> exists y, In y (state_after fifo_step [t] ops) /\ eqv y x = true) /\
  lq_abs (state_after (glq_step eqv) (lq_new t) (ops ++ [Search x])) (state_after fifo_step [t] ops).
Proof. exact glq_search_exact_hist. Qed.
Print Assumptions C05_nan_lqueue_search_exact_after_history.

Theorem C05_nan_lqueue_search_exact : forall eqv q l x, lq_abs q l -> exists b,
  outs (glq_step eqv) q [Search x] = [OBool b] /\ (b = true <-> exists y, In y l /\ eqv y x = true).
Proof. exact glq_search_exact. Qed.
Print Assumptions C05_nan_lqueue_search_exact.

Theorem C05_nan_lqueue_empty_dequeue_changes_nothing : forall eqv q,
  lq_size q = 0 -> glq_step eqv q Dequeue = (q, ODeq false 0).
Proof. exact glq_empty_dequeue. Qed.
Print Assumptions C05_nan_lqueue_empty_dequeue_changes_nothing.

(* ------------------------------------------------------------------ *)
(* 5. What Search means for the unusual values (both queues, through   *)
(*    the specification they refine).                                  *)
(* ------------------------------------------------------------------ *)

(* a value that is equal to nothing (a NaN: eqv y x = false for every y) is
   never found, held or not; a value that equals itself is found when held;
   a value is found through any held value equal to it (+0 through -0) *)
Theorem C05_nan_search_never_finds_irreflexive : forall eqv l x,
  (forall y, eqv y x = false) -> snd (gfifo_step eqv l (Search x)) = OBool false.
Proof.
  intros eqv l x H. cbn [gfifo_step snd]. f_equal. unfold ghas.
  induction l as [|y l IH]; [reflexivity|]. cbn [existsb]. now rewrite H, IH.
Qed.
Print Assumptions C05_nan_search_never_finds_irreflexive.

Theorem C05_nan_search_finds_equal : forall eqv l x y,
  In y l -> eqv y x = true -> snd (gfifo_step eqv l (Search x)) = OBool true.
Proof.
  intros eqv l x y Hin E. cbn [gfifo_step snd]. f_equal. apply ghas_true_iff. eauto.
Qed.
Print Assumptions C05_nan_search_finds_equal.

(* ------------------------------------------------------------------ *)
(* Non-vacuity, at the executable instance [go_eq] (the `==` of the    *)
(* codes the harness uses): the smallest history of the staged change  *)
(* C05-9 — a NaN at the front of the linked queue with two elements    *)
(* behind it — and -0 / +0.                                            *)
(* ------------------------------------------------------------------ *)

Example C05_nan_example_nan_front :
  let ops := [Enqueue 1; Enqueue 2; Search c_nan; Dequeue; Size; Peek; Search 1; Search 2; Dequeue; Dequeue; Dequeue] in
  no_clear ops /\
  outs (glq_step go_eq) (lq_new c_nan) ops =
    [ONone; ONone; OBool false; ODeq false c_nan; OSize 2; OVal 1; OBool true; OBool true;
     ODeq false 1; ODeq false 2; ODeq false 0] /\
  glq_served go_eq (lq_new c_nan) ops = [c_nan; 1; 2] /\
  outs (gsq_step go_eq) sq_new (Enqueue c_nan :: ops) =
    [ONone; ONone; ONone; OBool false; ODeq false c_nan; OSize 2; OVal 1; OBool true; OBool true;
     ODeq false 1; ODeq false 2; ODeq true 0].
Proof. vm_compute. repeat split; reflexivity. Qed.

Example C05_nan_example_negative_zero :
  outs (glq_step go_eq) (lq_new c_nz) [Search 0; Search c_nz; Enqueue 0; Peek; Dequeue; Dequeue; Search 0] =
    [OBool true; OBool true; ONone; OVal c_nz; ODeq false c_nz; ODeq false 0; OBool false] /\
  go_eq c_nan c_nan = false /\ go_eq c_nz 0 = true /\ go_eq c_u1 c_m1 = false /\ go_eq 5 5 = true.
Proof. vm_compute. repeat split; reflexivity. Qed.
