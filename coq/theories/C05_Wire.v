(* C05_Wire.v — wire glue for C05 (no proofs; exercised by the correspondence).

   input    = cfg :: t :: concat [op; arg]
              cfg = impl + 2*inst
              impl 0 = queue.New[T]()          (slice-backed; t ignored)
              impl 1 = queue.NewLinked[T](t)   (linked, mandatory first element t)
              inst 0..2 = the element type T the harness instantiates (int, string,
                          struct{K int; S string}; elements go through an injective
                          codec int <-> T, harness/c05_instances.go).  The model is
                          the same for every inst: the code is generic in T and uses
                          only == on elements, so cfg 0|2|4 and 1|3|5 are one case each.
              inst 3..5 = element types whose == is not the identity of values
                          (float64, struct{X, Y float64}, any; harness/c05_nan.go):
                          the integers are CODES, c_nan / c_nan2 name values that are
                          not equal to themselves, c_nz a second value equal to the
                          zero value, c_u1 / c_u2 / c_m1 values of uncomparable
                          dynamic types (C05_ModelNaN.v).  cfg 6|8|10 and 7|9|11 run
                          the generic models [gsq_step go_eq] / [glq_step go_eq] and
                          are judged by [gfifo_step go_eq].
              op  1 Enqueue arg | 2 Dequeue | 3 Peek | 4 Search arg | 5 Size | 6 Clear
   observed = concat (result of every op) ++ end-of-case observables, where the
              end of a case is: Size (= n), min(n,4096) x Dequeue, Size, Dequeue,
              Size, Peek — all encoded like ordinary ops:
              Enqueue/Clear -> nothing        Dequeue -> [err; item]
              Peek -> [item]  Search -> [0|1]  Size -> [n]
              a Go panic -> [-777; 0] and the case stops there (the model never
              fails: C05_Props, so what would follow is irrelevant).
   harness/c05.go is the mirror. *)

From Gogu Require Import Base C05_DList C05_Model C05_ModelNaN.

Definition dec_op (rec : list Z) : option qop :=
  match rec with
  | [1; a] => Some (Enqueue a)
  | [2; _] => Some Dequeue
  | [3; _] => Some Peek
  | [4; a] => Some (Search a)
  | [5; _] => Some Size
  | [6; _] => Some Clear
  | _ => None
  end.

Fixpoint dec_ops (recs : list (list Z)) : option (list qop) :=
  match recs with
  | [] => Some []
  | r :: recs' =>
      match dec_op r, dec_ops recs' with
      | Some o, Some os => Some (o :: os)
      | _, _ => None
      end
  end.

Definition enc_out (r : qout) : list Z :=
  match r with
  | ONone => []
  | ODeq e v => [if e then 1 else 0; v]
  | OVal v => [v]
  | OBool b => enc_bool b
  | OSize n => [n]
  | OFail k => [-777; k]
  end.

Definition enc_outs (rs : list qout) : list Z := flat_map enc_out rs.

(* the model's observation *)
Definition c05_run (w : list Z) : list Z :=
  match w with
  | cfg :: t :: w' =>
      match dec_ops (chunks 2 w') with
      | Some ops =>
          match cfg with
          | 0 | 2 | 4 => enc_outs (observe sq_step sq_new ops)
          | 1 | 3 | 5 => enc_outs (observe lq_step (lq_new t) ops)
          | 6 | 8 | 10 => enc_outs (observe (gsq_step go_eq) sq_new ops)
          | 7 | 9 | 11 => enc_outs (observe (glq_step go_eq) (lq_new t) ops)
          | _ => wire_error
          end
      | None => wire_error
      end
  | _ => wire_error
  end.

(* the specification's observation: the functional FIFO, started empty (slice)
   or at [t] (linked); the linked variant cannot show the error flag *)
Definition c05_spec (w : list Z) : list Z :=
  match w with
  | cfg :: t :: w' =>
      match dec_ops (chunks 2 w') with
      | Some ops =>
          match cfg with
          | 0 | 2 | 4 => enc_outs (observe fifo_step [] ops)
          | 1 | 3 | 5 => enc_outs (map forget_err (observe fifo_step [t] ops))
          | 6 | 8 | 10 => enc_outs (observe (gfifo_step go_eq) [] ops)
          | 7 | 9 | 11 => enc_outs (map forget_err (observe (gfifo_step go_eq) [t] ops))
          | _ => wire_error
          end
      | None => wire_error
      end
  | _ => wire_error
  end.

Definition c05_agree (w obs : list Z) : bool := zlist_eqb obs (c05_run w).

(* C05 determines every observable uniquely (a deterministic FIFO), so the
   property holds on an observation iff it is the FIFO's.  Judged against the
   SPEC machine [fifo_step], not against the model; C05_Props proves the two
   coincide on every history (after the repair of lqueue.go). *)
Definition c05_holds (w obs : list Z) : bool := zlist_eqb obs (c05_spec w).
