(* C06_Model.v — the two LIFO stacks of /repo/stack, transcribed statement by
   statement, and the functional LIFO they are compared with.

     stack/stack.go   Stack[T]   slice-backed       -> [ss] = list Z (top at the LAST index)
     stack/lstack.go  LStack[T]  DList + counter n  -> [ls] = {node heap; n : Z}
                                 over C05_DList.v — the code AS IT IS: LStack.Pop
                                 returns the element below the top and never
                                 removes the last node (DESIGN §7 #27, pinned by
                                 Example_linkedList, a known finding)

   The element type T is instantiated at Z; its zero value is 0.
   Locking is not modelled here (C01/C02).  No proofs in this file. *)

From Gogu Require Import Base C05_DList C05_Model.

Inductive sop :=
| Push (x : Z)
| Pop
| SPeek
| SSearch (x : Z)
| SSize.

Inductive sout :=
| SNone                       (* Push *)
| SVal (v : Z)                (* Pop, Peek *)
| SBool (b : bool)            (* Search *)
| SInt (n : Z)                (* Size *)
| SFail (k : Z).              (* the model itself panicked (0) / got stuck (98, 99): never happens *)

Definition sfail_of {A} (r : res A) : sout :=
  match r with
  | Ok _ => SNone
  | Err k => SFail k
  | Panic => SFail 0
  end.

(* ======================================================================
   stack/stack.go — slice-backed
   ====================================================================== *)

Definition ss := list Z.

(* func (s *Stack[T]) size() int { return len(s.items) } *)
Definition ss_size (s : ss) : Z := Z.of_nat (length s).

(* s.items = append(s.items, item) *)
Definition ss_push (item : Z) (s : ss) : ss := s ++ [item].

(* if s.size() == 0 { return }
   item = s.items[s.size()-1]
   s.items = s.items[:s.size()-1]                                            *)
Definition ss_pop (s : ss) : res (ss * Z) :=
  if ss_size s =? 0 then Ok (s, 0)
  else
    match nth_error s (Z.to_nat (ss_size s - 1)) with
    | None => Panic                               (* index out of range *)
    | Some item => Ok (firstn (Z.to_nat (ss_size s - 1)) s, item)
    end.

(* len := s.size(); if len == 0 { return }; return s.items[len-1] *)
Definition ss_peek (s : ss) : res Z :=
  let len := ss_size s in
  if len =? 0 then Ok 0
  else
    match nth_error s (Z.to_nat (len - 1)) with
    | None => Panic
    | Some item => Ok item
    end.

(* for i := 0; i < s.size(); i++ { if s.items[i] == item { return true } }
   return false      — the same loop as Queue.Search                         *)
Definition ss_search (item : Z) (s : ss) : res bool :=
  sq_search_loop (length s) 0 s item.

Definition ss_new : ss := [].

Definition ss_step (s : ss) (o : sop) : ss * sout :=
  match o with
  | Push x => (ss_push x s, SNone)
  | Pop =>
      match ss_pop s with
      | Ok (s', v) => (s', SVal v)
      | r => (s, sfail_of r)
      end
  | SPeek =>
      match ss_peek s with
      | Ok v => (s, SVal v)
      | r => (s, sfail_of r)
      end
  | SSearch x =>
      match ss_search x s with
      | Ok b => (s, SBool b)
      | r => (s, sfail_of r)
      end
  | SSize => (s, SInt (ss_size s))
  end.

(* ======================================================================
   stack/lstack.go — linked (unchanged code)
   ====================================================================== *)

Record ls := mkLs { ls_mem : mem; ls_n : Z }.

(* return &LStack[T]{ list: list.InitDList(t), n: 1 } *)
Definition ls_new (t : Z) : ls := mkLs (dl_init t) 1.

(* s.n++
   s.list.Append(item)                                                       *)
Definition ls_push (item : Z) (s : ls) : res ls :=
  let n := ls_n s + 1 in
  do m <- dl_append item (ls_mem s);
  Ok (mkLs m n).

(* node := s.list.Pop()
   if s.n > 0 { s.n-- }
   return s.list.Val(node)                                                   *)
Definition ls_pop (s : ls) : res (ls * Z) :=
  do (m, node) <- dl_pop (ls_mem s);
  let n := if ls_n s >? 0 then ls_n s - 1 else ls_n s in
  do v <- dl_val m (Some node);
  Ok (mkLs m n, v).

(* return s.list.Last() *)
Definition ls_peek (s : ls) : res (ls * Z) :=
  do (m, v) <- dl_last (ls_mem s);
  Ok (mkLs m (ls_n s), v).

(* if _, ok := s.list.Find(item); ok { return true }
   return false                                                              *)
Definition ls_search (item : Z) (s : ls) : res (ls * bool) :=
  do (m, _, ok) <- dl_find item (ls_mem s);
  Ok (mkLs m (ls_n s), if ok then true else false).

(* return s.n *)
Definition ls_size (s : ls) : Z := ls_n s.

Definition ls_step (s : ls) (o : sop) : ls * sout :=
  match o with
  | Push x =>
      match ls_push x s with
      | Ok s' => (s', SNone)
      | r => (s, sfail_of r)
      end
  | Pop =>
      match ls_pop s with
      | Ok (s', v) => (s', SVal v)
      | r => (s, sfail_of r)
      end
  | SPeek =>
      match ls_peek s with
      | Ok (s', v) => (s', SVal v)
      | r => (s, sfail_of r)
      end
  | SSearch x =>
      match ls_search x s with
      | Ok (s', b) => (s', SBool b)
      | r => (s, sfail_of r)
      end
  | SSize => (s, SInt (ls_size s))
  end.

(* ======================================================================
   The specification: a functional LIFO, top at the head of a list
   ====================================================================== *)

Definition lifo_step (l : list Z) (o : sop) : list Z * sout :=
  match o with
  | Push x => (x :: l, SNone)
  | Pop =>
      match l with
      | [] => ([], SVal 0)                        (* zero value, changes nothing *)
      | x :: l' => (l', SVal x)
      end
  | SPeek => (l, SVal (hd 0 l))
  | SSearch x => (l, SBool (existsb (Z.eqb x) l))
  | SSize => (l, SInt (Z.of_nat (length l)))
  end.

(* ======================================================================
   What the linked stack really does, in terms of the LIFO state (proved in
   C06_Props.lstack_partial to be EXACTLY the behaviour of [ls_step]):
   the state is the LIFO contents [l] (top first) plus [ghost], the value of a
   bottom node that a Pop of the last element failed to remove.
     - Pop removes the top like the LIFO does — but RETURNS the element below
       it (the ghost if there is one and nothing else is below; the zero value
       otherwise); popping the last element leaves its node behind as a ghost;
     - with a ghost, Peek on the empty stack returns the ghost and Search
       finds the ghost's value; Size is always the LIFO's.
   ====================================================================== *)

Definition lsd := (list Z * option Z)%type.

Definition lsd_step (s : lsd) (o : sop) : lsd * sout :=
  let '(l, ghost) := s in
  let below := match ghost with Some g => [g] | None => [] end in
  match o with
  | Push x => ((x :: l, ghost), SNone)
  | Pop =>
      match l with
      | [] => (s, SVal 0)
      | x :: l' =>
          match l' ++ below with
          | y :: _ => ((l', ghost), SVal y)
          | [] => (([], Some x), SVal 0)          (* the last node stays: a ghost *)
          end
      end
  | SPeek => (s, SVal (hd 0 (l ++ below)))
  | SSearch x => (s, SBool (existsb (Z.eqb x) (l ++ below)))
  | SSize => (s, SInt (Z.of_nat (length l)))
  end.

(* ======================================================================
   What one test case observes: the result of every operation, then Size,
   then that many Pops, then Size, Pop, Size, Peek on the emptied stack.
   ====================================================================== *)

Definition stail_ops (n : Z) : list sop :=
  repeat Pop (Z.to_nat (Z.min n drain_cap)) ++ [SSize; Pop; SSize; SPeek].

Section Observe.
  Context {S : Type}.
  Variable step : S -> sop -> S * sout.

  Definition sobserve (s : S) (ops : list sop) : list sout :=
    let '(s1, o1) := run step s (ops ++ [SSize]) in
    let n := match last o1 SNone with SInt n => n | _ => 0 end in
    o1 ++ outs step s1 (stail_ops n).
End Observe.
