(* C06_ModelNaN.v — the two stacks of /repo/stack over element types whose `==`
   is not the identity of values (float64 with NaN and -0, structs with float
   fields, `any` holding NaN or values of uncomparable dynamic types).  Read the
   header of C05_ModelNaN.v first: elements are integer codes, Go's `==` on the
   element type is a parameter [eqv : Z -> Z -> bool] about which nothing is
   assumed, the zero value has code 0.

   In stack/stack.go, stack/lstack.go and the DList methods they call exactly
   two lines compare elements (source at /repo 1b07b96):

        stack.go   Search:   if s.items[i] == item { return true }
        dlist.go   Find:     if n.Value == val { return n, true }     (LStack.Search)

   Push, Pop, Peek, Size, DList.Append / Pop / Last / Val never compare two
   elements.  The step functions [gss_step] / [gls_step] use the generic loops of
   C05_ModelNaN.v for Search and ARE [ss_step] / [ls_step] otherwise.  At
   [eqv := Z.eqb] they are the models of C06_Model.v (C06_nan_conservative).

   No proofs in this file. *)

From Gogu Require Import Base C05_DList C05_Model C05_ModelNaN C06_Model.
Local Open Scope Z_scope.

Section GenericEq.
  Variable eqv : Z -> Z -> bool.

  (* ---------- stack/stack.go  Search ----------
     for i := 0; i < s.size(); i++ { if s.items[i] == item { return true } }
     return false                — the same loop as Queue.Search               *)
  Definition gss_search (item : Z) (s : ss) : res bool :=
    gsq_search_loop eqv (length s) 0 s item.

  Definition gss_step (s : ss) (o : sop) : ss * sout :=
    match o with
    | SSearch x =>
        match gss_search x s with
        | Ok b => (s, SBool b)
        | r => (s, sfail_of r)
        end
    | _ => ss_step s o                  (* no comparison of elements in the other methods *)
    end.

  (* ---------- stack/lstack.go  Search ----------
     if _, ok := s.list.Find(item); ok { return true }
     return false                                                            *)
  Definition gls_search (item : Z) (s : ls) : res (ls * bool) :=
    do (m, _, ok) <- gdl_find eqv item (ls_mem s);
    Ok (mkLs m (ls_n s), if ok then true else false).

  Definition gls_step (s : ls) (o : sop) : ls * sout :=
    match o with
    | SSearch x =>
        match gls_search x s with
        | Ok (s', b) => (s', SBool b)
        | r => (s, sfail_of r)
        end
    | _ => ls_step s o                  (* no comparison of elements in the other methods *)
    end.

  (* ---------- the specification: the functional LIFO; Search x is true iff
     some held element is == x ---------- *)
  Definition glifo_step (l : list Z) (o : sop) : list Z * sout :=
    match o with
    | SSearch x => (l, SBool (ghas eqv x l))
    | _ => lifo_step l o
    end.

  (* ---------- what the linked stack really does (C06_Model.lsd_step, the known
     finding KF-C06-lstack-pop) with Search under [eqv]: it sees the contents
     followed by the ghost ---------- *)
  Definition glsd_step (s : lsd) (o : sop) : lsd * sout :=
    match o with
    | SSearch x =>
        let '(l, ghost) := s in
        let below := match ghost with Some g => [g] | None => [] end in
        (s, SBool (ghas eqv x (l ++ below)))
    | _ => lsd_step s o
    end.
End GenericEq.
