(* C06_Proofs.v — lemmas for C06.

   §1 slice stack = LIFO (the slice is the LIFO list reversed: top at the end)
   §2 linked stack = the machine [lsd_step] of C06_Model ("LIFO whose Pop
      returns the element below the top and whose last node survives")
   §3 [lsd_step] against the LIFO: what still holds
   §4 the statements of C06_Props *)

From Gogu Require Import Base C05_DList C05_Model C05_Proofs C06_Model.
Local Open Scope Z_scope.

(* ====================================================================== *)
(* §1  slice-backed stack                                                  *)
(* ====================================================================== *)

Lemma has_rev x l : has x (rev l) = has x l.
Proof.
  unfold has. induction l as [|y l IH]; [reflexivity|].
  cbn [rev existsb]. rewrite existsb_app, IH. cbn [existsb]. rewrite orb_false_r. apply orb_comm.
Qed.

Lemma ss_step_lifo l o :
  ss_step (rev l) o = (rev (fst (lifo_step l o)), snd (lifo_step l o)).
Proof.
  destruct o as [x| | |x|]; cbn [ss_step lifo_step fst snd].
  - reflexivity.
  - unfold ss_pop, ss_size. rewrite rev_length. destruct l as [|y l]; [reflexivity|].
    replace (Z.of_nat (length (y :: l)) =? 0) with false by (symmetry; apply Z.eqb_neq; cbn [length]; lia).
    replace (Z.to_nat (Z.of_nat (length (y :: l)) - 1)) with (length (rev l)) by (rewrite rev_length; cbn [length]; lia).
    cbn [rev]. rewrite nth_error_app2 by lia. rewrite Nat.sub_diag. cbn [nth_error].
    rewrite firstn_app, Nat.sub_diag, firstn_all. cbn [firstn]. now rewrite app_nil_r.
  - unfold ss_peek, ss_size. rewrite rev_length. destruct l as [|y l]; [reflexivity|].
    replace (Z.of_nat (length (y :: l)) =? 0) with false by (symmetry; apply Z.eqb_neq; cbn [length]; lia).
    replace (Z.to_nat (Z.of_nat (length (y :: l)) - 1)) with (length (rev l)) by (rewrite rev_length; cbn [length]; lia).
    cbn [rev]. rewrite nth_error_app2 by lia. rewrite Nat.sub_diag. reflexivity.
  - unfold ss_search. pose proof (sq_search_loop_spec x (rev l) []) as H. cbn [length app] in H.
    rewrite H. now rewrite has_rev.
  - unfold ss_size. now rewrite rev_length.
Qed.

Lemma ss_run_lifo l ops :
  state_after ss_step (rev l) ops = rev (state_after lifo_step l ops) /\
  outs ss_step (rev l) ops = outs lifo_step l ops.
Proof.
  destruct (sim_run ss_step lifo_step (fun s l => s = rev l) (fun r => r)) with (s1 := rev l) (s2 := l) (ops := ops)
    as [H1 H2]; [|reflexivity|].
  - intros s1 s2 o ->. rewrite ss_step_lifo. cbn [fst snd]. auto.
  - split; [exact H1|]. rewrite H2. apply map_id.
Qed.

(* ====================================================================== *)
(* §2  linked stack = lsd machine                                          *)
(* ====================================================================== *)

Definition below_of (g : option Z) : list Z := match g with Some x => [x] | None => [] end.

(* the chain spells: ghost (if any), then the LIFO contents bottom-up *)
Definition ls_abs (s : ls) (d : lsd) : Prop :=
  ls_n s = Z.of_nat (length (fst d)) /\
  dl_repr (ls_mem s) (rev (fst d ++ below_of (snd d))).

Lemma dl_repr_nonempty m : ~ dl_repr m [].
Proof. intros (v & rest & H & _). discriminate. Qed.

Lemma last_rev_hd (u : list Z) : last (rev u) 0 = hd 0 u.
Proof. destruct u as [|x u]; [reflexivity|]. cbn [rev hd]. apply last_last. Qed.

Lemma ls_new_abs t : ls_abs (ls_new t) ([t], None).
Proof. split; [reflexivity|]. apply dl_init_repr. Qed.

Lemma ls_step_lsd s d o : ls_abs s d ->
  ls_abs (fst (ls_step s o)) (fst (lsd_step d o)) /\
  snd (ls_step s o) = snd (lsd_step d o).
Proof.
  destruct d as [l g]. intros [Hn Hrepr]. cbn [fst snd] in Hn, Hrepr.
  destruct o as [x| | |x|]; cbn [ls_step lsd_step];
    try change (match g with Some g0 => [g0] | None => [] end) with (below_of g).
  - (* Push *)
    unfold ls_push. destruct (dl_append_spec _ _ x Hrepr) as (m' & Hm' & Hr').
    rewrite Hm'. cbn [bind fst snd]. split; [|reflexivity]. split.
    + cbn [ls_n fst length]. lia.
    + cbn [ls_mem fst snd app rev]. exact Hr'.
  - (* Pop *)
    unfold ls_pop. destruct l as [|x l'].
    + (* logically empty: only a ghost can be there; nothing is removed *)
      destruct g as [gv|]; [|exfalso; exact (dl_repr_nonempty _ Hrepr)].
      cbn [app below_of rev] in Hrepr.
      destruct (dl_pop_single _ _ Hrepr) as (m' & node & Hp & Hnode & Hr').
      rewrite Hp. cbn [bind]. rewrite (dl_val_spec _ _ _ _ _ Hnode). cbn [bind fst snd].
      split; [|reflexivity]. split.
      * cbn [ls_n fst length] in *. rewrite Hn. reflexivity.
      * exact Hr'.
    + cbn [app rev] in Hrepr.
      destruct (l' ++ below_of g) as [|y t] eqn:E.
      * (* the last element: its node is not removed and becomes the ghost *)
        cbn [rev app] in Hrepr.
        destruct (dl_pop_single _ _ Hrepr) as (m' & node & Hp & Hnode & Hr').
        rewrite Hp. cbn [bind]. rewrite (dl_val_spec _ _ _ _ _ Hnode). cbn [bind fst snd].
        apply app_eq_nil in E as [-> _].
        split; [|reflexivity]. split.
        -- cbn [ls_n fst length] in *. rewrite Hn. reflexivity.
        -- exact Hr'.
      * (* at least two nodes: the top is cut off, the one below is returned *)
        cbn [rev] in Hrepr. rewrite <- app_assoc in Hrepr. cbn [app] in Hrepr.
        destruct (dl_pop_many _ _ _ _ Hrepr) as (m' & node & p & q & Hp & Hnode & Hr').
        rewrite Hp. cbn [bind]. rewrite (dl_val_spec _ _ _ _ _ Hnode). cbn [bind fst snd].
        split; [|reflexivity]. split.
        -- cbn [ls_n fst length] in *. rewrite Hn.
           replace (Z.of_nat (S (length l')) >? 0) with true by (symmetry; apply Z.gtb_lt; lia). lia.
        -- cbn [ls_mem fst snd]. rewrite E. exact Hr'.
  - (* Peek *)
    unfold ls_peek. rewrite (dl_last_spec _ _ Hrepr). cbn [bind fst snd].
    rewrite last_rev_hd. split; [|reflexivity]. destruct s; split; assumption.
  - (* Search *)
    unfold ls_search. destruct (dl_find_spec _ _ x Hrepr) as (r & Hf). rewrite Hf. cbn [bind fst snd].
    rewrite has_rev. unfold has.
    split; [|destruct (existsb (Z.eqb x) (l ++ below_of g)); reflexivity].
    destruct s; split; assumption.
  - (* Size *)
    cbn [fst snd]. unfold ls_size. split; [|now rewrite Hn]. split; assumption.
Qed.

Lemma ls_run_lsd s d ops : ls_abs s d ->
  ls_abs (state_after ls_step s ops) (state_after lsd_step d ops) /\
  outs ls_step s ops = outs lsd_step d ops.
Proof.
  intros H.
  destruct (sim_run ls_step lsd_step ls_abs (fun r => r)) with (s1 := s) (s2 := d) (ops := ops) as [H1 H2].
  - intros s1 s2 o. apply ls_step_lsd.
  - exact H.
  - split; [exact H1|]. rewrite H2. apply map_id.
Qed.

(* ====================================================================== *)
(* §3  the lsd machine against the LIFO                                    *)
(* ====================================================================== *)

(* one step: the contents evolve exactly like the LIFO's (so the element
   REMOVED by Pop is the top, and Size is right); results agree except where
   stated *)
Lemma lsd_vs_lifo l g o :
  fst (fst (lsd_step (l, g) o)) = fst (lifo_step l o) /\
  match o with
  | Push _ | SSize => snd (lsd_step (l, g) o) = snd (lifo_step l o)
  | SPeek => l <> [] -> snd (lsd_step (l, g) o) = snd (lifo_step l o)
  | SSearch x => g <> Some x -> snd (lsd_step (l, g) o) = snd (lifo_step l o)
  | Pop => snd (lsd_step (l, g) Pop) = SVal (hd 0 (tl (l ++ below_of g)))
  end.
Proof.
  destruct o as [x| | |x|]; cbn [lsd_step lifo_step fst snd];
    try change (match g with Some g0 => [g0] | None => [] end) with (below_of g).
  - auto.
  - destruct l as [|x l']; cbn [app tl fst snd].
    + split; [reflexivity|]. destruct g; reflexivity.
    + destruct (l' ++ below_of g) as [|y t] eqn:E; cbn [fst snd hd]; split; try reflexivity.
      apply app_eq_nil in E as [-> _]. reflexivity.
  - split; [reflexivity|]. intros Hl. destruct l; [congruence|reflexivity].
  - split; [reflexivity|]. intros Hg. rewrite existsb_app.
    destruct g as [gv|]; cbn [below_of existsb]; [|now rewrite orb_false_r].
    replace (x =? gv) with false; [now rewrite !orb_false_r|].
    symmetry. apply Z.eqb_neq. congruence.
  - auto.
Qed.

Lemma lsd_state_lifo ops : forall d,
  fst (state_after lsd_step d ops) = state_after lifo_step (fst d) ops.
Proof.
  induction ops as [|o ops IH]; intros [l g]; [reflexivity|].
  rewrite !state_after_cons, IH. f_equal.
  destruct (lsd_step (l, g) o) as [[l1 g1] r] eqn:E.
  pose proof (proj1 (lsd_vs_lifo l g o)) as H. rewrite E in H. exact H.
Qed.

(* the ghost, once there, is the stack's very first element, for ever *)
Definition lsd_inv (t : Z) (d : lsd) : Prop :=
  (snd d = None /\ exists l0, fst d = l0 ++ [t]) \/ snd d = Some t.

Lemma lsd_inv_step t d o : lsd_inv t d -> lsd_inv t (fst (lsd_step d o)).
Proof.
  destruct d as [l g]. unfold lsd_inv. cbn [fst snd].
  destruct o as [x| | |x|]; cbn [lsd_step fst snd]; auto;
    try change (match g with Some g0 => [g0] | None => [] end) with (below_of g).
  - intros [[-> (l0 & ->)]| ->]; [left|now right].
    split; [reflexivity|]. exists (x :: l0). reflexivity.
  - intros [[-> (l0 & ->)]| ->].
    + cbn [below_of]. destruct l0 as [|x l0]; cbn [app].
      * right. reflexivity.
      * rewrite app_nil_r. destruct (l0 ++ [t]) eqn:E; [destruct l0; discriminate|].
        cbn [fst snd]. left. split; [reflexivity|]. exists l0. now rewrite <- E.
    + destruct l as [|x l']; cbn [fst snd]; [now right|].
      destruct (l' ++ below_of (Some t)) eqn:E; cbn [fst snd]; [|now right].
      apply app_eq_nil in E as [_ E]. discriminate.
Qed.

Lemma lsd_inv_run t ops : forall d, lsd_inv t d -> lsd_inv t (state_after lsd_step d ops).
Proof.
  induction ops as [|o ops IH]; intros d H; [exact H|].
  rewrite state_after_cons. apply IH. now apply lsd_inv_step.
Qed.

(* well-formed outputs *)
Definition sout_wf (r : sout) : Prop :=
  match r with
  | SInt n => 0 <= n
  | SFail _ => False
  | _ => True
  end.

Lemma lifo_out_wf ops : forall l r, In r (outs lifo_step l ops) -> sout_wf r.
Proof.
  induction ops as [|o ops IH]; intros l r Hin; [destruct Hin|].
  rewrite outs_cons in Hin. destruct Hin as [<-|Hin]; [|eauto].
  destruct o; cbn; auto; try lia. destruct l; exact I.
Qed.

Lemma lsd_out_wf ops : forall d r, In r (outs lsd_step d ops) -> sout_wf r.
Proof.
  induction ops as [|o ops IH]; intros [l g] r Hin; [destruct Hin|].
  rewrite outs_cons in Hin. destruct Hin as [<-|Hin]; [|eauto].
  destruct o; cbn; auto; try lia.
  destruct l as [|x l']; [exact I|]. destruct (l' ++ _); exact I.
Qed.

(* ====================================================================== *)
(* §4  the statements of C06_Props                                         *)
(* ====================================================================== *)

(* ---- slice ---- *)

Lemma ss_refines ops :
  outs ss_step ss_new ops = outs lifo_step [] ops /\
  state_after ss_step ss_new ops = rev (state_after lifo_step [] ops).
Proof. destruct (ss_run_lifo [] ops) as [H1 H2]. cbn [rev] in *. auto. Qed.

Lemma ss_out_wf ops r : In r (outs ss_step ss_new ops) -> sout_wf r.
Proof. rewrite (proj1 (ss_refines ops)). apply lifo_out_wf. Qed.

(* any state of the slice stack is the reverse of a LIFO state *)
Lemma ss_outs_any s ops : outs ss_step s ops = outs lifo_step (rev s) ops.
Proof. rewrite <- (rev_involutive s) at 1. apply ss_run_lifo. Qed.
Lemma ss_state_any s ops : state_after ss_step s ops = rev (state_after lifo_step (rev s) ops).
Proof. rewrite <- (rev_involutive s) at 1. apply ss_run_lifo. Qed.

(* Push x; Pop hands x back and restores the stack *)
Lemma ss_push_pop ops x :
  outs ss_step ss_new (ops ++ [Push x; Pop]) = outs ss_step ss_new ops ++ [SNone; SVal x] /\
  state_after ss_step ss_new (ops ++ [Push x; Pop]) = state_after ss_step ss_new ops.
Proof.
  rewrite outs_app, state_after_app.
  set (s := state_after ss_step ss_new ops).
  rewrite (ss_outs_any s), (ss_state_any s). split; [reflexivity|].
  unfold state_after. cbn. apply rev_involutive.
Qed.

Lemma ss_peek_is_top ops : exists v,
  outs ss_step ss_new (ops ++ [SPeek; Pop]) = outs ss_step ss_new ops ++ [SVal v; SVal v].
Proof.
  rewrite outs_app. set (s := state_after ss_step ss_new ops). rewrite (ss_outs_any s).
  destruct (rev s) as [|x l]; [exists 0|exists x]; reflexivity.
Qed.

Lemma ss_search_exact ops x : exists b,
  outs ss_step ss_new (ops ++ [SSearch x]) = outs ss_step ss_new ops ++ [SBool b] /\
  (b = true <-> In x (state_after ss_step ss_new ops)).
Proof.
  rewrite outs_app. set (s := state_after ss_step ss_new ops). rewrite (ss_outs_any s).
  exists (existsb (Z.eqb x) (rev s)). split; [reflexivity|].
  rewrite existsb_exists. split.
  - intros (y & Hy & E). apply Z.eqb_eq in E. subst. now apply in_rev.
  - intros H. exists x. split; [now apply in_rev in H|apply Z.eqb_refl].
Qed.

Definition pushed (ops : list sop) : nat :=
  length (filter (fun o => match o with Push _ => true | _ => false end) ops).

(* Pops executed while Size() was not 0 — the "successful" ones *)
Fixpoint ss_pops (s : ss) (ops : list sop) : nat :=
  match ops with
  | [] => O
  | o :: ops' =>
      ((match o with Pop => if (ss_size s =? 0)%Z then 0 else 1 | _ => 0 end) +
       ss_pops (fst (ss_step s o)) ops')%nat
  end.

Lemma ss_size_counts_gen ops : forall s,
  (length (state_after ss_step s ops) + ss_pops s ops = length s + pushed ops)%nat.
Proof.
  induction ops as [|o ops IH]; intros s; [cbn; lia|].
  rewrite state_after_cons. cbn [ss_pops]. specialize (IH (fst (ss_step s o))).
  assert (Hstep : (length (fst (ss_step s o)) +
                   match o with Pop => if (ss_size s =? 0)%Z then 0 else 1 | _ => 0 end =
                   length s + match o with Push _ => 1 | _ => 0 end)%nat).
  { pose proof (ss_step_lifo (rev s) o) as Hs. rewrite rev_involutive in Hs. rewrite Hs. cbn [fst].
    unfold ss_size. rewrite rev_length, <- (rev_length s). generalize (rev s) as l. intros l.
    destruct o; cbn [lifo_step fst]; try (cbn [length]; lia).
    destruct l as [|y l]; cbn [length fst]; [reflexivity|].
    replace (Z.of_nat (S (length l)) =? 0) with false by (symmetry; apply Z.eqb_neq; lia). lia. }
  unfold pushed in *. cbn [filter]. destruct o; cbn [length] in *; lia.
Qed.

Lemma ss_size_counts ops :
  outs ss_step ss_new (ops ++ [SSize]) =
  outs ss_step ss_new ops ++ [SInt (Z.of_nat (pushed ops) - Z.of_nat (ss_pops ss_new ops))].
Proof.
  rewrite outs_app. f_equal. unfold outs. cbn. unfold ss_size.
  pose proof (ss_size_counts_gen ops ss_new) as H. cbn [length ss_new] in H.
  f_equal. f_equal. lia.
Qed.

Lemma ss_empty_changes_nothing ops :
  outs ss_step ss_new (ops ++ [SSize]) = outs ss_step ss_new ops ++ [SInt 0] ->
  ss_step (state_after ss_step ss_new ops) Pop = (state_after ss_step ss_new ops, SVal 0) /\
  ss_step (state_after ss_step ss_new ops) SPeek = (state_after ss_step ss_new ops, SVal 0).
Proof.
  rewrite outs_app. intros H. apply app_inv_head in H.
  destruct (state_after ss_step ss_new ops) as [|y s]; [split; reflexivity|].
  unfold outs in H. cbn in H. injection H as H. lia.
Qed.

(* ---- linked ---- *)

Lemma ls_partial t ops :
  outs ls_step (ls_new t) ops = outs lsd_step ([t], None) ops /\
  ls_abs (state_after ls_step (ls_new t) ops) (state_after lsd_step ([t], None) ops) /\
  fst (state_after lsd_step ([t], None) ops) = state_after lifo_step [t] ops /\
  lsd_inv t (state_after lsd_step ([t], None) ops).
Proof.
  destruct (ls_run_lsd (ls_new t) ([t], None) ops (ls_new_abs t)) as [H1 H2].
  split; [exact H2|]. split; [exact H1|]. split.
  - apply (lsd_state_lifo ops ([t], None)).
  - apply lsd_inv_run. left. split; [reflexivity|]. exists []. reflexivity.
Qed.

Lemma ls_out_wf t ops r : In r (outs ls_step (ls_new t) ops) -> sout_wf r.
Proof. rewrite (proj1 (ls_partial t ops)). apply lsd_out_wf. Qed.

(* Size of the linked stack is the LIFO's after every history *)
Lemma ls_size_lifo t ops :
  outs ls_step (ls_new t) (ops ++ [SSize]) =
  outs ls_step (ls_new t) ops ++ [SInt (Z.of_nat (length (state_after lifo_step [t] ops)))].
Proof.
  rewrite outs_app. f_equal.
  destruct (ls_partial t ops) as (_ & [Hn _] & Hl & _).
  unfold outs. cbn. unfold ls_size. now rewrite Hn, Hl.
Qed.

(* ---- history-level corollaries for the linked stack ---- *)

(* the state reached by a history, seen through the three machines *)
Lemma ls_reach t ops :
  exists g,
    ls_abs (state_after ls_step (ls_new t) ops) (state_after lifo_step [t] ops, g) /\
    (g = None \/ g = Some t) /\
    (state_after lifo_step [t] ops = [] -> g = Some t).
Proof.
  destruct (ls_partial t ops) as (_ & Habs & Hl & Hinv).
  destruct (state_after lsd_step ([t], None) ops) as [l g] eqn:E. cbn [fst snd] in *. subst l.
  exists g. split; [exact Habs|]. unfold lsd_inv in Hinv. cbn [fst snd] in Hinv.
  destruct Hinv as [[-> (l0 & Hl0)]| ->].
  - split; [now left|]. intros Hnil. rewrite Hnil in Hl0. destruct l0; discriminate.
  - split; [now right|]. reflexivity.
Qed.

Lemma ls_outs_from t ops ops' g :
  ls_abs (state_after ls_step (ls_new t) ops) (state_after lifo_step [t] ops, g) ->
  outs ls_step (ls_new t) (ops ++ ops') =
  outs ls_step (ls_new t) ops ++ outs lsd_step (state_after lifo_step [t] ops, g) ops'.
Proof.
  intros Habs. rewrite outs_app. f_equal. exact (proj2 (ls_run_lsd _ _ ops' Habs)).
Qed.

(* Pops executed while Size() was not 0 — the "successful" ones *)
Fixpoint ls_pops (s : ls) (ops : list sop) : nat :=
  match ops with
  | [] => O
  | o :: ops' =>
      ((match o with Pop => if (ls_size s =? 0)%Z then 0 else 1 | _ => 0 end) +
       ls_pops (fst (ls_step s o)) ops')%nat
  end.

Lemma ls_size_counts_gen ops : forall s d, ls_abs s d ->
  (length (fst (state_after lsd_step d ops)) + ls_pops s ops = length (fst d) + pushed ops)%nat.
Proof.
  induction ops as [|o ops IH]; intros s d Habs; [cbn; lia|].
  rewrite state_after_cons. cbn [ls_pops].
  destruct (ls_step_lsd s d o Habs) as [Habs' _].
  specialize (IH _ _ Habs').
  destruct d as [l g]. destruct Habs as [Hn _]. cbn [fst] in Hn.
  pose proof (proj1 (lsd_vs_lifo l g o)) as Hc.
  assert (Hstep : (length (fst (fst (lsd_step (l, g) o))) +
                   match o with Pop => if (ls_size s =? 0)%Z then 0 else 1 | _ => 0 end =
                   length l + match o with Push _ => 1 | _ => 0 end)%nat).
  { rewrite Hc. unfold ls_size. rewrite Hn.
    destruct o; cbn [lifo_step fst]; try (cbn [length]; lia).
    destruct l as [|y l]; cbn [length fst]; [reflexivity|].
    replace (Z.of_nat (S (length l)) =? 0) with false by (symmetry; apply Z.eqb_neq; lia). lia. }
  cbn [fst]. unfold pushed in *. cbn [filter]. destruct o; cbn [length] in *; lia.
Qed.

(* Size = 1 (the mandatory first element) + pushes - successful pops *)
Lemma ls_size_counts t ops :
  outs ls_step (ls_new t) (ops ++ [SSize]) =
  outs ls_step (ls_new t) ops ++ [SInt (1 + Z.of_nat (pushed ops) - Z.of_nat (ls_pops (ls_new t) ops))].
Proof.
  rewrite ls_size_lifo. f_equal. f_equal. f_equal.
  pose proof (ls_size_counts_gen ops _ _ (ls_new_abs t)) as H.
  rewrite (lsd_state_lifo ops ([t], None)) in H. cbn [fst length] in H. lia.
Qed.

(* the counter field itself is never negative *)
Lemma ls_counter_nonneg t ops : 0 <= ls_size (state_after ls_step (ls_new t) ops).
Proof.
  destruct (ls_partial t ops) as (_ & [Hn _] & _). unfold ls_size. rewrite Hn. lia.
Qed.

(* Pop on a stack holding at least two elements: removes the top a, answers b *)
Lemma ls_pop_below t ops a b rest :
  state_after lifo_step [t] ops = a :: b :: rest ->
  outs ls_step (ls_new t) (ops ++ [Pop]) = outs ls_step (ls_new t) ops ++ [SVal b] /\
  state_after lifo_step [t] (ops ++ [Pop]) = b :: rest.
Proof.
  intros Hl. destruct (ls_reach t ops) as (g & Habs & _ & _).
  rewrite (ls_outs_from t ops [Pop] g Habs), state_after_app, Hl. split; reflexivity.
Qed.

(* Peek on a non-empty stack is the LIFO's *)
Lemma ls_peek_nonempty t ops :
  state_after lifo_step [t] ops <> [] ->
  outs ls_step (ls_new t) (ops ++ [SPeek]) =
  outs ls_step (ls_new t) ops ++ [SVal (hd 0 (state_after lifo_step [t] ops))].
Proof.
  intros Hne. destruct (ls_reach t ops) as (g & Habs & _ & _).
  rewrite (ls_outs_from t ops [SPeek] g Habs). f_equal.
  destruct (state_after lifo_step [t] ops); [congruence|reflexivity].
Qed.

(* Search x for any x other than the first element t is the LIFO's *)
Lemma ls_search_not_first t ops x : x <> t ->
  outs ls_step (ls_new t) (ops ++ [SSearch x]) =
  outs ls_step (ls_new t) ops ++ [SBool (existsb (Z.eqb x) (state_after lifo_step [t] ops))].
Proof.
  intros Hx. destruct (ls_reach t ops) as (g & Habs & Hg & _).
  rewrite (ls_outs_from t ops [SSearch x] g Habs). f_equal.
  pose proof (proj2 (lsd_vs_lifo (state_after lifo_step [t] ops) g (SSearch x))) as H.
  cbn beta iota in H. unfold outs. cbn [run snd].
  destruct (lsd_step (state_after lifo_step [t] ops, g) (SSearch x)) as [d r] eqn:E.
  cbn [snd] in *. rewrite H; [reflexivity|]. destruct Hg as [-> | ->]; congruence.
Qed.

(* every history that leaves the linked stack logically EMPTY leaves it with the
   ghost of its first element t: Size 0, yet Peek answers t and Search t is true;
   Pop answers the zero value and nothing changes (the same answers again) *)
Lemma ls_emptied_ghost t ops :
  state_after lifo_step [t] ops = [] ->
  outs ls_step (ls_new t) (ops ++ [SSize; SPeek; SSearch t; Pop; SSize; SPeek; SSearch t]) =
  outs ls_step (ls_new t) ops ++ [SInt 0; SVal t; SBool true; SVal 0; SInt 0; SVal t; SBool true].
Proof.
  intros Hl. destruct (ls_reach t ops) as (g & Habs & _ & Hg).
  rewrite (ls_outs_from t ops _ g Habs). f_equal. rewrite Hl, (Hg Hl).
  unfold outs. cbn. rewrite Z.eqb_refl. reflexivity.
Qed.

(* ---- indifference to the element type (see C05_Proofs §7) ---- *)

Definition sop_map (f : Z -> Z) (o : sop) : sop :=
  match o with
  | Push x => Push (f x)
  | SSearch x => SSearch (f x)
  | o => o
  end.

Definition sout_map (f : Z -> Z) (r : sout) : sout :=
  match r with
  | SVal v => SVal (f v)
  | r => r
  end.

Definition lsd_map (f : Z -> Z) (d : lsd) : lsd := (map f (fst d), option_map f (snd d)).

Lemma lifo_step_equivariant (f : Z -> Z) l o :
  (forall a b, f a = f b -> a = b) -> f 0 = 0 ->
  lifo_step (map f l) (sop_map f o) =
  (map f (fst (lifo_step l o)), sout_map f (snd (lifo_step l o))).
Proof.
  intros Hinj H0. destruct o as [x| | |x|]; cbn [sop_map lifo_step fst snd sout_map].
  - reflexivity.
  - destruct l as [|y l]; cbn [map fst snd sout_map]; [now rewrite H0|reflexivity].
  - destruct l as [|y l]; cbn [map hd]; [now rewrite H0|reflexivity].
  - now rewrite existsb_eqb_map.
  - now rewrite map_length.
Qed.

Lemma below_map f g : below_of (option_map f g) = map f (below_of g).
Proof. destruct g; reflexivity. Qed.

Lemma lsd_step_equivariant (f : Z -> Z) d o :
  (forall a b, f a = f b -> a = b) -> f 0 = 0 ->
  lsd_step (lsd_map f d) (sop_map f o) =
  (lsd_map f (fst (lsd_step d o)), sout_map f (snd (lsd_step d o))).
Proof.
  intros Hinj H0. destruct d as [l g]. unfold lsd_map. cbn [fst snd].
  destruct o as [x| | |x|]; cbn [sop_map lsd_step];
    change (match option_map f g with Some g0 => [g0] | None => [] end) with (below_of (option_map f g));
    change (match g with Some g0 => [g0] | None => [] end) with (below_of g);
    rewrite ?below_map.
  - reflexivity.
  - destruct l as [|x l']; cbn [map fst snd sout_map option_map]; [now rewrite H0|].
    rewrite <- map_app. destruct (l' ++ below_of g) as [|y u]; cbn [map fst snd sout_map option_map];
      [now rewrite H0|reflexivity].
  - rewrite <- map_app. cbn [fst snd sout_map]. destruct (l ++ below_of g); cbn [map hd]; [now rewrite H0|reflexivity].
  - rewrite <- map_app. now rewrite existsb_eqb_map.
  - now rewrite map_length.
Qed.

Section Equivariant.
  Context {S : Type}.
  Variable step : S -> sop -> S * sout.
  Variable smap : (Z -> Z) -> S -> S.
  Variable f : Z -> Z.
  Hypothesis Hstep : forall s o,
    step (smap f s) (sop_map f o) = (smap f (fst (step s o)), sout_map f (snd (step s o))).

  Lemma run_equivariant ops : forall s,
    outs step (smap f s) (map (sop_map f) ops) = map (sout_map f) (outs step s ops).
  Proof.
    induction ops as [|o ops IH]; intros s; [reflexivity|].
    cbn [map]. rewrite !outs_cons, Hstep. cbn [fst snd map]. now rewrite IH.
  Qed.
End Equivariant.

Lemma ss_equivariant (f : Z -> Z) ops :
  (forall a b, f a = f b -> a = b) -> f 0 = 0 ->
  outs ss_step ss_new (map (sop_map f) ops) = map (sout_map f) (outs ss_step ss_new ops).
Proof.
  intros Hinj H0. rewrite (proj1 (ss_refines _)), (proj1 (ss_refines ops)).
  exact (run_equivariant lifo_step (fun f l => map f l) f
           (fun s o => lifo_step_equivariant f s o Hinj H0) ops []).
Qed.

Lemma ls_equivariant (f : Z -> Z) t ops :
  (forall a b, f a = f b -> a = b) -> f 0 = 0 ->
  outs ls_step (ls_new (f t)) (map (sop_map f) ops) = map (sout_map f) (outs ls_step (ls_new t) ops).
Proof.
  intros Hinj H0. rewrite (proj1 (ls_partial (f t) _)), (proj1 (ls_partial t ops)).
  exact (run_equivariant lsd_step lsd_map f
           (fun s o => lsd_step_equivariant f s o Hinj H0) ops ([t], None)).
Qed.
