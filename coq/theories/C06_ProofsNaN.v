(* C06_ProofsNaN.v — lemmas for the extension of C06 to element types whose `==`
   is not the identity of values (C06_ModelNaN.v).  Everything is proved for an
   ARBITRARY [eqv : Z -> Z -> bool]; the lemmas of C06_Proofs.v are reused for
   every operation but Search. *)

From Gogu Require Import Base C05_DList C05_Model C05_Proofs C05_ModelNaN C05_ProofsNaN
  C06_Model C06_Proofs C06_ModelNaN.
Local Open Scope Z_scope.

Section Generic.
  Variable eqv : Z -> Z -> bool.

  Lemma ghas_rev x l : ghas eqv x (rev l) = ghas eqv x l.
  Proof.
    unfold ghas. induction l as [|y l IH]; [reflexivity|].
    cbn [rev existsb]. rewrite existsb_app, IH. cbn [existsb]. rewrite orb_false_r. apply orb_comm.
  Qed.

  (* ---- slice stack ---- *)

  Lemma gss_step_lifo l o :
    gss_step eqv (rev l) o = (rev (fst (glifo_step eqv l o)), snd (glifo_step eqv l o)).
  Proof.
    destruct o as [x| | |x|]; cbn [gss_step glifo_step]; try apply ss_step_lifo.
    unfold gss_search. pose proof (gsq_search_loop_spec eqv x (rev l) []) as H. cbn [length app] in H.
    rewrite H. cbn [fst snd]. now rewrite ghas_rev.
  Qed.

  Lemma gss_run_lifo l ops :
    state_after (gss_step eqv) (rev l) ops = rev (state_after (glifo_step eqv) l ops) /\
    outs (gss_step eqv) (rev l) ops = outs (glifo_step eqv) l ops.
  Proof.
    destruct (sim_run (gss_step eqv) (glifo_step eqv) (fun s l => s = rev l) (fun r => r))
      with (s1 := rev l) (s2 := l) (ops := ops) as [H1 H2]; [|reflexivity|].
    - intros s1 s2 o ->. rewrite gss_step_lifo. cbn [fst snd]. auto.
    - split; [exact H1|]. rewrite H2. apply map_id.
  Qed.

  (* ---- linked stack = the defect machine over eqv ---- *)

  Lemma gls_step_lsd s d o : ls_abs s d ->
    ls_abs (fst (gls_step eqv s o)) (fst (glsd_step eqv d o)) /\
    snd (gls_step eqv s o) = snd (glsd_step eqv d o).
  Proof.
    intros Habs.
    destruct o as [x| | |x|]; cbn [gls_step glsd_step]; try (apply ls_step_lsd; exact Habs).
    destruct d as [l g]. destruct Habs as [Hn Hrepr]. cbn [fst snd] in Hn, Hrepr.
    change (match g with Some g0 => [g0] | None => [] end) with (below_of g).
    unfold gls_search. destruct (gdl_find_spec eqv _ _ x Hrepr) as (r & Hf). rewrite Hf. cbn [bind fst snd].
    rewrite ghas_rev.
    split; [|destruct (ghas eqv x (l ++ below_of g)); reflexivity].
    destruct s; split; assumption.
  Qed.

  Lemma gls_run_lsd s d ops : ls_abs s d ->
    ls_abs (state_after (gls_step eqv) s ops) (state_after (glsd_step eqv) d ops) /\
    outs (gls_step eqv) s ops = outs (glsd_step eqv) d ops.
  Proof.
    intros H.
    destruct (sim_run (gls_step eqv) (glsd_step eqv) ls_abs (fun r => r)) with (s1 := s) (s2 := d) (ops := ops)
      as [H1 H2].
    - intros s1 s2 o. apply gls_step_lsd.
    - exact H.
    - split; [exact H1|]. rewrite H2. apply map_id.
  Qed.

  (* ---- Search changes no abstract state: the generic machines move like the
          machines of C06_Model.v ---- *)

  Definition sblind (r : sout) : sout := match r with SBool _ => SBool false | r => r end.

  Lemma glifo_step_blind l o :
    fst (glifo_step eqv l o) = fst (lifo_step l o) /\
    sblind (snd (glifo_step eqv l o)) = sblind (snd (lifo_step l o)).
  Proof. destruct o; cbn; auto. Qed.

  Lemma glsd_step_blind d o :
    fst (glsd_step eqv d o) = fst (lsd_step d o) /\
    sblind (snd (glsd_step eqv d o)) = sblind (snd (lsd_step d o)).
  Proof. destruct d as [l g]. destruct o; cbn [glsd_step lsd_step fst snd sblind]; auto. Qed.

  Section Blind.
    Context {S : Type} (gstep step : S -> sop -> S * sout).
    Hypothesis Hb : forall s o, fst (gstep s o) = fst (step s o) /\
                                sblind (snd (gstep s o)) = sblind (snd (step s o)).
    Lemma run_blind ops : forall s,
      state_after gstep s ops = state_after step s ops /\
      map sblind (outs gstep s ops) = map sblind (outs step s ops).
    Proof.
      induction ops as [|o ops IH]; intros s; [split; reflexivity|].
      rewrite !state_after_cons, !outs_cons. destruct (Hb s o) as [H1 H2].
      rewrite H1. destruct (IH (fst (step s o))) as [I1 I2]. split; [exact I1|].
      cbn [map]. now rewrite H2, I2.
    Qed.
  End Blind.

  Lemma glifo_state l ops : state_after (glifo_step eqv) l ops = state_after lifo_step l ops.
  Proof. apply (run_blind _ _ glifo_step_blind). Qed.
  Lemma glsd_state d ops : state_after (glsd_step eqv) d ops = state_after lsd_step d ops.
  Proof. apply (run_blind _ _ glsd_step_blind). Qed.

  Lemma sblind_wf r r' : sblind r = sblind r' -> sout_wf r' -> sout_wf r.
  Proof. destruct r, r'; cbn; intros H; try discriminate; try (injection H as <-); auto. Qed.

  Lemma glifo_out_wf ops l r : In r (outs (glifo_step eqv) l ops) -> sout_wf r.
  Proof.
    intros Hin. apply (in_map sblind) in Hin.
    rewrite (proj2 (run_blind _ _ glifo_step_blind ops l)) in Hin.
    apply in_map_iff in Hin as (r' & Hr' & Hin'). apply lifo_out_wf in Hin'.
    eapply sblind_wf; [symmetry; exact Hr'|exact Hin'].
  Qed.

  Lemma glsd_out_wf ops d r : In r (outs (glsd_step eqv) d ops) -> sout_wf r.
  Proof.
    intros Hin. apply (in_map sblind) in Hin.
    rewrite (proj2 (run_blind _ _ glsd_step_blind ops d)) in Hin.
    apply in_map_iff in Hin as (r' & Hr' & Hin'). apply lsd_out_wf in Hin'.
    eapply sblind_wf; [symmetry; exact Hr'|exact Hin'].
  Qed.

  (* one step of the defect machine against the LIFO, over eqv *)
  Lemma glsd_vs_glifo l g o :
    fst (fst (glsd_step eqv (l, g) o)) = fst (glifo_step eqv l o) /\
    match o with
    | Push _ | SSize => snd (glsd_step eqv (l, g) o) = snd (glifo_step eqv l o)
    | SPeek => l <> [] -> snd (glsd_step eqv (l, g) o) = snd (glifo_step eqv l o)
    | SSearch x => (forall gv, g = Some gv -> eqv gv x = false) ->
                   snd (glsd_step eqv (l, g) o) = snd (glifo_step eqv l o)
    | Pop => snd (glsd_step eqv (l, g) Pop) = SVal (hd 0 (tl (l ++ below_of g)))
    end.
  Proof.
    destruct o as [x| | |x|]; cbn [glsd_step glifo_step]; try exact (lsd_vs_lifo l g _).
    cbn [fst snd]. change (match g with Some g0 => [g0] | None => [] end) with (below_of g).
    split; [reflexivity|]. intros Hg. unfold ghas. rewrite existsb_app.
    destruct g as [gv|]; cbn [below_of existsb]; [|now rewrite orb_false_r].
    rewrite (Hg gv eq_refl). now rewrite !orb_false_r.
  Qed.

  (* ---- slice: the statements ---- *)

  Lemma gss_refines ops :
    outs (gss_step eqv) ss_new ops = outs (glifo_step eqv) [] ops /\
    state_after (gss_step eqv) ss_new ops = rev (state_after (glifo_step eqv) [] ops).
  Proof. destruct (gss_run_lifo [] ops) as [H1 H2]. cbn [rev] in *. auto. Qed.

  Lemma gss_out_wf ops r : In r (outs (gss_step eqv) ss_new ops) -> sout_wf r.
  Proof. rewrite (proj1 (gss_refines ops)). apply glifo_out_wf. Qed.

  Lemma gss_outs_any s ops : outs (gss_step eqv) s ops = outs (glifo_step eqv) (rev s) ops.
  Proof. rewrite <- (rev_involutive s) at 1. apply gss_run_lifo. Qed.
  Lemma gss_state_any s ops : state_after (gss_step eqv) s ops = rev (state_after (glifo_step eqv) (rev s) ops).
  Proof. rewrite <- (rev_involutive s) at 1. apply gss_run_lifo. Qed.

  (* the slice itself does not depend on the equality *)
  Lemma gss_state_ss s ops : state_after (gss_step eqv) s ops = state_after ss_step s ops.
  Proof. now rewrite gss_state_any, ss_state_any, glifo_state. Qed.

  Lemma gss_blind ops :
    map sblind (outs (gss_step eqv) ss_new ops) = map sblind (outs ss_step ss_new ops).
  Proof.
    rewrite (proj1 (gss_refines ops)), (proj1 (ss_refines ops)).
    apply (run_blind _ _ glifo_step_blind).
  Qed.

  Lemma gss_push_pop ops x :
    outs (gss_step eqv) ss_new (ops ++ [Push x; Pop]) = outs (gss_step eqv) ss_new ops ++ [SNone; SVal x] /\
    state_after (gss_step eqv) ss_new (ops ++ [Push x; Pop]) = state_after (gss_step eqv) ss_new ops.
  Proof.
    rewrite outs_app, state_after_app.
    set (s := state_after (gss_step eqv) ss_new ops).
    rewrite (gss_outs_any s), (gss_state_any s). split; [reflexivity|].
    unfold state_after. cbn. apply rev_involutive.
  Qed.

  Lemma gss_peek_is_top ops : exists v,
    outs (gss_step eqv) ss_new (ops ++ [SPeek; Pop]) = outs (gss_step eqv) ss_new ops ++ [SVal v; SVal v].
  Proof.
    rewrite outs_app. set (s := state_after (gss_step eqv) ss_new ops). rewrite (gss_outs_any s).
    destruct (rev s) as [|x l]; [exists 0|exists x]; reflexivity.
  Qed.

  Lemma gss_search_exact ops x : exists b,
    outs (gss_step eqv) ss_new (ops ++ [SSearch x]) = outs (gss_step eqv) ss_new ops ++ [SBool b] /\
    (b = true <-> exists y, In y (state_after (gss_step eqv) ss_new ops) /\ eqv y x = true).
  Proof.
    rewrite outs_app. set (s := state_after (gss_step eqv) ss_new ops). rewrite (gss_outs_any s).
    exists (ghas eqv x (rev s)). split; [reflexivity|].
    rewrite ghas_true_iff. split; intros (y & Hy & E); exists y; (split; [|exact E]).
    - now apply in_rev.
    - now apply in_rev in Hy.
  Qed.

  Lemma gss_size_counts ops :
    outs (gss_step eqv) ss_new (ops ++ [SSize]) =
    outs (gss_step eqv) ss_new ops ++ [SInt (Z.of_nat (pushed ops) - Z.of_nat (ss_pops ss_new ops))].
  Proof.
    rewrite outs_app. f_equal. rewrite gss_state_ss.
    pose proof (ss_size_counts ops) as H. rewrite outs_app in H. apply app_inv_head in H. exact H.
  Qed.

  Lemma gss_empty_changes_nothing ops :
    outs (gss_step eqv) ss_new (ops ++ [SSize]) = outs (gss_step eqv) ss_new ops ++ [SInt 0] ->
    gss_step eqv (state_after (gss_step eqv) ss_new ops) Pop = (state_after (gss_step eqv) ss_new ops, SVal 0) /\
    gss_step eqv (state_after (gss_step eqv) ss_new ops) SPeek = (state_after (gss_step eqv) ss_new ops, SVal 0).
  Proof.
    rewrite outs_app. intros H. apply app_inv_head in H.
    destruct (state_after (gss_step eqv) ss_new ops) as [|y s]; [split; reflexivity|].
    unfold outs in H. cbn in H. injection H as H. lia.
  Qed.

  (* ---- linked: the statements ---- *)

  Lemma gls_partial t ops :
    outs (gls_step eqv) (ls_new t) ops = outs (glsd_step eqv) ([t], None) ops /\
    ls_abs (state_after (gls_step eqv) (ls_new t) ops) (state_after (glsd_step eqv) ([t], None) ops) /\
    fst (state_after (glsd_step eqv) ([t], None) ops) = state_after (glifo_step eqv) [t] ops /\
    lsd_inv t (state_after (glsd_step eqv) ([t], None) ops).
  Proof.
    destruct (gls_run_lsd (ls_new t) ([t], None) ops (ls_new_abs t)) as [H1 H2].
    split; [exact H2|]. split; [exact H1|]. rewrite glsd_state, glifo_state. split.
    - apply (lsd_state_lifo ops ([t], None)).
    - apply lsd_inv_run. left. split; [reflexivity|]. exists []. reflexivity.
  Qed.

  Lemma gls_out_wf t ops r : In r (outs (gls_step eqv) (ls_new t) ops) -> sout_wf r.
  Proof. rewrite (proj1 (gls_partial t ops)). apply glsd_out_wf. Qed.

  Lemma gls_blind t ops :
    map sblind (outs (gls_step eqv) (ls_new t) ops) = map sblind (outs ls_step (ls_new t) ops).
  Proof.
    rewrite (proj1 (gls_partial t ops)), (proj1 (ls_partial t ops)).
    apply (run_blind _ _ glsd_step_blind).
  Qed.

  Lemma gls_size_lifo t ops :
    outs (gls_step eqv) (ls_new t) (ops ++ [SSize]) =
    outs (gls_step eqv) (ls_new t) ops ++ [SInt (Z.of_nat (length (state_after lifo_step [t] ops)))].
  Proof.
    rewrite outs_app. f_equal.
    destruct (gls_partial t ops) as (_ & [Hn _] & Hl & _). rewrite glifo_state in Hl.
    unfold outs. cbn. unfold ls_size. now rewrite Hn, Hl.
  Qed.

  Lemma gls_reach t ops :
    exists g,
      ls_abs (state_after (gls_step eqv) (ls_new t) ops) (state_after lifo_step [t] ops, g) /\
      (g = None \/ g = Some t) /\
      (state_after lifo_step [t] ops = [] -> g = Some t).
  Proof.
    destruct (gls_partial t ops) as (_ & Habs & Hl & Hinv). rewrite glifo_state in Hl.
    destruct (state_after (glsd_step eqv) ([t], None) ops) as [l g] eqn:E. cbn [fst snd] in *. subst l.
    exists g. split; [exact Habs|]. unfold lsd_inv in Hinv. cbn [fst snd] in Hinv.
    destruct Hinv as [[-> (l0 & Hl0)]| ->].
    - split; [now left|]. intros Hnil. rewrite Hnil in Hl0. destruct l0; discriminate.
    - split; [now right|]. reflexivity.
  Qed.

  Lemma gls_outs_from t ops ops' g :
    ls_abs (state_after (gls_step eqv) (ls_new t) ops) (state_after lifo_step [t] ops, g) ->
    outs (gls_step eqv) (ls_new t) (ops ++ ops') =
    outs (gls_step eqv) (ls_new t) ops ++ outs (glsd_step eqv) (state_after lifo_step [t] ops, g) ops'.
  Proof.
    intros Habs. rewrite outs_app. f_equal. exact (proj2 (gls_run_lsd _ _ ops' Habs)).
  Qed.

  (* Pops executed while Size() was not 0 *)
  Fixpoint gls_pops (s : ls) (ops : list sop) : nat :=
    match ops with
    | [] => O
    | o :: ops' =>
        ((match o with Pop => if (ls_size s =? 0)%Z then 0 else 1 | _ => 0 end) +
         gls_pops (fst (gls_step eqv s o)) ops')%nat
    end.

  Lemma gls_size_counts_gen ops : forall s d, ls_abs s d ->
    (length (fst (state_after (glsd_step eqv) d ops)) + gls_pops s ops = length (fst d) + pushed ops)%nat.
  Proof.
    induction ops as [|o ops IH]; intros s d Habs; [cbn; lia|].
    rewrite state_after_cons. cbn [gls_pops].
    destruct (gls_step_lsd s d o Habs) as [Habs' _].
    specialize (IH _ _ Habs').
    destruct d as [l g]. destruct Habs as [Hn _]. cbn [fst] in Hn.
    pose proof (proj1 (glsd_vs_glifo l g o)) as Hc.
    rewrite (proj1 (glifo_step_blind l o)) in Hc.
    assert (Hstep : (length (fst (fst (glsd_step eqv (l, g) o))) +
                     match o with Pop => if (ls_size s =? 0)%Z then 0 else 1 | _ => 0 end =
                     length l + match o with Push _ => 1 | _ => 0 end)%nat).
    { rewrite Hc. unfold ls_size. rewrite Hn.
      destruct o; cbn [lifo_step fst]; try (cbn [length]; lia).
      destruct l as [|y l]; cbn [length fst]; [reflexivity|].
      replace (Z.of_nat (S (length l)) =? 0) with false by (symmetry; apply Z.eqb_neq; lia). lia. }
    cbn [fst]. unfold pushed in *. cbn [filter]. destruct o; cbn [length] in *; lia.
  Qed.

  Lemma gls_size_counts t ops :
    outs (gls_step eqv) (ls_new t) (ops ++ [SSize]) =
    outs (gls_step eqv) (ls_new t) ops ++
      [SInt (1 + Z.of_nat (pushed ops) - Z.of_nat (gls_pops (ls_new t) ops))].
  Proof.
    rewrite gls_size_lifo. f_equal. f_equal. f_equal.
    pose proof (gls_size_counts_gen ops _ _ (ls_new_abs t)) as H.
    rewrite glsd_state, (lsd_state_lifo ops ([t], None)) in H. cbn [fst length] in H. lia.
  Qed.

  Lemma gls_counter_nonneg t ops : 0 <= ls_size (state_after (gls_step eqv) (ls_new t) ops).
  Proof. destruct (gls_partial t ops) as (_ & [Hn _] & _). unfold ls_size. rewrite Hn. lia. Qed.

  Lemma gls_pop_below t ops a b rest :
    state_after lifo_step [t] ops = a :: b :: rest ->
    outs (gls_step eqv) (ls_new t) (ops ++ [Pop]) = outs (gls_step eqv) (ls_new t) ops ++ [SVal b] /\
    state_after lifo_step [t] (ops ++ [Pop]) = b :: rest.
  Proof.
    intros Hl. destruct (gls_reach t ops) as (g & Habs & _ & _).
    rewrite (gls_outs_from t ops [Pop] g Habs), state_after_app, Hl. split; reflexivity.
  Qed.

  Lemma gls_peek_nonempty t ops :
    state_after lifo_step [t] ops <> [] ->
    outs (gls_step eqv) (ls_new t) (ops ++ [SPeek]) =
    outs (gls_step eqv) (ls_new t) ops ++ [SVal (hd 0 (state_after lifo_step [t] ops))].
  Proof.
    intros Hne. destruct (gls_reach t ops) as (g & Habs & _ & _).
    rewrite (gls_outs_from t ops [SPeek] g Habs). f_equal.
    destruct (state_after lifo_step [t] ops); [congruence|reflexivity].
  Qed.

  (* Search x is the LIFO's whenever the first element t is not == x (in
     particular always when t is not equal to itself) *)
  Lemma gls_search_not_first t ops x : eqv t x = false ->
    outs (gls_step eqv) (ls_new t) (ops ++ [SSearch x]) =
    outs (gls_step eqv) (ls_new t) ops ++ [SBool (ghas eqv x (state_after lifo_step [t] ops))].
  Proof.
    intros Hx. destruct (gls_reach t ops) as (g & Habs & Hg & _).
    rewrite (gls_outs_from t ops [SSearch x] g Habs). f_equal.
    pose proof (proj2 (glsd_vs_glifo (state_after lifo_step [t] ops) g (SSearch x))) as H.
    cbn beta iota in H. unfold outs. cbn [run snd].
    destruct (glsd_step eqv (state_after lifo_step [t] ops, g) (SSearch x)) as [d r] eqn:E.
    cbn [snd] in *. rewrite H; [reflexivity|].
    intros gv Hgv. destruct Hg as [-> | ->]; [discriminate|]. injection Hgv as <-. exact Hx.
  Qed.

  (* the ghost: every history that empties the stack leaves the node of t behind;
     Search t now answers [eqv t t] — false when t is a NaN *)
  Lemma gls_emptied_ghost t ops :
    state_after lifo_step [t] ops = [] ->
    outs (gls_step eqv) (ls_new t) (ops ++ [SSize; SPeek; SSearch t; Pop; SSize; SPeek; SSearch t]) =
    outs (gls_step eqv) (ls_new t) ops ++
      [SInt 0; SVal t; SBool (eqv t t); SVal 0; SInt 0; SVal t; SBool (eqv t t)].
  Proof.
    intros Hl. destruct (gls_reach t ops) as (g & Habs & _ & Hg).
    rewrite (gls_outs_from t ops _ g Habs). f_equal. rewrite Hl, (Hg Hl).
    unfold outs. cbn. rewrite !orb_false_r. reflexivity.
  Qed.
End Generic.

(* ---- conservativity ---- *)

Lemma gss_step_eqb s o : gss_step Z.eqb s o = ss_step s o.
Proof.
  destruct o; try reflexivity; cbn [gss_step ss_step]; unfold gss_search, ss_search;
  now rewrite gsq_search_loop_eqb.
Qed.

Lemma gls_step_eqb s o : gls_step Z.eqb s o = ls_step s o.
Proof.
  destruct o; try reflexivity; cbn [gls_step ls_step]; unfold gls_search, ls_search, gdl_find, dl_find;
  now rewrite gfind_loop_eqb.
Qed.

Lemma glifo_step_eqb l o : glifo_step Z.eqb l o = lifo_step l o.
Proof. destruct o; try reflexivity; cbn [glifo_step lifo_step]; now rewrite ghas_eqb. Qed.

Lemma glsd_step_eqb d o : glsd_step Z.eqb d o = lsd_step d o.
Proof.
  destruct d as [l g]. destruct o; try reflexivity; cbn [glsd_step lsd_step]; now rewrite ghas_eqb.
Qed.

Lemma snan_conservative :
  (forall s o, gss_step Z.eqb s o = ss_step s o) /\
  (forall s o, gls_step Z.eqb s o = ls_step s o) /\
  (forall l o, glifo_step Z.eqb l o = lifo_step l o) /\
  (forall d o, glsd_step Z.eqb d o = lsd_step d o).
Proof.
  split; [exact gss_step_eqb|]. split; [exact gls_step_eqb|]. split; [exact glifo_step_eqb|exact glsd_step_eqb].
Qed.
