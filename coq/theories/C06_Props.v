(* C06_Props.v — property C06: "Stacks deliver elements last-in first-out
   without loss", stated over the models of C06_Model.v (stack/stack.go and
   stack/lstack.go over the DList transcription C05_DList.v).
   Only statements here; each is closed by [exact] of a lemma of C06_Proofs.v
   (or by computation on a witness) and followed by Print Assumptions.

   Vocabulary:
     lifo_step     the specification: a functional LIFO on [list Z], top = head;
                   Pop / Peek on [] answer the zero value and change nothing
     ss_step       the slice-backed stack (top = LAST index of the slice)
     ls_step       the linked stack, the code as it is
     lsd_step      "LIFO with the defect": state (l, ghost) where l is the LIFO
                   contents; Pop removes the top of l but RETURNS the element
                   below it (the ghost if nothing else is below, else 0); popping
                   the last element leaves it behind as the ghost; Peek and Search
                   see l followed by the ghost; Size is length l
     ls_abs s d    representation invariant: counter = length l, and the heap's
                   next-chain from address 0 spells (ghost, then l bottom-up)
     pushed ops    number of Push in ops;  ss_pops / ls_pops: Pops executed while Size <> 0
     sout_wf r     r is not a failure of the model, and if it is a Size it is >= 0 *)

From Gogu Require Import Base C05_DList C05_Model C05_Proofs C06_Model C06_Proofs.
Local Open Scope Z_scope.

(* ================================================================== *)
(* A. slice-backed stack: the full property                            *)
(* ================================================================== *)

(* after EVERY history (emptying and refilling included) the slice stack
   answers exactly like the functional LIFO, and its slice is the LIFO list
   bottom-up *)
Theorem C06_stack_refines_lifo : forall ops,
  outs ss_step ss_new ops = outs lifo_step [] ops /\
  state_after ss_step ss_new ops = rev (state_after lifo_step [] ops).
Proof. exact ss_refines. Qed.
Print Assumptions C06_stack_refines_lifo.

(* never an index panic; Size never negative *)
Theorem C06_stack_outputs_wf : forall ops r,
  In r (outs ss_step ss_new ops) -> sout_wf r.
Proof. exact ss_out_wf. Qed.
Print Assumptions C06_stack_outputs_wf.

(* Pop returns the most recently pushed element not yet popped: after any
   history, Push x; Pop hands x back and restores the stack exactly — so, by
   induction on nesting, every Pop answers its matching Push *)
Theorem C06_stack_push_pop : forall ops x,
  outs ss_step ss_new (ops ++ [Push x; Pop]) = outs ss_step ss_new ops ++ [SNone; SVal x] /\
  state_after ss_step ss_new (ops ++ [Push x; Pop]) = state_after ss_step ss_new ops.
Proof. exact ss_push_pop. Qed.
Print Assumptions C06_stack_push_pop.

(* Peek returns what the next Pop returns, without removing it *)
Theorem C06_stack_peek_is_top : forall ops, exists v,
  outs ss_step ss_new (ops ++ [SPeek; Pop]) = outs ss_step ss_new ops ++ [SVal v; SVal v].
Proof. exact ss_peek_is_top. Qed.
Print Assumptions C06_stack_peek_is_top.

(* Size = pushes - successful pops (non-negativity: C06_stack_outputs_wf) *)
Theorem C06_stack_size_counts : forall ops,
  outs ss_step ss_new (ops ++ [SSize]) =
  outs ss_step ss_new ops ++ [SInt (Z.of_nat (pushed ops) - Z.of_nat (ss_pops ss_new ops))].
Proof. exact ss_size_counts. Qed.
Print Assumptions C06_stack_size_counts.

Theorem C06_stack_search_exact : forall ops x, exists b,
  outs ss_step ss_new (ops ++ [SSearch x]) = outs ss_step ss_new ops ++ [SBool b] /\
  (b = true <-> In x (state_after ss_step ss_new ops)).
Proof. exact ss_search_exact. Qed.
Print Assumptions C06_stack_search_exact.

(* when Size reports 0, Pop and Peek return the zero value and change nothing *)
Theorem C06_stack_empty_changes_nothing : forall ops,
  outs ss_step ss_new (ops ++ [SSize]) = outs ss_step ss_new ops ++ [SInt 0] ->
  ss_step (state_after ss_step ss_new ops) Pop = (state_after ss_step ss_new ops, SVal 0) /\
  ss_step (state_after ss_step ss_new ops) SPeek = (state_after ss_step ss_new ops, SVal 0).
Proof. exact ss_empty_changes_nothing. Qed.
Print Assumptions C06_stack_empty_changes_nothing.

(* ================================================================== *)
(* B. linked stack: the LIFO statement is FALSE of the code            *)
(*    (DESIGN §7 #27; pinned by Example_linkedList: known finding      *)
(*    KF-C06-lstack-pop)                                               *)
(*                                                                     *)
(*    The full statement would be                                      *)
(*      forall t ops, outs ls_step (ls_new t) ops                      *)
(*                    = outs lifo_step [t] ops.                        *)
(* ================================================================== *)

(* NewLinked(1); Push(2); Push(3); Pop() returns 2 *)
Theorem C06_lstack_lifo_refuted : exists t ops,
  outs ls_step (ls_new t) ops <> outs lifo_step [t] ops.
Proof.
  exists 1, [Push 2; Push 3; Pop].
  vm_compute. discriminate.
Qed.
Print Assumptions C06_lstack_lifo_refuted.

(* the same defect on the last element: NewLinked(1); Pop() returns 0 and
   removes nothing — Peek then returns 1 and Search(1) is true on a stack whose
   Size is 0 *)
Theorem C06_lstack_empty_refuted :
  outs ls_step (ls_new 1) [Pop; SSize; SPeek; SSearch 1] = [SVal 0; SInt 0; SVal 1; SBool true] /\
  outs lifo_step [1] [Pop; SSize; SPeek; SSearch 1] = [SVal 1; SInt 0; SVal 0; SBool false].
Proof. vm_compute. split; reflexivity. Qed.
Print Assumptions C06_lstack_empty_refuted.

(* ================================================================== *)
(* C. linked stack: what does hold                                     *)
(* ================================================================== *)

(* The exact behaviour, for every history: the linked stack IS the machine
   lsd_step (never fails, heap invariant kept); its contents component evolves
   exactly like the LIFO's — the element REMOVED by a Pop is always the top,
   Push appends — and the ghost, if any, is the initial element t. *)
Theorem C06_lstack_partial : forall t ops,
  outs ls_step (ls_new t) ops = outs lsd_step ([t], None) ops /\
  ls_abs (state_after ls_step (ls_new t) ops) (state_after lsd_step ([t], None) ops) /\
  fst (state_after lsd_step ([t], None) ops) = state_after lifo_step [t] ops /\
  lsd_inv t (state_after lsd_step ([t], None) ops).
Proof. exact ls_partial. Qed.
Print Assumptions C06_lstack_partial.

(* lsd_step against the LIFO, one step from any state (l, g): the contents
   move like the LIFO's; Push and Size answer like the LIFO; Peek does while
   the stack is non-empty; Search x does unless x is the ghost's value; Pop
   answers with the element BELOW the top (0 if there is none) *)
Theorem C06_lstack_partial_step : forall l g o,
  fst (fst (lsd_step (l, g) o)) = fst (lifo_step l o) /\
  match o with
  | Push _ | SSize => snd (lsd_step (l, g) o) = snd (lifo_step l o)
  | SPeek => l <> [] -> snd (lsd_step (l, g) o) = snd (lifo_step l o)
  | SSearch x => g <> Some x -> snd (lsd_step (l, g) o) = snd (lifo_step l o)
  | Pop => snd (lsd_step (l, g) Pop) = SVal (hd 0 (tl (l ++ below_of g)))
  end.
Proof. exact lsd_vs_lifo. Qed.
Print Assumptions C06_lstack_partial_step.

(* Size bookkeeping is right after every history (pushes minus successful
   pops = the LIFO's length), never negative, and the model never fails *)
Theorem C06_lstack_size_is_lifo : forall t ops,
  outs ls_step (ls_new t) (ops ++ [SSize]) =
  outs ls_step (ls_new t) ops ++ [SInt (Z.of_nat (length (state_after lifo_step [t] ops)))].
Proof. exact ls_size_lifo. Qed.
Print Assumptions C06_lstack_size_is_lifo.

Theorem C06_lstack_outputs_wf : forall t ops r,
  In r (outs ls_step (ls_new t) ops) -> sout_wf r.
Proof. exact ls_out_wf. Qed.
Print Assumptions C06_lstack_outputs_wf.

(* Size = 1 (the mandatory first element) + pushes - successful pops, after
   every history; a Pop is "successful" iff executed while Size() <> 0 *)
Theorem C06_lstack_size_counts : forall t ops,
  outs ls_step (ls_new t) (ops ++ [SSize]) =
  outs ls_step (ls_new t) ops ++ [SInt (1 + Z.of_nat (pushed ops) - Z.of_nat (ls_pops (ls_new t) ops))].
Proof. exact ls_size_counts. Qed.
Print Assumptions C06_lstack_size_counts.

(* "never negative" for the counter field itself (the `if s.n > 0` guard of
   LStack.Pop), after every history *)
Theorem C06_lstack_counter_never_negative : forall t ops,
  0 <= ls_size (state_after ls_step (ls_new t) ops).
Proof. exact ls_counter_nonneg. Qed.
Print Assumptions C06_lstack_counter_never_negative.

(* ------------------------------------------------------------------ *)
(* The clauses one by one, after ANY history, in terms of the LIFO     *)
(* contents (state_after lifo_step [t] ops) only.                      *)
(* ------------------------------------------------------------------ *)

(* the defect, universally: whenever the stack holds at least two elements
   a :: b :: rest (a on top), Pop REMOVES a and ANSWERS b *)
Theorem C06_lstack_pop_answers_below_top_partial : forall t ops a b rest,
  state_after lifo_step [t] ops = a :: b :: rest ->
  outs ls_step (ls_new t) (ops ++ [Pop]) = outs ls_step (ls_new t) ops ++ [SVal b] /\
  state_after lifo_step [t] (ops ++ [Pop]) = b :: rest.
Proof. exact ls_pop_below. Qed.
Print Assumptions C06_lstack_pop_answers_below_top_partial.

(* Peek on a non-empty linked stack is right: the most recently pushed element
   not yet removed *)
Theorem C06_lstack_peek_nonempty_partial : forall t ops,
  state_after lifo_step [t] ops <> [] ->
  outs ls_step (ls_new t) (ops ++ [SPeek]) =
  outs ls_step (ls_new t) ops ++ [SVal (hd 0 (state_after lifo_step [t] ops))].
Proof. exact ls_peek_nonempty. Qed.
Print Assumptions C06_lstack_peek_nonempty_partial.

(* Search is exact for every value other than the stack's first element t
   (the only value a ghost can carry) *)
Theorem C06_lstack_search_exact_partial : forall t ops x, x <> t ->
  outs ls_step (ls_new t) (ops ++ [SSearch x]) =
  outs ls_step (ls_new t) ops ++ [SBool (existsb (Z.eqb x) (state_after lifo_step [t] ops))].
Proof. exact ls_search_not_first. Qed.
Print Assumptions C06_lstack_search_exact_partial.

(* the ghost, universally: EVERY history that leaves the linked stack logically
   empty leaves the node of its first element t behind — Size says 0, but Peek
   answers t and Search t says true (the statement wants 0 and false); Pop
   answers the zero value and changes nothing (same answers afterwards) *)
Theorem C06_lstack_emptied_keeps_ghost_partial : forall t ops,
  state_after lifo_step [t] ops = [] ->
  outs ls_step (ls_new t) (ops ++ [SSize; SPeek; SSearch t; Pop; SSize; SPeek; SSearch t]) =
  outs ls_step (ls_new t) ops ++ [SInt 0; SVal t; SBool true; SVal 0; SInt 0; SVal t; SBool true].
Proof. exact ls_emptied_ghost. Qed.
Print Assumptions C06_lstack_emptied_keeps_ghost_partial.

(* ------------------------------------------------------------------ *)
(* Indifference to the element type (see C05_Props §5): both stack     *)
(* models — the linked one WITH its defect — commute with every        *)
(* injective renaming of the elements that fixes the zero value; this  *)
(* licenses the "instances" stream (Stack[string], LStack[struct] ...  *)
(* through an injective codec).  All other theorems are over Z only.   *)
(* ------------------------------------------------------------------ *)

Theorem C06_stack_element_type_indifferent : forall (f : Z -> Z) ops,
  (forall a b, f a = f b -> a = b) -> f 0 = 0 ->
  outs ss_step ss_new (map (sop_map f) ops) = map (sout_map f) (outs ss_step ss_new ops).
Proof. exact ss_equivariant. Qed.
Print Assumptions C06_stack_element_type_indifferent.

Theorem C06_lstack_element_type_indifferent : forall (f : Z -> Z) t ops,
  (forall a b, f a = f b -> a = b) -> f 0 = 0 ->
  outs ls_step (ls_new (f t)) (map (sop_map f) ops) = map (sout_map f) (outs ls_step (ls_new t) ops).
Proof. exact ls_equivariant. Qed.
Print Assumptions C06_lstack_element_type_indifferent.

(* Non-vacuity: the invariant is inhabited in all three shapes — fresh, with
   several elements, and in the ghost state after emptying and refilling *)
Example C06_example_states :
  let s := state_after lsd_step ([1], None) in
  s [Push 2; Push 3] = ([3; 2; 1], None) /\
  s [Pop] = ([], Some 1) /\
  s [Pop; Push 5; Push 6; Pop] = ([5], Some 1) /\
  outs ls_step (ls_new 1) [Pop; Push 5; Push 6; Pop; Pop; SPeek] =
    [SVal 0; SNone; SNone; SVal 5; SVal 1; SVal 1].
Proof. vm_compute. repeat split; reflexivity. Qed.

(* the hypotheses of the history-level theorems are met by histories that empty
   and refill: depth >= 2 after a refill, emptied twice, successful pops counted *)
Example C06_example_history_hypotheses :
  state_after lifo_step [1] [Pop; Push 5; Push 6] = [6; 5] /\
  state_after lifo_step [1] [Pop; Push 5; Pop] = [] /\
  ls_pops (ls_new 1) [Pop; Pop; Push 5; Pop; Pop] = 2%nat /\
  pushed [Pop; Pop; Push 5; Pop; Pop] = 1%nat /\
  outs ls_step (ls_new 1) [Pop; Pop; Push 5; Pop; Pop; SSize] =
    [SVal 0; SVal 0; SNone; SVal 1; SVal 0; SInt 0].
Proof. vm_compute. repeat split; reflexivity. Qed.
