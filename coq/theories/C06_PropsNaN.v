(* C06_PropsNaN.v — property C06 ("Stacks deliver elements last-in first-out
   without loss") over element types whose `==` is NOT the identity of values:
   float64 (NaN != NaN, -0 == +0), structs with float fields, `any` holding NaN
   or values of uncomparable dynamic types.  Extension of C06_Props.v (brief
   nan0506); only statements here, each closed by [exact] of a lemma of
   C06_ProofsNaN.v (or by computation on a witness) and followed by Print
   Assumptions.

   Setting (C05_ModelNaN.v, C06_ModelNaN.v).  Elements are named by integers, the
   zero value by 0, Go's `==` on the element type is an ARBITRARY function
   [eqv : Z -> Z -> bool]: every theorem is quantified over it and assumes
   nothing about it.  [gss_step eqv] / [gls_step eqv] are the two stacks with
   the two comparing loops (Stack.Search, DList.Find) transcribed over [eqv];
   no other method compares elements.  [glifo_step eqv] is the specification
   (Search x = "some held element is == x"), [glsd_step eqv] the LIFO with the
   known defect of the linked stack (KF-C06-lstack-pop) whose Search sees the
   contents followed by the ghost, under [eqv].

   Push / Pop / Peek / Size never mention `==`: those clauses are about the very
   values that were pushed (a NaN comes back where it belongs, -0 as -0).
   "Search reports exactly the elements currently held" is membership up to `==`.
   Histories in which Go's `==` itself panics (two values of one uncomparable
   dynamic type compared) are outside the model and outside the streams. *)

From Gogu Require Import Base C05_DList C05_Model C05_Proofs C05_ModelNaN C05_ProofsNaN
  C06_Model C06_Proofs C06_ModelNaN C06_ProofsNaN.
Local Open Scope Z_scope.

(* ================================================================== *)
(* 0. Conservativity: at eqv := Z.eqb the generic machines ARE those   *)
(*    of C06_Model.v, step by step; and for EVERY equality everything  *)
(*    but the answers of Search is what the Z-models produce.          *)
(* ================================================================== *)

Theorem C06_nan_conservative :
  (forall s o, gss_step Z.eqb s o = ss_step s o) /\
  (forall s o, gls_step Z.eqb s o = ls_step s o) /\
  (forall l o, glifo_step Z.eqb l o = lifo_step l o) /\
  (forall d o, glsd_step Z.eqb d o = lsd_step d o).
Proof. exact snan_conservative. Qed.
Print Assumptions C06_nan_conservative.

Theorem C06_nan_only_search_depends_on_eq : forall eqv t ops,
  state_after (gss_step eqv) ss_new ops = state_after ss_step ss_new ops /\
  map sblind (outs (gss_step eqv) ss_new ops) = map sblind (outs ss_step ss_new ops) /\
  map sblind (outs (gls_step eqv) (ls_new t) ops) = map sblind (outs ls_step (ls_new t) ops).
Proof.
  intros eqv t ops. split; [apply gss_state_ss|]. split; [apply gss_blind|apply gls_blind].
Qed.
Print Assumptions C06_nan_only_search_depends_on_eq.

(* ================================================================== *)
(* A. slice-backed stack: the full property                            *)
(* ================================================================== *)

Theorem C06_nan_stack_refines_lifo : forall eqv ops,
  outs (gss_step eqv) ss_new ops = outs (glifo_step eqv) [] ops /\
  state_after (gss_step eqv) ss_new ops = rev (state_after (glifo_step eqv) [] ops).
Proof. exact gss_refines. Qed.
Print Assumptions C06_nan_stack_refines_lifo.

Theorem C06_nan_stack_outputs_wf : forall eqv ops r,
  In r (outs (gss_step eqv) ss_new ops) -> sout_wf r.
Proof. exact gss_out_wf. Qed.
Print Assumptions C06_nan_stack_outputs_wf.

(* Push x; Pop hands back x itself — also when x is not equal to itself — and
   restores the stack exactly *)
Theorem C06_nan_stack_push_pop : forall eqv ops x,
  outs (gss_step eqv) ss_new (ops ++ [Push x; Pop]) = outs (gss_step eqv) ss_new ops ++ [SNone; SVal x] /\
  state_after (gss_step eqv) ss_new (ops ++ [Push x; Pop]) = state_after (gss_step eqv) ss_new ops.
Proof. exact gss_push_pop. Qed.
Print Assumptions C06_nan_stack_push_pop.

Theorem C06_nan_stack_peek_is_top : forall eqv ops, exists v,
  outs (gss_step eqv) ss_new (ops ++ [SPeek; Pop]) = outs (gss_step eqv) ss_new ops ++ [SVal v; SVal v].
Proof. exact gss_peek_is_top. Qed.
Print Assumptions C06_nan_stack_peek_is_top.

Theorem C06_nan_stack_size_counts : forall eqv ops,
  outs (gss_step eqv) ss_new (ops ++ [SSize]) =
  outs (gss_step eqv) ss_new ops ++ [SInt (Z.of_nat (pushed ops) - Z.of_nat (ss_pops ss_new ops))].
Proof. exact gss_size_counts. Qed.
Print Assumptions C06_nan_stack_size_counts.

(* Search after any history: true exactly when some held element is == x *)
Theorem C06_nan_stack_search_exact : forall eqv ops x, exists b,
  outs (gss_step eqv) ss_new (ops ++ [SSearch x]) = outs (gss_step eqv) ss_new ops ++ [SBool b] /\
  (b = true <-> exists y, In y (state_after (gss_step eqv) ss_new ops) /\ eqv y x = true).
Proof. exact gss_search_exact. Qed.
Print Assumptions C06_nan_stack_search_exact.

Theorem C06_nan_stack_empty_changes_nothing : forall eqv ops,
  outs (gss_step eqv) ss_new (ops ++ [SSize]) = outs (gss_step eqv) ss_new ops ++ [SInt 0] ->
  gss_step eqv (state_after (gss_step eqv) ss_new ops) Pop = (state_after (gss_step eqv) ss_new ops, SVal 0) /\
  gss_step eqv (state_after (gss_step eqv) ss_new ops) SPeek = (state_after (gss_step eqv) ss_new ops, SVal 0).
Proof. exact gss_empty_changes_nothing. Qed.
Print Assumptions C06_nan_stack_empty_changes_nothing.

(* ================================================================== *)
(* B. linked stack: the LIFO statement is false of the code whatever   *)
(*    the equality (the witness contains no Search): known finding     *)
(*    KF-C06-lstack-pop.  The full statement would be                  *)
(*      forall eqv t ops, outs (gls_step eqv) (ls_new t) ops           *)
(*                        = outs (glifo_step eqv) [t] ops.             *)
(* ================================================================== *)

Theorem C06_nan_lstack_lifo_refuted : forall eqv, exists t ops,
  outs (gls_step eqv) (ls_new t) ops <> outs (glifo_step eqv) [t] ops.
Proof.
  intros eqv. exists c_nan, [Push 2; Push 3; Pop].
  vm_compute. discriminate.
Qed.
Print Assumptions C06_nan_lstack_lifo_refuted.

(* ================================================================== *)
(* C. linked stack: what does hold                                     *)
(* ================================================================== *)

(* the exact behaviour for every history and every equality *)
Theorem C06_nan_lstack_partial : forall eqv t ops,
  outs (gls_step eqv) (ls_new t) ops = outs (glsd_step eqv) ([t], None) ops /\
  ls_abs (state_after (gls_step eqv) (ls_new t) ops) (state_after (glsd_step eqv) ([t], None) ops) /\
  fst (state_after (glsd_step eqv) ([t], None) ops) = state_after (glifo_step eqv) [t] ops /\
  lsd_inv t (state_after (glsd_step eqv) ([t], None) ops).
Proof. exact gls_partial. Qed.
Print Assumptions C06_nan_lstack_partial.

(* one step of the defect machine against the LIFO: Search x is the LIFO's
   unless the ghost is == x *)
Theorem C06_nan_lstack_partial_step : forall eqv l g o,
  fst (fst (glsd_step eqv (l, g) o)) = fst (glifo_step eqv l o) /\
  match o with
  | Push _ | SSize => snd (glsd_step eqv (l, g) o) = snd (glifo_step eqv l o)
  | SPeek => l <> [] -> snd (glsd_step eqv (l, g) o) = snd (glifo_step eqv l o)
  | SSearch x => (forall gv, g = Some gv -> eqv gv x = false) ->
                 snd (glsd_step eqv (l, g) o) = snd (glifo_step eqv l o)
  | Pop => snd (glsd_step eqv (l, g) Pop) = SVal (hd 0 (tl (l ++ below_of g)))
  end.
Proof. exact glsd_vs_glifo. Qed.
Print Assumptions C06_nan_lstack_partial_step.

Theorem C06_nan_lstack_size_is_lifo : forall eqv t ops,
  outs (gls_step eqv) (ls_new t) (ops ++ [SSize]) =
  outs (gls_step eqv) (ls_new t) ops ++ [SInt (Z.of_nat (length (state_after lifo_step [t] ops)))].
Proof. exact gls_size_lifo. Qed.
Print Assumptions C06_nan_lstack_size_is_lifo.

Theorem C06_nan_lstack_outputs_wf : forall eqv t ops r,
  In r (outs (gls_step eqv) (ls_new t) ops) -> sout_wf r.
Proof. exact gls_out_wf. Qed.
Print Assumptions C06_nan_lstack_outputs_wf.

Theorem C06_nan_lstack_size_counts : forall eqv t ops,
  outs (gls_step eqv) (ls_new t) (ops ++ [SSize]) =
  outs (gls_step eqv) (ls_new t) ops ++
    [SInt (1 + Z.of_nat (pushed ops) - Z.of_nat (gls_pops eqv (ls_new t) ops))].
Proof. exact gls_size_counts. Qed.
Print Assumptions C06_nan_lstack_size_counts.

Theorem C06_nan_lstack_counter_never_negative : forall eqv t ops,
  0 <= ls_size (state_after (gls_step eqv) (ls_new t) ops).
Proof. exact gls_counter_nonneg. Qed.
Print Assumptions C06_nan_lstack_counter_never_negative.

Theorem C06_nan_lstack_pop_answers_below_top_partial : forall eqv t ops a b rest,
  state_after lifo_step [t] ops = a :: b :: rest ->
  outs (gls_step eqv) (ls_new t) (ops ++ [Pop]) = outs (gls_step eqv) (ls_new t) ops ++ [SVal b] /\
  state_after lifo_step [t] (ops ++ [Pop]) = b :: rest.
Proof. exact gls_pop_below. Qed.
Print Assumptions C06_nan_lstack_pop_answers_below_top_partial.

Theorem C06_nan_lstack_peek_nonempty_partial : forall eqv t ops,
  state_after lifo_step [t] ops <> [] ->
  outs (gls_step eqv) (ls_new t) (ops ++ [SPeek]) =
  outs (gls_step eqv) (ls_new t) ops ++ [SVal (hd 0 (state_after lifo_step [t] ops))].
Proof. exact gls_peek_nonempty. Qed.
Print Assumptions C06_nan_lstack_peek_nonempty_partial.

(* Search x is exact (membership up to ==) whenever the stack's first element t
   is not == x — in particular for EVERY x when t is not equal to anything *)
Theorem C06_nan_lstack_search_exact_partial : forall eqv t ops x, eqv t x = false ->
  outs (gls_step eqv) (ls_new t) (ops ++ [SSearch x]) =
  outs (gls_step eqv) (ls_new t) ops ++ [SBool (ghas eqv x (state_after lifo_step [t] ops))].
Proof. exact gls_search_not_first. Qed.
Print Assumptions C06_nan_lstack_search_exact_partial.

(* the ghost, universally: Size 0, Peek answers t, Search t answers [eqv t t]
   (true for an ordinary t — the statement wants false; false for a NaN) *)
Theorem C06_nan_lstack_emptied_keeps_ghost_partial : forall eqv t ops,
  state_after lifo_step [t] ops = [] ->
  outs (gls_step eqv) (ls_new t) (ops ++ [SSize; SPeek; SSearch t; Pop; SSize; SPeek; SSearch t]) =
  outs (gls_step eqv) (ls_new t) ops ++
    [SInt 0; SVal t; SBool (eqv t t); SVal 0; SInt 0; SVal t; SBool (eqv t t)].
Proof. exact gls_emptied_ghost. Qed.
Print Assumptions C06_nan_lstack_emptied_keeps_ghost_partial.

(* ------------------------------------------------------------------ *)
(* Non-vacuity at the executable instance [go_eq]                      *)
(* ------------------------------------------------------------------ *)

Example C06_nan_example_slice :
  outs (gss_step go_eq) ss_new
    [Push c_nan; Push 1; Push c_nz; Push c_u1; SSearch c_nan; SSearch 0; SSearch c_m1; SSearch 1;
     Pop; Pop; SPeek; Pop; Pop; Pop; SSize] =
    [SNone; SNone; SNone; SNone; SBool false; SBool true; SBool false; SBool true;
     SVal c_u1; SVal c_nz; SVal 1; SVal 1; SVal c_nan; SVal 0; SInt 0].
Proof. vm_compute. reflexivity. Qed.

Example C06_nan_example_linked :
  outs (gls_step go_eq) (ls_new c_nan) [Push 1; Push c_nz; SSearch c_nan; SSearch 0; SPeek; Pop; Pop; Pop; SSize; SPeek; SSearch c_nan] =
    [SNone; SNone; SBool false; SBool true; SVal c_nz; SVal 1; SVal c_nan; SVal 0; SInt 0; SVal c_nan; SBool false] /\
  state_after lifo_step [c_nan] [Push 1; Push c_nz; Pop; Pop; Pop] = [] /\
  gls_pops go_eq (ls_new c_nan) [Push 1; Pop; Pop; Pop] = 2%nat.
Proof. vm_compute. repeat split; reflexivity. Qed.
