(* C06_Wire.v — wire glue for C06 (no proofs; exercised by the correspondence).

   input    = cfg :: t :: concat [op; arg]
              cfg = impl + 2*inst
              impl 0 = stack.New[T]()          (slice-backed; t ignored)
              impl 1 = stack.NewLinked[T](t)   (linked, mandatory first element t)
              inst 0..2 = the element type T the harness instantiates (int, string,
                          struct{K int; S string}; elements go through an injective
                          codec int <-> T, harness/c05_instances.go); the model is the
                          same for every inst (cfg 0|2|4 and 1|3|5 are one case each).
              inst 3..5 = element types whose == is not the identity of values
                          (float64, struct{X, Y float64}, any; harness/c05_nan.go):
                          the integers are CODES (C05_ModelNaN.v: c_nan, c_nan2, c_nz,
                          c_u1, c_u2, c_m1).  cfg 6|8|10 and 7|9|11 run the generic
                          models [gss_step go_eq] / [gls_step go_eq] and are judged
                          by [glifo_step go_eq].
              op  1 Push arg | 2 Pop | 3 Peek | 4 Search arg | 5 Size
   observed = concat (result of every op) ++ end-of-case observables, where the
              end of a case is: Size (= n), min(n,4096) x Pop, Size, Pop, Size,
              Peek — all encoded like ordinary ops:
              Push -> nothing   Pop -> [item]   Peek -> [item]
              Search -> [0|1]   Size -> [n]
              a Go panic -> [-777; 0] and the case stops there.
   harness/c06.go is the mirror. *)

From Gogu Require Import Base C05_DList C05_Model C05_ModelNaN C06_Model C06_ModelNaN.

Definition sdec_op (rec : list Z) : option sop :=
  match rec with
  | [1; a] => Some (Push a)
  | [2; _] => Some Pop
  | [3; _] => Some SPeek
  | [4; a] => Some (SSearch a)
  | [5; _] => Some SSize
  | _ => None
  end.

Fixpoint sdec_ops (recs : list (list Z)) : option (list sop) :=
  match recs with
  | [] => Some []
  | r :: recs' =>
      match sdec_op r, sdec_ops recs' with
      | Some o, Some os => Some (o :: os)
      | _, _ => None
      end
  end.

Definition senc_out (r : sout) : list Z :=
  match r with
  | SNone => []
  | SVal v => [v]
  | SBool b => enc_bool b
  | SInt n => [n]
  | SFail k => [-777; k]
  end.

Definition senc_outs (rs : list sout) : list Z := flat_map senc_out rs.

(* the model's observation: the code as it is, defect #27 included *)
Definition c06_run (w : list Z) : list Z :=
  match w with
  | cfg :: t :: w' =>
      match sdec_ops (chunks 2 w') with
      | Some ops =>
          match cfg with
          | 0 | 2 | 4 => senc_outs (sobserve ss_step ss_new ops)
          | 1 | 3 | 5 => senc_outs (sobserve ls_step (ls_new t) ops)
          | 6 | 8 | 10 => senc_outs (sobserve (gss_step go_eq) ss_new ops)
          | 7 | 9 | 11 => senc_outs (sobserve (gls_step go_eq) (ls_new t) ops)
          | _ => wire_error
          end
      | None => wire_error
      end
  | _ => wire_error
  end.

(* the specification's observation: the functional LIFO, started empty (slice)
   or at [t] (linked) *)
Definition c06_spec (w : list Z) : list Z :=
  match w with
  | cfg :: t :: w' =>
      match sdec_ops (chunks 2 w') with
      | Some ops =>
          match cfg with
          | 0 | 2 | 4 => senc_outs (sobserve lifo_step [] ops)
          | 1 | 3 | 5 => senc_outs (sobserve lifo_step [t] ops)
          | 6 | 8 | 10 => senc_outs (sobserve (glifo_step go_eq) [] ops)
          | 7 | 9 | 11 => senc_outs (sobserve (glifo_step go_eq) [t] ops)
          | _ => wire_error
          end
      | None => wire_error
      end
  | _ => wire_error
  end.

Definition c06_agree (w obs : list Z) : bool := zlist_eqb obs (c06_run w).

(* C06 determines every observable uniquely (a deterministic LIFO), so the
   property holds on an observation iff it is the LIFO's.  Judged against the
   SPEC machine [lifo_step], NOT against the model: for the linked stack the
   model mirrors defect #27 and differs from the spec (C06_Props:
   lstack_lifo_refuted); those cases are attributed to the known finding
   KF-C06-lstack-pop by tools/matchers.d/c06.py, everything else is reported. *)
Definition c06_holds (w obs : list Z) : bool := zlist_eqb obs (c06_spec w).
