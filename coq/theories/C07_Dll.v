(* C07_Dll.v — cache/lrucache.go, Layer 2: the circular doubly linked list with
   a sentinel root as a node heap, every Go statement one heap update.

     type node    struct { next, prev *node; list *lruList; key K; value V }
     type lruList struct { root node; len int }

   heap      : list cell, address = index, allocation appends (monotone, no free;
               Go's GC only reclaims what is unreachable)
   *node     : an address; &l.root is the address [d_root] of the list's sentinel
               (NewLRU allocates it at address 0, Flush allocates a new one)
   node.list : written once in addAfter and never read — not represented
   nil       : never stored in next/prev by this code (a fresh list's root
               points to itself); reads outside the heap cannot happen
               (C07_DllProofs.rep_bounds) and would yield the default cell.

   This is the model that ./check executes against the implementation
   (C07_Wire.v).  No proofs in this file. *)

From Gogu Require Import Base C07_Model.
Local Open Scope Z_scope.

Definition addr := nat.

Record cell : Type := mkCell { c_next : addr; c_prev : addr; c_key : Z; c_val : Z }.
Definition heap := list cell.
Definition dflt : cell := mkCell 0%nat 0%nat 0 0.

Definition rd (h : heap) (a : addr) : cell := nth a h dflt.
Fixpoint upd (h : heap) (a : addr) (f : cell -> cell) : heap :=
  match h with
  | [] => []
  | c :: h' => match a with O => f c :: h' | S a' => c :: upd h' a' f end
  end.
Definition set_next (h : heap) (a x : addr) : heap :=
  upd h a (fun c => mkCell x (c_prev c) (c_key c) (c_val c)).
Definition set_prev (h : heap) (a x : addr) : heap :=
  upd h a (fun c => mkCell (c_next c) x (c_key c) (c_val c)).
Definition set_value (h : heap) (a : addr) (v : Z) : heap :=
  upd h a (fun c => mkCell (c_next c) (c_prev c) (c_key c) v).

Record dlru : Type := mkD {
  d_heap  : heap;
  d_root  : addr;              (* &c.evictList.root *)
  d_len   : Z;                 (* c.evictList.len *)
  d_items : list (Z * addr);   (* c.items *)
  d_size  : Z                  (* c.size *)
}.

(* newLRUList: root.prev = root.next = &root, len 0 *)
Definition new_list (h : heap) : heap * addr :=
  let a := length h in (h ++ [mkCell a a 0 0], a).

(* func (l *lruList) moveAfter(current, nd *node) *)
Definition move_after (h : heap) (current nd : addr) : heap :=
  if Nat.eqb current nd then h else
  let h := set_next h (c_prev (rd h nd)) (c_next (rd h nd)) in   (* nd.prev.next = nd.next *)
  let h := set_prev h (c_next (rd h nd)) (c_prev (rd h nd)) in   (* nd.next.prev = nd.prev *)
  let h := set_prev h nd current in                              (* nd.prev = current *)
  let h := set_next h nd (c_next (rd h current)) in              (* nd.next = current.next *)
  let h := set_next h (c_prev (rd h nd)) nd in                   (* nd.prev.next = nd *)
  let h := set_prev h (c_next (rd h nd)) nd in                   (* nd.next.prev = nd *)
  h.

(* moveFront(nd) = moveAfter(&l.root, nd) *)
Definition d_move_front (d : dlru) (nd : addr) : dlru :=
  mkD (move_after (d_heap d) (d_root d) nd) (d_root d) (d_len d) (d_items d) (d_size d).

(* addAfter(current, key, value): the composite literal reads current.next,
   then two stores, len++ *)
Definition add_after (h : heap) (current : addr) (k v : Z) : heap * addr :=
  let a := length h in
  let h := h ++ [mkCell (c_next (rd h current)) current k v] in   (* newNode := node{prev: current, next: current.next, ...} *)
  let h := set_prev h (c_next (rd h current)) a in                (* current.next.prev = &newNode *)
  let h := set_next h current a in                                (* current.next = &newNode *)
  (h, a).

Definition d_add_front (d : dlru) (k v : Z) : dlru * addr :=
  let (h, a) := add_after (d_heap d) (d_root d) k v in
  (mkD h (d_root d) (d_len d + 1) (d_items d) (d_size d), a).

Definition d_last (d : dlru) : addr := c_prev (rd (d_heap d) (d_root d)).
Definition d_first (d : dlru) : addr := c_next (rd (d_heap d) (d_root d)).

(* remove(node) *)
Definition d_list_remove (d : dlru) (node : addr) : dlru * bool :=
  if negb (Nat.eqb node (d_root d)) then
    let h := d_heap d in
    let next := c_next (rd h node) in
    let prev := c_prev (rd h node) in
    let h := set_prev h next prev in        (* next.prev = prev *)
    let h := set_next h prev next in        (* prev.next = next *)
    (mkD h (d_root d) (d_len d - 1) (d_items d) (d_size d), true)
  else (d, false).

Definition d_remove_last (d : dlru) : dlru * bool := d_list_remove d (d_last d).

Definition d_with_items (d : dlru) (m : list (Z * addr)) : dlru :=
  mkD (d_heap d) (d_root d) (d_len d) m (d_size d).

(* ---- LRUCache ---- *)

Definition d_new (sz : Z) : res dlru :=
  if sz <=? 0 then Err 1 else
  let (h, r) := new_list [] in Ok (mkD h r 0 [] sz).

Definition d_count (d : dlru) : Z := d_len d.

Definition d_remove_oldest (d : dlru) : dlru * out :=
  let item := d_last d in
  if negb (Nat.eqb item (d_root d)) then
    let key := c_key (rd (d_heap d) item) in
    let value := c_val (rd (d_heap d) item) in
    let d1 := d_with_items d (m_del key (d_items d)) in       (* delete(c.items, item.key) *)
    let (d2, b) := d_remove_last d1 in
    (d2, KVB key value b)
  else (d, none3).

Definition d_add (k v : Z) (d : dlru) : dlru * out :=
  match m_get k (d_items d) with
  | Some item =>
      let d1 := d_move_front d item in
      let d2 := mkD (set_value (d_heap d1) item v) (d_root d1) (d_len d1) (d_items d1) (d_size d1) in
      (d2, none3)
  | None =>
      let (d1, item) := d_add_front d k v in
      let d2 := d_with_items d1 (m_set k item (d_items d1)) in
      if d_count d2 >? d_size d2 then d_remove_oldest d2 else (d2, none3)
  end.

Definition d_get_oldest (d : dlru) : dlru * out :=
  let item := d_last d in
  if negb (Nat.eqb item (d_root d)) then
    let d1 := d_move_front d item in
    (d1, KVB (c_key (rd (d_heap d1) item)) (c_val (rd (d_heap d1) item)) true)
  else (d, none3).

Definition d_get (k : Z) (d : dlru) : dlru * out :=
  match m_get k (d_items d) with
  | Some item =>
      let d1 := d_move_front d item in
      (d1, VB (c_val (rd (d_heap d1) item)) true)
  | None => (d, none2)
  end.

Definition d_get_youngest (d : dlru) : dlru * out :=
  let item := d_first d in
  if negb (Nat.eqb item (d_root d)) then
    (d, KVB (c_key (rd (d_heap d) item)) (c_val (rd (d_heap d) item)) true)
  else (d, none3).

Definition d_remove (k : Z) (d : dlru) : dlru * out :=
  match m_get k (d_items d) with
  | Some item =>
      let d1 := d_with_items d (m_del (c_key (rd (d_heap d) item)) (d_items d)) in
      let (d2, _) := d_list_remove d1 item in
      (d2, VB (c_val (rd (d_heap d2) item)) true)
  | None => (d, none2)
  end.

(* after the repair: c.evictList.remove(item) *)
Definition d_remove_youngest (d : dlru) : dlru * out :=
  let item := d_first d in
  if negb (Nat.eqb item (d_root d)) then
    let d1 := d_with_items d (m_del (c_key (rd (d_heap d) item)) (d_items d)) in
    let (d2, b) := d_list_remove d1 item in
    (d2, KVB (c_key (rd (d_heap d2) item)) (c_val (rd (d_heap d2) item)) b)
  else (d, none3).

(* the code as found: ... c.evictList.removeLast() *)
Definition d_remove_youngest_unrepaired (d : dlru) : dlru * out :=
  let item := d_first d in
  if negb (Nat.eqb item (d_root d)) then
    let d1 := d_with_items d (m_del (c_key (rd (d_heap d) item)) (d_items d)) in
    let (d2, b) := d_remove_last d1 in
    (d2, KVB (c_key (rd (d_heap d2) item)) (c_val (rd (d_heap d2) item)) b)
  else (d, none3).

(* Flush: c.items = make(...); c.evictList = newLRUList() *)
Definition d_flush (d : dlru) : dlru * out :=
  let (h, r) := new_list (d_heap d) in
  (mkD h r 0 [] (d_size d), Unit).

Definition d_step (o : op) (d : dlru) : dlru * out :=
  match o with
  | Add k v => d_add k v d
  | Get k => d_get k d
  | GetOldest => d_get_oldest d
  | GetYoungest => d_get_youngest d
  | Remove k => d_remove k d
  | RemoveOldest => d_remove_oldest d
  | RemoveYoungest => d_remove_youngest d
  | Flush => d_flush d
  end.

Definition d_step_unrepaired (o : op) (d : dlru) : dlru * out :=
  match o with
  | RemoveYoungest => d_remove_youngest_unrepaired d
  | _ => d_step o d
  end.

Definition run_dll (d : dlru) (ops : list op) : list (out * Z) :=
  run d_step d_count ops d.
