(* C07_DllProofs.v — the pointer-level list code (C07_Dll.v) implements the
   list operations of Layer 1 (C07_Model.v).

     chain h a l b   following next from a visits exactly l and then b, and
                     prev is the inverse of next along the way
     ring h r l      chain h r l r, root and nodes pairwise distinct, all allocated
     Rep d c         the heap state d represents the Layer-1 state c: the ring
                     through the root enumerates the node ids of c in order,
                     each cell stores its node's key and value, map / len /
                     size / allocation pointer coincide

   Main results: every API function preserves Rep and returns the same result
   (step_rep); hence run_dll = run_lru on every history (dll_refines_lru) and
   the theorems of C07_Proofs transfer to the pointer code. *)

From Gogu Require Import Base C07_Model C07_Proofs C07_Dll.
Local Open Scope nat_scope.

(* ------------------------------------------------------------------ *)
(* heap reads after writes *)

Lemma upd_length h a f : length (upd h a f) = length h.
Proof. revert a. induction h as [|c h IH]; intros [|a]; cbn; auto. Qed.

Lemma rd_upd_same h a f : a < length h -> rd (upd h a f) a = f (rd h a).
Proof.
  unfold rd. revert a. induction h as [|c h IH]; intros [|a] H; cbn in *; try lia; [reflexivity|].
  apply IH. lia.
Qed.

Lemma rd_upd_other h a b f : a <> b -> rd (upd h a f) b = rd h b.
Proof.
  unfold rd. revert a b. induction h as [|c h IH]; intros [|a] [|b] H; cbn; try reflexivity; try congruence.
  apply IH. congruence.
Qed.

Lemma rd_upd_oob h a f : length h <= a -> upd h a f = h.
Proof.
  revert a. induction h as [|c h IH]; intros [|a] H; cbn in *; try reflexivity; try lia.
  f_equal. apply IH. lia.
Qed.

Lemma rd_app_old h c a : a < length h -> rd (h ++ [c]) a = rd h a.
Proof. intros H. unfold rd. now apply app_nth1. Qed.

Lemma rd_app_new h c : rd (h ++ [c]) (length h) = c.
Proof. unfold rd. rewrite app_nth2 by lia. now rewrite Nat.sub_diag. Qed.

Lemma rd_oob h a : length h <= a -> rd h a = dflt.
Proof. intros H. unfold rd. now apply nth_overflow. Qed.

(* a field preserved by f is preserved by upd at every address *)
Lemma field_upd {A} (g : cell -> A) h a f b : (forall c, g (f c) = g c) -> g (rd (upd h a f) b) = g (rd h b).
Proof.
  intros Hg. destruct (Nat.eq_dec a b) as [->|Hne]; [|now rewrite rd_upd_other].
  destruct (Nat.lt_ge_cases b (length h)) as [Hlt|Hge].
  - now rewrite rd_upd_same, Hg.
  - now rewrite rd_upd_oob.
Qed.

Lemma set_next_length h a x : length (set_next h a x) = length h. Proof. apply upd_length. Qed.
Lemma set_prev_length h a x : length (set_prev h a x) = length h. Proof. apply upd_length. Qed.
Lemma set_value_length h a x : length (set_value h a x) = length h. Proof. apply upd_length. Qed.

Lemma nx_set_next h a x b : a < length h ->
  c_next (rd (set_next h a x) b) = if b =? a then x else c_next (rd h b).
Proof.
  intros H. unfold set_next. destruct (Nat.eqb_spec b a) as [->|Hne].
  - now rewrite rd_upd_same.
  - rewrite rd_upd_other by congruence. reflexivity.
Qed.
Lemma pv_set_next h a x b : c_prev (rd (set_next h a x) b) = c_prev (rd h b).
Proof. apply (field_upd c_prev). reflexivity. Qed.
Lemma ky_set_next h a x b : c_key (rd (set_next h a x) b) = c_key (rd h b).
Proof. apply (field_upd c_key). reflexivity. Qed.
Lemma vl_set_next h a x b : c_val (rd (set_next h a x) b) = c_val (rd h b).
Proof. apply (field_upd c_val). reflexivity. Qed.

Lemma pv_set_prev h a x b : a < length h ->
  c_prev (rd (set_prev h a x) b) = if b =? a then x else c_prev (rd h b).
Proof.
  intros H. unfold set_prev. destruct (Nat.eqb_spec b a) as [->|Hne].
  - now rewrite rd_upd_same.
  - rewrite rd_upd_other by congruence. reflexivity.
Qed.
Lemma nx_set_prev h a x b : c_next (rd (set_prev h a x) b) = c_next (rd h b).
Proof. apply (field_upd c_next). reflexivity. Qed.
Lemma ky_set_prev h a x b : c_key (rd (set_prev h a x) b) = c_key (rd h b).
Proof. apply (field_upd c_key). reflexivity. Qed.
Lemma vl_set_prev h a x b : c_val (rd (set_prev h a x) b) = c_val (rd h b).
Proof. apply (field_upd c_val). reflexivity. Qed.

Lemma vl_set_value h a v b : a < length h ->
  c_val (rd (set_value h a v) b) = if b =? a then v else c_val (rd h b).
Proof.
  intros H. unfold set_value. destruct (Nat.eqb_spec b a) as [->|Hne].
  - now rewrite rd_upd_same.
  - rewrite rd_upd_other by congruence. reflexivity.
Qed.
Lemma nx_set_value h a v b : c_next (rd (set_value h a v) b) = c_next (rd h b).
Proof. apply (field_upd c_next). reflexivity. Qed.
Lemma pv_set_value h a v b : c_prev (rd (set_value h a v) b) = c_prev (rd h b).
Proof. apply (field_upd c_prev). reflexivity. Qed.
Lemma ky_set_value h a v b : c_key (rd (set_value h a v) b) = c_key (rd h b).
Proof. apply (field_upd c_key). reflexivity. Qed.

(* ------------------------------------------------------------------ *)
(* chains *)

Fixpoint chain (h : heap) (a : addr) (l : list addr) (b : addr) : Prop :=
  match l with
  | [] => c_next (rd h a) = b /\ c_prev (rd h b) = a
  | x :: l' => c_next (rd h a) = x /\ c_prev (rd h x) = a /\ chain h x l' b
  end.

Lemma chain_frame h h' : forall l a b,
  (forall y, In y (a :: l) -> c_next (rd h' y) = c_next (rd h y)) ->
  (forall y, In y (l ++ [b]) -> c_prev (rd h' y) = c_prev (rd h y)) ->
  chain h a l b -> chain h' a l b.
Proof.
  induction l as [|x l IH]; intros a b Hn Hp; cbn [chain].
  - intros [H1 H2]. rewrite Hn, Hp by (cbn; auto). auto.
  - intros (H1 & H2 & H3). rewrite Hn, Hp by (cbn; auto). repeat split; auto.
    apply IH; auto.
    + intros y Hy. apply Hn. now right.
    + intros y Hy. apply Hp. now right.
Qed.

Lemma last_default {A} (l : list A) : forall x a b : A, last (x :: l) a = last (x :: l) b.
Proof.
  induction l as [|y l IH]; intros x a b; [reflexivity|].
  change (last (x :: y :: l) a) with (last (y :: l) a). change (last (x :: y :: l) b) with (last (y :: l) b).
  apply IH.
Qed.

Lemma last_cons_in {A} (l : list A) (x a : A) : last (x :: l) a = last l x.
Proof.
  destruct l as [|y l]; [reflexivity|].
  change (last (x :: y :: l) a) with (last (y :: l) a). apply last_default.
Qed.

Lemma chain_first h : forall l a b, chain h a l b -> c_next (rd h a) = hd b l.
Proof. intros [|x l] a b; cbn; tauto. Qed.

Lemma chain_last h : forall l a b, chain h a l b -> c_prev (rd h b) = last l a.
Proof.
  induction l as [|x l IH]; intros a b; cbn [chain]; [tauto|].
  intros (_ & _ & H). rewrite (IH _ _ H). symmetry. apply last_cons_in.
Qed.

Lemma chain_app h x l2 b : forall l1 a,
  chain h a (l1 ++ x :: l2) b <-> chain h a l1 x /\ chain h x l2 b.
Proof.
  induction l1 as [|y l1 IH]; intros a; cbn [app chain]; [tauto|]. rewrite IH. tauto.
Qed.

Lemma last_in {A} (l : list A) (a : A) : In (last l a) (a :: l).
Proof.
  revert a. induction l as [|x l IH]; intros a; [now left|].
  right. rewrite last_cons_in. apply IH.
Qed.

Lemma hd_in {A} (l : list A) (b : A) : In (hd b l) (l ++ [b]).
Proof. destruct l; cbn; auto. Qed.

Lemma NoDup_app_l {A} (l1 l2 : list A) : NoDup (l1 ++ l2) -> NoDup l1.
Proof.
  induction l1 as [|x l1 IH]; cbn; intros H; [constructor|].
  apply NoDup_cons_iff in H as [Hx H]. constructor; [|auto]. intros Hin. apply Hx. apply in_or_app. now left.
Qed.

Lemma NoDup_app_r {A} (l1 l2 : list A) : NoDup (l1 ++ l2) -> NoDup l2.
Proof. induction l1 as [|x l1 IH]; cbn; intros H; [exact H|]. apply NoDup_cons_iff in H as [_ H]. auto. Qed.

Lemma NoDup_app_disj {A} (l1 l2 : list A) : NoDup (l1 ++ l2) -> forall y, In y l1 -> ~ In y l2.
Proof.
  induction l1 as [|x l1 IH]; cbn; intros H y Hy1 Hy2; [contradiction|].
  apply NoDup_cons_iff in H as [Hx H]. destruct Hy1 as [->|Hy1]; [|eapply IH; eauto].
  apply Hx. apply in_or_app. now right.
Qed.

(* redirect the last edge of a chain to a new target *)
Lemma chain_retarget h h' b' : forall l a x,
  chain h a l x -> NoDup (a :: l) ->
  (forall y, In y (a :: l) -> y <> last l a -> c_next (rd h' y) = c_next (rd h y)) ->
  (forall y, In y l -> c_prev (rd h' y) = c_prev (rd h y)) ->
  c_next (rd h' (last l a)) = b' -> c_prev (rd h' b') = last l a ->
  chain h' a l b'.
Proof.
  induction l as [|y l IH]; intros a x Hc Hnd Hn Hp E1 E2; cbn [chain] in *.
  - auto.
  - destruct Hc as (H1 & H2 & H3). rewrite last_cons_in in *.
    apply NoDup_cons_iff in Hnd as [Hna Hnd].
    assert (Hla : a <> last l y).
    { intros ->. apply Hna. apply last_in. }
    rewrite Hn by (cbn; auto). rewrite Hp by (now left). repeat split; auto.
    apply (IH y x); auto.
    + intros z Hz Hne. apply Hn; [now right|exact Hne].
    + intros z Hz. apply Hp. now right.
Qed.

(* unlinking x: prev(x).next = next(x), next(x).prev = prev(x) *)
Lemma unlink_chain h h' a l1 x l2 b :
  chain h a (l1 ++ x :: l2) b ->
  NoDup (a :: l1 ++ x :: l2) -> NoDup (l1 ++ x :: l2 ++ [b]) ->
  (forall y, c_next (rd h' y) = if y =? c_prev (rd h x) then c_next (rd h x) else c_next (rd h y)) ->
  (forall y, c_prev (rd h' y) = if y =? c_next (rd h x) then c_prev (rd h x) else c_prev (rd h y)) ->
  chain h' a (l1 ++ l2) b.
Proof.
  intros Hc HS HT Hn Hp. apply chain_app in Hc as [Hc1 Hc2].
  pose proof (chain_last _ _ _ _ Hc1) as Ep. pose proof (chain_first _ _ _ _ Hc2) as En.
  rewrite Ep, En in *.
  assert (HinP : In (last l1 a) (a :: l1)) by apply last_in.
  assert (HinN : In (hd b l2) (l2 ++ [b])) by apply hd_in.
  (* sources other than p keep next; targets other than n keep prev *)
  assert (HS1 : NoDup (a :: l1)).
  { change (a :: l1 ++ x :: l2) with ((a :: l1) ++ x :: l2) in HS. now apply NoDup_app_l in HS. }
  assert (Hdisj : forall y, In y (a :: l1) -> ~ In y (x :: l2)).
  { change (a :: l1 ++ x :: l2) with ((a :: l1) ++ x :: l2) in HS. now apply NoDup_app_disj. }
  assert (Hdisj' : forall y, In y l1 -> ~ In y (x :: l2 ++ [b])).
  { now apply NoDup_app_disj. }
  assert (HT2 : NoDup (x :: l2 ++ [b])) by (now apply NoDup_app_r in HT).
  assert (Hret : chain h' a l1 (hd b l2)).
  { apply (chain_retarget h h' (hd b l2) l1 a x Hc1 HS1).
    - intros y Hy Hne. rewrite Hn. destruct (Nat.eqb_spec y (last l1 a)); [contradiction|reflexivity].
    - intros y Hy. rewrite Hp. destruct (Nat.eqb_spec y (hd b l2)) as [->|_]; [|reflexivity].
      exfalso. apply (Hdisj' _ Hy). now right.
    - rewrite Hn. now rewrite Nat.eqb_refl.
    - rewrite Hp. now rewrite Nat.eqb_refl. }
  destruct l2 as [|n l2'].
  - rewrite app_nil_r. exact Hret.
  - cbn [hd] in *. apply chain_app. split; [exact Hret|].
    cbn [chain] in Hc2. destruct Hc2 as (_ & _ & Hc2).
    apply (chain_frame h h'); [| |exact Hc2].
    + intros y Hy. rewrite Hn. destruct (Nat.eqb_spec y (last l1 a)) as [->|_]; [|reflexivity].
      exfalso. apply (Hdisj _ HinP). now right.
    + intros y Hy. rewrite Hp. destruct (Nat.eqb_spec y n) as [->|_]; [|reflexivity].
      exfalso. apply NoDup_cons_iff in HT2 as [_ HT2]. cbn in HT2. apply NoDup_cons_iff in HT2 as [Hn' _].
      contradiction.
Qed.

(* linking x right after a *)
Lemma link_chain h h' a l b x :
  chain h a l b -> NoDup (a :: l) -> NoDup (l ++ [b]) ->
  ~ In x (a :: l) -> ~ In x (l ++ [b]) ->
  (forall y, c_next (rd h' y) = if y =? a then x else if y =? x then c_next (rd h a) else c_next (rd h y)) ->
  (forall y, c_prev (rd h' y) = if y =? c_next (rd h a) then x else if y =? x then a else c_prev (rd h y)) ->
  chain h' a (x :: l) b.
Proof.
  intros Hc HS HT HxS HxT Hn Hp. pose proof (chain_first _ _ _ _ Hc) as Ef. rewrite Ef in *.
  assert (Hxa : x <> a) by (intros ->; apply HxS; now left).
  assert (Hxf : x <> hd b l) by (intros E; apply HxT; rewrite E; apply hd_in).
  cbn [chain]. split; [rewrite Hn; now rewrite Nat.eqb_refl|]. split.
  { rewrite Hp. destruct (Nat.eqb_spec x (hd b l)); [contradiction|]. now rewrite Nat.eqb_refl. }
  destruct l as [|f l']; cbn [chain hd] in *.
  - split.
    + rewrite Hn. destruct (Nat.eqb_spec x a); [contradiction|]. now rewrite Nat.eqb_refl.
    + rewrite Hp. now rewrite Nat.eqb_refl.
  - destruct Hc as (_ & _ & Hc). split; [|split].
    + rewrite Hn. destruct (Nat.eqb_spec x a); [contradiction|]. now rewrite Nat.eqb_refl.
    + rewrite Hp. now rewrite Nat.eqb_refl.
    + apply NoDup_cons_iff in HS as [HaS _]. apply NoDup_cons_iff in HT as [HfT _].
      apply (chain_frame h h'); [| |exact Hc].
      * intros y Hy. rewrite Hn. destruct (Nat.eqb_spec y a) as [->|_]; [contradiction|].
        destruct (Nat.eqb_spec y x) as [->|_]; [|reflexivity]. exfalso. apply HxS. now right.
      * intros y Hy. rewrite Hp. destruct (Nat.eqb_spec y f) as [->|_]; [contradiction|].
        destruct (Nat.eqb_spec y x) as [->|_]; [|reflexivity]. exfalso. apply HxT. now right.
Qed.

(* ------------------------------------------------------------------ *)
(* rings *)

Record ring (h : heap) (r : addr) (l : list addr) : Prop := mkRing {
  ring_chain : chain h r l r;
  ring_nodup : NoDup (r :: l);
  ring_bound : forall y, In y (r :: l) -> y < length h
}.

Lemma NoDup_snoc {A} (a : A) (l : list A) : NoDup (a :: l) -> NoDup (l ++ [a]).
Proof.
  intros H. apply NoDup_cons_iff in H as [H1 H2].
  induction l as [|x l IH]; cbn; [constructor; [intros []|constructor]|].
  apply NoDup_cons_iff in H2 as [Hx H2]. constructor.
  - intros Hin. apply in_app_or in Hin as [Hin|[->|[]]]; [contradiction|]. apply H1. now left.
  - apply IH; [|exact H2]. intros Hin. apply H1. now right.
Qed.

Lemma ring_unlink h h' r l1 x l2 :
  ring h r (l1 ++ x :: l2) -> length h' = length h ->
  (forall y, c_next (rd h' y) = if y =? c_prev (rd h x) then c_next (rd h x) else c_next (rd h y)) ->
  (forall y, c_prev (rd h' y) = if y =? c_next (rd h x) then c_prev (rd h x) else c_prev (rd h y)) ->
  ring h' r (l1 ++ l2).
Proof.
  intros [Hc Hnd Hb] Hlen Hn Hp. constructor.
  - apply (unlink_chain h h' r l1 x l2 r Hc Hnd); [|exact Hn|exact Hp].
    apply NoDup_snoc in Hnd. now rewrite <- app_assoc in Hnd.
  - change (r :: l1 ++ x :: l2) with ((r :: l1) ++ x :: l2) in Hnd. now apply NoDup_remove_1 in Hnd.
  - intros y Hy. rewrite Hlen. apply Hb. destruct Hy as [->|Hy]; [now left|]. right.
    apply in_app_or in Hy as [Hy|Hy]; apply in_or_app; [now left|right; now right].
Qed.

Lemma ring_link h h' r l x :
  ring h r l -> ~ In x (r :: l) -> x < length h' -> length h <= length h' ->
  (forall y, c_next (rd h' y) = if y =? r then x else if y =? x then c_next (rd h r) else c_next (rd h y)) ->
  (forall y, c_prev (rd h' y) = if y =? c_next (rd h r) then x else if y =? x then r else c_prev (rd h y)) ->
  ring h' r (x :: l).
Proof.
  intros [Hc Hnd Hb] Hx Hxb Hlen Hn Hp. constructor.
  - apply (link_chain h h' r l r x Hc Hnd); auto.
    + now apply NoDup_snoc.
    + intros Hin. apply Hx. apply in_app_or in Hin as [Hin|[->|[]]]; [now right|now left].
  - apply NoDup_cons_iff in Hnd as [Hr Hnd]. constructor; [|constructor; [|exact Hnd]].
    + intros [->|Hin]; [apply Hx; now left|contradiction].
    + intros Hin. apply Hx. now right.
  - intros y [->|[->|Hy]]; [|exact Hxb|]; (eapply Nat.lt_le_trans; [apply Hb|exact Hlen]); [now left|now right].
Qed.

(* where the neighbours of a ring member are *)
Lemma ring_neighbours h r l1 x l2 :
  ring h r (l1 ++ x :: l2) ->
  c_prev (rd h x) < length h /\ c_next (rd h x) < length h /\
  c_prev (rd h x) <> x /\ c_next (rd h x) <> x.
Proof.
  intros [Hc Hnd Hb]. apply chain_app in Hc as [Hc1 Hc2].
  rewrite (chain_last _ _ _ _ Hc1), (chain_first _ _ _ _ Hc2).
  pose proof (last_in l1 r) as HP. pose proof (hd_in l2 r) as HN.
  assert (Hx : ~ In x (r :: l1) /\ ~ In x (l2 ++ [r])).
  { pose proof Hnd as Hnd'. change (r :: l1 ++ x :: l2) with ((r :: l1) ++ x :: l2) in Hnd'.
    apply NoDup_remove_2 in Hnd'. split; intros Hin; apply Hnd'.
    - apply in_or_app. now left.
    - apply in_app_or in Hin as [Hin|[<-|[]]]; [apply in_or_app; now right|now left]. }
  destruct Hx as [Hx1 Hx2]. repeat split.
  - apply Hb. destruct HP as [<-|HP]; [now left|]. right. apply in_or_app. now left.
  - apply Hb. apply in_app_or in HN as [HN|[<-|[]]]; [|now left]. right. apply in_or_app. right. now right.
  - intros E. apply Hx1. now rewrite <- E.
  - intros E. apply Hx2. now rewrite <- E.
Qed.

(* ------------------------------------------------------------------ *)
(* what the pointer statements compute, field by field *)

Definition unlinked (h hu : heap) (x : addr) : Prop :=
  length hu = length h /\
  (forall y, c_next (rd hu y) = if y =? c_prev (rd h x) then c_next (rd h x) else c_next (rd h y)) /\
  (forall y, c_prev (rd hu y) = if y =? c_next (rd h x) then c_prev (rd h x) else c_prev (rd h y)) /\
  (forall y, c_key (rd hu y) = c_key (rd h y)) /\
  (forall y, c_val (rd hu y) = c_val (rd h y)).

Definition linked (h h' : heap) (a x : addr) : Prop :=
  (forall y, c_next (rd h' y) = if y =? a then x else if y =? x then c_next (rd h a) else c_next (rd h y)) /\
  (forall y, c_prev (rd h' y) = if y =? c_next (rd h a) then x else if y =? x then a else c_prev (rd h y)).

(* the first two statements of moveAfter *)
Definition unlink_mv (h : heap) (x : addr) : heap :=
  let h1 := set_next h (c_prev (rd h x)) (c_next (rd h x)) in
  set_prev h1 (c_next (rd h1 x)) (c_prev (rd h1 x)).
(* its last four statements *)
Definition link_mv (h : heap) (cur x : addr) : heap :=
  let h3 := set_prev h x cur in
  let h4 := set_next h3 x (c_next (rd h3 cur)) in
  let h5 := set_next h4 (c_prev (rd h4 x)) x in
  set_prev h5 (c_next (rd h5 x)) x.

Lemma move_after_eq h cur x : cur <> x -> move_after h cur x = link_mv (unlink_mv h x) cur x.
Proof. intros H. unfold move_after. destruct (Nat.eqb_spec cur x); [contradiction|reflexivity]. Qed.

Lemma unlink_mv_spec h x :
  c_prev (rd h x) < length h -> c_next (rd h x) < length h -> c_prev (rd h x) <> x ->
  unlinked h (unlink_mv h x) x.
Proof.
  intros Hp Hn Hpx. unfold unlink_mv. cbv zeta.
  assert (E1 : c_next (rd (set_next h (c_prev (rd h x)) (c_next (rd h x))) x) = c_next (rd h x)).
  { rewrite nx_set_next by exact Hp. destruct (Nat.eqb_spec x (c_prev (rd h x))); [congruence|reflexivity]. }
  rewrite E1, pv_set_next.
  unfold unlinked. rewrite set_prev_length, set_next_length. split; [reflexivity|].
  split; [|split; [|split]]; intros y.
  - rewrite nx_set_prev, nx_set_next by exact Hp. reflexivity.
  - rewrite pv_set_prev by (now rewrite set_next_length). now rewrite pv_set_next.
  - now rewrite ky_set_prev, ky_set_next.
  - now rewrite vl_set_prev, vl_set_next.
Qed.

(* remove(): next.prev = prev; prev.next = next *)
Lemma unlink_rm_spec h x :
  c_prev (rd h x) < length h -> c_next (rd h x) < length h ->
  unlinked h (set_next (set_prev h (c_next (rd h x)) (c_prev (rd h x))) (c_prev (rd h x)) (c_next (rd h x))) x.
Proof.
  intros Hp Hn. unfold unlinked. rewrite set_next_length, set_prev_length. split; [reflexivity|].
  split; [|split; [|split]]; intros y.
  - rewrite nx_set_next by (now rewrite set_prev_length). now rewrite nx_set_prev.
  - rewrite pv_set_next, pv_set_prev by exact Hn. reflexivity.
  - now rewrite ky_set_next, ky_set_prev.
  - now rewrite vl_set_next, vl_set_prev.
Qed.

Lemma link_mv_spec h cur x :
  cur <> x -> cur < length h -> x < length h -> c_next (rd h cur) < length h ->
  let h' := link_mv h cur x in
  linked h h' cur x /\ length h' = length h /\
  (forall y, c_key (rd h' y) = c_key (rd h y)) /\ (forall y, c_val (rd h' y) = c_val (rd h y)).
Proof.
  intros Hne Hc Hx Hf. unfold link_mv. cbv zeta.
  set (h3 := set_prev h x cur).
  assert (L3 : length h3 = length h) by apply set_prev_length.
  assert (E3 : c_next (rd h3 cur) = c_next (rd h cur)) by apply nx_set_prev.
  rewrite E3. set (h4 := set_next h3 x (c_next (rd h cur))).
  assert (L4 : length h4 = length h) by (unfold h4; now rewrite set_next_length).
  assert (E4 : c_prev (rd h4 x) = cur).
  { unfold h4, h3. rewrite pv_set_next, pv_set_prev by exact Hx. now rewrite Nat.eqb_refl. }
  rewrite E4. set (h5 := set_next h4 cur x).
  assert (L5 : length h5 = length h) by (unfold h5; now rewrite set_next_length).
  assert (E5 : c_next (rd h5 x) = c_next (rd h cur)).
  { unfold h5. rewrite nx_set_next by (now rewrite L4). destruct (Nat.eqb_spec x cur); [congruence|].
    unfold h4. rewrite nx_set_next by (now rewrite L3). now rewrite Nat.eqb_refl. }
  rewrite E5. split; [split|split; [|split]]; intros.
  - rewrite nx_set_prev. unfold h5. rewrite nx_set_next by (now rewrite L4).
    destruct (y =? cur); [reflexivity|]. unfold h4. rewrite nx_set_next by (now rewrite L3).
    destruct (y =? x); [reflexivity|]. apply nx_set_prev.
  - rewrite pv_set_prev by (now rewrite L5). destruct (y =? c_next (rd h cur)); [reflexivity|].
    unfold h5, h4, h3. rewrite !pv_set_next. now rewrite pv_set_prev by exact Hx.
  - now rewrite set_prev_length.
  - unfold h5, h4, h3. now rewrite ky_set_prev, !ky_set_next, ky_set_prev.
  - unfold h5, h4, h3. now rewrite vl_set_prev, !vl_set_next, vl_set_prev.
Qed.

Lemma rd_snoc h c y : rd (h ++ [c]) y = if y =? length h then c else rd h y.
Proof.
  destruct (Nat.eqb_spec y (length h)) as [->|Hne]; [apply rd_app_new|].
  destruct (Nat.lt_ge_cases y (length h)) as [Hlt|Hge]; [now apply rd_app_old|].
  rewrite !rd_oob; [reflexivity|lia|rewrite app_length; cbn; lia].
Qed.

Lemma add_after_spec h cur k v :
  cur < length h -> c_next (rd h cur) < length h ->
  let h' := fst (add_after h cur k v) in
  let x := length h in
  snd (add_after h cur k v) = x /\
  linked h h' cur x /\ length h' = S (length h) /\
  (forall y, c_key (rd h' y) = if y =? x then k else c_key (rd h y)) /\
  (forall y, c_val (rd h' y) = if y =? x then v else c_val (rd h y)).
Proof.
  intros Hc Hf. unfold add_after. cbv zeta. cbn [fst snd].
  set (h1 := h ++ [mkCell (c_next (rd h cur)) cur k v]).
  assert (L1 : length h1 = S (length h)) by (unfold h1; rewrite app_length; cbn; lia).
  assert (E1 : c_next (rd h1 cur) = c_next (rd h cur)).
  { unfold h1. rewrite rd_snoc. destruct (Nat.eqb_spec cur (length h)); [lia|reflexivity]. }
  rewrite E1. split; [reflexivity|]. split; [split|split; [|split]]; intros.
  - rewrite nx_set_next by (rewrite set_prev_length; lia). destruct (y =? cur); [reflexivity|].
    rewrite nx_set_prev. unfold h1. rewrite rd_snoc. now destruct (y =? length h).
  - rewrite pv_set_next, pv_set_prev by lia. destruct (y =? c_next (rd h cur)); [reflexivity|].
    unfold h1. rewrite rd_snoc. now destruct (y =? length h).
  - now rewrite set_next_length, set_prev_length.
  - rewrite ky_set_next, ky_set_prev. unfold h1. rewrite rd_snoc. now destruct (y =? length h).
  - rewrite vl_set_next, vl_set_prev. unfold h1. rewrite rd_snoc. now destruct (y =? length h).
Qed.

(* ------------------------------------------------------------------ *)
(* the representation relation *)

Definition ids (c : lru) : list addr := map n_id (nodes c).

Record Rep (d : dlru) (c : lru) : Prop := mkRep {
  rep_ring : ring (d_heap d) (d_root d) (ids c);
  rep_kv : forall n, In n (nodes c) ->
             c_key (rd (d_heap d) (n_id n)) = n_key n /\ c_val (rd (d_heap d) (n_id n)) = n_val n;
  rep_items : d_items d = items c;
  rep_len : d_len d = llen c;
  rep_size : d_size d = size c;
  rep_fresh : fresh c = length (d_heap d)
}.

Lemma filter_map_comm {A B} (f : A -> B) (p : B -> bool) (l : list A) :
  map f (filter (fun a => p (f a)) l) = filter p (map f l).
Proof. induction l as [|a l IH]; cbn; [reflexivity|]. destruct (p (f a)); cbn; now rewrite IH. Qed.

Lemma ids_del x ns l1 l2 :
  NoDup (map n_id ns) -> map n_id ns = l1 ++ x :: l2 -> map n_id (del_nd x ns) = l1 ++ l2.
Proof.
  intros Hnd E. unfold del_nd.
  rewrite (filter_map_comm n_id (fun i => negb (i =? x)) ns), E. rewrite E in Hnd.
  pose proof (NoDup_remove_2 _ _ _ Hnd) as Hx.
  rewrite filter_app. cbn [filter]. rewrite Nat.eqb_refl. cbn [negb].
  rewrite !filter_all; [reflexivity| |].
  - intros y Hy. destruct (Nat.eqb_spec y x) as [->|_]; [|reflexivity].
    exfalso. apply Hx. apply in_or_app. now right.
  - intros y Hy. destruct (Nat.eqb_spec y x) as [->|_]; [|reflexivity].
    exfalso. apply Hx. apply in_or_app. now left.
Qed.

Lemma ring_first_bound h r l : ring h r l -> c_next (rd h r) < length h.
Proof.
  intros [Hc _ Hb]. rewrite (chain_first _ _ _ _ Hc). apply Hb.
  pose proof (hd_in l r) as H. apply in_app_or in H as [H|[<-|[]]]; [now right|now left].
Qed.

Lemma rep_root_bound d c : Rep d c -> d_root d < length (d_heap d).
Proof. intros H. apply (ring_bound _ _ _ (rep_ring _ _ H)). now left. Qed.

Lemma rep_id_bound d c n : Rep d c -> In n (nodes c) -> n_id n < length (d_heap d).
Proof. intros H Hn. apply (ring_bound _ _ _ (rep_ring _ _ H)). right. now apply in_map. Qed.

Lemma rep_root_ne d c n : Rep d c -> In n (nodes c) -> d_root d <> n_id n.
Proof.
  intros H Hn E. pose proof (ring_nodup _ _ _ (rep_ring _ _ H)) as Hnd.
  apply NoDup_cons_iff in Hnd as [Hr _]. apply Hr. rewrite E. now apply in_map.
Qed.

Lemma rep_ids_nodup d c : Rep d c -> NoDup (ids c).
Proof. intros H. pose proof (ring_nodup _ _ _ (rep_ring _ _ H)) as Hnd. now apply NoDup_cons_iff in Hnd. Qed.

(* --- primitives --- *)

(* moveFront *)
Lemma rep_move_front d c n :
  Rep d c -> In n (nodes c) ->
  Rep (d_move_front d (n_id n)) (with_nodes c (n :: del_nd (n_id n) (nodes c))).
Proof.
  intros H Hn. set (x := n_id n). set (h := d_heap d). set (r := d_root d).
  pose proof (rep_ring _ _ H) as HR. fold h r in HR.
  assert (Hx : In x (ids c)) by (now apply in_map).
  apply in_split in Hx as (l1 & l2 & E).
  pose proof (rep_ids_nodup _ _ H) as Hnd.
  assert (Edel : map n_id (del_nd x (nodes c)) = l1 ++ l2) by (now apply ids_del).
  assert (Hrx : r <> x) by (now apply (rep_root_ne d c n)).
  rewrite E in HR. destruct (ring_neighbours _ _ _ _ _ HR) as (Hp & Hnx & Hpx & _).
  pose proof (unlink_mv_spec h x Hp Hnx Hpx) as (Lu & Nu & Pu & Ku & Vu).
  pose proof (ring_unlink h (unlink_mv h x) r l1 x l2 HR Lu Nu Pu) as HRu.
  assert (Hxb : x < length h) by (now apply (rep_id_bound d c n)).
  assert (Hrb : r < length h) by (now apply (rep_root_bound d c)).
  destruct (link_mv_spec (unlink_mv h x) r x Hrx) as ((Nl & Pl) & Ll & Kl & Vl); try (rewrite Lu; assumption).
  { now apply (ring_first_bound _ _ _ HRu). }
  assert (Hxn : ~ In x (r :: l1 ++ l2)).
  { pose proof (ring_nodup _ _ _ HR) as Hnd'. change (r :: l1 ++ x :: l2) with ((r :: l1) ++ x :: l2) in Hnd'.
    now apply NoDup_remove_2 in Hnd'. }
  constructor; unfold d_move_front; cbn [d_heap d_root d_len d_items d_size with_nodes nodes llen items size fresh].
  - fold h r x. rewrite (move_after_eq h r x Hrx). unfold ids. cbn [nodes with_nodes map]. fold x. rewrite Edel.
    apply (ring_link (unlink_mv h x)); auto.
    + rewrite Ll, Lu. exact Hxb.
    + rewrite Ll. lia.
  - fold h r x. rewrite (move_after_eq h r x Hrx). intros m Hm.
    rewrite Kl, Vl, Ku, Vu. apply (rep_kv _ _ H).
    destruct Hm as [<-|Hm]; [exact Hn|]. apply del_nd_In in Hm. tauto.
  - apply (rep_items _ _ H).
  - apply (rep_len _ _ H).
  - apply (rep_size _ _ H).
  - fold h r x. rewrite (move_after_eq h r x Hrx), Ll, Lu. apply (rep_fresh _ _ H).
Qed.

(* item.value = value *)
Lemma rep_set_value d c i v :
  Rep d c -> (exists n, In n (nodes c) /\ n_id n = i) ->
  Rep (mkD (set_value (d_heap d) i v) (d_root d) (d_len d) (d_items d) (d_size d))
      (with_nodes c (set_val i v (nodes c))).
Proof.
  intros H (n0 & Hn0 & Ei).
  assert (Hib : i < length (d_heap d)) by (rewrite <- Ei; now apply (rep_id_bound d c n0)).
  assert (Eids : map n_id (set_val i v (nodes c)) = map n_id (nodes c)).
  { unfold set_val. rewrite map_map. apply map_ext. intros n. now destruct (n_id n =? i). }
  destruct (rep_ring _ _ H) as [Hc Hnd Hb].
  constructor; cbn [d_heap d_root d_len d_items d_size with_nodes nodes llen items size fresh].
  - unfold ids. cbn [nodes with_nodes]. rewrite Eids. constructor.
    + apply (chain_frame (d_heap d)); [| |exact Hc]; intros y _.
      * apply nx_set_value.
      * apply pv_set_value.
    + exact Hnd.
    + intros y Hy. rewrite set_value_length. now apply Hb.
  - intros m Hm. unfold set_val in Hm. apply in_map_iff in Hm as (m0 & Em & Hm0).
    destruct (rep_kv _ _ H m0 Hm0) as [K V].
    rewrite ky_set_value, vl_set_value by exact Hib.
    destruct (Nat.eqb_spec (n_id m0) i) as [E|Hne]; subst m; cbn [n_id n_key n_val].
    + rewrite E, Nat.eqb_refl. rewrite <- E. auto.
    + destruct (Nat.eqb_spec (n_id m0) i); [contradiction|]. auto.
  - apply (rep_items _ _ H).
  - apply (rep_len _ _ H).
  - apply (rep_size _ _ H).
  - rewrite set_value_length. apply (rep_fresh _ _ H).
Qed.

(* addFront *)
Lemma rep_add_front d c k v :
  Rep d c ->
  snd (d_add_front d k v) = fresh c /\
  Rep (fst (d_add_front d k v))
      (mkLru (mkNd (fresh c) k v :: nodes c) (llen c + 1)%Z (items c) (size c) (S (fresh c))).
Proof.
  intros H. unfold d_add_front.
  pose proof (rep_ring _ _ H) as HR.
  pose proof (add_after_spec (d_heap d) (d_root d) k v (rep_root_bound _ _ H) (ring_first_bound _ _ _ HR))
    as (Ea & (Nl & Pl) & Ll & Kl & Vl).
  destruct (add_after (d_heap d) (d_root d) k v) as [h' a] eqn:Eadd. cbn [fst snd] in *.
  rewrite (rep_fresh _ _ H). split; [exact Ea|].
  constructor; cbn [d_heap d_root d_len d_items d_size nodes llen items size fresh].
  - unfold ids. cbn [nodes map n_id]. apply (ring_link (d_heap d)); auto.
    + intros Hin. pose proof (ring_bound _ _ _ HR _ Hin). lia.
    + lia.
    + lia.
  - intros m [<-|Hm]; cbn [n_id n_key n_val].
    + rewrite Kl, Vl, Nat.eqb_refl. auto.
    + pose proof (rep_id_bound _ _ _ H Hm) as Hb. rewrite Kl, Vl.
      destruct (Nat.eqb_spec (n_id m) (length (d_heap d))); [lia|]. now apply (rep_kv _ _ H).
  - apply (rep_items _ _ H).
  - now rewrite (rep_len _ _ H).
  - apply (rep_size _ _ H).
  - now rewrite Ll.
Qed.

(* remove(node) for a list member *)
Lemma rep_list_remove d c n :
  Rep d c -> In n (nodes c) ->
  snd (d_list_remove d (n_id n)) = true /\
  Rep (fst (d_list_remove d (n_id n))) (l_remove (n_id n) c).
Proof.
  intros H Hn. set (x := n_id n). set (h := d_heap d). set (r := d_root d).
  pose proof (rep_ring _ _ H) as HR. fold h r in HR.
  assert (Hx : In x (ids c)) by (now apply in_map).
  apply in_split in Hx as (l1 & l2 & E).
  pose proof (rep_ids_nodup _ _ H) as Hnd.
  assert (Edel : map n_id (del_nd x (nodes c)) = l1 ++ l2) by (now apply ids_del).
  assert (Hrx : r <> x) by (now apply (rep_root_ne d c n)).
  rewrite E in HR. destruct (ring_neighbours _ _ _ _ _ HR) as (Hp & Hnx & _ & _).
  pose proof (unlink_rm_spec h x Hp Hnx) as (Lu & Nu & Pu & Ku & Vu).
  unfold d_list_remove. fold x r h. destruct (Nat.eqb_spec x r) as [Exr|_]; [congruence|]. cbn [negb fst snd].
  split; [reflexivity|].
  constructor; cbn [d_heap d_root d_len d_items d_size l_remove nodes llen items size fresh].
  - unfold ids. cbn [nodes l_remove]. fold x. rewrite Edel. now apply (ring_unlink h _ r l1 x l2).
  - intros m Hm. rewrite Ku, Vu. apply (rep_kv _ _ H). apply del_nd_In in Hm. tauto.
  - apply (rep_items _ _ H).
  - now rewrite (rep_len _ _ H).
  - apply (rep_size _ _ H).
  - rewrite Lu. apply (rep_fresh _ _ H).
Qed.

Lemma rep_with_items d c m : Rep d c -> Rep (d_with_items d m) (with_items c m).
Proof. intros [H1 H2 H3 H4 H5 H6]. constructor; cbn; auto. Qed.

(* first() / last() *)
Lemma last_map_opt ns r : last (map n_id ns) r = match last_opt ns with Some n => n_id n | None => r end.
Proof.
  revert r. induction ns as [|n ns IH]; intros r; [reflexivity|].
  cbn [map]. rewrite last_cons_in, IH. destruct ns as [|m ns']; [reflexivity|].
  rewrite (last_opt_cons n (m :: ns')) by discriminate.
  destruct (last_opt (m :: ns')) eqn:El; [reflexivity|]. apply last_opt_none in El. discriminate.
Qed.

Lemma rep_last d c : Rep d c ->
  d_last d = match last_opt (nodes c) with Some n => n_id n | None => d_root d end.
Proof.
  intros H. unfold d_last. rewrite (chain_last _ _ _ _ (ring_chain _ _ _ (rep_ring _ _ H))).
  apply last_map_opt.
Qed.

Lemma rep_first d c : Rep d c ->
  d_first d = match nodes c with n :: _ => n_id n | [] => d_root d end.
Proof.
  intros H. unfold d_first. rewrite (chain_first _ _ _ _ (ring_chain _ _ _ (rep_ring _ _ H))).
  unfold ids. now destruct (nodes c).
Qed.

(* ------------------------------------------------------------------ *)
(* the API functions: NewLRU, one call, histories *)

(* remove() never writes a key or a value *)
Lemma list_remove_kv d x y :
  c_key (rd (d_heap (fst (d_list_remove d x))) y) = c_key (rd (d_heap d) y) /\
  c_val (rd (d_heap (fst (d_list_remove d x))) y) = c_val (rd (d_heap d) y).
Proof.
  unfold d_list_remove. destruct (negb (x =? d_root d)); cbn [fst d_heap]; [|auto].
  now rewrite ky_set_next, ky_set_prev, vl_set_next, vl_set_prev.
Qed.

Lemma rep_new_list h sz :
  Rep (mkD (fst (new_list h)) (snd (new_list h)) 0 [] sz) (mkLru [] 0 [] sz (S (length h))).
Proof.
  unfold new_list. cbn [fst snd].
  constructor; cbn [d_heap d_root d_len d_items d_size nodes llen items size fresh]; try reflexivity.
  - unfold ids. cbn [nodes map]. constructor.
    + cbn [chain]. rewrite rd_app_new. cbn. auto.
    + constructor; [intros []|constructor].
    + intros y [<-|[]]. rewrite app_length. cbn. lia.
  - intros n [].
  - rewrite app_length. cbn. lia.
Qed.

Lemma rep_new cap d c : d_new cap = Ok d -> new_lru cap = Ok c -> Rep d c.
Proof.
  unfold d_new, new_lru. destruct (cap <=? 0)%Z; [discriminate|].
  intros Hd Hc. injection Hc as <-.
  pose proof (rep_new_list [] cap) as H. destruct (new_list []) as [h r]. injection Hd as <-. exact H.
Qed.

Lemma rep_flush d c : Rep d c -> Rep (fst (d_flush d)) (fst (flush c)) /\ snd (d_flush d) = snd (flush c).
Proof.
  intros H. unfold d_flush, flush.
  pose proof (rep_new_list (d_heap d) (d_size d)) as HN.
  destruct (new_list (d_heap d)) as [h r]. cbn [fst snd] in *.
  rewrite (rep_fresh _ _ H), <- (rep_size _ _ H). auto.
Qed.

(* RemoveOldest (also the eviction inside Add, where the capacity bound is
   exceeded for a moment: no invariant of Layer 1 is needed) *)
Lemma rep_remove_oldest d c :
  Rep d c ->
  Rep (fst (d_remove_oldest d)) (fst (remove_oldest c)) /\ snd (d_remove_oldest d) = snd (remove_oldest c).
Proof.
  intros H. unfold d_remove_oldest, remove_oldest, l_last. rewrite (rep_last _ _ H).
  destruct (last_opt (nodes c)) as [item|] eqn:Hl.
  - pose proof (l_last_in _ _ Hl) as Hin.
    destruct (Nat.eqb_spec (n_id item) (d_root d)) as [E|_].
    { exfalso. now apply (rep_root_ne _ _ _ H Hin). }
    cbn [negb]. destruct (rep_kv _ _ H item Hin) as [K V]. rewrite K, V.
    rewrite (rep_items _ _ H).
    pose proof (rep_with_items d c (m_del (n_key item) (items c)) H) as H1.
    set (d1 := d_with_items d _) in *. set (c1 := with_items c _) in *.
    unfold d_remove_last, l_remove_last, l_last.
    assert (El : last_opt (nodes c1) = Some item) by exact Hl. rewrite El.
    rewrite (rep_last _ _ H1), El.
    destruct (rep_list_remove d1 c1 item H1 Hin) as [Eb HR].
    destruct (d_list_remove d1 (n_id item)) as [d2 b]. cbn [fst snd] in *. subst b. auto.
  - rewrite Nat.eqb_refl. cbn [negb fst snd]. auto.
Qed.

(* one call: the pointer code does what Layer 1 does *)
Lemma step_rep o d c :
  Inv0 c -> Rep d c ->
  Rep (fst (d_step o d)) (fst (step o c)) /\ snd (d_step o d) = snd (step o c).
Proof.
  intros HI H. destruct o as [k v|k| | |k| | |]; cbn [d_step step].
  - (* Add *)
    unfold d_add, add. rewrite (rep_items _ _ H).
    destruct (m_get k (items c)) as [i|] eqn:Hg.
    + destruct (items_hit c k i HI Hg) as (n & Hn & E1 & E2 & Hf & _). subst i.
      unfold move_front. rewrite Hf. cbn [fst snd]. split; [|reflexivity].
      pose proof (rep_move_front d c n H Hn) as H1.
      set (d1 := d_move_front d (n_id n)) in *. set (c1 := with_nodes c _) in *.
      apply (rep_set_value d1 c1 (n_id n) v H1). exists n. split; [now left|reflexivity].
    + destruct (rep_add_front d c k v H) as [Ea H1].
      destruct (d_add_front d k v) as [d1 item]. cbn [fst snd] in Ea, H1. subst item.
      set (c1 := mkLru _ _ _ _ _) in *.
      rewrite (rep_items _ _ H1).
      pose proof (rep_with_items d1 c1 (m_set k (fresh c) (items c1)) H1) as H2.
      set (d2 := d_with_items d1 _) in *. set (c2 := with_items c1 _) in *.
      unfold d_count, count. rewrite (rep_len _ _ H2), (rep_size _ _ H2).
      destruct (llen c2 >? size c2)%Z; [now apply rep_remove_oldest|auto].
  - (* Get *)
    unfold d_get, get. rewrite (rep_items _ _ H).
    destruct (m_get k (items c)) as [i|] eqn:Hg; [|auto].
    destruct (items_hit c k i HI Hg) as (n & Hn & E1 & E2 & Hf & _). subst i.
    unfold move_front. rewrite Hf.
    pose proof (rep_move_front d c n H Hn) as H1.
    set (d1 := d_move_front d (n_id n)) in *. set (c1 := with_nodes c _) in *.
    assert (Hf1 : find_nd (n_id n) (nodes c1) = Some n).
    { unfold c1, find_nd. cbn [with_nodes nodes find]. now rewrite Nat.eqb_refl. }
    rewrite Hf1. cbn [fst snd]. split; [exact H1|].
    destruct (rep_kv _ _ H1 n) as [_ V]; [now left|]. now rewrite V.
  - (* GetOldest *)
    unfold d_get_oldest, get_oldest, l_last. rewrite (rep_last _ _ H).
    destruct (last_opt (nodes c)) as [item|] eqn:Hl.
    + pose proof (l_last_in _ _ Hl) as Hin.
      destruct (Nat.eqb_spec (n_id item) (d_root d)) as [E|_].
      { exfalso. now apply (rep_root_ne _ _ _ H Hin). }
      cbn [negb]. unfold move_front. rewrite (find_nd_in item _ (inv_ids _ HI) Hin).
      pose proof (rep_move_front d c item H Hin) as H1.
      set (d1 := d_move_front d (n_id item)) in *. set (c1 := with_nodes c _) in *.
      cbn [fst snd]. split; [exact H1|].
      destruct (rep_kv _ _ H1 item) as [K V]; [now left|]. now rewrite K, V.
    + rewrite Nat.eqb_refl. cbn [negb fst snd]. auto.
  - (* GetYoungest *)
    unfold d_get_youngest, get_youngest, l_first. rewrite (rep_first _ _ H).
    destruct (nodes c) as [|item ns] eqn:En.
    + rewrite Nat.eqb_refl. cbn [negb fst snd]. auto.
    + assert (Hin : In item (nodes c)) by (rewrite En; now left).
      destruct (Nat.eqb_spec (n_id item) (d_root d)) as [E|_].
      { exfalso. now apply (rep_root_ne _ _ _ H Hin). }
      cbn [negb fst snd]. split; [exact H|].
      destruct (rep_kv _ _ H item Hin) as [K V]. now rewrite K, V.
  - (* Remove *)
    unfold d_remove, remove. rewrite (rep_items _ _ H).
    destruct (m_get k (items c)) as [i|] eqn:Hg; [|auto].
    destruct (items_hit c k i HI Hg) as (n & Hn & E1 & E2 & Hf & _). subst i. rewrite Hf.
    destruct (rep_kv _ _ H n Hn) as [K V]. rewrite K.
    pose proof (rep_with_items d c (m_del (n_key n) (items c)) H) as H1.
    set (d1 := d_with_items d _) in *. set (c1 := with_items c _) in *.
    destruct (rep_list_remove d1 c1 n H1 Hn) as [_ HR].
    destruct (list_remove_kv d1 (n_id n) (n_id n)) as [_ V2].
    destruct (d_list_remove d1 (n_id n)) as [d2 b]. cbn [fst snd] in *.
    split; [exact HR|]. rewrite V2. unfold d1. cbn [d_with_items d_heap]. now rewrite V.
  - (* RemoveOldest *)
    now apply rep_remove_oldest.
  - (* RemoveYoungest *)
    unfold d_remove_youngest, remove_youngest, l_first. rewrite (rep_first _ _ H).
    destruct (nodes c) as [|item ns] eqn:En.
    + rewrite Nat.eqb_refl. cbn [negb fst snd]. auto.
    + assert (Hin : In item (nodes c)) by (rewrite En; now left).
      destruct (Nat.eqb_spec (n_id item) (d_root d)) as [E|_].
      { exfalso. now apply (rep_root_ne _ _ _ H Hin). }
      cbn [negb]. destruct (rep_kv _ _ H item Hin) as [K V]. rewrite K, (rep_items _ _ H).
      pose proof (rep_with_items d c (m_del (n_key item) (items c)) H) as H1.
      set (d1 := d_with_items d _) in *. set (c1 := with_items c _) in *.
      assert (Hin1 : In item (nodes c1)) by exact Hin.
      destruct (rep_list_remove d1 c1 item H1 Hin1) as [Eb HR].
      destruct (list_remove_kv d1 (n_id item) (n_id item)) as [K2 V2].
      destruct (d_list_remove d1 (n_id item)) as [d2 b]. cbn [fst snd] in *. subst b.
      split; [exact HR|]. rewrite K2, V2. unfold d1. cbn [d_with_items d_heap]. now rewrite K, V.
  - (* Flush *)
    now apply rep_flush.
Qed.

Lemma count_rep d c : Rep d c -> d_count d = count c.
Proof. intros H. apply (rep_len _ _ H). Qed.

(* lifted to histories: same observable run, and the final states correspond *)
Lemma run_rep ops : forall d c, Inv c -> Rep d c ->
  run d_step d_count ops d = run step count ops c /\ Rep (final d_step ops d) (final step ops c).
Proof.
  induction ops as [|o ops IH]; intros d c HI H; cbn [run final]; [auto|].
  destruct (step_rep o d c (proj1 HI) H) as [H1 Eo].
  pose proof (inv_step o c HI) as HI1.
  destruct (IH _ _ HI1 H1) as [Er Hf].
  destruct (d_step o d) as [d' r]. destruct (step o c) as [c' r']. cbn [fst snd] in *.
  subst r'. rewrite (count_rep _ _ H1), Er. auto.
Qed.

Lemma dll_refines_lru cap d c ops :
  d_new cap = Ok d -> new_lru cap = Ok c -> run_dll d ops = run_lru c ops.
Proof.
  intros Hd Hc. unfold run_dll, run_lru.
  apply run_rep; [apply (inv_new _ _ Hc)|now apply (rep_new cap)].
Qed.

Lemma dll_rep_final cap d c ops :
  d_new cap = Ok d -> new_lru cap = Ok c -> Rep (final d_step ops d) (final step ops c).
Proof.
  intros Hd Hc. apply run_rep; [apply (inv_new _ _ Hc)|now apply (rep_new cap)].
Qed.

Lemma d_new_lru cap d : d_new cap = Ok d -> exists c, new_lru cap = Ok c.
Proof. unfold d_new, new_lru. destruct (cap <=? 0)%Z; [discriminate|eauto]. Qed.

Lemma dll_refines_spec cap d ops : d_new cap = Ok d -> run_dll d ops = run_spec cap ops.
Proof.
  intros Hd. destruct (d_new_lru _ _ Hd) as [c Hc].
  rewrite (dll_refines_lru _ _ _ ops Hd Hc). now apply lru_refines_spec.
Qed.

Lemma dll_trace_ok cap d ops :
  d_new cap = Ok d -> trace_ok cap 0 l_empty (trace_of ops (run_dll d ops)).
Proof.
  intros Hd. destruct (d_new_lru _ _ Hd) as [c Hc].
  rewrite (dll_refines_lru _ _ _ ops Hd Hc). now apply lru_trace_ok.
Qed.

(* the code as found (RemoveYoungest calling removeLast) at the pointer level:
   after Add 1, 2, 3 and RemoveYoungest the key 3 is gone from the map but its
   cell is still first in the ring, and 1 was unlinked instead *)
Lemma dll_unrepaired_diverges :
  exists d ops, d_new 3 = Ok d /\ run d_step_unrepaired d_count ops d <> run_spec 3 ops.
Proof.
  exists (mkD [mkCell 0 0 0 0] 0 0%Z [] 3%Z), [Add 1 11; Add 2 12; Add 3 13; RemoveYoungest; GetYoungest]%Z.
  split; [reflexivity|]. vm_compute. discriminate.
Qed.
