(* C07_Model.v — cache/lrucache.go (LRUCache = map + circular doubly linked
   recency list), Layer 1: the list is a Gallina list of nodes carrying
   abstract ids (the pointer identity of Go's *node), the map is an
   association list key -> id, the list's `len` counter is kept separately (so
   that a disagreement between map, list and counter is representable).  The
   pointer-level transcription of the list (next/prev surgery) is C07_Dll.v;
   C07_DllProofs.v proves that it implements this layer.

   This file also holds the *specification vocabulary* of property C07:
     - the reference machine [spec_step] (a plain recency list with capacity),
     - the *ledger* of a trace: which keys were added and not since
       removed/evicted, with their latest value and the time they were last
       touched by Add / Get / GetOldest — computed from the observable trace
       (operations and their returned values) only,
     - [conforms]: what the statement of C07 demands of one call given the
       ledger of the calls before it.
   No proofs in this file.

   The model is the code AFTER the repair of DESIGN §7 #16 (RemoveYoungest
   unlinks the node it returns); the unrepaired variant is kept as
   [remove_youngest_unrepaired] so that the defect has a Coq witness. *)

From Gogu Require Import Base.
Local Open Scope Z_scope.

(* ------------------------------------------------------------------ *)
(* operations and their results (K = V = int in the executable instance;
   Go's zero values are 0) *)

Inductive op : Type :=
| Add (k v : Z)
| Get (k : Z)
| GetOldest
| GetYoungest
| Remove (k : Z)
| RemoveOldest
| RemoveYoungest
| Flush.

Inductive out : Type :=
| KVB (k v : Z) (b : bool)   (* (key, value, ok): Add, GetOldest, GetYoungest, RemoveOldest, RemoveYoungest *)
| VB (v : Z) (b : bool)      (* (value, ok): Get, Remove *)
| Unit.                      (* Flush *)

(* the ok / removed / available flag of a result *)
Definition out_ok (r : out) : bool :=
  match r with KVB _ _ b => b | VB _ b => b | Unit => false end.

Definition none3 : out := KVB 0 0 false.   (* bare `return` with named results *)
Definition none2 : out := VB 0 false.

(* a machine = a step function and Count; [run] collects, for every call, its
   result and Count() right after it *)
Section Run.
  Context {St : Type} (step : op -> St -> St * out) (cnt : St -> Z).
  Fixpoint run (ops : list op) (s : St) : list (out * Z) :=
    match ops with
    | [] => []
    | o :: ops' => let (s', r) := step o s in (r, cnt s') :: run ops' s'
    end.
  Fixpoint final (ops : list op) (s : St) : St :=
    match ops with
    | [] => s
    | o :: ops' => final ops' (fst (step o s))
    end.
End Run.

(* ------------------------------------------------------------------ *)
(* Layer 1: the Go code over a list of identified nodes *)

Definition id := nat.

Record nd : Type := mkNd { n_id : id; n_key : Z; n_val : Z }.

Record lru : Type := mkLru {
  nodes : list nd;         (* evictList, from root.next (youngest) to root.prev (oldest) *)
  llen  : Z;               (* evictList.len *)
  items : list (Z * id);   (* items map[K]*node *)
  size  : Z;               (* size *)
  fresh : id               (* next unused node identity (allocation is monotone) *)
}.

(* --- the map --- *)
Fixpoint m_get (k : Z) (m : list (Z * id)) : option id :=
  match m with
  | [] => None
  | (k', i) :: m' => if k' =? k then Some i else m_get k m'
  end.
Definition m_del (k : Z) (m : list (Z * id)) : list (Z * id) :=
  filter (fun e => negb (fst e =? k)) m.
Definition m_set (k : Z) (i : id) (m : list (Z * id)) : list (Z * id) :=
  (k, i) :: m_del k m.

(* --- lruList --- *)
Definition find_nd (i : id) (ns : list nd) : option nd :=
  find (fun n => Nat.eqb (n_id n) i) ns.
Definition del_nd (i : id) (ns : list nd) : list nd :=
  filter (fun n => negb (Nat.eqb (n_id n) i)) ns.
Fixpoint last_opt {A} (l : list A) : option A :=
  match l with
  | [] => None
  | x :: l' => match l' with [] => Some x | _ => last_opt l' end
  end.

(* moveFront(nd) = moveAfter(&root, nd): unlink nd, relink it after the root.
   (A node that is not in the list cannot be expressed at this layer; it only
   arises from the unrepaired RemoveYoungest.) *)
Definition move_front (i : id) (ns : list nd) : list nd :=
  match find_nd i ns with
  | Some n => n :: del_nd i ns
  | None => ns
  end.
(* item.value = value *)
Definition set_val (i : id) (v : Z) (ns : list nd) : list nd :=
  map (fun n => if Nat.eqb (n_id n) i then mkNd (n_id n) (n_key n) v else n) ns.
(* last() / first(): None stands for &root *)
Definition l_last (ns : list nd) : option nd := last_opt ns.
Definition l_first (ns : list nd) : option nd := match ns with n :: _ => Some n | [] => None end.
(* remove(node), node != &root: unlink, len-- (unconditionally), true *)
Definition l_remove (i : id) (c : lru) : lru :=
  mkLru (del_nd i (nodes c)) (llen c - 1) (items c) (size c) (fresh c).
(* removeLast() = remove(last()) *)
Definition l_remove_last (c : lru) : lru * bool :=
  match l_last (nodes c) with
  | Some n => (l_remove (n_id n) c, true)
  | None => (c, false)
  end.

Definition with_items (c : lru) (m : list (Z * id)) : lru :=
  mkLru (nodes c) (llen c) m (size c) (fresh c).
Definition with_nodes (c : lru) (ns : list nd) : lru :=
  mkLru ns (llen c) (items c) (size c) (fresh c).

(* --- LRUCache --- *)

(* NewLRU: Err 1 = "size must be a positive value".  Identity 0 is the root
   sentinel's (kept so that ids coincide with the addresses of C07_Dll.v). *)
Definition new_lru (sz : Z) : res lru :=
  if sz <=? 0 then Err 1 else Ok (mkLru [] 0 [] sz 1%nat).

Definition count (c : lru) : Z := llen c.

Definition remove_oldest (c : lru) : lru * out :=
  match l_last (nodes c) with
  | Some item =>
      let c1 := with_items c (m_del (n_key item) (items c)) in
      let (c2, b) := l_remove_last c1 in
      (c2, KVB (n_key item) (n_val item) b)
  | None => (c, none3)
  end.

Definition add (k v : Z) (c : lru) : lru * out :=
  match m_get k (items c) with
  | Some i =>
      let c1 := with_nodes c (move_front i (nodes c)) in
      let c2 := with_nodes c1 (set_val i v (nodes c1)) in
      (c2, none3)
  | None =>
      let i := fresh c in
      (* addFront: new node after the root, len++ *)
      let c1 := mkLru (mkNd i k v :: nodes c) (llen c + 1) (items c) (size c) (S i) in
      let c2 := with_items c1 (m_set k i (items c1)) in
      if count c2 >? size c2 then remove_oldest c2 else (c2, none3)
  end.

Definition get_oldest (c : lru) : lru * out :=
  match l_last (nodes c) with
  | Some item =>
      let c1 := with_nodes c (move_front (n_id item) (nodes c)) in
      (c1, KVB (n_key item) (n_val item) true)
  | None => (c, none3)
  end.

Definition get (k : Z) (c : lru) : lru * out :=
  match m_get k (items c) with
  | Some i =>
      let c1 := with_nodes c (move_front i (nodes c)) in
      match find_nd i (nodes c1) with
      | Some item => (c1, VB (n_val item) true)
      | None => (c1, VB 0 true)          (* dangling map entry: not reachable, see C07_Proofs.inv *)
      end
  | None => (c, none2)
  end.

Definition get_youngest (c : lru) : lru * out :=
  match l_first (nodes c) with
  | Some item => (c, KVB (n_key item) (n_val item) true)
  | None => (c, none3)
  end.

Definition remove (k : Z) (c : lru) : lru * out :=
  match m_get k (items c) with
  | Some i =>
      match find_nd i (nodes c) with
      | Some item =>
          let c1 := with_items c (m_del (n_key item) (items c)) in
          let c2 := l_remove i c1 in
          (c2, VB (n_val item) true)
      | None => (l_remove i (with_items c (m_del k (items c))), VB 0 true)   (* not reachable *)
      end
  | None => (c, none2)
  end.

(* after the repair: c.evictList.remove(item) *)
Definition remove_youngest (c : lru) : lru * out :=
  match l_first (nodes c) with
  | Some item =>
      let c1 := with_items c (m_del (n_key item) (items c)) in
      let c2 := l_remove (n_id item) c1 in
      (c2, KVB (n_key item) (n_val item) true)
  | None => (c, none3)
  end.

(* the code as found: `return item.key, item.value, c.evictList.removeLast()` *)
Definition remove_youngest_unrepaired (c : lru) : lru * out :=
  match l_first (nodes c) with
  | Some item =>
      let c1 := with_items c (m_del (n_key item) (items c)) in
      let (c2, b) := l_remove_last c1 in
      (c2, KVB (n_key item) (n_val item) b)
  | None => (c, none3)
  end.

(* Flush: a new map and a new list (whose root takes one identity) *)
Definition flush (c : lru) : lru * out :=
  (mkLru [] 0 [] (size c) (S (fresh c)), Unit).

Definition step (o : op) (c : lru) : lru * out :=
  match o with
  | Add k v => add k v c
  | Get k => get k c
  | GetOldest => get_oldest c
  | GetYoungest => get_youngest c
  | Remove k => remove k c
  | RemoveOldest => remove_oldest c
  | RemoveYoungest => remove_youngest c
  | Flush => flush c
  end.

Definition step_unrepaired (o : op) (c : lru) : lru * out :=
  match o with
  | RemoveYoungest => remove_youngest_unrepaired c
  | _ => step o c
  end.

(* ------------------------------------------------------------------ *)
(* The reference machine: a recency list of (key, value), most recently
   touched first, with a capacity *)

Definition rl := list (Z * Z).

Fixpoint rl_find (k : Z) (l : rl) : option Z :=
  match l with
  | [] => None
  | (k', v) :: l' => if k' =? k then Some v else rl_find k l'
  end.
Fixpoint rl_del (k : Z) (l : rl) : rl :=
  match l with
  | [] => []
  | (k', v) :: l' => if k' =? k then l' else (k', v) :: rl_del k l'
  end.

Definition spec_step (cap : Z) (o : op) (l : rl) : rl * out :=
  match o with
  | Add k v =>
      match rl_find k l with
      | Some _ => ((k, v) :: rl_del k l, none3)
      | None =>
          let l' := (k, v) :: l in
          if Z.of_nat (length l') >? cap then
            match last_opt l' with
            | Some (ek, ev) => (removelast l', KVB ek ev true)
            | None => (l', none3)
            end
          else (l', none3)
      end
  | Get k =>
      match rl_find k l with
      | Some v => ((k, v) :: rl_del k l, VB v true)
      | None => (l, none2)
      end
  | GetOldest =>
      match last_opt l with
      | Some (k, v) => ((k, v) :: removelast l, KVB k v true)
      | None => (l, none3)
      end
  | GetYoungest =>
      match l with
      | (k, v) :: _ => (l, KVB k v true)
      | [] => (l, none3)
      end
  | Remove k =>
      match rl_find k l with
      | Some v => (rl_del k l, VB v true)
      | None => (l, none2)
      end
  | RemoveOldest =>
      match last_opt l with
      | Some (k, v) => (removelast l, KVB k v true)
      | None => (l, none3)
      end
  | RemoveYoungest =>
      match l with
      | (k, v) :: l' => (l', KVB k v true)
      | [] => (l, none3)
      end
  | Flush => ([], Unit)
  end.

Definition spec_count (l : rl) : Z := Z.of_nat (length l).

(* the three observable runs from a fresh cache *)
Definition run_spec (cap : Z) (ops : list op) : list (out * Z) :=
  run (spec_step cap) spec_count ops [].
Definition run_lru (c : lru) (ops : list op) : list (out * Z) :=
  run step count ops c.

(* ------------------------------------------------------------------ *)
(* The ledger of a trace.  A trace is the list of calls with what they
   returned; its ledger maps a key to (time of the last touch, latest value)
   when the key "was added and not since removed or evicted", and to None
   otherwise.  Only Add, a successful Get, and a successful GetOldest touch. *)

Definition event := (op * (out * Z))%type.
Definition ledger := Z -> option (nat * Z).

Definition l_empty : ledger := fun _ => None.
Definition l_set (L : ledger) (k : Z) (x : option (nat * Z)) : ledger :=
  fun k' => if k' =? k then x else L k'.
Definition l_touch (t : nat) (L : ledger) (k : Z) : ledger :=
  match L k with
  | Some (_, v) => l_set L k (Some (t, v))
  | None => L
  end.

Definition ledger_step (t : nat) (L : ledger) (o : op) (r : out) : ledger :=
  match o, r with
  | Add k v, KVB ek _ true => l_set (l_set L k (Some (t, v))) ek None   (* stored; ek reported evicted *)
  | Add k v, _ => l_set L k (Some (t, v))
  | Get k, VB _ true => l_touch t L k
  | GetOldest, KVB k _ true => l_touch t L k
  | Remove k, VB _ true => l_set L k None
  | RemoveOldest, KVB k _ true => l_set L k None
  | RemoveYoungest, KVB k _ true => l_set L k None
  | Flush, _ => l_empty
  | _, _ => L
  end.

Fixpoint ledger_of (t : nat) (L : ledger) (tr : list event) : ledger :=
  match tr with
  | [] => L
  | (o, (r, _)) :: tr' => ledger_of (S t) (ledger_step t L o r) tr'
  end.

(* the calls that refresh the recency of key k *)
Definition touches (o : op) (r : out) (k : Z) : Prop :=
  match o, r with
  | Add k' _, _ => k' = k
  | Get k', VB _ true => k' = k
  | GetOldest, KVB k' _ true => k' = k
  | _, _ => False
  end.

(* designations *)
Definition vacant (L : ledger) : Prop := forall k, L k = None.
Definition oldest (L : ledger) (k v : Z) : Prop :=
  exists t, L k = Some (t, v) /\ forall k' t' v', L k' = Some (t', v') -> (t <= t')%nat.
Definition youngest (L : ledger) (k v : Z) : Prop :=
  exists t, L k = Some (t, v) /\ forall k' t' v', L k' = Some (t', v') -> (t' <= t)%nat.
(* exactly n keys are present *)
Definition card (L : ledger) (n : Z) : Prop :=
  exists ks, NoDup ks /\ (forall k, In k ks <-> L k <> None) /\ Z.of_nat (length ks) = n.

(* what C07 demands of the result r of one call o, given the ledger L of the
   calls before it *)
Definition conforms (cap : Z) (L : ledger) (o : op) (r : out) : Prop :=
  match o with
  | Add k v =>
      (* a present key, or room left: nothing is evicted;
         a new key into a full cache: exactly the least recently touched entry *)
      ((L k <> None \/ exists n, card L n /\ n < cap) /\ r = none3) \/
      (L k = None /\ card L cap /\ exists ek ev, oldest L ek ev /\ r = KVB ek ev true)
  | Get k | Remove k =>
      match L k with
      | Some (_, v) => r = VB v true
      | None => r = none2
      end
  | GetOldest | RemoveOldest =>
      (vacant L /\ r = none3) \/ (exists k v, oldest L k v /\ r = KVB k v true)
  | GetYoungest | RemoveYoungest =>
      (vacant L /\ r = none3) \/ (exists k v, youngest L k v /\ r = KVB k v true)
  | Flush => r = Unit
  end.

(* a whole trace meets C07: every call conforms to the ledger of its past and
   Count() after it is the number of present keys, at most cap *)
Inductive trace_ok (cap : Z) : nat -> ledger -> list event -> Prop :=
| tok_nil : forall t L, trace_ok cap t L []
| tok_cons : forall t L o r c tr,
    conforms cap L o r ->
    card (ledger_step t L o r) c -> c <= cap ->
    trace_ok cap (S t) (ledger_step t L o r) tr ->
    trace_ok cap t L ((o, (r, c)) :: tr).

Definition trace_of (ops : list op) (outs : list (out * Z)) : list event := combine ops outs.
