(* C07_NaN.v — cache/lrucache.go with key types whose `==` is NOT reflexive
   (a float64 NaN key, or a struct / array / interface key holding one).

   Go's `comparable` admits such keys, and the built-in map treats them as the
   language specifies (a key k with k != k is equal to no key, itself included):

     c.items[k]            never finds an entry: `item, ok := c.items[k]` is (nil, false)
     c.items[k] = node     always CREATES an entry, which no later expression can reach
     delete(c.items, k)    is a no-op

   The recency list does not compare keys at all.  So in the cache an Add of such
   a key always takes the "new key" branch, Get / Remove of it always miss, and
   when the node of such an entry is evicted or removed (RemoveOldest,
   RemoveYoungest, the eviction inside Add) the node is unlinked from the list
   while its map entry STAYS BEHIND: the map leaks one entry per irreflexive Add
   until Flush replaces it.  The leak cannot be seen through the API of the
   unchanged code, because Count() reads the list's len, not len(c.items)
   (reading the map instead is seeded change C07-3).

   Keys stay integers `Z` here; [irr k = true] says that the key coded by k is
   not equal to itself.  Two codes are ==-equal iff they are the same code and
   that code is not irreflexive ([keq]) — a symmetric and transitive relation,
   reflexive exactly on the decidable subset [irr k = false].  With
   [irr = fun _ => false] everything below IS the model of C07_Dll.v /
   C07_Model.v (C07_PropsNaN.C07n_conservative).

   Contents: the map, the pointer-level API over it (only the five functions
   that touch the map differ from C07_Dll.v; all pointer surgery is shared), the
   generalised reference machine, and the vocabulary of the simulation theorem
   (labelling of a history with fresh keys, erasure of the labels from results).
   No proofs in this file. *)

From Gogu Require Import Base C07_Model C07_Dll.
Local Open Scope Z_scope.

Section Irreflexive.
  Variable irr : Z -> bool.          (* k != k *)

  (* Go's == on keys *)
  Definition keq (k k' : Z) : bool := negb (irr k) && (k =? k').

  (* --- the Go map with such keys (entries of irreflexive keys are kept in
         the association list: they count for len(c.items)) --- *)
  Definition mn_get (k : Z) (m : list (Z * addr)) : option addr :=
    if irr k then None else m_get k m.
  Definition mn_del (k : Z) (m : list (Z * addr)) : list (Z * addr) :=
    if irr k then m else m_del k m.
  Definition mn_set (k : Z) (i : addr) (m : list (Z * addr)) : list (Z * addr) :=
    if irr k then (k, i) :: m else m_set k i m.

  (* --- LRUCache: the text of C07_Dll.v with m_get / m_del / m_set replaced --- *)

  Definition dn_remove_oldest (d : dlru) : dlru * out :=
    let item := d_last d in
    if negb (Nat.eqb item (d_root d)) then
      let key := c_key (rd (d_heap d) item) in
      let value := c_val (rd (d_heap d) item) in
      let d1 := d_with_items d (mn_del key (d_items d)) in       (* delete(c.items, item.key) *)
      let (d2, b) := d_remove_last d1 in
      (d2, KVB key value b)
    else (d, none3).

  Definition dn_add (k v : Z) (d : dlru) : dlru * out :=
    match mn_get k (d_items d) with
    | Some item =>
        let d1 := d_move_front d item in
        let d2 := mkD (set_value (d_heap d1) item v) (d_root d1) (d_len d1) (d_items d1) (d_size d1) in
        (d2, none3)
    | None =>
        let (d1, item) := d_add_front d k v in
        let d2 := d_with_items d1 (mn_set k item (d_items d1)) in
        if d_count d2 >? d_size d2 then dn_remove_oldest d2 else (d2, none3)
    end.

  Definition dn_get (k : Z) (d : dlru) : dlru * out :=
    match mn_get k (d_items d) with
    | Some item =>
        let d1 := d_move_front d item in
        (d1, VB (c_val (rd (d_heap d1) item)) true)
    | None => (d, none2)
    end.

  Definition dn_remove (k : Z) (d : dlru) : dlru * out :=
    match mn_get k (d_items d) with
    | Some item =>
        let d1 := d_with_items d (mn_del (c_key (rd (d_heap d) item)) (d_items d)) in
        let (d2, _) := d_list_remove d1 item in
        (d2, VB (c_val (rd (d_heap d2) item)) true)
    | None => (d, none2)
    end.

  Definition dn_remove_youngest (d : dlru) : dlru * out :=
    let item := d_first d in
    if negb (Nat.eqb item (d_root d)) then
      let d1 := d_with_items d (mn_del (c_key (rd (d_heap d) item)) (d_items d)) in
      let (d2, b) := d_list_remove d1 item in
      (d2, KVB (c_key (rd (d_heap d2) item)) (c_val (rd (d_heap d2) item)) b)
    else (d, none3).

  Definition dn_step (o : op) (d : dlru) : dlru * out :=
    match o with
    | Add k v => dn_add k v d
    | Get k => dn_get k d
    | GetOldest => d_get_oldest d
    | GetYoungest => d_get_youngest d
    | Remove k => dn_remove k d
    | RemoveOldest => dn_remove_oldest d
    | RemoveYoungest => dn_remove_youngest d
    | Flush => d_flush d
    end.

  Definition run_dn (d : dlru) (ops : list op) : list (out * Z) :=
    run dn_step d_count ops d.

  (* --- the reference machine: the recency list with capacity of
         C07_Model.spec_step, where an irreflexive key matches no entry.  (An
         entry whose key is irreflexive is matched by no reflexive key either:
         the codes differ.) --- *)
  Definition rn_find (k : Z) (l : rl) : option Z :=
    if irr k then None else rl_find k l.

  Definition specn_step (cap : Z) (o : op) (l : rl) : rl * out :=
    match o with
    | Add k v =>
        match rn_find k l with
        | Some _ => ((k, v) :: rl_del k l, none3)
        | None =>
            let l' := (k, v) :: l in
            if Z.of_nat (length l') >? cap then
              match last_opt l' with
              | Some (ek, ev) => (removelast l', KVB ek ev true)
              | None => (l', none3)
              end
            else (l', none3)
        end
    | Get k =>
        match rn_find k l with
        | Some v => ((k, v) :: rl_del k l, VB v true)
        | None => (l, none2)
        end
    | Remove k =>
        match rn_find k l with
        | Some v => (rl_del k l, VB v true)
        | None => (l, none2)
        end
    | _ => spec_step cap o l       (* the key-less calls do not compare keys *)
    end.

  Definition run_specn (cap : Z) (ops : list op) : list (out * Z) :=
    run (specn_step cap) spec_count ops [].

  (* ---------------------------------------------------------------- *)
  (* Vocabulary of the simulation theorem.

     [label B ops]: the history ops in which every Add of an irreflexive key
     carries a key of its own, B + 1 + (position of the call in the history), and
     every Get / Remove of an irreflexive key asks for the key B.  When B is
     larger in absolute value than every key of ops ([bounded]), the keys
     B + 1 + i occur nowhere else in the labelled history and B is never added
     (C07_PropsNaN.C07n_labels_fresh).  All other calls, and all reflexive keys,
     are unchanged.

     [erase_key B ops k]: a key returned by the labelled history, read back: a
     label B + 1 + i stands for the key of the i-th call of ops. *)

  Definition op_key (o : op) : option Z :=
    match o with Add k _ | Get k | Remove k => Some k | _ => None end.

  Definition bounded (B : Z) (ops : list op) : Prop :=
    0 < B /\ forall o k, In o ops -> op_key o = Some k -> Z.abs k < B.

  Definition label_op (B : Z) (i : nat) (o : op) : op :=
    match o with
    | Add k v => if irr k then Add (B + 1 + Z.of_nat i) v else o
    | Get k => if irr k then Get B else o
    | Remove k => if irr k then Remove B else o
    | _ => o
    end.

  Fixpoint label_from (B : Z) (i : nat) (ops : list op) : list op :=
    match ops with
    | [] => []
    | o :: ops' => label_op B i o :: label_from B (S i) ops'
    end.
  Definition label (B : Z) (ops : list op) : list op := label_from B 0 ops.

  Definition erase_key (B : Z) (ops : list op) (k : Z) : Z :=
    if k <=? B then k else
    match nth_error ops (Z.to_nat (k - B - 1)) with
    | Some o => match op_key o with Some k0 => k0 | None => k end
    | None => k
    end.

  Definition erase_out (B : Z) (ops : list op) (r : out) : out :=
    match r with
    | KVB k v b => KVB (erase_key B ops k) v b
    | _ => r
    end.

  Definition erase_run (B : Z) (ops : list op) (outs : list (out * Z)) : list (out * Z) :=
    map (fun rc => (erase_out B ops (fst rc), snd rc)) outs.

  (* the ledger (C07_Model.v) of the observable trace of a history on the
     irreflexive-key cache, and of the labelled history on the cache of C07_Dll.v *)
  Definition ledger_n (d : dlru) (ops : list op) : ledger :=
    ledger_of 0 l_empty (trace_of ops (run_dn d ops)).
  Definition ledger_lab (B : Z) (d : dlru) (ops : list op) : ledger :=
    ledger_of 0 l_empty (trace_of (label B ops) (run_dll d (label B ops))).
End Irreflexive.

(* a bound that works for a given history *)
Definition bound_of (ops : list op) : Z :=
  1 + fold_right (fun o b => match op_key o with Some k => Z.max (Z.abs k) b | None => b end) 0 ops.

(* a concrete set of irreflexive keys: every code up to [top] (the wire of
   C07_Wire.v uses top = -1000001; the examples of C07_PropsNaN.v use -1) *)
Definition irr_below (top : Z) (k : Z) : bool := k <=? top.
