(* C07_NaNProofs.v — proofs about C07_NaN.v (LRU cache with irreflexive keys).

   Part A  the generalised transcription / reference machine are the old ones
           when no key is irreflexive.
   Part B  simulation, pointer level: [dn_step irr] on a history behaves like
           [d_step] (C07_Dll.v) on the labelled history, state by state: same
           ring, same values, keys related by [krel], maps equal on reflexive
           keys (the irreflexive side additionally holds the leaked entries).
   Part C  the same for the reference machines.
   Part D  consequences: refinement of the generalised reference machine, the
           clauses of C07 for irreflexive keys. *)

From Gogu Require Import Base C07_Model C07_Proofs C07_Dll C07_DllProofs C07_NaN.
Local Open Scope Z_scope.

(* ------------------------------------------------------------------ *)
(* Part A *)

Lemma dn_step_conservative o d : dn_step (fun _ => false) o d = d_step o d.
Proof. destruct o; reflexivity. Qed.

Lemma specn_step_conservative cap o l : specn_step (fun _ => false) cap o l = spec_step cap o l.
Proof. destruct o; reflexivity. Qed.

(* ------------------------------------------------------------------ *)
(* Part B *)

Section Sim.
  Variable irr : Z -> bool.
  Variable B : Z.
  Variable all : list op.
  Hypothesis HB : 0 < B.

  (* a reflexive key within the bound *)
  Definition reg (k : Z) : bool := negb (irr k) && (Z.abs k <? B).
  Definition regf {A} (e : Z * A) : bool := reg (fst e).

  (* kn: a key of the irreflexive run; ko: the key at the same place of the labelled run *)
  Definition krel (kn ko : Z) : Prop :=
    erase_key B all ko = kn /\ (irr kn = false -> ko = kn).

  Lemma krel_small k : k <= B -> krel k k.
  Proof.
    intros H. split; [|reflexivity]. unfold erase_key.
    destruct (k <=? B) eqn:E; [reflexivity|]. apply Z.leb_gt in E. lia.
  Qed.

  Lemma krel_0 : krel 0 0.
  Proof. apply krel_small. lia. Qed.

  Lemma krel_nonreg kn ko : krel kn ko -> irr kn = true -> reg ko = false.
  Proof.
    intros [He _] Hi. unfold reg. unfold erase_key in He.
    destruct (ko <=? B) eqn:E.
    - subst ko. now rewrite Hi.
    - apply Z.leb_gt in E. apply andb_false_iff. right. apply Z.ltb_ge. lia.
  Qed.

  Lemma krel_eqb kn ko k : krel kn ko -> reg k = true -> (ko =? k) = (kn =? k).
  Proof.
    intros Hk Hr. destruct (irr kn) eqn:Hi.
    - pose proof (krel_nonreg _ _ Hk Hi) as Hn.
      destruct (Z.eqb_spec ko k) as [->|_]; [congruence|].
      destruct (Z.eqb_spec kn k) as [->|_]; [|reflexivity].
      unfold reg in Hr. rewrite Hi in Hr. discriminate.
    - destruct Hk as [_ Hk]. now rewrite (Hk Hi).
  Qed.

  (* --- heaps --- *)
  Definition cell_rel (cn co : cell) : Prop :=
    c_next cn = c_next co /\ c_prev cn = c_prev co /\ c_val cn = c_val co /\ krel (c_key cn) (c_key co).
  Definition heap_rel (hn ho : heap) : Prop := Forall2 cell_rel hn ho.

  Lemma cell_rel_dflt : cell_rel dflt dflt.
  Proof. repeat split; try reflexivity; apply krel_0. Qed.

  Lemma heap_rel_length hn ho : heap_rel hn ho -> length hn = length ho.
  Proof. intros H. induction H; cbn; [reflexivity|now f_equal]. Qed.

  Lemma heap_rel_rd hn ho a : heap_rel hn ho -> cell_rel (rd hn a) (rd ho a).
  Proof.
    intros H. revert a. induction H as [|cn co hn ho Hc H IH]; intros [|a]; cbn;
      try apply cell_rel_dflt; [exact Hc|apply IH].
  Qed.

  Lemma rel_nx hn ho a : heap_rel hn ho -> c_next (rd hn a) = c_next (rd ho a).
  Proof. intros H. apply (heap_rel_rd _ _ a H). Qed.
  Lemma rel_pv hn ho a : heap_rel hn ho -> c_prev (rd hn a) = c_prev (rd ho a).
  Proof. intros H. apply (heap_rel_rd _ _ a H). Qed.
  Lemma rel_vl hn ho a : heap_rel hn ho -> c_val (rd hn a) = c_val (rd ho a).
  Proof. intros H. apply (heap_rel_rd _ _ a H). Qed.
  Lemma rel_ky hn ho a : heap_rel hn ho -> krel (c_key (rd hn a)) (c_key (rd ho a)).
  Proof. intros H. apply (heap_rel_rd _ _ a H). Qed.

  Lemma heap_rel_upd hn ho a f g :
    heap_rel hn ho -> (forall cn co, cell_rel cn co -> cell_rel (f cn) (g co)) ->
    heap_rel (upd hn a f) (upd ho a g).
  Proof.
    intros H Hf. revert a. induction H as [|cn co hn ho Hc H IH]; intros a; cbn; [constructor|].
    destruct a as [|a]; constructor; auto. apply IH.
  Qed.

  Lemma rel_set_next hn ho an ao xn xo :
    heap_rel hn ho -> an = ao -> xn = xo -> heap_rel (set_next hn an xn) (set_next ho ao xo).
  Proof.
    intros H -> ->. apply heap_rel_upd; [exact H|]. intros cn co (E1 & E2 & E3 & E4). unfold cell_rel; cbn. auto.
  Qed.
  Lemma rel_set_prev hn ho an ao xn xo :
    heap_rel hn ho -> an = ao -> xn = xo -> heap_rel (set_prev hn an xn) (set_prev ho ao xo).
  Proof.
    intros H -> ->. apply heap_rel_upd; [exact H|]. intros cn co (E1 & E2 & E3 & E4). unfold cell_rel; cbn. auto.
  Qed.
  Lemma rel_set_value hn ho a v :
    heap_rel hn ho -> heap_rel (set_value hn a v) (set_value ho a v).
  Proof.
    intros H. apply heap_rel_upd; [exact H|]. intros cn co (E1 & E2 & E3 & E4). unfold cell_rel; cbn. auto.
  Qed.
  Lemma rel_snoc hn ho cn co : heap_rel hn ho -> cell_rel cn co -> heap_rel (hn ++ [cn]) (ho ++ [co]).
  Proof. intros H Hc. apply Forall2_app; [exact H|]. constructor; [exact Hc|constructor]. Qed.

  Ltac relheap H :=
    repeat first [ reflexivity | exact H
                 | apply rel_set_next | apply rel_set_prev | apply rel_set_value
                 | apply rel_nx | apply rel_pv | apply rel_vl ].

  Lemma rel_move_after hn ho cur x :
    heap_rel hn ho -> heap_rel (move_after hn cur x) (move_after ho cur x).
  Proof.
    intros H. unfold move_after. destruct (Nat.eqb cur x); [exact H|]. cbv zeta. relheap H.
  Qed.

  Lemma rel_add_after hn ho cur kn ko v :
    heap_rel hn ho -> krel kn ko ->
    heap_rel (fst (add_after hn cur kn v)) (fst (add_after ho cur ko v)) /\
    snd (add_after hn cur kn v) = snd (add_after ho cur ko v).
  Proof.
    intros H Hk. unfold add_after. cbv zeta. cbn [fst snd].
    pose proof (heap_rel_length _ _ H) as El. rewrite El. split; [|reflexivity].
    assert (H1 : heap_rel (hn ++ [mkCell (c_next (rd hn cur)) cur kn v]) (ho ++ [mkCell (c_next (rd ho cur)) cur ko v])).
    { apply rel_snoc; [exact H|]. repeat split; cbn; try reflexivity; [now apply rel_nx|apply Hk|apply Hk]. }
    relheap H1.
  Qed.

  (* --- maps --- *)
  Lemma m_get_filter k (m : list (Z * addr)) : reg k = true -> m_get k (filter regf m) = m_get k m.
  Proof.
    intros Hr. induction m as [|[k' i] m IH]; cbn; [reflexivity|].
    unfold regf at 1. cbn [fst]. destruct (Z.eqb_spec k' k) as [->|Hne].
    - rewrite Hr. cbn. now rewrite Z.eqb_refl.
    - destruct (reg k'); cbn; [|exact IH]. destruct (Z.eqb_spec k' k); [contradiction|exact IH].
  Qed.

  Lemma filter_comm {A} (p q : A -> bool) l : filter p (filter q l) = filter q (filter p l).
  Proof.
    induction l as [|e m IH]; [reflexivity|]. cbn [filter].
    destruct (q e) eqn:E1; destruct (p e) eqn:E2; cbn [filter]; rewrite ?E1, ?E2; rewrite ?IH; reflexivity.
  Qed.

  Lemma filter_m_del k (m : list (Z * addr)) : filter regf (m_del k m) = m_del k (filter regf m).
  Proof. unfold m_del. apply filter_comm. Qed.

  Lemma m_del_nonreg k (m : list (Z * addr)) : reg k = false -> filter regf (m_del k m) = filter regf m.
  Proof.
    intros Hr. unfold m_del. induction m as [|[k' i] m IH]; cbn; [reflexivity|].
    destruct (Z.eqb_spec k' k) as [->|Hne]; cbn.
    - unfold regf at 2. cbn [fst]. now rewrite Hr.
    - now rewrite IH.
  Qed.

  Lemma filter_cons_nonreg k (a : addr) m : reg k = false -> filter regf ((k, a) :: m) = filter regf m.
  Proof. intros H. cbn [filter]. unfold regf at 1. cbn [fst]. now rewrite H. Qed.
  Lemma filter_cons_reg k (a : addr) m : reg k = true -> filter regf ((k, a) :: m) = (k, a) :: filter regf m.
  Proof. intros H. cbn [filter]. unfold regf at 1. cbn [fst]. now rewrite H. Qed.

  Lemma del_rel kn ko (mn mo : list (Z * addr)) :
    krel kn ko -> filter regf mn = filter regf mo ->
    filter regf (mn_del irr kn mn) = filter regf (m_del ko mo).
  Proof.
    intros Hk E. unfold mn_del. destruct (irr kn) eqn:Hi.
    - rewrite (m_del_nonreg ko mo (krel_nonreg _ _ Hk Hi)). exact E.
    - destruct Hk as [_ Hk]. rewrite (Hk Hi). now rewrite !filter_m_del, E.
  Qed.

  (* keys of the labelled run's map after i calls: reflexive keys of the
     history, or labels already handed out *)
  Definition okkey (i : nat) (k : Z) : Prop := reg k = true \/ (B < k < B + 1 + Z.of_nat i).
  Definition okkeys (i : nat) (m : list (Z * addr)) : Prop := Forall (fun e => okkey i (fst e)) m.

  Lemma okkey_mono i j k : (i <= j)%nat -> okkey i k -> okkey j k.
  Proof. intros Hl [H|H]; [now left|right; lia]. Qed.
  Lemma okkeys_mono i j m : (i <= j)%nat -> okkeys i m -> okkeys j m.
  Proof. intros Hl H. eapply Forall_impl; [|exact H]. intros e. now apply okkey_mono. Qed.
  Lemma okkeys_del i k m : okkeys i m -> okkeys i (m_del k m).
  Proof.
    unfold okkeys, m_del. rewrite !Forall_forall. intros H e He. apply filter_In in He. now apply H.
  Qed.
  Lemma reg_bound k : reg k = true -> Z.abs k < B.
  Proof. unfold reg. intros H. apply andb_prop in H as [_ H]. now apply Z.ltb_lt. Qed.
  Lemma m_get_absent k m : (forall e, In e m -> fst e <> k) -> m_get k m = None.
  Proof.
    induction m as [|[k' i] m IH]; intros H; cbn; [reflexivity|].
    destruct (Z.eqb_spec k' k) as [E|_]; [exfalso; apply (H (k', i)); [now left|exact E]|].
    apply IH. intros e He. apply H. now right.
  Qed.
  Lemma m_get_label i m : okkeys i m -> m_get (B + 1 + Z.of_nat i) m = None.
  Proof.
    intros H. apply m_get_absent. intros e He E. unfold okkeys in H. rewrite Forall_forall in H.
    destruct (H e He) as [Hr|Hr]; [apply reg_bound in Hr|]; destruct e; cbn [fst] in *; lia.
  Qed.
  Lemma m_get_never i m : okkeys i m -> m_get B m = None.
  Proof.
    intros H. apply m_get_absent. intros e He E. unfold okkeys in H. rewrite Forall_forall in H.
    destruct (H e He) as [Hr|Hr]; [apply reg_bound in Hr|]; destruct e; cbn [fst] in *; lia.
  Qed.

  (* --- states --- *)
  Record SR (i : nat) (dn dO : dlru) : Prop := mkSR {
    sr_heap : heap_rel (d_heap dn) (d_heap dO);
    sr_root : d_root dn = d_root dO;
    sr_len : d_len dn = d_len dO;
    sr_size : d_size dn = d_size dO;
    sr_items : filter regf (d_items dn) = filter regf (d_items dO);
    sr_keys : okkeys i (d_items dO)
  }.

  Definition out_rel (rn ro : out) : Prop :=
    match rn, ro with
    | KVB kn vn bn, KVB ko vo bo => krel kn ko /\ vn = vo /\ bn = bo
    | VB vn bn, VB vo bo => vn = vo /\ bn = bo
    | Unit, Unit => True
    | _, _ => False
    end.

  Lemma out_rel_none3 : out_rel none3 none3.
  Proof. cbn. repeat split. apply krel_0. Qed.
  Lemma out_rel_none2 : out_rel none2 none2.
  Proof. cbn. auto. Qed.

  Lemma out_rel_erase rn ro : out_rel rn ro -> rn = erase_out B all ro.
  Proof.
    destruct rn, ro; cbn; try contradiction; try (intros (H1 & H2); now subst); [|reflexivity].
    intros ((H1 & _) & H2 & H3). now subst.
  Qed.

  Lemma SR_mono i j dn dO : (i <= j)%nat -> SR i dn dO -> SR j dn dO.
  Proof. intros Hl [H1 H2 H3 H4 H5 H6]. constructor; auto. eapply okkeys_mono; eauto. Qed.

  Lemma SR_last i dn dO : SR i dn dO -> d_last dn = d_last dO.
  Proof. intros H. unfold d_last. rewrite (sr_root _ _ _ H). apply rel_pv, (sr_heap _ _ _ H). Qed.
  Lemma SR_first i dn dO : SR i dn dO -> d_first dn = d_first dO.
  Proof. intros H. unfold d_first. rewrite (sr_root _ _ _ H). apply rel_nx, (sr_heap _ _ _ H). Qed.

  Lemma SR_move_front i dn dO x : SR i dn dO -> SR i (d_move_front dn x) (d_move_front dO x).
  Proof.
    intros [H1 H2 H3 H4 H5 H6]. constructor; cbn; auto. rewrite H2. now apply rel_move_after.
  Qed.

  Lemma SR_list_remove i dn dO x :
    SR i dn dO ->
    SR i (fst (d_list_remove dn x)) (fst (d_list_remove dO x)) /\
    snd (d_list_remove dn x) = snd (d_list_remove dO x).
  Proof.
    intros H. pose proof H as [H1 H2 H3 H4 H5 H6]. unfold d_list_remove. rewrite H2.
    destruct (negb (Nat.eqb x (d_root dO))); cbn [fst snd]; [|now split].
    split; [|reflexivity]. constructor; cbn; auto; [|now rewrite H3].
    apply rel_set_next; [apply rel_set_prev; [exact H1|now apply rel_nx|now apply rel_pv]|now apply rel_pv|now apply rel_nx].
  Qed.

  Lemma SR_del i dn dO kn ko :
    SR i dn dO -> krel kn ko ->
    SR i (d_with_items dn (mn_del irr kn (d_items dn))) (d_with_items dO (m_del ko (d_items dO))).
  Proof.
    intros [H1 H2 H3 H4 H5 H6] Hk. constructor; cbn; auto; [now apply del_rel|now apply okkeys_del].
  Qed.

  Lemma sim_remove_oldest i dn dO :
    SR i dn dO ->
    SR i (fst (dn_remove_oldest irr dn)) (fst (d_remove_oldest dO)) /\
    out_rel (snd (dn_remove_oldest irr dn)) (snd (d_remove_oldest dO)).
  Proof.
    intros H. unfold dn_remove_oldest, d_remove_oldest.
    rewrite (SR_last _ _ _ H), (sr_root _ _ _ H).
    destruct (negb (Nat.eqb (d_last dO) (d_root dO))); cbn [fst snd]; [|split; [exact H|apply out_rel_none3]].
    pose proof (rel_ky _ _ (d_last dO) (sr_heap _ _ _ H)) as Hk.
    pose proof (rel_vl _ _ (d_last dO) (sr_heap _ _ _ H)) as Hv.
    pose proof (SR_del _ _ _ _ _ H Hk) as H1.
    unfold d_remove_last. rewrite (SR_last _ _ _ H1).
    destruct (SR_list_remove _ _ _ (d_last (d_with_items dO (m_del (c_key (rd (d_heap dO) (d_last dO))) (d_items dO)))) H1) as [H2 Eb].
    destruct (d_list_remove (d_with_items dn _) _) as [dn2 bn].
    destruct (d_list_remove (d_with_items dO _) _) as [do2 bo]. cbn [fst snd] in *.
    split; [exact H2|]. cbn. auto.
  Qed.

  Lemma sim_step i o dn dO :
    nth_error all i = Some o ->
    (forall k, op_key o = Some k -> Z.abs k < B) ->
    SR i dn dO ->
    SR (S i) (fst (dn_step irr o dn)) (fst (d_step (label_op irr B i o) dO)) /\
    out_rel (snd (dn_step irr o dn)) (snd (d_step (label_op irr B i o) dO)).
  Proof.
    intros Hnth Hb H. pose proof H as [H1 H2 H3 H4 H5 H6].
    assert (Hreg : forall k, op_key o = Some k -> irr k = false -> reg k = true).
    { intros k Hk Hi. unfold reg. rewrite Hi. cbn. apply Z.ltb_lt. now apply Hb. }
    assert (Hup : forall a b, SR i a b -> SR (S i) a b) by (intros a b; apply SR_mono; lia).
    destruct o as [k v|k| | |k| | |]; cbn [dn_step label_op].
    - (* Add *)
      unfold dn_add, mn_get. destruct (irr k) eqn:Hi; cbn [d_step]; unfold d_add.
      + (* irreflexive: always new; the labelled run adds the fresh key B+1+i *)
        rewrite (m_get_label i _ H6).
        assert (Hk : krel k (B + 1 + Z.of_nat i)).
        { split; [|congruence]. unfold erase_key.
          destruct (B + 1 + Z.of_nat i <=? B) eqn:E; [apply Z.leb_le in E; lia|].
          replace (Z.to_nat (B + 1 + Z.of_nat i - B - 1)) with i by lia. now rewrite Hnth. }
        unfold d_add_front. rewrite H2.
        destruct (rel_add_after _ _ (d_root dO) _ _ v H1 Hk) as [Hh Ea].
        destruct (add_after (d_heap dn) (d_root dO) k v) as [hn1 an].
        destruct (add_after (d_heap dO) (d_root dO) (B + 1 + Z.of_nat i) v) as [ho1 ao].
        cbn [fst snd] in *. subst ao.
        set (dn2 := d_with_items _ (mn_set irr k an _)).
        set (do2 := d_with_items _ (m_set (B + 1 + Z.of_nat i) an _)).
        assert (HS : SR (S i) dn2 do2).
        { constructor; unfold dn2, do2; cbn [d_heap d_root d_len d_items d_size d_with_items]; auto; [now rewrite H3| |].
          - unfold mn_set. rewrite Hi. unfold m_set.
            assert (Hnk : reg k = false) by (unfold reg; now rewrite Hi).
            rewrite (filter_cons_nonreg _ _ _ Hnk), (filter_cons_nonreg _ _ _ (krel_nonreg _ _ Hk Hi)).
            rewrite m_del_nonreg by apply (krel_nonreg _ _ Hk Hi). exact H5.
          - unfold m_set. constructor; [right; cbn; lia|]. apply okkeys_del. eapply okkeys_mono; [|exact H6]. lia. }
        assert (Ec : (d_count dn2 >? d_size dn2) = (d_count do2 >? d_size do2)).
        { unfold d_count. now rewrite (sr_len _ _ _ HS), (sr_size _ _ _ HS). }
        rewrite Ec. destruct (d_count do2 >? d_size do2).
        * apply sim_remove_oldest. exact HS.
        * cbn [fst snd]. split; [exact HS|apply out_rel_none3].
      + (* reflexive key *)
        pose proof (Hreg k eq_refl Hi) as Hr.
        assert (Eg : m_get k (d_items dn) = m_get k (d_items dO)).
        { rewrite <- (m_get_filter k (d_items dn) Hr), <- (m_get_filter k (d_items dO) Hr). now rewrite H5. }
        rewrite Eg. destruct (m_get k (d_items dO)) as [item|].
        * cbn [fst snd]. split; [|apply out_rel_none3]. apply Hup.
          pose proof (SR_move_front _ _ _ item H) as [G1 G2 G3 G4 G5 G6].
          constructor; cbn [d_heap d_root d_len d_items d_size]; auto. now apply rel_set_value.
        * assert (Hk : krel k k) by (apply krel_small; apply reg_bound in Hr; lia).
          unfold d_add_front. rewrite H2.
          destruct (rel_add_after _ _ (d_root dO) _ _ v H1 Hk) as [Hh Ea].
          destruct (add_after (d_heap dn) (d_root dO) k v) as [hn1 an].
          destruct (add_after (d_heap dO) (d_root dO) k v) as [ho1 ao].
          cbn [fst snd] in *. subst ao.
          set (dn2 := d_with_items _ (mn_set irr k an _)).
          set (do2 := d_with_items _ (m_set k an _)).
          assert (HS : SR (S i) dn2 do2).
          { constructor; unfold dn2, do2; cbn [d_heap d_root d_len d_items d_size d_with_items]; auto; [now rewrite H3| |].
            - unfold mn_set. rewrite Hi. unfold m_set. rewrite !(filter_cons_reg _ _ _ Hr).
              now rewrite !filter_m_del, H5.
            - unfold m_set. constructor; [now left|]. apply okkeys_del. eapply okkeys_mono; [|exact H6]. lia. }
          assert (Ec : (d_count dn2 >? d_size dn2) = (d_count do2 >? d_size do2)).
          { unfold d_count. now rewrite (sr_len _ _ _ HS), (sr_size _ _ _ HS). }
          rewrite Ec. destruct (d_count do2 >? d_size do2).
          -- apply sim_remove_oldest. exact HS.
          -- cbn [fst snd]. split; [exact HS|apply out_rel_none3].
    - (* Get *)
      unfold dn_get, mn_get. destruct (irr k) eqn:Hi; cbn [d_step]; unfold d_get.
      + rewrite (m_get_never i _ H6). cbn [fst snd]. split; [now apply Hup|apply out_rel_none2].
      + pose proof (Hreg k eq_refl Hi) as Hr.
        assert (Eg : m_get k (d_items dn) = m_get k (d_items dO)).
        { rewrite <- (m_get_filter k (d_items dn) Hr), <- (m_get_filter k (d_items dO) Hr). now rewrite H5. }
        rewrite Eg. destruct (m_get k (d_items dO)) as [item|]; cbn [fst snd];
          [|split; [now apply Hup|apply out_rel_none2]].
        pose proof (SR_move_front _ _ _ item H) as G. split; [now apply Hup|]. cbn. split; [|reflexivity].
        apply rel_vl, (sr_heap _ _ _ G).
    - (* GetOldest *)
      cbn [d_step]. unfold d_get_oldest. rewrite (SR_last _ _ _ H), H2.
      destruct (negb (Nat.eqb (d_last dO) (d_root dO))); cbn [fst snd]; [|split; [now apply Hup|apply out_rel_none3]].
      pose proof (SR_move_front _ _ _ (d_last dO) H) as G. split; [now apply Hup|]. cbn.
      repeat split; try reflexivity; [apply (rel_ky _ _ _ (sr_heap _ _ _ G))..|apply (rel_vl _ _ _ (sr_heap _ _ _ G))].
    - (* GetYoungest *)
      cbn [d_step]. unfold d_get_youngest. rewrite (SR_first _ _ _ H), H2.
      destruct (negb (Nat.eqb (d_first dO) (d_root dO))); cbn [fst snd]; [|split; [now apply Hup|apply out_rel_none3]].
      split; [now apply Hup|]. cbn.
      repeat split; try reflexivity; [apply (rel_ky _ _ _ H1)..|apply (rel_vl _ _ _ H1)].
    - (* Remove *)
      unfold dn_remove, mn_get. destruct (irr k) eqn:Hi; cbn [d_step]; unfold d_remove.
      + rewrite (m_get_never i _ H6). cbn [fst snd]. split; [now apply Hup|apply out_rel_none2].
      + pose proof (Hreg k eq_refl Hi) as Hr.
        assert (Eg : m_get k (d_items dn) = m_get k (d_items dO)).
        { rewrite <- (m_get_filter k (d_items dn) Hr), <- (m_get_filter k (d_items dO) Hr). now rewrite H5. }
        rewrite Eg. destruct (m_get k (d_items dO)) as [item|]; cbn [fst snd];
          [|split; [now apply Hup|apply out_rel_none2]].
        pose proof (SR_del _ _ _ _ _ H (rel_ky _ _ item H1)) as G.
        destruct (SR_list_remove _ _ _ item G) as [G2 _].
        destruct (d_list_remove (d_with_items dn _) item) as [dn2 bn].
        destruct (d_list_remove (d_with_items dO _) item) as [do2 bo]. cbn [fst snd] in *.
        split; [now apply Hup|]. cbn. split; [|reflexivity]. apply rel_vl, (sr_heap _ _ _ G2).
    - (* RemoveOldest *)
      cbn [d_step]. destruct (sim_remove_oldest _ _ _ H) as [G1 G2]. split; [now apply Hup|exact G2].
    - (* RemoveYoungest *)
      cbn [d_step]. unfold dn_remove_youngest, d_remove_youngest. rewrite (SR_first _ _ _ H), H2.
      destruct (negb (Nat.eqb (d_first dO) (d_root dO))); cbn [fst snd]; [|split; [now apply Hup|apply out_rel_none3]].
      pose proof (SR_del _ _ _ _ _ H (rel_ky _ _ (d_first dO) H1)) as G.
      destruct (SR_list_remove _ _ _ (d_first dO) G) as [G2 Eb].
      destruct (d_list_remove (d_with_items dn _) (d_first dO)) as [dn2 bn].
      destruct (d_list_remove (d_with_items dO _) (d_first dO)) as [do2 bo]. cbn [fst snd] in *.
      split; [now apply Hup|]. cbn.
      repeat split; try assumption; [apply (rel_ky _ _ _ (sr_heap _ _ _ G2))..|apply (rel_vl _ _ _ (sr_heap _ _ _ G2))].
    - (* Flush *)
      cbn [d_step]. unfold d_flush, new_list. cbn [fst snd]. split; [|exact I].
      rewrite (heap_rel_length _ _ H1). constructor; cbn; auto; [|constructor].
      apply rel_snoc; [exact H1|]. repeat split; try reflexivity; apply krel_0.
  Qed.

  (* --- histories --- *)
  Definition ev_rel (xn xo : out * Z) : Prop := out_rel (fst xn) (fst xo) /\ snd xn = snd xo.

  Lemma ev_rel_erase outs_n outs_o : Forall2 ev_rel outs_n outs_o -> outs_n = erase_run B all outs_o.
  Proof.
    intros H. induction H as [|[rn cn] [ro co] ln lo [H1 H2] H IH]; cbn; [reflexivity|].
    cbn in H1, H2. subst co. now rewrite <- (out_rel_erase _ _ H1), IH.
  Qed.

  Definition all_bounded : Prop := forall o k, In o all -> op_key o = Some k -> Z.abs k < B.

  Lemma sim_run ops : forall pre post dn dO,
    all = pre ++ ops ++ post -> all_bounded -> SR (length pre) dn dO ->
    Forall2 ev_rel (run (dn_step irr) d_count ops dn) (run d_step d_count (label_from irr B (length pre) ops) dO) /\
    SR (length pre + length ops) (final (dn_step irr) ops dn) (final d_step (label_from irr B (length pre) ops) dO).
  Proof.
    induction ops as [|o ops IH]; intros pre post dn dO Ha Hb H; cbn [run final label_from length].
    - split; [constructor|]. now rewrite Nat.add_0_r.
    - assert (Hn : nth_error all (length pre) = Some o).
      { rewrite Ha, nth_error_app2 by lia. now rewrite Nat.sub_diag. }
      assert (Hbo : forall k, op_key o = Some k -> Z.abs k < B).
      { intros k. apply Hb. rewrite Ha. apply in_or_app. right. now left. }
      destruct (sim_step _ _ _ _ Hn Hbo H) as [H1 Ho].
      destruct (dn_step irr o dn) as [dn1 rn]. destruct (d_step (label_op irr B (length pre) o) dO) as [do1 ro].
      cbn [fst snd] in *.
      destruct (IH (pre ++ [o]) post dn1 do1) as [G1 G2].
      + rewrite Ha, <- app_assoc. reflexivity.
      + exact Hb.
      + rewrite app_length. cbn. now rewrite Nat.add_1_r.
      + rewrite app_length in G1, G2. cbn [length] in G1, G2. rewrite Nat.add_1_r in G1, G2. split.
        * constructor; [|exact G1]. split; [exact Ho|]. cbn. unfold d_count. apply (sr_len _ _ _ H1).
        * replace (length pre + S (length ops))%nat with (S (length pre) + length ops)%nat by lia. exact G2.
  Qed.

  Lemma SR_new cap d : d_new cap = Ok d -> SR 0 d d.
  Proof.
    unfold d_new. destruct (cap <=? 0); [discriminate|]. cbn. intros E. injection E as <-.
    constructor; cbn; auto; [|constructor]. constructor; [|constructor]. apply cell_rel_dflt.
  Qed.

  (* ---------------------------------------------------------------- *)
  (* Part C: the reference machines *)

  Definition ent_rel (en eo : Z * Z) : Prop := krel (fst en) (fst eo) /\ snd en = snd eo.
  Definition okents (i : nat) (l : rl) : Prop := Forall (fun e => okkey i (fst e)) l.
  Definition LR (i : nat) (ln lo : rl) : Prop := Forall2 ent_rel ln lo /\ okents i lo.

  Lemma krel_reg k : reg k = true -> krel k k.
  Proof. intros Hr. apply krel_small. apply reg_bound in Hr. lia. Qed.
  Lemma ent_rel_reg k v : reg k = true -> ent_rel (k, v) (k, v).
  Proof. intros Hr. split; [now apply krel_reg|reflexivity]. Qed.

  Lemma rl_find_rel k ln lo : reg k = true -> Forall2 ent_rel ln lo -> rl_find k ln = rl_find k lo.
  Proof.
    intros Hr H. induction H as [|[kn vn] [ko vo] ln lo [Hk Hv] H IH]; cbn; [reflexivity|].
    cbn in Hk, Hv. subst vo. rewrite (krel_eqb _ _ _ Hk Hr). now rewrite IH.
  Qed.

  Lemma rl_del_rel k ln lo : reg k = true -> Forall2 ent_rel ln lo -> Forall2 ent_rel (rl_del k ln) (rl_del k lo).
  Proof.
    intros Hr H. induction H as [|[kn vn] [ko vo] ln lo [Hk Hv] H IH]; cbn; [constructor|].
    cbn in Hk, Hv. rewrite (krel_eqb _ _ _ Hk Hr). destruct (kn =? k); [exact H|].
    constructor; [split; assumption|exact IH].
  Qed.

  Lemma okents_del i k l : okents i l -> okents i (rl_del k l).
  Proof.
    unfold okents. rewrite !Forall_forall. intros H e He. apply H. now apply (rl_del_incl k l).
  Qed.
  Lemma okents_mono i j l : (i <= j)%nat -> okents i l -> okents j l.
  Proof. intros Hl H. eapply Forall_impl; [|exact H]. intros e. now apply okkey_mono. Qed.

  Lemma rl_find_absent k l : (forall e, In e l -> fst e <> k) -> rl_find k l = None.
  Proof.
    intros H. apply rl_find_none. intros Hin. apply in_map_iff in Hin as (e & E & He). now apply (H e).
  Qed.
  Lemma rl_find_label i l : okents i l -> rl_find (B + 1 + Z.of_nat i) l = None.
  Proof.
    intros H. apply rl_find_absent. intros e He E. unfold okents in H. rewrite Forall_forall in H.
    destruct (H e He) as [Hr|Hr]; [apply reg_bound in Hr|]; destruct e; cbn [fst] in *; lia.
  Qed.
  Lemma rl_find_never i l : okents i l -> rl_find B l = None.
  Proof.
    intros H. apply rl_find_absent. intros e He E. unfold okents in H. rewrite Forall_forall in H.
    destruct (H e He) as [Hr|Hr]; [apply reg_bound in Hr|]; destruct e; cbn [fst] in *; lia.
  Qed.

  Lemma last_opt_rel {A} (R : A -> A -> Prop) ln lo : Forall2 R ln lo ->
    match last_opt ln, last_opt lo with
    | Some a, Some b => R a b
    | None, None => True
    | _, _ => False
    end.
  Proof.
    intros H. induction H as [|a b ln lo Hab H IH]; [exact I|].
    destruct H as [|a' b' ln lo Hab' H]; [exact Hab|].
    rewrite (last_opt_cons a) by discriminate. rewrite (last_opt_cons b) by discriminate. exact IH.
  Qed.

  Lemma removelast_rel {A} (R : A -> A -> Prop) ln lo : Forall2 R ln lo -> Forall2 R (removelast ln) (removelast lo).
  Proof.
    intros H. induction H as [|a b ln lo Hab H IH]; [constructor|].
    destruct H as [|a' b' ln lo Hab' H]; [constructor|].
    cbn [removelast] in *. constructor; [exact Hab|exact IH].
  Qed.

  Lemma Forall_removelast {A} (P : A -> Prop) l : Forall P l -> Forall P (removelast l).
  Proof.
    intros H. induction H as [|a l Ha H IH]; [constructor|].
    destruct l as [|a' l]; [constructor|]. cbn [removelast] in *. constructor; [exact Ha|exact IH].
  Qed.

  Lemma Forall2_len {A} (R : A -> A -> Prop) ln lo : Forall2 R ln lo -> length ln = length lo.
  Proof. intros H. induction H; cbn; [reflexivity|now f_equal]. Qed.

  (* inserting a new entry at the front and evicting when over capacity *)
  Lemma sim_insert i cap kn ko v ln lo :
    krel kn ko -> okkey (S i) ko -> LR i ln lo ->
    let rn := (if Z.of_nat (length ((kn, v) :: ln)) >? cap then
                 match last_opt ((kn, v) :: ln) with
                 | Some (ek, ev) => (removelast ((kn, v) :: ln), KVB ek ev true)
                 | None => ((kn, v) :: ln, none3)
                 end else ((kn, v) :: ln, none3)) in
    let ro := (if Z.of_nat (length ((ko, v) :: lo)) >? cap then
                 match last_opt ((ko, v) :: lo) with
                 | Some (ek, ev) => (removelast ((ko, v) :: lo), KVB ek ev true)
                 | None => ((ko, v) :: lo, none3)
                 end else ((ko, v) :: lo, none3)) in
    LR (S i) (fst rn) (fst ro) /\ out_rel (snd rn) (snd ro).
  Proof.
    intros Hk Hok [H1 H2].
    assert (G1 : Forall2 ent_rel ((kn, v) :: ln) ((ko, v) :: lo)) by (constructor; [split; [exact Hk|reflexivity]|exact H1]).
    assert (G2 : okents (S i) ((ko, v) :: lo)).
    { constructor; [exact Hok|]. eapply okents_mono; [|exact H2]. lia. }
    cbv zeta. rewrite (Forall2_len _ _ _ G1).
    destruct (Z.of_nat (length ((ko, v) :: lo)) >? cap); [|split; [split; assumption|apply out_rel_none3]].
    pose proof (last_opt_rel _ _ _ G1) as HL.
    destruct (last_opt ((kn, v) :: ln)) as [[ekn evn]|]; destruct (last_opt ((ko, v) :: lo)) as [[eko evo]|]; try contradiction.
    - destruct HL as [Hk' Hv']. cbn in Hk', Hv'. subst evo. cbn [fst snd]. split.
      + split; [now apply removelast_rel|now apply Forall_removelast].
      + cbn. auto.
    - cbn [fst snd]. split; [split; assumption|apply out_rel_none3].
  Qed.

  Lemma sim_spec_step i cap o ln lo :
    nth_error all i = Some o ->
    (forall k, op_key o = Some k -> Z.abs k < B) ->
    LR i ln lo ->
    LR (S i) (fst (specn_step irr cap o ln)) (fst (spec_step cap (label_op irr B i o) lo)) /\
    out_rel (snd (specn_step irr cap o ln)) (snd (spec_step cap (label_op irr B i o) lo)).
  Proof.
    intros Hnth Hb H. pose proof H as [H1 H2].
    assert (Hreg : forall k, op_key o = Some k -> irr k = false -> reg k = true).
    { intros k Hk Hi. unfold reg. rewrite Hi. cbn. apply Z.ltb_lt. now apply Hb. }
    assert (Hup : forall a b, LR i a b -> LR (S i) a b).
    { intros a b [G1 G2]. split; [exact G1|]. eapply okents_mono; [|exact G2]. lia. }
    destruct o as [k v|k| | |k| | |]; cbn [specn_step label_op].
    - (* Add *)
      unfold rn_find. destruct (irr k) eqn:Hi; cbn [spec_step].
      + rewrite (rl_find_label i _ H2).
        apply sim_insert; [| right; lia | exact H].
        split; [|congruence]. unfold erase_key.
        destruct (B + 1 + Z.of_nat i <=? B) eqn:E; [apply Z.leb_le in E; lia|].
        replace (Z.to_nat (B + 1 + Z.of_nat i - B - 1)) with i by lia. now rewrite Hnth.
      + pose proof (Hreg k eq_refl Hi) as Hr. rewrite (rl_find_rel k _ _ Hr H1).
        destruct (rl_find k lo) as [v0|].
        * cbn [fst snd]. split; [|apply out_rel_none3]. split.
          -- constructor; [now apply ent_rel_reg|now apply rl_del_rel].
          -- constructor; [now left|]. apply okents_del. eapply okents_mono; [|exact H2]. lia.
        * apply sim_insert; [now apply krel_reg|now left|exact H].
    - (* Get *)
      unfold rn_find. destruct (irr k) eqn:Hi; cbn [spec_step].
      + rewrite (rl_find_never i _ H2). cbn [fst snd]. split; [now apply Hup|apply out_rel_none2].
      + pose proof (Hreg k eq_refl Hi) as Hr. rewrite (rl_find_rel k _ _ Hr H1).
        destruct (rl_find k lo) as [v0|]; cbn [fst snd]; [|split; [now apply Hup|apply out_rel_none2]].
        split; [|cbn; auto]. split.
        * constructor; [now apply ent_rel_reg|now apply rl_del_rel].
        * constructor; [now left|]. apply okents_del. eapply okents_mono; [|exact H2]. lia.
    - (* GetOldest *)
      cbn [spec_step]. pose proof (last_opt_rel _ _ _ H1) as HL.
      destruct (last_opt ln) as [[kn vn]|]; destruct (last_opt lo) as [[ko vo]|] eqn:EL; try contradiction;
        cbn [fst snd]; [|split; [now apply Hup|apply out_rel_none3]].
      destruct HL as [Hk Hv]. cbn in Hk, Hv. subst vo. split; [|cbn; auto]. apply Hup. split.
      + constructor; [split; [exact Hk|reflexivity]|now apply removelast_rel].
      + assert (Hin : In (ko, vn) lo) by (now apply l_last_in).
        constructor; [|now apply Forall_removelast]. unfold okents in H2. rewrite Forall_forall in H2. apply (H2 _ Hin).
    - (* GetYoungest *)
      cbn [spec_step]. destruct H1 as [|[kn vn] [ko vo] ln lo [Hk Hv] H1]; cbn [fst snd];
        [split; [now apply Hup|apply out_rel_none3]|].
      cbn in Hk, Hv. subst vo. split; [now apply Hup|cbn; auto].
    - (* Remove *)
      unfold rn_find. destruct (irr k) eqn:Hi; cbn [spec_step].
      + rewrite (rl_find_never i _ H2). cbn [fst snd]. split; [now apply Hup|apply out_rel_none2].
      + pose proof (Hreg k eq_refl Hi) as Hr. rewrite (rl_find_rel k _ _ Hr H1).
        destruct (rl_find k lo) as [v0|]; cbn [fst snd]; [|split; [now apply Hup|apply out_rel_none2]].
        split; [|cbn; auto]. apply Hup. split; [now apply rl_del_rel|now apply okents_del].
    - (* RemoveOldest *)
      cbn [spec_step]. pose proof (last_opt_rel _ _ _ H1) as HL.
      destruct (last_opt ln) as [[kn vn]|]; destruct (last_opt lo) as [[ko vo]|]; try contradiction;
        cbn [fst snd]; [|split; [now apply Hup|apply out_rel_none3]].
      destruct HL as [Hk Hv]. cbn in Hk, Hv. subst vo. split; [|cbn; auto]. apply Hup.
      split; [now apply removelast_rel|now apply Forall_removelast].
    - (* RemoveYoungest *)
      cbn [spec_step]. destruct H1 as [|[kn vn] [ko vo] ln lo [Hk Hv] H1]; cbn [fst snd];
        [split; [now apply Hup|apply out_rel_none3]|].
      cbn in Hk, Hv. subst vo. split; [|cbn; auto]. apply Hup. split; [exact H1|]. now inversion H2.
    - (* Flush *)
      cbn [spec_step fst snd]. split; [|exact I]. split; constructor.
  Qed.

  Lemma sim_spec_run cap ops : forall pre post ln lo,
    all = pre ++ ops ++ post -> all_bounded -> LR (length pre) ln lo ->
    Forall2 ev_rel (run (specn_step irr cap) spec_count ops ln)
                   (run (spec_step cap) spec_count (label_from irr B (length pre) ops) lo).
  Proof.
    induction ops as [|o ops IH]; intros pre post ln lo Ha Hb H; cbn [run label_from]; [constructor|].
    assert (Hn : nth_error all (length pre) = Some o).
    { rewrite Ha, nth_error_app2 by lia. now rewrite Nat.sub_diag. }
    assert (Hbo : forall k, op_key o = Some k -> Z.abs k < B).
    { intros k. apply Hb. rewrite Ha. apply in_or_app. right. now left. }
    destruct (sim_spec_step _ cap _ _ _ Hn Hbo H) as [H1 Ho].
    destruct (specn_step irr cap o ln) as [ln1 rn]. destruct (spec_step cap (label_op irr B (length pre) o) lo) as [lo1 ro].
    cbn [fst snd] in *.
    specialize (IH (pre ++ [o]) post ln1 lo1).
    rewrite app_length in IH. cbn [length] in IH. rewrite Nat.add_1_r in IH.
    constructor.
    - split; [exact Ho|]. cbn. unfold spec_count. now rewrite (Forall2_len _ _ _ (proj1 H1)).
    - apply IH; [rewrite Ha, <- app_assoc; reflexivity|exact Hb|exact H1].
  Qed.

  (* ---------------------------------------------------------------- *)
  (* ledgers: on a reflexive key the ledger of the irreflexive run's trace and
     the ledger of the labelled run's trace agree *)

  Lemma set_agree (Ln Lo : ledger) an ao x k :
    Ln k = Lo k -> (k =? an) = (k =? ao) -> l_set Ln an x k = l_set Lo ao x k.
  Proof. intros HL E. unfold l_set. rewrite E, HL. reflexivity. Qed.

  Lemma l_touch_other t (L : ledger) k1 k : (k =? k1) = false -> l_touch t L k1 k = L k.
  Proof.
    intros E. unfold l_touch. destruct (L k1) as [[t1 v1]|]; [|reflexivity]. unfold l_set. now rewrite E.
  Qed.

  Lemma touch_agree t (Ln Lo : ledger) an ao k :
    Ln k = Lo k -> (k =? an) = (k =? ao) -> l_touch t Ln an k = l_touch t Lo ao k.
  Proof.
    intros HL E. destruct (k =? an) eqn:E1.
    - apply Z.eqb_eq in E1. symmetry in E. apply Z.eqb_eq in E. subst an ao.
      unfold l_touch. rewrite HL. destruct (Lo k) as [[t1 v1]|] eqn:EL; [|congruence]. unfold l_set. now rewrite Z.eqb_refl.
    - rewrite (l_touch_other _ _ _ _ E1). symmetry in E. rewrite (l_touch_other _ _ _ _ E). exact HL.
  Qed.

  Lemma ledger_step_agree t Ln Lo o i rn ro k :
    reg k = true -> Ln k = Lo k -> out_rel rn ro ->
    (forall k', op_key o = Some k' -> Z.abs k' < B) ->
    ledger_step t Ln o rn k = ledger_step t Lo (label_op irr B i o) ro k.
  Proof.
    intros Hr HL Ho Hb.
    assert (Hkk : forall kn ko, krel kn ko -> (k =? kn) = (k =? ko)).
    { intros kn ko Hk. rewrite (Z.eqb_sym k kn), (Z.eqb_sym k ko). symmetry. now apply krel_eqb. }
    assert (Hirr : irr k = false) by (unfold reg in Hr; destruct (irr k); [discriminate|reflexivity]).
    pose proof (reg_bound _ Hr) as HkB.
    assert (Hop : forall k1, irr k1 = true -> (k =? k1) = false).
    { intros k1 H1. destruct (Z.eqb_spec k k1); [congruence|reflexivity]. }
    assert (HlB : (k =? B) = false) by (apply Z.eqb_neq; lia).
    assert (Hli : (k =? B + 1 + Z.of_nat i) = false) by (apply Z.eqb_neq; lia).
    destruct o as [k1 v|k1| | |k1| | |]; cbn [label_op].
    - (* Add *)
      assert (E1 : (k =? k1) = (k =? (if irr k1 then B + 1 + Z.of_nat i else k1))).
      { destruct (irr k1) eqn:Hi; [now rewrite (Hop _ Hi), Hli|reflexivity]. }
      destruct (irr k1) eqn:Hi;
        (destruct rn as [kn vn bn|vn bn|], ro as [ko vo bo|vo bo|]; cbn in Ho; try contradiction; cbn [ledger_step];
         [destruct Ho as (Hk & -> & ->); destruct bo; [apply set_agree; [apply set_agree|]; auto|apply set_agree; auto]
         |apply set_agree; auto..]).
    - (* Get *)
      assert (E1 : (k =? k1) = (k =? (if irr k1 then B else k1))).
      { destruct (irr k1) eqn:Hi; [now rewrite (Hop _ Hi), HlB|reflexivity]. }
      destruct (irr k1) eqn:Hi;
        (destruct rn as [kn vn bn|vn bn|], ro as [ko vo bo|vo bo|]; cbn in Ho; try contradiction; cbn [ledger_step]; try exact HL;
         destruct Ho as (-> & ->); destruct bo; [apply touch_agree; auto|exact HL]).
    - (* GetOldest *)
      destruct rn as [kn vn bn|vn bn|], ro as [ko vo bo|vo bo|]; cbn in Ho; try contradiction; cbn [ledger_step]; try exact HL.
      destruct Ho as (Hk & -> & ->). destruct bo; [apply touch_agree; auto|exact HL].
    - (* GetYoungest *)
      destruct rn, ro; exact HL.
    - (* Remove *)
      assert (E1 : (k =? k1) = (k =? (if irr k1 then B else k1))).
      { destruct (irr k1) eqn:Hi; [now rewrite (Hop _ Hi), HlB|reflexivity]. }
      destruct (irr k1) eqn:Hi;
        (destruct rn as [kn vn bn|vn bn|], ro as [ko vo bo|vo bo|]; cbn in Ho; try contradiction; cbn [ledger_step]; try exact HL;
         destruct Ho as (-> & ->); destruct bo; [apply set_agree; auto|exact HL]).
    - (* RemoveOldest *)
      destruct rn as [kn vn bn|vn bn|], ro as [ko vo bo|vo bo|]; cbn in Ho; try contradiction; cbn [ledger_step]; try exact HL.
      destruct Ho as (Hk & -> & ->). destruct bo; [apply set_agree; auto|exact HL].
    - (* RemoveYoungest *)
      destruct rn as [kn vn bn|vn bn|], ro as [ko vo bo|vo bo|]; cbn in Ho; try contradiction; cbn [ledger_step]; try exact HL.
      destruct Ho as (Hk & -> & ->). destruct bo; [apply set_agree; auto|exact HL].
    - (* Flush *)
      destruct rn, ro; reflexivity.
  Qed.

  Lemma ledger_agree k : reg k = true -> forall ops i outs_n outs_o t Ln Lo,
    (forall o k', In o ops -> op_key o = Some k' -> Z.abs k' < B) ->
    Forall2 ev_rel outs_n outs_o -> Ln k = Lo k ->
    ledger_of t Ln (trace_of ops outs_n) k = ledger_of t Lo (trace_of (label_from irr B i ops) outs_o) k.
  Proof.
    intros Hr. induction ops as [|o ops IH]; intros i outs_n outs_o t Ln Lo Hb HF HL; [exact HL|].
    destruct HF as [|[rn cn] [ro co] outs_n outs_o [Ho _] HF]; [exact HL|].
    cbn [label_from trace_of combine ledger_of]. cbn [fst] in Ho.
    apply (IH (S i)); [intros o' k' Hin; apply Hb; now right|exact HF|].
    apply ledger_step_agree; auto. intros k'. apply Hb. now left.
  Qed.
End Sim.

(* ------------------------------------------------------------------ *)
(* Part D: consequences *)

Lemma bound_of_pos ops : 0 < bound_of ops.
Proof.
  unfold bound_of. assert (0 <= fold_right (fun o b => match op_key o with Some k => Z.max (Z.abs k) b | None => b end) 0 ops); [|lia].
  induction ops as [|o ops IH]; cbn [fold_right]; [lia|]. destruct (op_key o); lia.
Qed.

Lemma bound_of_bounded ops : bounded (bound_of ops) ops.
Proof.
  split; [apply bound_of_pos|]. unfold bound_of. induction ops as [|o ops IH]; intros o' k [].
  - subst o'. intros E. cbn [fold_right]. rewrite E. lia.
  - intros E. specialize (IH o' k H E). cbn [fold_right]. destruct (op_key o); lia.
Qed.

Lemma bounded_app_l B ops post : bounded B (ops ++ post) -> bounded B ops.
Proof. intros [H1 H2]. split; [exact H1|]. intros o k Hin. apply H2. apply in_or_app. now left. Qed.

Lemma bounded_all B ops : bounded B ops -> all_bounded B ops.
Proof. intros [_ H]. exact H. Qed.

(* the simulation theorem, pointer level *)
Lemma sim_history irr B cap d ops :
  bounded B ops -> d_new cap = Ok d ->
  run_dn irr d ops = erase_run B ops (run_dll d (label irr B ops)).
Proof.
  intros HB Hd. apply (ev_rel_erase irr B ops).
  refine (proj1 (sim_run irr B ops (proj1 HB) ops [] [] d d _ (bounded_all _ _ HB) (SR_new irr B ops (proj1 HB) cap d Hd))).
  now rewrite app_nil_r.
Qed.

Lemma sim_final irr B cap d ops post :
  bounded B (ops ++ post) -> d_new cap = Ok d ->
  SR irr B (ops ++ post) (length ops) (final (dn_step irr) ops d) (final d_step (label irr B ops) d).
Proof.
  intros HB Hd.
  exact (proj2 (sim_run irr B (ops ++ post) (proj1 HB) ops [] post d d eq_refl (bounded_all _ _ HB)
                        (SR_new irr B (ops ++ post) (proj1 HB) cap d Hd))).
Qed.

Lemma sim_next irr B cap d ops o :
  bounded B (ops ++ [o]) -> d_new cap = Ok d ->
  out_rel irr B (ops ++ [o]) (snd (dn_step irr o (final (dn_step irr) ops d)))
                             (snd (d_step (label_op irr B (length ops) o) (final d_step (label irr B ops) d))).
Proof.
  intros HB Hd. pose proof (sim_final irr B cap d ops [o] HB Hd) as H.
  apply (sim_step irr B (ops ++ [o]) (proj1 HB) (length ops) o); [| |exact H].
  - rewrite nth_error_app2 by lia. now rewrite Nat.sub_diag.
  - intros k. apply (proj2 HB). apply in_or_app. right. now left.
Qed.

(* the simulation theorem, reference machines *)
Lemma sim_spec_history irr B cap ops :
  bounded B ops -> run_specn irr cap ops = erase_run B ops (run_spec cap (label irr B ops)).
Proof.
  intros HB. apply (ev_rel_erase irr B ops). unfold run_specn, run_spec, label.
  apply (sim_spec_run irr B ops (proj1 HB) cap ops [] [] [] []);
    [now rewrite app_nil_r|exact (bounded_all _ _ HB)|split; constructor].
Qed.

(* refinement of the generalised reference machine *)
Lemma dn_refines_specn irr cap d ops : d_new cap = Ok d -> run_dn irr d ops = run_specn irr cap ops.
Proof.
  intros Hd. pose proof (bound_of_bounded ops) as HB.
  rewrite (sim_history irr _ cap d ops HB Hd), (sim_spec_history irr _ cap ops HB).
  now rewrite (dll_refines_spec cap d _ Hd).
Qed.

(* the labelled run meets the statement of C07 and the irreflexive run is its erasure *)
Lemma n_trace_meets irr B cap d ops :
  bounded B ops -> d_new cap = Ok d ->
  run_dn irr d ops = erase_run B ops (run_dll d (label irr B ops)) /\
  trace_ok cap 0 l_empty (trace_of (label irr B ops) (run_dll d (label irr B ops))).
Proof. intros HB Hd. split; [now apply (sim_history irr B cap)|now apply dll_trace_ok]. Qed.

(* --- Layer-1 facts transported to the pointer level --- *)
Lemma dll_next cap d c lops o :
  d_new cap = Ok d -> new_lru cap = Ok c ->
  snd (d_step o (final d_step lops d)) = snd (step o (final step lops c)).
Proof.
  intros Hd Hc. pose proof (dll_rep_final cap d c lops Hd Hc) as HR.
  pose proof (final_inv cap c lops Hc) as [HI _]. apply (step_rep o _ _ HI HR).
Qed.

Lemma ledger_lab_l1 irr B cap d c ops :
  d_new cap = Ok d -> new_lru cap = Ok c -> ledger_lab irr B d ops = ledger_after c (label irr B ops).
Proof. intros Hd Hc. unfold ledger_lab, ledger_after. now rewrite (dll_refines_lru cap d c _ Hd Hc). Qed.

Lemma ledger_n_lab irr B cap d ops k :
  bounded B ops -> d_new cap = Ok d -> irr k = false -> Z.abs k < B ->
  ledger_n irr d ops k = ledger_lab irr B d ops k.
Proof.
  intros HB Hd Hi Hk. unfold ledger_n, ledger_lab, label.
  apply (ledger_agree irr B ops (proj1 HB) k).
  - unfold reg. rewrite Hi. cbn. now apply Z.ltb_lt.
  - exact (proj2 HB).
  - refine (proj1 (sim_run irr B ops (proj1 HB) ops [] [] d d _ (bounded_all _ _ HB) (SR_new irr B ops (proj1 HB) cap d Hd))).
    now rewrite app_nil_r.
  - reflexivity.
Qed.

(* --- clauses --- *)

Lemma n_count_bounds irr cap d ops : d_new cap = Ok d -> 0 <= d_count (final (dn_step irr) ops d) <= cap.
Proof.
  intros Hd. pose proof (bound_of_bounded ops) as HB. destruct (d_new_lru _ _ Hd) as [c Hc].
  assert (HB' : bounded (bound_of ops) (ops ++ [])) by (now rewrite app_nil_r).
  pose proof (sim_final irr _ cap d ops [] HB' Hd) as H.
  unfold d_count. rewrite (sr_len _ _ _ _ _ _ H).
  pose proof (dll_rep_final cap d c (label irr (bound_of ops) ops) Hd Hc) as HR.
  rewrite (rep_len _ _ HR). apply (count_bounds cap c _ Hc).
Qed.

Lemma n_irr_never_found irr k d :
  irr k = true -> dn_step irr (Get k) d = (d, none2) /\ dn_step irr (Remove k) d = (d, none2).
Proof. intros H. cbn. unfold dn_get, dn_remove, mn_get. now rewrite H. Qed.

Lemma n_lookup irr cap d ops k :
  d_new cap = Ok d ->
  snd (dn_step irr (Get k) (final (dn_step irr) ops d)) =
  match (if irr k then None else ledger_n irr d ops k) with Some (_, v) => VB v true | None => none2 end.
Proof.
  intros Hd. destruct (irr k) eqn:Hi; [now rewrite (proj1 (n_irr_never_found irr k _ Hi))|].
  pose proof (bound_of_bounded (ops ++ [Get k])) as HB. set (B := bound_of (ops ++ [Get k])) in *.
  destruct (d_new_lru _ _ Hd) as [c Hc].
  pose proof (sim_next irr B cap d ops (Get k) HB Hd) as Ho. apply out_rel_erase in Ho.
  cbn [label_op] in Ho. rewrite Hi in Ho. rewrite Ho.
  rewrite (dll_next cap d c _ (Get k) Hd Hc), (lookup_iff_present cap c _ k Hc).
  assert (Hk : Z.abs k < B) by (apply (proj2 HB (Get k)); [apply in_or_app; right; now left|reflexivity]).
  rewrite (ledger_n_lab irr B cap d ops k (bounded_app_l _ _ _ HB) Hd Hi Hk).
  rewrite (ledger_lab_l1 irr B cap d c ops Hd Hc).
  now destruct (ledger_after c (label irr B ops) k) as [[t v]|].
Qed.

Lemma label_fresh_absent irr B cap d c ops post :
  bounded B (ops ++ post) -> d_new cap = Ok d -> new_lru cap = Ok c ->
  ledger_after c (label irr B ops) (B + 1 + Z.of_nat (length ops)) = None.
Proof.
  intros HB Hd Hc. pose proof (sim_final irr B cap d ops post HB Hd) as H.
  pose proof (lookup_iff_present cap c (label irr B ops) (B + 1 + Z.of_nat (length ops)) Hc) as HL.
  rewrite <- (dll_next cap d c _ _ Hd Hc) in HL. cbn [d_step] in HL. unfold d_get in HL.
  rewrite (m_get_label irr B (proj1 HB) (length ops) _ (sr_keys _ _ _ _ _ _ H)) in HL. cbn [snd] in HL.
  destruct (ledger_after c (label irr B ops) _) as [[t v]|]; [discriminate|reflexivity].
Qed.

Lemma n_add_irreflexive irr B cap d ops k v :
  bounded B (ops ++ [Add k v]) -> irr k = true -> d_new cap = Ok d ->
  let L := ledger_lab irr B d ops in
  let r := snd (dn_step irr (Add k v) (final (dn_step irr) ops d)) in
  L (B + 1 + Z.of_nat (length ops)) = None /\
  (card L cap -> exists ek ev, oldest L ek ev /\ r = KVB (erase_key B (ops ++ [Add k v]) ek) ev true) /\
  (forall n, card L n -> n < cap -> r = none3).
Proof.
  intros HB Hi Hd L r. destruct (d_new_lru _ _ Hd) as [c Hc].
  pose proof (sim_next irr B cap d ops (Add k v) HB Hd) as Ho. apply out_rel_erase in Ho.
  cbn [label_op] in Ho. rewrite Hi in Ho. fold r in Ho.
  rewrite (dll_next cap d c _ _ Hd Hc) in Ho.
  unfold L. rewrite (ledger_lab_l1 irr B cap d c ops Hd Hc).
  pose proof (label_fresh_absent irr B cap d c ops _ HB Hd Hc) as HN.
  destruct (add_evicts_least_recent cap c (label irr B ops) (B + 1 + Z.of_nat (length ops)) v Hc) as (A1 & _ & A3).
  split; [exact HN|]. split.
  - intros HC. destruct (A1 HN HC) as (ek & ev & Hold & E). exists ek, ev. split; [exact Hold|].
    rewrite Ho, E. reflexivity.
  - intros n HC Hlt. rewrite Ho, (A3 n HC Hlt). cbn. unfold erase_key.
    destruct (0 <=? B) eqn:E; [reflexivity|]. apply Z.leb_gt in E. destruct HB as [HB _]. lia.
Qed.

Lemma erase_key_snoc_keyless B ops o k : op_key o = None -> erase_key B (ops ++ [o]) k = erase_key B ops k.
Proof.
  intros Ho. unfold erase_key. destruct (k <=? B); [reflexivity|].
  set (n := Z.to_nat (k - B - 1)). destruct (Nat.lt_ge_cases n (length ops)) as [Hl|Hl].
  - now rewrite nth_error_app1.
  - rewrite nth_error_app2 by exact Hl. rewrite (proj2 (nth_error_None ops n) Hl).
    destruct (n - length ops)%nat as [|m]; cbn; [now rewrite Ho|]. now destruct m.
Qed.

Lemma bounded_snoc_keyless B ops o : op_key o = None -> bounded B ops -> bounded B (ops ++ [o]).
Proof.
  intros Ho [H1 H2]. split; [exact H1|]. intros o' k Hin E. apply in_app_or in Hin as [Hin|[<-|[]]].
  - now apply (H2 o').
  - congruence.
Qed.

Lemma n_designate irr B cap d ops o :
  bounded B ops -> d_new cap = Ok d ->
  let L := ledger_lab irr B d ops in
  let r := snd (dn_step irr o (final (dn_step irr) ops d)) in
  (o = GetOldest \/ o = RemoveOldest ->
     (vacant L /\ r = none3) \/ (exists k v, oldest L k v /\ r = KVB (erase_key B ops k) v true)) /\
  (o = GetYoungest \/ o = RemoveYoungest ->
     (vacant L /\ r = none3) \/ (exists k v, youngest L k v /\ r = KVB (erase_key B ops k) v true)).
Proof.
  intros HB Hd L r. destruct (d_new_lru _ _ Hd) as [c Hc].
  assert (Hgen : op_key o = None ->
                 r = erase_out B ops (snd (step o (final step (label irr B ops) c))) /\ label_op irr B (length ops) o = o).
  { intros Hk. pose proof (sim_next irr B cap d ops o (bounded_snoc_keyless _ _ _ Hk HB) Hd) as Ho.
    apply out_rel_erase in Ho. fold r in Ho.
    assert (El : label_op irr B (length ops) o = o) by (destruct o; try reflexivity; discriminate).
    rewrite El in Ho. rewrite (dll_next cap d c _ _ Hd Hc) in Ho. split; [|exact El].
    rewrite Ho. destruct (snd (step o _)); cbn; try reflexivity. now rewrite erase_key_snoc_keyless. }
  assert (E0 : erase_out B ops none3 = none3).
  { cbn. unfold erase_key. destruct (0 <=? B) eqn:E; [reflexivity|]. apply Z.leb_gt in E. destruct HB as [HB _]. lia. }
  unfold L. rewrite (ledger_lab_l1 irr B cap d c ops Hd Hc).
  destruct (every_call_conforms cap c (label irr B ops) o Hc) as (Hconf & _).
  split; intros [->| ->]; destruct (Hgen eq_refl) as [Er _]; cbn [conforms] in Hconf;
    (destruct Hconf as [[Hv E]|(k & v & Hd' & E)];
     [left; split; [exact Hv|rewrite Er, E; exact E0]|right; exists k, v; split; [exact Hd'|now rewrite Er, E]]).
Qed.

(* --- the labels really are fresh --- *)
Lemma nth_error_label_from irr B ops : forall s j,
  nth_error (label_from irr B s ops) j = option_map (label_op irr B (s + j)) (nth_error ops j).
Proof.
  induction ops as [|o ops IH]; intros s [|j]; cbn; try reflexivity.
  - now rewrite Nat.add_0_r.
  - rewrite IH. now rewrite Nat.add_succ_r.
Qed.

Lemma label_op_key irr B i o k' :
  0 < B -> (forall k, op_key o = Some k -> Z.abs k < B) ->
  op_key (label_op irr B i o) = Some k' -> Z.abs k' < B \/ k' = B + 1 + Z.of_nat i \/ (k' = B /\ forall v, label_op irr B i o <> Add k' v).
Proof.
  intros HB Hb. destruct o as [k v|k| | |k| | |]; cbn; try discriminate; destruct (irr k); cbn; intros E; injection E as <-;
    try (left; now apply Hb); try (right; left; reflexivity); right; right; split; try reflexivity; intros v'; discriminate.
Qed.

Lemma labels_fresh irr B ops i o :
  bounded B ops -> nth_error ops i = Some o ->
  nth_error (label irr B ops) i = Some (label_op irr B i o) /\
  (forall k v, o = Add k v -> irr k = true ->
     label_op irr B i o = Add (B + 1 + Z.of_nat i) v /\
     forall j o', j <> i -> nth_error (label irr B ops) j = Some o' -> op_key o' <> Some (B + 1 + Z.of_nat i)) /\
  (forall k, o = Get k \/ o = Remove k -> irr k = true ->
     op_key (label_op irr B i o) = Some B /\
     forall j v', nth_error (label irr B ops) j <> Some (Add B v')) /\
  ((forall k, op_key o = Some k -> irr k = false) -> label_op irr B i o = o).
Proof.
  intros [HB Hb] Hn. unfold label.
  assert (Hkey : forall j o', nth_error (label_from irr B 0 ops) j = Some o' ->
            forall k', op_key o' = Some k' -> Z.abs k' < B \/ k' = B + 1 + Z.of_nat j \/ (k' = B /\ forall v, o' <> Add k' v)).
  { intros j o' Hj k' Hk. rewrite nth_error_label_from in Hj. cbn [Nat.add] in Hj.
    destruct (nth_error ops j) as [oj|] eqn:Ej; [|discriminate]. cbn in Hj. injection Hj as <-.
    apply (label_op_key irr B j oj k' HB); [|exact Hk]. intros k. apply Hb. eapply nth_error_In; eauto. }
  split; [rewrite nth_error_label_from, Hn; reflexivity|]. split; [|split].
  - intros k v -> Hi. cbn. rewrite Hi. split; [reflexivity|]. intros j o' Hne Hj Hk.
    destruct (Hkey j o' Hj _ Hk) as [H|[H|[H _]]]; lia.
  - intros k Ho Hi. split; [destruct Ho as [-> | ->]; cbn; now rewrite Hi|].
    intros j v' Hj. destruct (Hkey j _ Hj B eq_refl) as [H|[H|[_ H]]]; [lia|lia|]. now apply (H v').
  - intros Hr. destruct o as [k v|k| | |k| | |]; cbn; try reflexivity; now rewrite (Hr k eq_refl).
Qed.

(* --- the leak: the map keeps one entry per Add of an irreflexive key --- *)
Lemma n_map_leaks :
  exists d, d_new 1 = Ok d /\
    let ops := [Add (-5) 101; Add (-5) 102; Add 7 103; Add (-5) 104; RemoveOldest] in
    let s := final (dn_step (irr_below (-1))) ops d in
    d_count s = 0 /\ length (d_items s) = 3%nat /\
    run_dn (irr_below (-1)) d ops = [(none3, 1); (KVB (-5) 101 true, 1); (KVB (-5) 102 true, 1); (KVB 7 103 true, 1); (KVB (-5) 104 true, 0)].
Proof. eexists. split; [reflexivity|]. vm_compute. repeat split. Qed.
