(* C07_Proofs.v — lemmas for C07.
     Part A  the reference machine (recency list) meets the ledger reading of
             the statement: every call [conforms], Count = number of present
             keys <= cap                                   (spec_trace_ok)
     Part B  Layer 1 (C07_Model.step, the Go code over identified nodes):
             the invariant [Inv] holds over all histories and Layer 1 refines
             the reference machine                         (lru_refines_spec)
     Part C  consequences for Layer 1 traces.
   The pointer level (C07_Dll.v) is tied to Layer 1 in C07_DllProofs.v. *)

From Gogu Require Import Base C07_Model.
From Coq Require Import Sorted.
Local Open Scope Z_scope.

(* ------------------------------------------------------------------ *)
(* generic list facts *)

Lemma last_opt_none {A} (l : list A) : last_opt l = None -> l = [].
Proof.
  induction l as [|x l IH]; [reflexivity|]. cbn. destruct l as [|y l']; [discriminate|].
  intros H. specialize (IH H). discriminate.
Qed.

Lemma last_opt_cons {A} (a : A) (l : list A) : l <> [] -> last_opt (a :: l) = last_opt l.
Proof. intros H. destruct l as [|y l']; [congruence|reflexivity]. Qed.

Lemma last_opt_app {A} (l : list A) (x : A) : last_opt (l ++ [x]) = Some x.
Proof.
  induction l as [|a l IH]; [reflexivity|].
  rewrite <- app_comm_cons, last_opt_cons; [exact IH|]. now destruct l.
Qed.

Lemma last_opt_some {A} (l : list A) (x : A) : last_opt l = Some x -> l = removelast l ++ [x].
Proof.
  induction l as [|a l IH]; [discriminate|].
  destruct l as [|b l'].
  - cbn. intros H. injection H as ->. reflexivity.
  - intros H. rewrite last_opt_cons in H by discriminate. specialize (IH H).
    change (removelast (a :: b :: l')) with (a :: removelast (b :: l')).
    rewrite <- app_comm_cons, <- IH. reflexivity.
Qed.

Lemma last_opt_map {A B} (f : A -> B) (l : list A) : last_opt (map f l) = option_map f (last_opt l).
Proof.
  induction l as [|a l IH]; [reflexivity|].
  destruct l as [|b l']; [reflexivity|].
  change (map f (a :: b :: l')) with (f a :: map f (b :: l')).
  rewrite !last_opt_cons by (cbn; discriminate). exact IH.
Qed.

Lemma removelast_map' {A B} (f : A -> B) (l : list A) : removelast (map f l) = map f (removelast l).
Proof.
  induction l as [|a l IH]; [reflexivity|].
  destruct l as [|b l']; [reflexivity|].
  change (map f (a :: b :: l')) with (f a :: f b :: map f l').
  change (removelast (f a :: f b :: map f l')) with (f a :: removelast (map f (b :: l'))).
  rewrite IH. reflexivity.
Qed.

Lemma removelast_length {A} (l : list A) : l <> [] -> S (length (removelast l)) = length l.
Proof.
  intros H. destruct (exists_last H) as (l0 & x & ->).
  rewrite removelast_last, app_length. cbn. lia.
Qed.

Lemma SS_app_last {A} (R : A -> A -> Prop) (l : list A) (x : A) :
  StronglySorted R (l ++ [x]) -> forall a, In a l -> R a x.
Proof.
  induction l as [|b l IH]; intros H a Ha; [contradiction|].
  rewrite <- app_comm_cons in H. apply StronglySorted_inv in H as [H1 H2].
  destruct Ha as [->|Ha].
  - rewrite Forall_forall in H2. apply H2. apply in_or_app. right. now left.
  - now apply IH.
Qed.

(* ------------------------------------------------------------------ *)
(* Part A.  recency lists *)

Lemma rl_find_none k l : rl_find k l = None <-> ~ In k (map fst l).
Proof.
  induction l as [|[k' v] l IH]; cbn; [tauto|].
  destruct (Z.eqb_spec k' k) as [->|Hne].
  - split; [discriminate|]. intros H. exfalso. apply H. now left.
  - rewrite IH. split; intros H; [intros [?|?]; [congruence|tauto]|tauto].
Qed.

Lemma rl_find_some k v l : rl_find k l = Some v -> In (k, v) l.
Proof.
  induction l as [|[k' v'] l IH]; cbn; [discriminate|].
  destruct (Z.eqb_spec k' k) as [->|Hne]; intros H.
  - injection H as ->. now left.
  - right. auto.
Qed.

Lemma rl_find_in k v l : NoDup (map fst l) -> In (k, v) l -> rl_find k l = Some v.
Proof.
  induction l as [|[k' v'] l IH]; cbn; intros Hnd Hin; [contradiction|].
  apply NoDup_cons_iff in Hnd as [Hn Hnd].
  destruct Hin as [Heq|Hin].
  - injection Heq as -> ->. now rewrite Z.eqb_refl.
  - destruct (Z.eqb_spec k' k) as [->|Hne]; [|auto].
    exfalso. apply Hn. change k with (fst (k, v)). now apply in_map.
Qed.

Lemma rl_del_notin k l : rl_find k l = None -> rl_del k l = l.
Proof.
  induction l as [|[k' v'] l IH]; cbn; [reflexivity|].
  destruct (Z.eqb_spec k' k) as [->|Hne]; [discriminate|]. intros H. now rewrite IH.
Qed.

Lemma rl_del_incl k l : incl (rl_del k l) l.
Proof.
  induction l as [|[k' v'] l IH]; cbn; [apply incl_refl|].
  destruct (k' =? k); [apply incl_tl, incl_refl|].
  intros x [->|Hx]; [now left|right; now apply IH].
Qed.

Lemma rl_del_nodup k l : NoDup (map fst l) -> NoDup (map fst (rl_del k l)).
Proof.
  induction l as [|[k' v'] l IH]; cbn; intros Hnd; [constructor|].
  apply NoDup_cons_iff in Hnd as [Hn Hnd].
  destruct (k' =? k); [exact Hnd|]. cbn. constructor; [|auto].
  intros Hin. apply Hn. apply in_map_iff in Hin as (x & Hx1 & Hx2).
  apply in_map_iff. exists x. split; [exact Hx1|]. now apply (rl_del_incl k l).
Qed.

Lemma rl_find_del k k' l : NoDup (map fst l) ->
  rl_find k' (rl_del k l) = if k' =? k then None else rl_find k' l.
Proof.
  induction l as [|[k0 v0] l IH]; cbn; intros Hnd; [now destruct (k' =? k)|].
  apply NoDup_cons_iff in Hnd as [Hn Hnd].
  destruct (Z.eqb_spec k0 k) as [->|Hne].
  - destruct (Z.eqb_spec k' k) as [->|Hne'].
    + now apply rl_find_none.
    + destruct (Z.eqb_spec k k'); [congruence|reflexivity].
  - cbn. destruct (Z.eqb_spec k0 k') as [->|Hne0].
    + destruct (Z.eqb_spec k' k); [congruence|reflexivity].
    + auto.
Qed.

Lemma rl_del_length k v l : rl_find k l = Some v -> S (length (rl_del k l)) = length l.
Proof.
  induction l as [|[k' v'] l IH]; cbn; [discriminate|].
  destruct (k' =? k); [reflexivity|]. intros H. cbn. now rewrite IH.
Qed.

Lemma rl_del_last_app k v l0 : NoDup (map fst (l0 ++ [(k, v)])) -> rl_del k (l0 ++ [(k, v)]) = l0.
Proof.
  induction l0 as [|[k' v'] l IH]; cbn; intros Hnd.
  - now rewrite Z.eqb_refl.
  - apply NoDup_cons_iff in Hnd as [Hn Hnd].
    destruct (Z.eqb_spec k' k) as [->|Hne].
    + exfalso. apply Hn. rewrite map_app. apply in_or_app. right. now left.
    + now rewrite IH.
Qed.

Lemma rl_del_last k v l : NoDup (map fst l) -> last_opt l = Some (k, v) -> rl_del k l = removelast l.
Proof.
  intros Hnd H. apply last_opt_some in H. remember (removelast l) as l0 eqn:E0.
  subst l. clear E0. now apply rl_del_last_app.
Qed.

Lemma SS_rl_del (R : Z * Z -> Z * Z -> Prop) k l : StronglySorted R l -> StronglySorted R (rl_del k l).
Proof.
  induction l as [|[k' v'] l IH]; cbn; intros H; [constructor|].
  apply StronglySorted_inv in H as [H1 H2].
  destruct (k' =? k); [exact H1|]. constructor; [auto|].
  rewrite Forall_forall in *. intros x Hx. apply H2. now apply (rl_del_incl k l).
Qed.

(* --- the ledger invariant: the recency list IS the set of present keys with
   their latest values, ordered by strictly decreasing time of last touch --- *)

Definition stamp (L : ledger) (k : Z) : nat := match L k with Some (t, _) => t | None => O end.
Definition newer (L : ledger) (a b : Z * Z) : Prop := (stamp L (fst b) < stamp L (fst a))%nat.

Record LI (t : nat) (L : ledger) (l : rl) : Prop := mkLI {
  li_nodup : NoDup (map fst l);
  li_find : forall k, rl_find k l = option_map snd (L k);
  li_time : forall k t' v, L k = Some (t', v) -> (t' < t)%nat;
  li_sorted : StronglySorted (newer L) l
}.

Lemma LI_present t L l k v : LI t L l -> In (k, v) l -> exists t', L k = Some (t', v) /\ (t' < t)%nat.
Proof.
  intros H Hin. pose proof (rl_find_in k v l (li_nodup _ _ _ H) Hin) as F.
  rewrite (li_find _ _ _ H) in F. destruct (L k) as [[t' v']|] eqn:E; [|discriminate].
  cbn in F. injection F as ->. exists t'. split; [reflexivity|]. eapply li_time; eauto.
Qed.

Lemma LI_find_some t L l k v : LI t L l -> rl_find k l = Some v -> exists t', L k = Some (t', v).
Proof.
  intros H F. apply rl_find_some in F. destruct (LI_present _ _ _ _ _ H F) as (t' & E & _). eauto.
Qed.

Lemma LI_find_none t L l k : LI t L l -> rl_find k l = None -> L k = None.
Proof.
  intros H F. rewrite (li_find _ _ _ H) in F. now destruct (L k).
Qed.

Lemma LI_in_of_ledger t L l k t' v : LI t L l -> L k = Some (t', v) -> In (k, v) l.
Proof.
  intros H E. apply rl_find_some. rewrite (li_find _ _ _ H), E. reflexivity.
Qed.

Lemma LI_mono t t' L l : LI t L l -> (t <= t')%nat -> LI t' L l.
Proof.
  intros [H1 H2 H3 H4] Hle. constructor; auto. intros k t0 v E. specialize (H3 _ _ _ E). lia.
Qed.

Lemma LI_empty t : LI t l_empty [].
Proof. constructor; cbn; try constructor; try reflexivity. intros k t' v E. discriminate. Qed.

Lemma SS_newer_ext L L' l :
  StronglySorted (newer L) l -> (forall a, In a l -> stamp L' (fst a) = stamp L (fst a)) ->
  StronglySorted (newer L') l.
Proof.
  induction 1 as [|a l Hs IH Hf]; intros Hext; constructor.
  - apply IH. intros b Hb. apply Hext. now right.
  - rewrite Forall_forall in *. intros b Hb. unfold newer.
    rewrite (Hext a (or_introl eq_refl)), (Hext b (or_intror Hb)). now apply Hf.
Qed.

Lemma stamp_set_other L k x k' : k' <> k -> stamp (l_set L k x) k' = stamp L k'.
Proof. intros H. unfold stamp, l_set. destruct (Z.eqb_spec k' k); [congruence|reflexivity]. Qed.

Lemma in_del_ne k l a : NoDup (map fst l) -> In a (rl_del k l) -> fst a <> k.
Proof.
  intros Hnd Hin Heq. pose proof (rl_find_del k k l Hnd) as F. rewrite Z.eqb_refl in F.
  apply rl_find_none in F. apply F. subst k. now apply in_map.
Qed.

(* touching k at time t (Add, Get hit, GetOldest hit) *)
Lemma LI_touch t L l k v : LI t L l -> LI (S t) (l_set L k (Some (t, v))) ((k, v) :: rl_del k l).
Proof.
  intros H. pose proof (li_nodup _ _ _ H) as Hnd. constructor.
  - cbn. constructor; [|now apply rl_del_nodup].
    apply rl_find_none. rewrite rl_find_del by exact Hnd. now rewrite Z.eqb_refl.
  - intros k'. cbn. unfold l_set. destruct (Z.eqb_spec k k') as [->|Hne].
    + now rewrite Z.eqb_refl.
    + destruct (Z.eqb_spec k' k) as [->|_]; [congruence|].
      rewrite rl_find_del by exact Hnd. destruct (Z.eqb_spec k' k); [congruence|].
      apply (li_find _ _ _ H).
  - intros k' t' v'. unfold l_set. destruct (Z.eqb_spec k' k) as [->|Hne]; intros E.
    + injection E as <- _. lia.
    + pose proof (li_time _ _ _ H _ _ _ E). lia.
  - assert (Hst : forall a, In a (rl_del k l) -> stamp (l_set L k (Some (t, v))) (fst a) = stamp L (fst a)).
    { intros a Ha. apply stamp_set_other. now apply (in_del_ne k l). }
    constructor.
    + apply SS_newer_ext with (L := L); [|exact Hst]. apply SS_rl_del, (li_sorted _ _ _ H).
    + rewrite Forall_forall. intros [k' v'] Ha. unfold newer. rewrite (Hst _ Ha). cbn.
      unfold stamp at 2, l_set. rewrite Z.eqb_refl.
      apply rl_del_incl in Ha. destruct (LI_present _ _ _ _ _ H Ha) as (t' & E & Hlt).
      unfold stamp. now rewrite E.
Qed.

(* dropping k (Remove, RemoveOldest, RemoveYoungest, eviction) *)
Lemma LI_del t L l k : LI t L l -> LI t (l_set L k None) (rl_del k l).
Proof.
  intros H. pose proof (li_nodup _ _ _ H) as Hnd. constructor.
  - now apply rl_del_nodup.
  - intros k'. rewrite rl_find_del by exact Hnd. unfold l_set.
    destruct (Z.eqb_spec k' k); [reflexivity|]. apply (li_find _ _ _ H).
  - intros k' t' v'. unfold l_set. destruct (Z.eqb_spec k' k); [discriminate|]. apply (li_time _ _ _ H).
  - apply SS_newer_ext with (L := L); [apply SS_rl_del, (li_sorted _ _ _ H)|].
    intros a Ha. apply stamp_set_other. now apply (in_del_ne k l).
Qed.

Lemma LI_card t L l : LI t L l -> card L (Z.of_nat (length l)).
Proof.
  intros H. exists (map fst l). split; [apply (li_nodup _ _ _ H)|]. split; [|now rewrite map_length].
  intros k. split; intros Hk.
  - intros E. assert (F : rl_find k l = None) by (rewrite (li_find _ _ _ H), E; reflexivity).
    apply rl_find_none in F. contradiction.
  - destruct (rl_find k l) as [v|] eqn:F.
    + apply rl_find_some in F. apply (in_map fst) in F. exact F.
    + exfalso. apply Hk. eapply LI_find_none; eauto.
Qed.

Lemma LI_vacant t L : LI t L [] -> vacant L.
Proof. intros H k. eapply LI_find_none; eauto. Qed.

Lemma LI_oldest t L l k v : LI t L l -> last_opt l = Some (k, v) -> oldest L k v.
Proof.
  intros H Hl. apply last_opt_some in Hl.
  assert (Hin : In (k, v) l) by (rewrite Hl; apply in_or_app; right; now left).
  destruct (LI_present _ _ _ _ _ H Hin) as (tk & E & _). exists tk. split; [exact E|].
  intros k' t' v' E'. pose proof (LI_in_of_ledger _ _ _ _ _ _ H E') as Hin'.
  rewrite Hl in Hin'. apply in_app_or in Hin'. destruct Hin' as [Hin'|Hin'].
  2: { destruct Hin' as [Heq|Hf]; [|destruct Hf].
       injection Heq as <- <-. assert (tk = t') by congruence. lia. }
  - pose proof (li_sorted _ _ _ H) as Hs. rewrite Hl in Hs.
    pose proof (SS_app_last _ _ _ Hs _ Hin') as Hn. unfold newer, stamp in Hn. cbn in Hn.
    rewrite E, E' in Hn. lia.
Qed.

Lemma LI_youngest t L l k v : LI t L ((k, v) :: l) -> youngest L k v.
Proof.
  intros H. destruct (LI_present _ _ _ k v H (or_introl eq_refl)) as (tk & E & _).
  exists tk. split; [exact E|]. intros k' t' v' E'.
  pose proof (LI_in_of_ledger _ _ _ _ _ _ H E') as [Heq|Hin'].
  - injection Heq as <- <-. assert (tk = t') by congruence. lia.
  - pose proof (li_sorted _ _ _ H) as Hs. apply StronglySorted_inv in Hs as [_ Hf].
    rewrite Forall_forall in Hf. specialize (Hf _ Hin'). unfold newer, stamp in Hf. cbn in Hf.
    rewrite E, E' in Hf. lia.
Qed.

Lemma l_touch_present t L k t0 v : L k = Some (t0, v) -> l_touch t L k = l_set L k (Some (t, v)).
Proof. intros E. unfold l_touch. now rewrite E. Qed.

(* one step of the reference machine: the call conforms to the ledger of the
   past, and the recency list stays the ledger's *)
Lemma spec_step_ok cap t L l o :
  1 <= cap -> LI t L l -> Z.of_nat (length l) <= cap ->
  conforms cap L o (snd (spec_step cap o l)) /\
  LI (S t) (ledger_step t L o (snd (spec_step cap o l))) (fst (spec_step cap o l)) /\
  Z.of_nat (length (fst (spec_step cap o l))) <= cap.
Proof.
  intros Hcap H Hlen. pose proof (li_nodup _ _ _ H) as Hnd.
  destruct o as [k v|k| | |k| | |]; cbn [spec_step].
  - (* Add *)
    destruct (rl_find k l) as [v0|] eqn:F.
    + destruct (LI_find_some _ _ _ _ _ H F) as (t0 & E). cbn.
      split; [left; split; [left; congruence|reflexivity]|].
      split; [now apply LI_touch|].
      pose proof (rl_del_length _ _ _ F). lia.
    + pose proof (LI_find_none _ _ _ _ H F) as E.
      pose proof (LI_touch t L l k v H) as HT. rewrite (rl_del_notin _ _ F) in HT.
      destruct (Z.of_nat (length ((k, v) :: l)) >? cap) eqn:G.
      * apply Z.gtb_lt in G. cbn [length] in G.
        destruct l as [|a l0]; [cbn in G; lia|].
        rewrite last_opt_cons by discriminate.
        destruct (last_opt (a :: l0)) as [[ek ev]|] eqn:Hl; [|apply last_opt_none in Hl; discriminate].
        cbn [fst snd ledger_step].
        split.
        { right. split; [exact E|]. split.
          - replace cap with (Z.of_nat (length (a :: l0))) by lia. eapply LI_card; eauto.
          - exists ek, ev. split; [eapply LI_oldest; eauto|reflexivity]. }
        assert (Hl' : last_opt ((k, v) :: a :: l0) = Some (ek, ev)) by (rewrite last_opt_cons by discriminate; exact Hl).
        rewrite <- (rl_del_last ek ev _ (li_nodup _ _ _ HT) Hl').
        split; [now apply LI_del|].
        rewrite (rl_del_last ek ev _ (li_nodup _ _ _ HT) Hl').
        pose proof (removelast_length ((k, v) :: a :: l0) ltac:(discriminate)) as R. cbn [length] in *. lia.
      * rewrite Z.gtb_ltb in G. apply Z.ltb_ge in G. cbn [fst snd ledger_step none3].
        split; [|split; [exact HT|exact G]].
        left. split; [|reflexivity]. right. exists (Z.of_nat (length l)).
        split; [eapply LI_card; eauto|]. cbn [length] in G. lia.
  - (* Get *)
    destruct (rl_find k l) as [v|] eqn:F; cbn [fst snd].
    + destruct (LI_find_some _ _ _ _ _ H F) as (t0 & E). cbn [ledger_step conforms].
      rewrite E, (l_touch_present _ _ _ _ _ E).
      split; [reflexivity|]. split; [now apply LI_touch|].
      pose proof (rl_del_length _ _ _ F). cbn [length]. lia.
    + pose proof (LI_find_none _ _ _ _ H F) as E. cbn. rewrite E.
      split; [reflexivity|]. split; [eapply LI_mono; eauto|exact Hlen].
  - (* GetOldest *)
    destruct (last_opt l) as [[k v]|] eqn:Hl; cbn [fst snd].
    + pose proof (LI_oldest _ _ _ _ _ H Hl) as Ho. destruct Ho as (t0 & E & Hmin).
      cbn [ledger_step conforms]. rewrite (l_touch_present _ _ _ _ _ E).
      split; [right; exists k, v; split; [exists t0; auto|reflexivity]|].
      rewrite <- (rl_del_last k v l Hnd Hl).
      split; [now apply LI_touch|].
      assert (F : rl_find k l = Some v) by (rewrite (li_find _ _ _ H), E; reflexivity).
      pose proof (rl_del_length _ _ _ F). cbn [length]. lia.
    + apply last_opt_none in Hl. subst l. cbn.
      split; [left; split; [eapply LI_vacant; eauto|reflexivity]|].
      split; [eapply LI_mono; eauto|exact Hlen].
  - (* GetYoungest *)
    destruct l as [|[k v] l0]; cbn.
    + split; [left; split; [eapply LI_vacant; eauto|reflexivity]|].
      split; [eapply LI_mono; eauto|exact Hlen].
    + split; [right; exists k, v; split; [eapply LI_youngest; eauto|reflexivity]|].
      split; [eapply LI_mono; eauto|exact Hlen].
  - (* Remove *)
    destruct (rl_find k l) as [v|] eqn:F; cbn [fst snd].
    + destruct (LI_find_some _ _ _ _ _ H F) as (t0 & E). cbn [ledger_step conforms]. rewrite E.
      split; [reflexivity|]. split; [apply (LI_mono t); [now apply LI_del|lia]|].
      pose proof (rl_del_length _ _ _ F). lia.
    + pose proof (LI_find_none _ _ _ _ H F) as E. cbn. rewrite E.
      split; [reflexivity|]. split; [eapply LI_mono; eauto|exact Hlen].
  - (* RemoveOldest *)
    destruct (last_opt l) as [[k v]|] eqn:Hl; cbn [fst snd].
    + cbn [ledger_step conforms].
      split; [right; exists k, v; split; [eapply LI_oldest; eauto|reflexivity]|].
      rewrite <- (rl_del_last k v l Hnd Hl).
      split; [apply (LI_mono t); [now apply LI_del|lia]|].
      assert (F : rl_find k l = Some v).
      { apply rl_find_in; [exact Hnd|]. rewrite (last_opt_some _ _ Hl). apply in_or_app. right. now left. }
      pose proof (rl_del_length _ _ _ F). lia.
    + apply last_opt_none in Hl. subst l. cbn.
      split; [left; split; [eapply LI_vacant; eauto|reflexivity]|].
      split; [eapply LI_mono; eauto|exact Hlen].
  - (* RemoveYoungest *)
    destruct l as [|[k v] l0]; cbn [fst snd].
    + cbn. split; [left; split; [eapply LI_vacant; eauto|reflexivity]|].
      split; [eapply LI_mono; eauto|exact Hlen].
    + cbn [ledger_step conforms].
      split; [right; exists k, v; split; [eapply LI_youngest; eauto|reflexivity]|].
      pose proof (LI_del t L _ k H) as HD. cbn [rl_del] in HD. rewrite Z.eqb_refl in HD.
      split; [eapply LI_mono; eauto|]. cbn [length] in Hlen. lia.
  - (* Flush *)
    cbn. split; [reflexivity|]. split; [apply LI_empty|lia].
Qed.

Lemma spec_trace_ok_gen cap : 1 <= cap -> forall ops t L l,
  LI t L l -> Z.of_nat (length l) <= cap ->
  trace_ok cap t L (trace_of ops (run (spec_step cap) spec_count ops l)).
Proof.
  intros Hcap. induction ops as [|o ops IH]; intros t L l H Hlen; [constructor|].
  cbn [run]. destruct (spec_step cap o l) as [l' r] eqn:E.
  pose proof (spec_step_ok cap t L l o Hcap H Hlen) as (Hc & HL & Hlen'). rewrite E in *. cbn [fst snd] in *.
  cbn [trace_of combine]. constructor.
  - exact Hc.
  - eapply LI_card; eauto.
  - exact Hlen'.
  - apply IH; assumption.
Qed.

Lemma spec_trace_ok cap ops : 1 <= cap -> trace_ok cap 0 l_empty (trace_of ops (run_spec cap ops)).
Proof. intros Hcap. apply spec_trace_ok_gen; [exact Hcap|apply LI_empty|cbn; lia]. Qed.

Lemma new_rejects_nonpositive : forall sz, sz <= 0 -> new_lru sz = Err 1.
Proof. intros sz H. unfold new_lru. destruct (sz <=? 0) eqn:E; [reflexivity|]. apply Z.leb_gt in E. lia. Qed.

(* ------------------------------------------------------------------ *)
(* Part B.  Layer 1 *)

Definition kv (n : nd) : Z * Z := (n_key n, n_val n).
Definition abs (c : lru) : rl := map kv (nodes c).

(* everything but the capacity bound (Add exceeds it for a moment) *)
Record Inv0 (c : lru) : Prop := mkInv0 {
  inv_ids : NoDup (map n_id (nodes c));
  inv_keys : NoDup (map n_key (nodes c));
  (* the map and the list hold the same entries: items[k] is the node with key k *)
  inv_items : forall k i, m_get k (items c) = Some i <-> exists n, In n (nodes c) /\ n_id n = i /\ n_key n = k;
  inv_len : llen c = Z.of_nat (length (nodes c));
  inv_fresh : forall n, In n (nodes c) -> (n_id n < fresh c)%nat;
  inv_size : 1 <= size c
}.
Definition Inv (c : lru) : Prop := Inv0 c /\ llen c <= size c.

Lemma map_fst_kv ns : map fst (map kv ns) = map n_key ns.
Proof. rewrite map_map. reflexivity. Qed.

Lemma NoDup_map_inj {A B} (f : A -> B) (l : list A) a b :
  NoDup (map f l) -> In a l -> In b l -> f a = f b -> a = b.
Proof.
  induction l as [|x l IH]; cbn; intros Hnd Ha Hb Hf; [contradiction|].
  apply NoDup_cons_iff in Hnd as [Hn Hnd].
  destruct Ha as [->|Ha], Hb as [->|Hb]; auto.
  - exfalso. apply Hn. rewrite Hf. now apply in_map.
  - exfalso. apply Hn. rewrite <- Hf. now apply in_map.
Qed.

Lemma NoDup_map_filter {A B} (f : A -> B) (p : A -> bool) (l : list A) :
  NoDup (map f l) -> NoDup (map f (filter p l)).
Proof.
  induction l as [|x l IH]; cbn; intros Hnd; [constructor|].
  apply NoDup_cons_iff in Hnd as [Hn Hnd].
  destruct (p x); [|auto]. cbn. constructor; [|auto].
  intros Hin. apply Hn. apply in_map_iff in Hin as (y & Hy1 & Hy2).
  apply filter_In in Hy2 as [Hy2 _]. rewrite <- Hy1. now apply in_map.
Qed.

Lemma m_get_del k k' m : m_get k (m_del k' m) = if k =? k' then None else m_get k m.
Proof.
  unfold m_del. induction m as [|[k0 i0] m IH]; cbn [filter fst].
  - cbn. now destruct (k =? k').
  - destruct (Z.eqb_spec k0 k') as [->|Hne]; cbn [negb].
    + rewrite IH. cbn [m_get]. destruct (Z.eqb_spec k k') as [->|Hne']; [reflexivity|].
      destruct (Z.eqb_spec k' k); [congruence|reflexivity].
    + cbn [m_get]. destruct (Z.eqb_spec k0 k) as [->|Hne0]; [|exact IH].
      destruct (Z.eqb_spec k k'); [congruence|reflexivity].
Qed.

Lemma m_get_set k k' i m : m_get k (m_set k' i m) = if k =? k' then Some i else m_get k m.
Proof.
  unfold m_set. cbn. destruct (Z.eqb_spec k' k) as [->|Hne].
  - now rewrite Z.eqb_refl.
  - rewrite m_get_del. destruct (Z.eqb_spec k k'); [congruence|reflexivity].
Qed.

Lemma del_nd_In i ns m : In m (del_nd i ns) <-> In m ns /\ n_id m <> i.
Proof.
  unfold del_nd. rewrite filter_In. split; intros [H1 H2]; split; auto.
  - intros E. apply Nat.eqb_eq in E. rewrite E in H2. discriminate.
  - apply Nat.eqb_neq in H2. now rewrite H2.
Qed.

Lemma find_nd_in n ns : NoDup (map n_id ns) -> In n ns -> find_nd (n_id n) ns = Some n.
Proof.
  unfold find_nd. induction ns as [|x ns IH]; cbn; intros Hnd Hin; [contradiction|].
  apply NoDup_cons_iff in Hnd as [Hn Hnd].
  destruct Hin as [->|Hin]; [now rewrite Nat.eqb_refl|].
  destruct (Nat.eqb_spec (n_id x) (n_id n)) as [E|_]; [|auto].
  exfalso. apply Hn. rewrite E. now apply in_map.
Qed.

Lemma abs_find n ns : NoDup (map n_key ns) -> In n ns -> rl_find (n_key n) (map kv ns) = Some (n_val n).
Proof.
  intros Hnd Hin. apply rl_find_in; [now rewrite map_fst_kv|]. now apply (in_map kv) in Hin.
Qed.

Lemma abs_find_none k ns : (forall n, In n ns -> n_key n <> k) -> rl_find k (map kv ns) = None.
Proof.
  intros H. apply rl_find_none. rewrite map_fst_kv. intros Hin.
  apply in_map_iff in Hin as (n & E & Hin). now apply (H n).
Qed.

Lemma filter_all {A} (p : A -> bool) (l : list A) : (forall y, In y l -> p y = true) -> filter p l = l.
Proof.
  induction l as [|x l IH]; cbn; intros H; [reflexivity|].
  rewrite (H x (or_introl eq_refl)). f_equal. apply IH. intros y Hy. apply H. now right.
Qed.

Lemma abs_del n ns : NoDup (map n_id ns) -> NoDup (map n_key ns) -> In n ns ->
  map kv (del_nd (n_id n) ns) = rl_del (n_key n) (map kv ns).
Proof.
  induction ns as [|x ns IH]; cbn; intros Hi Hk Hin; [contradiction|].
  apply NoDup_cons_iff in Hi as [Hni Hi]. apply NoDup_cons_iff in Hk as [Hnk Hk].
  destruct Hin as [->|Hin].
  - rewrite Nat.eqb_refl, Z.eqb_refl. cbn.
    (* nothing else carries this id *)
    assert (E : del_nd (n_id n) ns = ns).
    { unfold del_nd. apply filter_all. intros y Hy.
      destruct (Nat.eqb_spec (n_id y) (n_id n)) as [E|_]; [|reflexivity].
      exfalso. apply Hni. rewrite <- E. now apply in_map. }
    fold (del_nd (n_id n) ns). now rewrite E.
  - destruct (Nat.eqb_spec (n_id x) (n_id n)) as [E|_].
    { exfalso. apply Hni. rewrite E. now apply in_map. }
    destruct (Z.eqb_spec (n_key x) (n_key n)) as [E|_].
    { exfalso. apply Hnk. rewrite E. now apply in_map. }
    cbn. fold (del_nd (n_id n) ns). now rewrite IH.
Qed.

Lemma set_val_absent i v ns : (forall n, In n ns -> n_id n <> i) -> set_val i v ns = ns.
Proof.
  intros H. unfold set_val. rewrite <- (map_id ns) at 2. apply map_ext_in. intros n Hn.
  destruct (Nat.eqb_spec (n_id n) i) as [E|_]; [|reflexivity]. now apply H in Hn.
Qed.

Lemma l_last_in {A} (l : list A) x : last_opt l = Some x -> In x l.
Proof. intros H. rewrite (last_opt_some _ _ H). apply in_or_app. right. now left. Qed.

(* --- the three list edits every API function is made of --- *)

(* relink node n (possibly with a new value) at the front *)
Lemma touch_node c n n' :
  Inv0 c -> In n (nodes c) -> n_id n' = n_id n -> n_key n' = n_key n ->
  let c' := with_nodes c (n' :: del_nd (n_id n) (nodes c)) in
  Inv0 c' /\ abs c' = kv n' :: rl_del (n_key n) (abs c) /\ llen c' = llen c.
Proof.
  intros H Hin Eid Ekey c'. pose proof (inv_ids _ H) as Hi. pose proof (inv_keys _ H) as Hk.
  assert (Habs : abs c' = kv n' :: rl_del (n_key n) (abs c)).
  { unfold abs, c'. cbn. now rewrite abs_del. }
  assert (Hmem : forall m, In m (del_nd (n_id n) (nodes c)) <-> In m (nodes c) /\ m <> n).
  { intros m. rewrite del_nd_In. split; intros [H1 H2]; split; auto.
    - intros ->. now apply H2.
    - intros E. apply H2. apply (NoDup_map_inj n_id (nodes c)); auto. }
  split; [|split; [exact Habs|reflexivity]].
  constructor; unfold c'; cbn.
  - constructor; [|now apply NoDup_map_filter].
    rewrite Eid. intros Hx. apply in_map_iff in Hx as (m & E & Hm). apply del_nd_In in Hm. now destruct Hm.
  - constructor; [|now apply NoDup_map_filter].
    rewrite Ekey. intros Hx. apply in_map_iff in Hx as (m & E & Hm). apply Hmem in Hm as [Hm Hne].
    apply Hne. apply (NoDup_map_inj n_key (nodes c)); auto; congruence.
  - intros k i. rewrite (inv_items _ H). split.
    + intros (m & Hm & E1 & E2). destruct (Nat.eq_dec (n_id m) (n_id n)) as [E|Hne].
      * exists n'. split; [now left|]. assert (m = n) by (apply (NoDup_map_inj n_id (nodes c)); auto). subst m.
        split; congruence.
      * exists m. split; [right; apply del_nd_In; auto|auto].
    + intros (m & [<-|Hm] & E1 & E2).
      * exists n. split; [exact Hin|]. split; congruence.
      * exists m. apply del_nd_In in Hm as [Hm _]. auto.
  - rewrite (inv_len _ H).
    pose proof (rl_del_length (n_key n) (n_val n) (map kv (nodes c)) (abs_find n _ Hk Hin)) as R.
    rewrite <- abs_del in R by assumption. rewrite !map_length in R. cbn [length]. lia.
  - intros m [<-|Hm].
    + rewrite Eid. now apply (inv_fresh _ H).
    + apply del_nd_In in Hm as [Hm _]. now apply (inv_fresh _ H).
  - apply (inv_size _ H).
Qed.

(* unlink node n and delete its key from the map *)
Lemma remove_node c n :
  Inv0 c -> In n (nodes c) ->
  let c' := l_remove (n_id n) (with_items c (m_del (n_key n) (items c))) in
  Inv0 c' /\ abs c' = rl_del (n_key n) (abs c) /\ llen c' = llen c - 1 /\ size c' = size c.
Proof.
  intros H Hin c'. pose proof (inv_ids _ H) as Hi. pose proof (inv_keys _ H) as Hk.
  assert (Habs : abs c' = rl_del (n_key n) (abs c)).
  { unfold abs, c'. cbn [nodes l_remove with_items]. now rewrite abs_del. }
  split; [|split; [exact Habs|split; reflexivity]].
  constructor; unfold c'; cbn [nodes items llen size fresh l_remove with_items].
  - now apply NoDup_map_filter.
  - now apply NoDup_map_filter.
  - intros k i. rewrite m_get_del. destruct (Z.eqb_spec k (n_key n)) as [->|Hne].
    + split; [discriminate|]. intros (m & Hm & E1 & E2). exfalso.
      apply del_nd_In in Hm as [Hm Hne]. apply Hne. f_equal. apply (NoDup_map_inj n_key (nodes c)); auto.
    + rewrite (inv_items _ H). split; intros (m & Hm & E1 & E2).
      * exists m. split; [|auto]. apply del_nd_In. split; [exact Hm|]. intros E.
        assert (m = n) by (apply (NoDup_map_inj n_id (nodes c)); auto). subst m. congruence.
      * exists m. apply del_nd_In in Hm as [Hm _]. auto.
  - rewrite (inv_len _ H).
    pose proof (rl_del_length (n_key n) (n_val n) (map kv (nodes c)) (abs_find n _ Hk Hin)) as R.
    rewrite <- abs_del in R by assumption. rewrite !map_length in R. lia.
  - intros m Hm. apply del_nd_In in Hm as [Hm _]. now apply (inv_fresh _ H).
  - apply (inv_size _ H).
Qed.

(* addFront of a new key + items[key] = node *)
Lemma insert_node c k v :
  Inv0 c -> m_get k (items c) = None ->
  let c1 := mkLru (mkNd (fresh c) k v :: nodes c) (llen c + 1) (items c) (size c) (S (fresh c)) in
  let c' := with_items c1 (m_set k (fresh c) (items c1)) in
  Inv0 c' /\ abs c' = (k, v) :: abs c /\ llen c' = llen c + 1 /\ size c' = size c.
Proof.
  intros H Hg c1 c'.
  assert (Hnk : forall n, In n (nodes c) -> n_key n <> k).
  { intros n Hn E. assert (Hs : m_get k (items c) = Some (n_id n)) by (apply (inv_items _ H); eauto).
    congruence. }
  split; [|split; [reflexivity|split; reflexivity]].
  constructor; unfold c', c1; cbn [nodes items llen size fresh with_items map n_id n_key length].
  - constructor; [|apply (inv_ids _ H)]. intros Hx. apply in_map_iff in Hx as (m & E & Hm).
    pose proof (inv_fresh _ H _ Hm). lia.
  - constructor; [|apply (inv_keys _ H)]. intros Hx. apply in_map_iff in Hx as (m & E & Hm).
    now apply (Hnk m).
  - intros k' i. rewrite m_get_set. destruct (Z.eqb_spec k' k) as [->|Hne].
    + split.
      * intros E. injection E as <-. exists (mkNd (fresh c) k v). cbn. auto.
      * intros (m & [<-|Hm] & E1 & E2); [cbn in E1; congruence|]. exfalso. now apply (Hnk m).
    + rewrite (inv_items _ H). split; intros (m & Hm & E1 & E2).
      * exists m. split; [now right|auto].
      * destruct Hm as [<-|Hm]; [cbn in E2; congruence|]. exists m. auto.
  - rewrite (inv_len _ H). lia.
  - intros m [<-|Hm]; cbn; [lia|]. pose proof (inv_fresh _ H _ Hm). lia.
  - apply (inv_size _ H).
Qed.

Lemma abs_last c : last_opt (abs c) = option_map kv (last_opt (nodes c)).
Proof. apply last_opt_map. Qed.

Lemma abs_keys_nodup c : Inv0 c -> NoDup (map fst (abs c)).
Proof. intros H. unfold abs. rewrite map_fst_kv. apply (inv_keys _ H). Qed.

Lemma items_hit c k i : Inv0 c -> m_get k (items c) = Some i ->
  exists n, In n (nodes c) /\ n_id n = i /\ n_key n = k /\ find_nd i (nodes c) = Some n /\
            rl_find k (abs c) = Some (n_val n).
Proof.
  intros H Hg. apply (inv_items _ H) in Hg as (n & Hn & E1 & E2). exists n.
  repeat split; auto.
  - rewrite <- E1. apply find_nd_in; [apply (inv_ids _ H)|exact Hn].
  - rewrite <- E2. apply abs_find; [apply (inv_keys _ H)|exact Hn].
Qed.

Lemma items_miss c k : Inv0 c -> m_get k (items c) = None -> rl_find k (abs c) = None.
Proof.
  intros H Hg. apply abs_find_none. intros n Hn E.
  assert (Hs : m_get k (items c) = Some (n_id n)) by (apply (inv_items _ H); eauto). congruence.
Qed.

(* RemoveOldest, also used by Add while the bound is exceeded *)
Lemma remove_oldest_sim cap c :
  Inv0 c ->
  snd (remove_oldest c) = snd (spec_step cap RemoveOldest (abs c)) /\
  abs (fst (remove_oldest c)) = fst (spec_step cap RemoveOldest (abs c)) /\
  Inv0 (fst (remove_oldest c)) /\ size (fst (remove_oldest c)) = size c /\
  llen (fst (remove_oldest c)) = (match nodes c with [] => llen c | _ => llen c - 1 end).
Proof.
  intros H. unfold remove_oldest, l_remove_last, l_last. cbn [spec_step]. rewrite abs_last.
  destruct (last_opt (nodes c)) as [item|] eqn:Hl.
  - cbn [nodes with_items]. rewrite Hl. cbn [option_map kv fst snd].
    pose proof (l_last_in _ _ Hl) as Hin.
    destruct (remove_node c item H Hin) as (HI & Habs & Hlen & Hsz).
    split; [reflexivity|]. split; [|split; [exact HI|split; [exact Hsz|]]].
    + rewrite Habs. apply (rl_del_last _ (n_val item)); [now apply abs_keys_nodup|].
      rewrite abs_last, Hl. reflexivity.
    + rewrite Hlen. destruct (nodes c); [contradiction|reflexivity].
  - apply last_opt_none in Hl. cbn. rewrite Hl. auto.
Qed.

Ltac unchanged H Hcap :=
  cbn; split; [reflexivity|]; split; [reflexivity|]; split; [exact (conj H Hcap)|reflexivity].

(* one call of the Go code (Layer 1) does what the reference machine does *)
Lemma step_sim o c :
  Inv c ->
  snd (step o c) = snd (spec_step (size c) o (abs c)) /\
  abs (fst (step o c)) = fst (spec_step (size c) o (abs c)) /\
  Inv (fst (step o c)) /\ size (fst (step o c)) = size c.
Proof.
  intros [H Hcap]. destruct o as [k v|k| | |k| | |]; cbn [step spec_step].
  - (* Add *)
    unfold add. destruct (m_get k (items c)) as [i|] eqn:Hg.
    + destruct (items_hit c k i H Hg) as (n & Hn & E1 & E2 & Hf & Hr). rewrite Hr.
      cbn [with_nodes nodes]. unfold move_front. rewrite Hf.
      cbn [set_val map n_id]. rewrite E1, Nat.eqb_refl.
      fold (set_val i v (del_nd i (nodes c))).
      rewrite set_val_absent by (intros m Hm; apply del_nd_In in Hm; tauto).
      subst i. destruct (touch_node c n (mkNd (n_id n) (n_key n) v) H Hn eq_refl eq_refl) as (HI & Habs & Hlen).
      cbn [fst snd llen items size fresh]. unfold with_nodes in HI, Habs, Hlen. cbn in HI, Habs, Hlen.
      split; [reflexivity|]. split; [rewrite <- E2; exact Habs|]. split; [|reflexivity].
      split; [exact HI|]. cbn. exact Hcap.
    + rewrite (items_miss c k H Hg).
      destruct (insert_node c k v H Hg) as (HI & Habs & Hlen & Hsz). cbn zeta in HI, Habs, Hlen, Hsz.
      set (c2 := with_items _ _) in *.
      assert (Ecnt : count c2 = Z.of_nat (length ((k, v) :: abs c))).
      { unfold count. rewrite Hlen, (inv_len _ H). unfold abs. cbn [length]. rewrite map_length. lia. }
      rewrite Hsz, Ecnt. destruct (Z.of_nat (length ((k, v) :: abs c)) >? size c) eqn:G.
      * destruct (remove_oldest_sim (size c) c2 HI) as (Ho & Ha & HI' & Hsz' & Hlen').
        cbn [spec_step] in Ho, Ha. rewrite Habs in Ho, Ha.
        destruct (last_opt ((k, v) :: abs c)) as [[ek ev]|] eqn:Hl.
        -- cbn [fst snd] in *. split; [exact Ho|]. split; [exact Ha|]. split; [|congruence].
           split; [exact HI'|]. rewrite Hlen', Hsz'. unfold c2 at 1. cbn [nodes with_items]. lia.
        -- apply last_opt_none in Hl. discriminate.
      * cbn [fst snd]. rewrite Z.gtb_ltb in G. apply Z.ltb_ge in G.
        split; [reflexivity|]. split; [exact Habs|]. split; [|exact Hsz].
        split; [exact HI|]. unfold count in Ecnt. rewrite Ecnt, Hsz. exact G.
  - (* Get *)
    unfold get. destruct (m_get k (items c)) as [i|] eqn:Hg.
    + destruct (items_hit c k i H Hg) as (n & Hn & E1 & E2 & Hf & Hr). rewrite Hr.
      cbn [with_nodes nodes]. unfold move_front. rewrite Hf.
      unfold find_nd. cbn [find]. rewrite E1, Nat.eqb_refl. subst i.
      destruct (touch_node c n n H Hn eq_refl eq_refl) as (HI & Habs & Hlen).
      cbn [fst snd]. split; [reflexivity|]. split; [rewrite <- E2; exact Habs|].
      split; [|reflexivity]. split; [exact HI|]. cbn. exact Hcap.
    + rewrite (items_miss c k H Hg). unchanged H Hcap.
  - (* GetOldest *)
    unfold get_oldest, l_last. rewrite abs_last.
    destruct (last_opt (nodes c)) as [item|] eqn:Hl; cbn [option_map].
    + pose proof (l_last_in _ _ Hl) as Hin. unfold move_front.
      rewrite (find_nd_in item _ (inv_ids _ H) Hin).
      destruct (touch_node c item item H Hin eq_refl eq_refl) as (HI & Habs & Hlen).
      cbn [fst snd kv]. split; [reflexivity|]. split.
      * rewrite Habs. f_equal. apply (rl_del_last _ (n_val item)); [now apply abs_keys_nodup|].
        rewrite abs_last, Hl. reflexivity.
      * split; [|reflexivity]. split; [exact HI|]. cbn. exact Hcap.
    + unchanged H Hcap.
  - (* GetYoungest *)
    unfold get_youngest, l_first. destruct (nodes c) as [|item ns] eqn:En; cbn [fst snd].
    + assert (Ha : abs c = []) by (unfold abs; now rewrite En). rewrite Ha. unchanged H Hcap.
    + assert (Ha : abs c = (n_key item, n_val item) :: map kv ns) by (unfold abs; now rewrite En).
      rewrite Ha. unchanged H Hcap.
  - (* Remove *)
    unfold remove. destruct (m_get k (items c)) as [i|] eqn:Hg.
    + destruct (items_hit c k i H Hg) as (n & Hn & E1 & E2 & Hf & Hr). rewrite Hr, Hf. subst i.
      destruct (remove_node c n H Hn) as (HI & Habs & Hlen & Hsz).
      cbn [fst snd]. split; [reflexivity|]. split; [rewrite <- E2; exact Habs|].
      split; [|exact Hsz]. split; [exact HI|]. rewrite Hlen, Hsz. lia.
    + rewrite (items_miss c k H Hg). unchanged H Hcap.
  - (* RemoveOldest *)
    destruct (remove_oldest_sim (size c) c H) as (Ho & Ha & HI' & Hsz' & Hlen').
    cbn [spec_step] in Ho, Ha. split; [exact Ho|]. split; [exact Ha|]. split; [|exact Hsz'].
    split; [exact HI'|]. rewrite Hlen', Hsz'. destruct (nodes c); lia.
  - (* RemoveYoungest *)
    unfold remove_youngest, l_first. destruct (nodes c) as [|item ns] eqn:En.
    + assert (Ha : abs c = []) by (unfold abs; now rewrite En). cbn [fst snd]. rewrite Ha. unchanged H Hcap.
    + assert (Ha : abs c = (n_key item, n_val item) :: map kv ns) by (unfold abs; now rewrite En).
      assert (Hin : In item (nodes c)) by (rewrite En; now left).
      destruct (remove_node c item H Hin) as (HI & Habs & Hlen & Hsz).
      rewrite Ha in Habs |- *. cbn [fst snd]. split; [reflexivity|]. split.
      * rewrite Habs. cbn. now rewrite Z.eqb_refl.
      * split; [|exact Hsz]. split; [exact HI|]. rewrite Hlen, Hsz. lia.
  - (* Flush *)
    cbn. split; [reflexivity|]. split; [reflexivity|]. split; [|reflexivity].
    split; [|cbn; pose proof (inv_size _ H); lia].
    constructor; cbn; try constructor; try (intros; contradiction); try apply (inv_size _ H).
    + discriminate.
    + intros (n & [] & _).
Qed.

Lemma inv_new sz c : new_lru sz = Ok c -> Inv c /\ size c = sz /\ abs c = [].
Proof.
  unfold new_lru. destruct (sz <=? 0) eqn:E; [discriminate|]. apply Z.leb_gt in E.
  intros Hc. injection Hc as <-. split; [|auto]. split; [|cbn; lia].
  constructor; cbn; try constructor; try (intros; contradiction); try lia.
  - discriminate.
  - intros (n & [] & _).
Qed.

Lemma inv_step o c : Inv c -> Inv (fst (step o c)).
Proof. intros H. apply (step_sim o c H). Qed.

Lemma inv_final ops : forall c, Inv c -> Inv (final step ops c).
Proof. induction ops as [|o ops IH]; intros c H; cbn; [exact H|]. apply IH, inv_step, H. Qed.

Lemma count_abs c : Inv c -> count c = spec_count (abs c).
Proof. intros [H _]. unfold count, spec_count, abs. rewrite map_length. apply (inv_len _ H). Qed.

Lemma run_sim ops : forall c, Inv c ->
  run step count ops c = run (spec_step (size c)) spec_count ops (abs c).
Proof.
  induction ops as [|o ops IH]; intros c H; [reflexivity|]. cbn [run].
  destruct (step_sim o c H) as (Ho & Ha & HI & Hsz).
  destruct (step o c) as [c' r]. destruct (spec_step (size c) o (abs c)) as [l' r'].
  cbn [fst snd] in *. subst r' l'. rewrite (count_abs _ HI). f_equal.
  rewrite <- Hsz. now apply IH.
Qed.

Lemma lru_refines_spec cap c ops : new_lru cap = Ok c -> run_lru c ops = run_spec cap ops.
Proof.
  intros Hn. destruct (inv_new _ _ Hn) as (HI & Hsz & Ha). unfold run_lru, run_spec.
  rewrite (run_sim ops c HI), Hsz, Ha. reflexivity.
Qed.

Lemma new_accepts_positive cap : 1 <= cap -> exists c, new_lru cap = Ok c.
Proof. intros H. unfold new_lru. destruct (cap <=? 0) eqn:E; [apply Z.leb_le in E; lia|eauto]. Qed.

(* ------------------------------------------------------------------ *)
(* Part C.  consequences over traces *)

Lemma combine_app' {A B} (l1 l2 : list A) (m1 m2 : list B) :
  length l1 = length m1 -> combine (l1 ++ l2) (m1 ++ m2) = combine l1 m1 ++ combine l2 m2.
Proof.
  revert m1. induction l1 as [|a l1 IH]; intros [|b m1] H; cbn in *; try discriminate; [reflexivity|].
  f_equal. apply IH. lia.
Qed.

Section RunFacts.
  Context {St : Type} (stp : op -> St -> St * out) (cnt : St -> Z).

  Lemma run_length ops : forall s, length (run stp cnt ops s) = length ops.
  Proof. induction ops as [|o ops IH]; intros s; cbn; [reflexivity|]. destruct (stp o s). cbn. now rewrite IH. Qed.

  Lemma run_app ops1 ops2 : forall s,
    run stp cnt (ops1 ++ ops2) s = run stp cnt ops1 s ++ run stp cnt ops2 (final stp ops1 s).
  Proof.
    induction ops1 as [|o ops IH]; intros s; cbn; [reflexivity|].
    destruct (stp o s) as [s' r]. cbn. now rewrite IH.
  Qed.

  Lemma final_app ops1 ops2 : forall s, final stp (ops1 ++ ops2) s = final stp ops2 (final stp ops1 s).
  Proof. induction ops1 as [|o ops IH]; intros s; cbn; [reflexivity|]. apply IH. Qed.

  Lemma run_snoc ops o s :
    run stp cnt (ops ++ [o]) s =
    run stp cnt ops s ++ [(snd (stp o (final stp ops s)), cnt (fst (stp o (final stp ops s))))].
  Proof. rewrite run_app. cbn. now destruct (stp o (final stp ops s)). Qed.

  Lemma trace_snoc ops o s :
    trace_of (ops ++ [o]) (run stp cnt (ops ++ [o]) s) =
    trace_of ops (run stp cnt ops s) ++
      [(o, (snd (stp o (final stp ops s)), cnt (fst (stp o (final stp ops s)))))].
  Proof.
    rewrite run_snoc. unfold trace_of. rewrite combine_app' by (now rewrite run_length). reflexivity.
  Qed.

  Lemma trace_length ops s : length (trace_of ops (run stp cnt ops s)) = length ops.
  Proof. unfold trace_of, event. rewrite combine_length, run_length. lia. Qed.
End RunFacts.

Lemma ledger_of_app tr1 tr2 : forall t L,
  ledger_of t L (tr1 ++ tr2) = ledger_of (t + length tr1) (ledger_of t L tr1) tr2.
Proof.
  induction tr1 as [|[o [r c]] tr IH]; intros t L; cbn [app ledger_of length].
  - now rewrite Nat.add_0_r.
  - rewrite IH. f_equal. lia.
Qed.

Lemma trace_ok_app cap tr1 tr2 : forall t L,
  trace_ok cap t L (tr1 ++ tr2) -> trace_ok cap (t + length tr1) (ledger_of t L tr1) tr2.
Proof.
  induction tr1 as [|[o [r c]] tr IH]; intros t L H; cbn [app ledger_of length] in *.
  - now rewrite Nat.add_0_r.
  - inversion H; subst. replace (t + S (length tr))%nat with (S t + length tr)%nat by lia. now apply IH.
Qed.

Lemma new_lru_cap cap c : new_lru cap = Ok c -> 1 <= cap.
Proof. unfold new_lru. destruct (cap <=? 0) eqn:E; [discriminate|]. apply Z.leb_gt in E. lia. Qed.

Lemma lru_trace_ok cap c ops : new_lru cap = Ok c -> trace_ok cap 0 l_empty (trace_of ops (run_lru c ops)).
Proof.
  intros Hn. rewrite (lru_refines_spec _ _ _ Hn). apply spec_trace_ok. eapply new_lru_cap; eauto.
Qed.

(* the ledger of the history [ops] run from cache c *)
Definition ledger_after (c : lru) (ops : list op) : ledger :=
  ledger_of 0 l_empty (trace_of ops (run_lru c ops)).

Lemma ledger_after_snoc c ops o :
  ledger_after c (ops ++ [o]) =
  ledger_step (length ops) (ledger_after c ops) o (snd (step o (final step ops c))).
Proof.
  unfold ledger_after, run_lru. rewrite trace_snoc, ledger_of_app. cbn. now rewrite trace_length.
Qed.

(* the master statement in point form: after ANY history, ANY next call
   conforms to the ledger of that history, and Count() is the number of
   present keys, at most cap *)
Lemma every_call_conforms cap c ops o :
  new_lru cap = Ok c ->
  let s := final step ops c in
  conforms cap (ledger_after c ops) o (snd (step o s)) /\
  card (ledger_after c (ops ++ [o])) (count (fst (step o s))) /\
  count (fst (step o s)) <= cap.
Proof.
  intros Hn s. pose proof (lru_trace_ok cap c (ops ++ [o]) Hn) as H.
  unfold run_lru in H. rewrite trace_snoc in H. apply trace_ok_app in H. cbn [Nat.add] in H.
  inversion H; subst. rewrite ledger_after_snoc. rewrite trace_length in *.
  repeat split; assumption.
Qed.

Lemma count_bounds cap c ops : new_lru cap = Ok c -> 0 <= count (final step ops c) <= cap.
Proof.
  intros Hn. destruct (inv_new _ _ Hn) as (HI & Hsz & _).
  pose proof (inv_final ops c HI) as [H0 Hc].
  assert (Hs : size (final step ops c) = cap).
  { rewrite <- Hsz. clear Hn Hsz H0 Hc. revert c HI. induction ops as [|o ops IH]; intros c HI; cbn; [reflexivity|].
    rewrite IH by (now apply inv_step). apply (step_sim o c HI). }
  unfold count. rewrite <- Hs. split; [rewrite (inv_len _ H0); lia|exact Hc].
Qed.

Lemma NoDup_same_length {A} (l1 l2 : list A) :
  NoDup l1 -> NoDup l2 -> (forall x, In x l1 <-> In x l2) -> length l1 = length l2.
Proof.
  intros H1 H2 H. apply Nat.le_antisymm; apply NoDup_incl_length; auto; intros x Hx; now apply H.
Qed.

Lemma card_functional L n m : card L n -> card L m -> n = m.
Proof.
  intros (k1 & N1 & M1 & <-) (k2 & N2 & M2 & <-). f_equal.
  apply NoDup_same_length; auto. intros x. now rewrite M1, M2.
Qed.

(* lookups *)
Lemma lookup_iff_present cap c ops k :
  new_lru cap = Ok c ->
  snd (step (Get k) (final step ops c)) =
  match ledger_after c ops k with Some (_, v) => VB v true | None => none2 end.
Proof.
  intros Hn. destruct (every_call_conforms cap c ops (Get k) Hn) as (H & _). cbn [conforms] in H.
  destruct (ledger_after c ops k) as [[t v]|]; exact H.
Qed.

(* Add *)
Lemma add_evicts_least_recent cap c ops k v :
  new_lru cap = Ok c ->
  let L := ledger_after c ops in
  let r := snd (step (Add k v) (final step ops c)) in
  (L k = None -> card L cap -> exists ek ev, oldest L ek ev /\ r = KVB ek ev true) /\
  (L k <> None -> r = none3) /\
  (forall n, card L n -> n < cap -> r = none3).
Proof.
  intros Hn L r. destruct (every_call_conforms cap c ops (Add k v) Hn) as (H & _). cbn [conforms] in H.
  fold L r in H. split; [|split].
  - intros HN HC. destruct H as [[[Hp|(n & Hc & Hlt)] _]|(_ & _ & H)]; [contradiction| |exact H].
    pose proof (card_functional _ _ _ Hc HC). lia.
  - intros Hp. destruct H as [[_ H]|(HN & _)]; [exact H|contradiction].
  - intros n Hc Hlt. destruct H as [[_ H]|(_ & HC & _)]; [exact H|].
    pose proof (card_functional _ _ _ Hc HC). lia.
Qed.

(* calls that do not touch: the state is literally unchanged *)
Lemma get_youngest_state c : fst (step GetYoungest c) = c.
Proof. cbn. unfold get_youngest. now destruct (l_first (nodes c)). Qed.

Lemma get_miss_state c k b : snd (step (Get k) c) = VB b false -> fst (step (Get k) c) = c.
Proof.
  cbn. unfold get. destruct (m_get k (items c)); [|reflexivity].
  destruct (find_nd _ _); cbn; discriminate.
Qed.

Lemma remove_miss_state c k b : snd (step (Remove k) c) = VB b false -> fst (step (Remove k) c) = c.
Proof.
  cbn. unfold remove. destruct (m_get k (items c)); [|reflexivity].
  destruct (find_nd _ _); cbn; discriminate.
Qed.

(* the ledger changes the stamp of k only when the call touches k *)
Lemma ledger_untouched t L o r k :
  ~ touches o r k -> ledger_step t L o r k = L k \/ ledger_step t L o r k = None.
Proof.
  intros Hn.
  assert (Hs : forall k1 x, k1 <> k -> l_set L k1 x k = L k).
  { intros k1 x Hne. unfold l_set. destruct (Z.eqb_spec k k1); [congruence|reflexivity]. }
  assert (Hd : forall (L' : ledger) k1, L' k = L k -> l_set L' k1 None k = L k \/ l_set L' k1 None k = None).
  { intros L' k1 E. unfold l_set. destruct (k =? k1); [now right|now left]. }
  assert (Ht : forall k1, k1 <> k -> l_touch t L k1 k = L k).
  { intros k1 Hne. unfold l_touch. destruct (L k1) as [[t1 v1]|]; [now apply Hs|reflexivity]. }
  destruct o as [k1 v1|k1| | |k1| | |]; cbn [ledger_step touches] in *.
  - destruct r as [ek ev [|]|? ?|]; try (left; now apply Hs).
    apply Hd. now apply Hs.
  - destruct r as [? ? ?|v1 [|]|]; try (now left). left. now apply Ht.
  - destruct r as [k1 v1 [|]|? ?|]; try (now left). left. now apply Ht.
  - now left.
  - destruct r as [? ? ?|v1 [|]|]; try (now left). now apply Hd.
  - destruct r as [k1 v1 [|]|? ?|]; try (now left). now apply Hd.
  - destruct r as [k1 v1 [|]|? ?|]; try (now left). now apply Hd.
  - now right.
Qed.

(* --- removers --- *)

Definition is_remover (o : op) : Prop :=
  o = RemoveOldest \/ o = RemoveYoungest \/ exists k, o = Remove k.

Lemma spec_remover_length cap o l :
  is_remover o -> out_ok (snd (spec_step cap o l)) = true ->
  S (length (fst (spec_step cap o l))) = length l.
Proof.
  intros [->|[->|(k & ->)]]; cbn [spec_step].
  - destruct (last_opt l) as [[k v]|] eqn:Hl; cbn; [intros _|discriminate].
    apply removelast_length. intros ->. discriminate.
  - destruct l as [|[k v] l0]; cbn; [discriminate|reflexivity].
  - destruct (rl_find k l) as [v|] eqn:F; cbn [fst snd out_ok none2]; [intros _|discriminate].
    eapply rl_del_length; eauto.
Qed.

Lemma remover_count c o :
  Inv c -> is_remover o -> out_ok (snd (step o c)) = true -> count (fst (step o c)) = count c - 1.
Proof.
  intros HI Hr Hok. destruct (step_sim o c HI) as (Ho & Ha & HI' & _).
  rewrite (count_abs _ HI'), (count_abs _ HI), Ha. rewrite Ho in Hok.
  pose proof (spec_remover_length (size c) o (abs c) Hr Hok). unfold spec_count. lia.
Qed.

Lemma final_inv cap c ops : new_lru cap = Ok c -> Inv (final step ops c).
Proof. intros Hn. apply inv_final. apply (inv_new _ _ Hn). Qed.

(* what a successful remover reports, as (key, value) *)
Definition removed_entry (o : op) (r : out) : option (Z * Z) :=
  match o, r with
  | Remove k, VB v true => Some (k, v)
  | RemoveOldest, KVB k v true => Some (k, v)
  | RemoveYoungest, KVB k v true => Some (k, v)
  | _, _ => None
  end.

Lemma remover_removes_what_it_returns cap c ops o k v :
  new_lru cap = Ok c ->
  let s := final step ops c in
  let s' := fst (step o s) in
  removed_entry o (snd (step o s)) = Some (k, v) ->
  snd (step (Get k) s) = VB v true /\
  snd (step (Get k) s') = none2 /\
  (forall k', k' <> k -> snd (step (Get k') s') = snd (step (Get k') s)) /\
  count s' = count s - 1.
Proof.
  intros Hn s s' Hr.
  destruct (every_call_conforms cap c ops o Hn) as (Hc & _). fold s in Hc.
  assert (Es' : s' = final step (ops ++ [o]) c) by (unfold s', s; now rewrite final_app).
  assert (HL : forall k', ledger_after c (ops ++ [o]) k' = l_set (ledger_after c ops) k None k').
  { intros k'. rewrite ledger_after_snoc. fold s. destruct o; cbn [removed_entry] in Hr; try discriminate;
      destruct (snd (step _ s)) as [k1 v1 [|]|v1 [|]|]; try discriminate; injection Hr as -> ->; reflexivity. }
  assert (Hv : exists t, ledger_after c ops k = Some (t, v)).
  { destruct o; cbn [removed_entry] in Hr; try discriminate;
      destruct (snd (step _ s)) as [k1 v1 [|]|v1 [|]|] eqn:Er; try discriminate; injection Hr as -> ->;
      cbn [conforms] in Hc.
    - destruct (ledger_after c ops k) as [[t v']|]; [|discriminate]. injection Hc as <-. eauto.
    - destruct Hc as [[_ Hc]|(k' & v' & (t & E & _) & Hc)]; [discriminate|]. injection Hc as <- <-. eauto.
    - destruct Hc as [[_ Hc]|(k' & v' & (t & E & _) & Hc)]; [discriminate|]. injection Hc as <- <-. eauto. }
  destruct Hv as (t & Ev).
  split; [|split; [|split]].
  - unfold s. rewrite (lookup_iff_present cap c ops k Hn), Ev. reflexivity.
  - rewrite Es', (lookup_iff_present cap c (ops ++ [o]) k Hn), HL. unfold l_set. now rewrite Z.eqb_refl.
  - intros k' Hne. rewrite Es', (lookup_iff_present cap c (ops ++ [o]) k' Hn), HL. unfold s.
    rewrite (lookup_iff_present cap c ops k' Hn). unfold l_set. destruct (Z.eqb_spec k' k); [congruence|reflexivity].
  - apply remover_count; [now apply (final_inv cap)| |].
    + destruct o; cbn [removed_entry] in Hr; try discriminate; unfold is_remover; eauto.
    + destruct o; cbn [removed_entry] in Hr; try discriminate;
        destruct (snd (step _ s)) as [k1 v1 [|]|v1 [|]|]; try discriminate; reflexivity.
Qed.

(* the unrepaired RemoveYoungest breaks the invariant (DESIGN §7 #16) *)
Lemma remove_youngest_unrepaired_breaks_inv :
  exists c, Inv c /\ ~ Inv (fst (remove_youngest_unrepaired c)).
Proof.
  exists (final step [Add 1 101; Add 2 102; Add 3 103] (mkLru [] 0 [] 3 1%nat)). split.
  - apply inv_final. apply (inv_new 3). reflexivity.
  - (* the map still holds key 1 (node 1) while the list is [3; 2] *)
    intros [H _]. pose proof (proj1 (inv_items _ H 1 1%nat)) as Hi.
    destruct (Hi eq_refl) as (n & Hn & E1 & E2). vm_compute in Hn.
    destruct Hn as [Hn|[Hn|Hn]]; [subst n; discriminate E2|subst n; discriminate E2|destruct Hn].
Qed.
