(* C07_Props.v — property C07: "LRU cache never exceeds capacity and evicts
   exactly the least recently used", stated over the transcription of
   cache/lrucache.go (C07_Model.v: the Go code over identified list nodes;
   C07_Dll.v: the same code over the next/prev pointer heap).

   Reading guide (all definitions are in C07_Model.v):
     run_lru c ops        results and Count() of the calls ops on cache c
     ledger_after c ops   computed from that observable trace only: for each key,
                          None, or Some (time of last touch, latest value) when the
                          key "was added and not since removed or evicted"; the
                          time changes on Add / Get hit / GetOldest hit ONLY
     oldest / youngest L  the present key with the least / greatest touch time
     card L n             exactly n keys are present
     conforms cap L o r   what the statement of C07 demands of the result r of
                          call o when the past is summarised by L
   Only statements here; each is closed by [exact] of a lemma of C07_Proofs.v
   and followed by Print Assumptions.  The pointer-level theorems (the heap
   code of C07_Dll.v refines Layer 1, hence all of the below hold of it) are in
   C07_PropsDll.v. *)

From Gogu Require Import Base C07_Model C07_Proofs C07_Dll C07_DllProofs.
Local Open Scope Z_scope.

(* ---- "A non-positive capacity is rejected" (and only those) ---- *)
Theorem C07_new_rejects_nonpositive : forall sz, sz <= 0 -> new_lru sz = Err 1.
Proof. exact new_rejects_nonpositive. Qed.
Print Assumptions C07_new_rejects_nonpositive.

Theorem C07_new_accepts_positive : forall cap, 1 <= cap -> exists c, new_lru cap = Ok c.
Proof. exact new_accepts_positive. Qed.
Print Assumptions C07_new_accepts_positive.

(* ---- the representation invariant holds after every history:
        list and map hold the same entries (items[k] is the list node with key
        k), no key twice, len = |list| <= size ---- *)
Theorem C07_inv_all_histories : forall cap c ops, new_lru cap = Ok c -> Inv (final step ops c).
Proof. exact final_inv. Qed.
Print Assumptions C07_inv_all_histories.

Theorem C07_inv_step : forall o c, Inv c -> Inv (fst (step o c)).
Proof. exact inv_step. Qed.
Print Assumptions C07_inv_step.

(* ---- refinement: on every history the code returns exactly what the
        reference machine (a recency list with capacity) returns, Count()
        included ---- *)
Theorem C07_lru_refines_spec : forall cap c ops, new_lru cap = Ok c -> run_lru c ops = run_spec cap ops.
Proof. exact lru_refines_spec. Qed.
Print Assumptions C07_lru_refines_spec.

(* ---- the master statement: every call of every history conforms to the
        ledger of the calls before it, and Count() after it is the number of
        present keys, at most cap ---- *)
Theorem C07_trace_meets_statement : forall cap c ops,
  new_lru cap = Ok c -> trace_ok cap 0 l_empty (trace_of ops (run_lru c ops)).
Proof. exact lru_trace_ok. Qed.
Print Assumptions C07_trace_meets_statement.

(* the same in point form: after ANY history ops, ANY next call o *)
Theorem C07_every_call_conforms : forall cap c ops o,
  new_lru cap = Ok c ->
  let s := final step ops c in
  conforms cap (ledger_after c ops) o (snd (step o s)) /\
  card (ledger_after c (ops ++ [o])) (count (fst (step o s))) /\
  count (fst (step o s)) <= cap.
Proof. exact every_call_conforms. Qed.
Print Assumptions C07_every_call_conforms.

(* ---- clause by clause ---- *)

(* "Count never exceeds n" *)
Theorem C07_count_le_cap : forall cap c ops,
  new_lru cap = Ok c -> 0 <= count (final step ops c) <= cap.
Proof. exact count_bounds. Qed.
Print Assumptions C07_count_le_cap.

(* "a lookup finds a key exactly when it was added and not since removed or
   evicted and returns its latest value" *)
Theorem C07_lookup_iff_present : forall cap c ops k,
  new_lru cap = Ok c ->
  snd (step (Get k) (final step ops c)) =
  match ledger_after c ops k with Some (_, v) => VB v true | None => none2 end.
Proof. exact lookup_iff_present. Qed.
Print Assumptions C07_lookup_iff_present.

(* "Adding a new key to a full cache evicts, and returns, exactly the entry
   touched least recently" — and nothing is evicted otherwise *)
Theorem C07_evicts_least_recent : forall cap c ops k v,
  new_lru cap = Ok c ->
  let L := ledger_after c ops in
  let r := snd (step (Add k v) (final step ops c)) in
  (L k = None -> card L cap -> exists ek ev, oldest L ek ev /\ r = KVB ek ev true) /\
  (L k <> None -> r = none3) /\
  (forall n, card L n -> n < cap -> r = none3).
Proof. exact add_evicts_least_recent. Qed.
Print Assumptions C07_evicts_least_recent.

(* "the oldest/youngest accessors and removers always designate the least/most
   recently touched entry" (and report false exactly on the empty cache) *)
Theorem C07_oldest_youngest_designate : forall cap c ops o,
  new_lru cap = Ok c ->
  let L := ledger_after c ops in
  let r := snd (step o (final step ops c)) in
  (o = GetOldest \/ o = RemoveOldest ->
     (vacant L /\ r = none3) \/ (exists k v, oldest L k v /\ r = KVB k v true)) /\
  (o = GetYoungest \/ o = RemoveYoungest ->
     (vacant L /\ r = none3) \/ (exists k v, youngest L k v /\ r = KVB k v true)).
Proof.
  intros cap c ops o Hn L r. destruct (every_call_conforms cap c ops o Hn) as (H & _).
  split; intros [->| ->]; exact H.
Qed.
Print Assumptions C07_oldest_youngest_designate.

(* "a remover removes exactly the entry it returns": the entry was there with
   that value, is gone afterwards, every other key answers as before, and
   Count() drops by exactly one *)
Theorem C07_remover_removes_what_it_returns : forall cap c ops o k v,
  new_lru cap = Ok c ->
  let s := final step ops c in
  let s' := fst (step o s) in
  removed_entry o (snd (step o s)) = Some (k, v) ->
  snd (step (Get k) s) = VB v true /\
  snd (step (Get k) s') = none2 /\
  (forall k', k' <> k -> snd (step (Get k') s') = snd (step (Get k') s)) /\
  count s' = count s - 1.
Proof. exact remover_removes_what_it_returns. Qed.
Print Assumptions C07_remover_removes_what_it_returns.

(* "recency is refreshed by Add, Get and GetOldest only": the touch time of a
   key changes only on a call that touches it (the designations above are
   functions of these times), and the calls that cannot touch — GetYoungest, a
   Get or Remove that misses — leave the cache state identical *)
Theorem C07_recency_refreshed_only_by_Add_Get_GetOldest :
  (forall t L o r k, ~ touches o r k -> ledger_step t L o r k = L k \/ ledger_step t L o r k = None) /\
  (forall c, fst (step GetYoungest c) = c) /\
  (forall c k b, snd (step (Get k) c) = VB b false -> fst (step (Get k) c) = c) /\
  (forall c k b, snd (step (Remove k) c) = VB b false -> fst (step (Remove k) c) = c).
Proof.
  split; [exact ledger_untouched|]. split; [exact get_youngest_state|].
  split; [exact get_miss_state|exact remove_miss_state].
Qed.
Print Assumptions C07_recency_refreshed_only_by_Add_Get_GetOldest.

(* ---- the defect that was repaired (DESIGN §7 #16): the code as found
        (RemoveYoungest unlinking the OLDEST node) breaks the invariant:
        after Add 1, 2, 3; RemoveYoungest the map is {1,2}, the list [3,2] ---- *)
Theorem C07_remove_youngest_unrepaired_refuted :
  exists c, Inv c /\ ~ Inv (fst (remove_youngest_unrepaired c)).
Proof. exact remove_youngest_unrepaired_breaks_inv. Qed.
Print Assumptions C07_remove_youngest_unrepaired_refuted.

(* ---- non-vacuity: a concrete history with a recency-changing Get followed
        by an eviction of the (then) least recently touched entry ---- *)
Example C07_ex_history :
  new_lru 2 = Ok (mkLru [] 0 [] 2 1%nat) /\
  run_lru (mkLru [] 0 [] 2 1%nat) [Add 1 101; Add 2 102; Get 1; Add 3 103; GetOldest; RemoveYoungest; Get 3] =
  [(none3, 1); (none3, 2); (VB 101 true, 2); (KVB 2 102 true, 2); (KVB 1 101 true, 2); (KVB 1 101 true, 1); (VB 103 true, 1)].
Proof. split; reflexivity. Qed.

