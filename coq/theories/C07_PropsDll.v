(* C07_PropsDll.v — property C07 at the POINTER level: the theorems of
   C07_Props.v hold of the next/prev code of cache/lrucache.go as transcribed
   in C07_Dll.v (a heap of cells {next, prev, key, value}, the sentinel root,
   moveAfter / addAfter / remove as sequences of single pointer stores).

   Reading guide:
     d_new cap            NewLRU(cap) on the heap model (C07_Dll.v)
     d_step o d           one API call o on heap state d: (new state, result)
     run_dll d ops        results and Count() of the calls ops from state d
     new_lru/step/run_lru the same at Layer 1 (list of identified nodes, C07_Model.v)
     run_spec cap ops     the reference machine: a recency list with capacity
     Rep d c              (C07_DllProofs.v) following next from the root visits
                          exactly the node ids of c in order and returns to the
                          root, prev is the inverse of next along that cycle, root
                          and nodes are pairwise distinct allocated addresses, each
                          cell stores its node's key and value, and map / len /
                          size / allocation pointer coincide
     Inv0 c               (C07_Proofs.v) map and list hold the same entries, no id
                          and no key twice, len = |list|, 1 <= size
   Only statements here; each is closed by [exact] of a lemma of C07_DllProofs.v
   and followed by Print Assumptions. *)

From Gogu Require Import Base C07_Model C07_Proofs C07_Dll C07_DllProofs.
Local Open Scope Z_scope.

(* NewLRU builds a well-formed empty ring *)
Theorem C07_dll_new_rep : forall cap d c,
  d_new cap = Ok d -> new_lru cap = Ok c -> Rep d c.
Proof. exact rep_new. Qed.
Print Assumptions C07_dll_new_rep.

(* one call, from ANY represented state (not only reachable ones): every API
   function's pointer surgery re-establishes the ring and returns what the list
   operation of Layer 1 returns *)
Theorem C07_dll_step_simulates : forall o d c,
  Inv0 c -> Rep d c ->
  Rep (fst (d_step o d)) (fst (step o c)) /\ snd (d_step o d) = snd (step o c).
Proof. exact step_rep. Qed.
Print Assumptions C07_dll_step_simulates.

(* every pointer operation implements the list operation of Layer 1: on every
   history the heap-level code returns exactly what Layer 1 returns *)
Theorem C07_dll_refines_lru : forall cap d c ops,
  d_new cap = Ok d -> new_lru cap = Ok c -> run_dll d ops = run_lru c ops.
Proof. exact dll_refines_lru. Qed.
Print Assumptions C07_dll_refines_lru.

(* the ring invariant (next/prev inverse, the ring through the root enumerates
   the NoDup list of node addresses of Layer 1, keys and values stored in the
   cells) holds after every history *)
Theorem C07_dll_rep_all_histories : forall cap d c ops,
  d_new cap = Ok d -> new_lru cap = Ok c -> Rep (final d_step ops d) (final step ops c).
Proof. exact dll_rep_final. Qed.
Print Assumptions C07_dll_rep_all_histories.

(* hence the statement of C07 holds of the pointer-level code: every call of
   every history conforms to the ledger of the calls before it and Count()
   after it is the number of present keys, at most cap *)
Theorem C07_dll_trace_meets_statement : forall cap d ops,
  d_new cap = Ok d -> trace_ok cap 0 l_empty (trace_of ops (run_dll d ops)).
Proof. exact dll_trace_ok. Qed.
Print Assumptions C07_dll_trace_meets_statement.

(* and it returns exactly what the reference machine returns *)
Theorem C07_dll_refines_spec : forall cap d ops,
  d_new cap = Ok d -> run_dll d ops = run_spec cap ops.
Proof. exact dll_refines_spec. Qed.
Print Assumptions C07_dll_refines_spec.

(* the defect that was repaired (DESIGN §7 #16), at the pointer level: with
   RemoveYoungest calling removeLast() the pointer code leaves the reference
   machine (Add 1, 2, 3; RemoveYoungest; GetYoungest reports the removed key) *)
Theorem C07_dll_remove_youngest_unrepaired_refuted :
  exists d ops, d_new 3 = Ok d /\ run d_step_unrepaired d_count ops d <> run_spec 3 ops.
Proof. exact dll_unrepaired_diverges. Qed.
Print Assumptions C07_dll_remove_youngest_unrepaired_refuted.

(* ---- non-vacuity: d_new succeeds, and a history with a recency-changing Get,
        an eviction, a GetOldest promotion and a RemoveYoungest, on the heap;
        the heap after it (root = cell 0, cells 1 and 2 unlinked, ring 0 -> 3 -> 0) ---- *)
Example C07_dll_ex_history :
  d_new 2 = Ok (mkD [mkCell 0%nat 0%nat 0 0] 0%nat 0 [] 2) /\
  run_dll (mkD [mkCell 0%nat 0%nat 0 0] 0%nat 0 [] 2) [Add 1 101; Add 2 102; Get 1; Add 3 103; GetOldest; RemoveYoungest; Get 3] =
  [(none3, 1); (none3, 2); (VB 101 true, 2); (KVB 2 102 true, 2); (KVB 1 101 true, 2); (KVB 1 101 true, 1); (VB 103 true, 1)] /\
  let d := final d_step [Add 1 101; Add 2 102; Get 1; Add 3 103; GetOldest; RemoveYoungest; Get 3] (mkD [mkCell 0%nat 0%nat 0 0] 0%nat 0 [] 2) in
  d_first d = 3%nat /\ d_last d = 3%nat /\ c_next (rd (d_heap d) 3%nat) = 0%nat /\ c_prev (rd (d_heap d) 3%nat) = 0%nat /\
  d_items d = [(3, 3%nat)] /\ d_len d = 1.
Proof. repeat split; reflexivity. Qed.
