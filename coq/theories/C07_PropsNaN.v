(* C07_PropsNaN.v — property C07 for key types whose `==` is NOT reflexive
   (a float64 NaN key, or a struct / array / interface key holding one).

   Go's `comparable` admits such keys and the built-in map gives them the
   meaning the language specifies: a key k with k != k is equal to no key, so
   `c.items[k]` never finds it, `c.items[k] = node` always creates one more
   entry and `delete(c.items, k)` does nothing.  C07_NaN.v transcribes
   lrucache.go over such a map, for an arbitrary decidable set [irr] of
   irreflexive keys.  In the statement of C07, "a key was added" then reads "an
   ==-equal key was added"; an irreflexive key is therefore never "present", every
   Add of one is an Add of a new key, and every entry it creates is an entry of
   its own, identified by the call that created it.

   Reading guide (definitions in C07_NaN.v unless noted):
     irr k = true           the key coded by k is not equal to itself
     dn_step irr o d        one API call on the pointer-level state d (the heap of
                            C07_Dll.v), map operations as above; run_dn its runs
     specn_step irr cap     the reference machine: the recency list with capacity
                            of C07_Model.v in which an irreflexive key matches nothing
     bounded B ops          0 < B and every key of the history ops is smaller than B
                            in absolute value (bound_of ops is such a B)
     label irr B ops        ops, where the i-th call, if it is an Add of an
                            irreflexive key, adds the key B+1+i instead, and a Get /
                            Remove of an irreflexive key asks for the key B
     erase_key B ops k      a key returned by the labelled history read back: a
                            label B+1+i is the key of the i-th call of ops
     ledger_n irr d ops     the ledger (C07_Model.v) of the trace of ops itself
     ledger_lab irr B d ops the ledger of the labelled history run on the cache of
                            C07_Dll.v: for each key, label included, whether it is
                            present, with its value and the time of its last touch
   Only statements here; each is closed by [exact] of a lemma of C07_NaNProofs.v
   and followed by Print Assumptions. *)

From Gogu Require Import Base C07_Model C07_Proofs C07_Dll C07_DllProofs C07_NaN C07_NaNProofs.
Local Open Scope Z_scope.

(* ---- the transcription with irreflexive keys is the one of C07_Dll.v /
        C07_Model.v when every key is equal to itself ---- *)
Theorem C07n_conservative :
  (forall o d, dn_step (fun _ => false) o d = d_step o d) /\
  (forall cap o l, specn_step (fun _ => false) cap o l = spec_step cap o l).
Proof. split; [exact dn_step_conservative|exact specn_step_conservative]. Qed.
Print Assumptions C07n_conservative.

(* ---- refinement: on every history, for every set of irreflexive keys, the
        pointer-level code returns exactly what the reference machine returns,
        Count() included ---- *)
Theorem C07n_refines_spec : forall irr cap d ops,
  d_new cap = Ok d -> run_dn irr d ops = run_specn irr cap ops.
Proof. exact dn_refines_specn. Qed.
Print Assumptions C07n_refines_spec.

(* ---- the simulation theorem: a history with irreflexive keys behaves like the
        same history in which every Add of such a key uses a key that occurs
        nowhere else in the history and every Get / Remove of such a key uses a key
        that is never added — on the cache with reflexive keys of C07_Dll.v, to
        which every theorem of C07_Props.v / C07_PropsDll.v applies.  Results and
        Count() coincide call by call once the labels are read back. ---- *)
Theorem C07n_simulated_by_fresh_keys : forall irr B cap d ops,
  bounded B ops -> d_new cap = Ok d ->
  run_dn irr d ops = erase_run B ops (run_dll d (label irr B ops)).
Proof. exact sim_history. Qed.
Print Assumptions C07n_simulated_by_fresh_keys.

(* the same for the reference machines *)
Theorem C07n_spec_simulated_by_fresh_keys : forall irr B cap ops,
  bounded B ops -> run_specn irr cap ops = erase_run B ops (run_spec cap (label irr B ops)).
Proof. exact sim_spec_history. Qed.
Print Assumptions C07n_spec_simulated_by_fresh_keys.

(* the labels are what the simulation theorem says: the i-th call of the labelled
   history is the labelled i-th call; the key given to an Add of an irreflexive
   key is the key of no other call; the key given to a Get / Remove of one is
   never added; a call on a reflexive key, or without a key, is unchanged *)
Theorem C07n_labels_fresh : forall irr B ops i o,
  bounded B ops -> nth_error ops i = Some o ->
  nth_error (label irr B ops) i = Some (label_op irr B i o) /\
  (forall k v, o = Add k v -> irr k = true ->
     label_op irr B i o = Add (B + 1 + Z.of_nat i) v /\
     forall j o', j <> i -> nth_error (label irr B ops) j = Some o' -> op_key o' <> Some (B + 1 + Z.of_nat i)) /\
  (forall k, o = Get k \/ o = Remove k -> irr k = true ->
     op_key (label_op irr B i o) = Some B /\
     forall j v', nth_error (label irr B ops) j <> Some (Add B v')) /\
  ((forall k, op_key o = Some k -> irr k = false) -> label_op irr B i o = o).
Proof. exact labels_fresh. Qed.
Print Assumptions C07n_labels_fresh.

(* a bound exists for every history *)
Theorem C07n_bound_exists : forall ops, bounded (bound_of ops) ops.
Proof. exact bound_of_bounded. Qed.
Print Assumptions C07n_bound_exists.

(* ---- the master statement: the run is the erasure of a run that meets the
        statement of C07 (C07_Model.trace_ok: every call conforms to the ledger of
        the calls before it, Count() is the number of present keys, at most cap),
        in which every entry with an irreflexive key has an identity of its own ---- *)
Theorem C07n_trace_meets_statement : forall irr B cap d ops,
  bounded B ops -> d_new cap = Ok d ->
  run_dn irr d ops = erase_run B ops (run_dll d (label irr B ops)) /\
  trace_ok cap 0 l_empty (trace_of (label irr B ops) (run_dll d (label irr B ops))).
Proof. exact n_trace_meets. Qed.
Print Assumptions C07n_trace_meets_statement.

(* ---- clause by clause ---- *)

(* "Count never exceeds n" *)
Theorem C07n_count_le_cap : forall irr cap d ops,
  d_new cap = Ok d -> 0 <= d_count (final (dn_step irr) ops d) <= cap.
Proof. exact n_count_bounds. Qed.
Print Assumptions C07n_count_le_cap.

(* an irreflexive key is never found, in ANY state: Get and Remove miss and leave
   the cache as it was *)
Theorem C07n_irreflexive_never_found : forall irr k d,
  irr k = true -> dn_step irr (Get k) d = (d, none2) /\ dn_step irr (Remove k) d = (d, none2).
Proof. exact n_irr_never_found. Qed.
Print Assumptions C07n_irreflexive_never_found.

(* "a lookup finds a key exactly when an ==-equal key was added and not since
   removed or evicted, and returns its latest value": for a reflexive key the
   ledger of the observed trace itself decides; for an irreflexive key never *)
Theorem C07n_lookup_iff_present : forall irr cap d ops k,
  d_new cap = Ok d ->
  snd (dn_step irr (Get k) (final (dn_step irr) ops d)) =
  match (if irr k then None else ledger_n irr d ops k) with Some (_, v) => VB v true | None => none2 end.
Proof. exact n_lookup. Qed.
Print Assumptions C07n_lookup_iff_present.

(* "Adding a new key to a full cache evicts, and returns, exactly the entry
   touched least recently": an Add of an irreflexive key ALWAYS counts as new
   (its label is not in the ledger) — on a full cache it evicts and returns
   exactly the least recently touched entry, otherwise nothing *)
Theorem C07n_add_irreflexive_is_new : forall irr B cap d ops k v,
  bounded B (ops ++ [Add k v]) -> irr k = true -> d_new cap = Ok d ->
  let L := ledger_lab irr B d ops in
  let r := snd (dn_step irr (Add k v) (final (dn_step irr) ops d)) in
  L (B + 1 + Z.of_nat (length ops)) = None /\
  (card L cap -> exists ek ev, oldest L ek ev /\ r = KVB (erase_key B (ops ++ [Add k v]) ek) ev true) /\
  (forall n, card L n -> n < cap -> r = none3).
Proof. exact n_add_irreflexive. Qed.
Print Assumptions C07n_add_irreflexive_is_new.

(* "the oldest/youngest accessors and removers always designate the least/most
   recently touched entry" — entries with irreflexive keys included (they are the
   labels of the ledger), and report false exactly on the empty cache *)
Theorem C07n_oldest_youngest_designate : forall irr B cap d ops o,
  bounded B ops -> d_new cap = Ok d ->
  let L := ledger_lab irr B d ops in
  let r := snd (dn_step irr o (final (dn_step irr) ops d)) in
  (o = GetOldest \/ o = RemoveOldest ->
     (vacant L /\ r = none3) \/ (exists k v, oldest L k v /\ r = KVB (erase_key B ops k) v true)) /\
  (o = GetYoungest \/ o = RemoveYoungest ->
     (vacant L /\ r = none3) \/ (exists k v, youngest L k v /\ r = KVB (erase_key B ops k) v true)).
Proof. exact n_designate. Qed.
Print Assumptions C07n_oldest_youngest_designate.

(* ---- the leak: the removers and the eviction unlink the node of an entry with
        an irreflexive key but cannot delete its map entry.  Capacity 1, keys < 0
        irreflexive: after Add -5; Add -5; Add 7; Add -5; RemoveOldest the cache
        is empty (Count() = 0, every result as the statement demands) and the map
        still holds 3 entries.  Count() must therefore read the list, not the map
        (seeded change C07-3 reads len(c.items)). ---- *)
Theorem C07n_map_leaks :
  exists d, d_new 1 = Ok d /\
    let ops := [Add (-5) 101; Add (-5) 102; Add 7 103; Add (-5) 104; RemoveOldest] in
    let s := final (dn_step (irr_below (-1))) ops d in
    d_count s = 0 /\ length (d_items s) = 3%nat /\
    run_dn (irr_below (-1)) d ops = [(none3, 1); (KVB (-5) 101 true, 1); (KVB (-5) 102 true, 1); (KVB 7 103 true, 1); (KVB (-5) 104 true, 0)].
Proof. exact n_map_leaks. Qed.
Print Assumptions C07n_map_leaks.

(* ---- non-vacuity: a bounded history with irreflexive keys (keys < 0), its
        labelling, and its run — a Get hit that reorders, an eviction of an
        entry with an irreflexive key, misses on the irreflexive key ---- *)
Example C07n_ex_history :
  let irr := irr_below (-1) in
  let ops := [Add (-5) 101; Add 1 102; Get 1; Add (-5) 103; Get (-5); Add 2 104; Remove (-5); GetOldest; RemoveYoungest] in
  bounded 6 ops /\
  label irr 6 ops = [Add 7 101; Add 1 102; Get 1; Add 10 103; Get 6; Add 2 104; Remove 6; GetOldest; RemoveYoungest] /\
  exists d, d_new 2 = Ok d /\
  run_dn irr d ops =
    [(none3, 1); (none3, 2); (VB 102 true, 2); (KVB (-5) 101 true, 2); (none2, 2); (KVB 1 102 true, 2); (none2, 2);
     (KVB (-5) 103 true, 2); (KVB (-5) 103 true, 1)] /\
  run_dll d (label irr 6 ops) =
    [(none3, 1); (none3, 2); (VB 102 true, 2); (KVB 7 101 true, 2); (none2, 2); (KVB 1 102 true, 2); (none2, 2);
     (KVB 10 103 true, 2); (KVB 10 103 true, 1)].
Proof.
  cbv zeta. split; [|split; [reflexivity|]].
  - split; [lia|]. intros o k Hin Hk. repeat (destruct Hin as [<-|Hin]; [cbn in Hk; try discriminate; injection Hk as <-; lia|]). destruct Hin.
  - eexists. split; [reflexivity|]. split; vm_compute; reflexivity.
Qed.
