(* C07_Wire.v — wire glue for C07 (no proofs; exercised by the correspondence).

   input    = cap :: nkeys :: concat [code; k; v]          (3-wide op records)
              code 0 Add(k,v) 1 Get(k) 2 GetOldest 3 GetYoungest 4 Remove(k)
                   5 RemoveOldest 6 RemoveYoungest 7 Flush
   observed = [1; 1]                                        NewLRU(cap) returned an error
            | 0 :: per-op results ++ drain ++ gets ++ [Count()]
     per-op : Add/GetOldest/GetYoungest/RemoveOldest/RemoveYoungest  [key; value; ok; Count()]
              Get/Remove [value; ok; Count()]     Flush [Count()]
     drain  : RemoveOldest repeated until it reports false, at most (#ops + 2)
              times, each [key; value; ok; Count()]; [-1] if the bound was hit
     gets   : Get(k) for k = 0 .. nkeys-1, each [value; ok]

   The reported model run (c07_run) is the pointer-level one (C07_Dll.v);
   c07_agree compares the implementation with it AND (histories of at most
   2000 calls) with Layer 1.

   Irreflexive keys (C07_NaN.v).  The harness runs the cases whose nkeys word is
   9, 10 or 11 on key types that admit keys with k != k — LRUCache[float64,int],
   LRUCache[any,int], LRUCache[struct{K int; F float64},int] — and every key code
   k <= -1000001 of such a case is a NaN (float64 NaN, or an interface / struct
   holding one; the code keeps the NaN's payload apart, -1000001 - payload).  For
   these cases the model is dn_step with irr k := k <= -1000001 and the property is
   judged against the reference machine specn_step with the same irr.  For every
   other nkeys word nothing changes (there -1000001 and below are ordinary
   integers, e.g. the "far" key layout). *)

From Gogu Require Import Base C07_Model C07_Dll C07_NaN.
Local Open Scope Z_scope.

Definition b01 (b : bool) : Z := if b then 1 else 0.

Definition enc_out (r : out) : list Z :=
  match r with
  | KVB k v b => [k; v; b01 b]
  | VB v b => [v; b01 b]
  | Unit => []
  end.

Definition dec_op (c : list Z) : option op :=
  match c with
  | [code; k; v] =>
      match code with
      | 0 => Some (Add k v)
      | 1 => Some (Get k)
      | 2 => Some GetOldest
      | 3 => Some GetYoungest
      | 4 => Some (Remove k)
      | 5 => Some RemoveOldest
      | 6 => Some RemoveYoungest
      | 7 => Some Flush
      | _ => None
      end
  | _ => None
  end.

Fixpoint dec_ops (cs : list (list Z)) : option (list op) :=
  match cs with
  | [] => Some []
  | c :: cs' =>
      match dec_op c, dec_ops cs' with
      | Some o, Some os => Some (o :: os)
      | _, _ => None
      end
  end.

Section Observe.
  Context {St : Type} (step : op -> St -> St * out) (cnt : St -> Z).

  Fixpoint obs_ops (ops : list op) (s : St) : St * list Z :=
    match ops with
    | [] => (s, [])
    | o :: ops' =>
        let (s', r) := step o s in
        let (s'', w) := obs_ops ops' s' in
        (s'', enc_out r ++ [cnt s'] ++ w)
    end.

  Fixpoint obs_drain (fuel : nat) (s : St) : St * list Z :=
    match fuel with
    | O => (s, [-1])
    | S f =>
        let (s', r) := step RemoveOldest s in
        match r with
        | KVB _ _ true =>
            let (s'', w) := obs_drain f s' in (s'', enc_out r ++ [cnt s'] ++ w)
        | _ => (s', enc_out r ++ [cnt s'])
        end
    end.

  Fixpoint obs_gets (n : nat) (k : Z) (s : St) : St * list Z :=
    match n with
    | O => (s, [])
    | S n' =>
        let (s', r) := step (Get k) s in
        let (s'', w) := obs_gets n' (k + 1) s' in
        (s'', enc_out r ++ w)
    end.

  Definition observe (nkeys : nat) (ops : list op) (s : St) : list Z :=
    let (s1, w1) := obs_ops ops s in
    let (s2, w2) := obs_drain (length ops + 2) s1 in
    let (s3, w3) := obs_gets nkeys 0 s2 in
    0 :: w1 ++ w2 ++ w3 ++ [cnt s3].
End Observe.

(* decode, then observe a machine given by its constructor, step and Count *)
Definition run_with {St : Type} (mk : Z -> res St) (step : op -> St -> St * out) (cnt : St -> Z)
    (w : list Z) : list Z :=
  match w with
  | cap :: nk :: rest =>
      if (nk <? 0) || (nk >? 1000) then wire_error else
      match dec_ops (chunks 3 rest) with
      | Some ops =>
          match mk cap with
          | Ok s => observe step cnt (Z.to_nat nk) ops s
          | Err k => [1; k]
          | Panic => [2]
          end
      | None => wire_error
      end
  | _ => wire_error
  end.

(* cases with irreflexive keys: selected by the nkeys word *)
Definition c07_nan_top : Z := -1000001.
Definition c07_irr : Z -> bool := irr_below c07_nan_top.
Definition c07_nan_case (w : list Z) : bool :=
  match w with
  | _ :: nk :: _ => (9 <=? nk) && (nk <=? 11)
  | _ => false
  end.

(* the model: the pointer-level transcription (over the Go map with
   irreflexive keys for the cases that have them) *)
Definition c07_run (w : list Z) : list Z :=
  if c07_nan_case w then run_with d_new (dn_step c07_irr) d_count w
  else run_with d_new d_step d_count w.

(* Layer 1 and the reference machine on the same wire (used by c07_holds and by
   the examples of C07_Props.v; C07_Props proves all three coincide) *)
Definition c07_run_l1 (w : list Z) : list Z := run_with new_lru step count w.
Definition spec_new (cap : Z) : res (Z * rl) := if cap <=? 0 then Err 1 else Ok (cap, []).
Definition c07_run_spec (w : list Z) : list Z :=
  run_with spec_new
    (fun o s => let (l', r) := spec_step (fst s) o (snd s) in ((fst s, l'), r))
    (fun s => spec_count (snd s)) w.

(* Correspondence: the implementation's observation must be the one of BOTH
   executable transcriptions — the pointer-level heap model (c07_run, C07_Dll.v)
   and Layer 1 (c07_run_l1, C07_Model.v).  (They coincide by
   C07_dll_refines_lru; running both ties each layer to the code separately.)

   The pointer-level model is compared on EVERY case.  Layer 1 is compared on
   every case of at most 2000 calls (all exhaustive, random, malformed and
   corpus cases, and every "large" history up to that length): Layer 1 names
   nodes by unary numbers and finds a node by comparing names along the list,
   so one call costs (entries x allocations so far) — 17-29 s for a single
   4000-call history at capacity 1000, against < 2 s for the heap model.  On
   the longer histories the implementation is tied to the heap model only (and
   judged against the reference machine by c07_holds, as everywhere). *)
Definition c07_l1_max_words : nat := (2 + 3 * 2000)%nat.   (* cap, nkeys, 2000 x [code; k; v] *)
Definition c07_l1_compared (w : list Z) : bool := Nat.leb (length w) c07_l1_max_words.
(* the reference machine with irreflexive keys on the same wire *)
Definition c07_run_specn (w : list Z) : list Z :=
  run_with spec_new
    (fun o s => let (l', r) := specn_step c07_irr (fst s) o (snd s) in ((fst s, l'), r))
    (fun s => spec_count (snd s)) w.

(* (Layer 1 has no irreflexive-key version: those cases are compared with the
   pointer-level model only.) *)
Definition c07_agree (w obs : list Z) : bool :=
  if zlist_eqb obs (c07_run w)
  then (if c07_nan_case w then true
        else if c07_l1_compared w then zlist_eqb obs (c07_run_l1 w) else true)
  else false.

(* The property is judged against the SPECIFICATION machine (a recency list
   with capacity), not against the transcription of the code: C07 determines
   every return value and every Count() uniquely (C07_Props: the trace of the
   reference machine is the only one that [conforms] to its own ledger), so on
   one observation the property holds iff the observation is the reference
   machine's. *)
Definition c07_holds (w obs : list Z) : bool :=
  zlist_eqb obs (if c07_nan_case w then c07_run_specn w else c07_run_spec w).
