(* C08_Model.v — executable model of /repo/cache/cache.go (the expiring cache),
   transcribed statement by statement from the Go code as it is in /repo now:
   AFTER the four small repairs of fixes/builder-c08 (DESIGN §7 #10–#13) and
   after commit 8bf6dc1 (Set and Update take the write lock themselves and call
   the unexported, lock-free [get] and [add]; the exported Get is RLock + get).
   The four functions as they were shipped are kept at the end ([*_shipped])
   for the refutation witnesses.  No proofs in this file.

   Go function (cache/cache.go)         Gallina
     New            57-70               [new]  (+ the goroutine: [tick])
     Set            74-86               [set2] / [set]
     SetDefault     89-91               [set_default]
     add            97-127              [add2] / [add], deadline: [exp_of]
     Get            132-137             [get]  (RLock; return c.get(key))
     get            140-151             [get]
     Update         163-172             [update2] / [update]
     Delete/delete  175-191             [delete] / [delete_]
     DeleteExpired  194-211             [delete_expired]
     Flush          214-218             [flush]
     List           221-233             [list_]   (a snapshot copy of the map)
     Count          236-242             [count]
     MapToCache     245-254             [map_to_cache]
     IsExpired      257-265             [is_expired]
     cleanup        268-280             [tick]

   Conventions (DESIGN §3, CONTRIBUTING §1)
   * K ~string           ↦ Z (an opaque comparable key)
   * V any               ↦ a type parameter [V]; the `switch any(val).(type) case
                           string: len == 0` test of [add] is the parameter
                           [rejects : V -> bool] (V = string: "is the empty
                           string"; any other V: constantly false)
   * map[K]*Item[V]      ↦ association list without duplicate keys
                           ([al_put] overwrites in place or appends, [al_del]
                           filters); nothing depends on the order except the
                           order in which [List] is printed (sorted on the wire)
   * the RWMutex         ↦ nothing: every exported method holds the lock (write
                           lock: Set Update Delete DeleteExpired Flush; read
                           lock: Get List Count IsExpired) for its whole body,
                           so calls are atomic; MapToCache is a sequence of
                           Sets (it takes no lock itself).  That calls of
                           different goroutines (the janitor!) interleave only
                           as whole calls is what the controlled-scheduler stage
                           of ./check C08 tests on the real code.
   * time.Now().UnixNano ↦ the argument [now : Z] of every operation that reads
                           the clock.  Clock reads, in program order:
                             get        one, and only if the key is stored with
                                        a positive deadline (line 143)
                             add        one iff the effective duration is > 0
                                        (line 104), then get's (line 109)
                             Set/Update get's (80/167), then add's two
                             DeleteExpired  one, BEFORE taking the lock (197)
                             IsExpired  one, only for a stored positive deadline
                           [set2]/[update2]/[add2] name the instants separately;
                           [set]/[update]/[add] give the whole call one instant
                           — see C08_Props.C08_set_two_clock_readings for why
                           the difference is invisible unless a deadline of the
                           SAME key falls between the reads
   * time.Duration       ↦ Z nanoseconds (an int64 in Go: the theorems that
                           depend on it assume durations <= MaxInt64).
                           time.Now().Add(d).UnixNano() is [wrap64 (now + d)]:
                           Time.Add keeps seconds and nanoseconds apart and
                           does not overflow for |d| < 292 years, UnixNano then
                           computes sec*1e9+nsec in int64 and WRAPS AROUND
                           (measured on the real code: Set(k,v,MaxInt64) stores
                           now+MaxInt64-2^64 < 0).  A wrapped deadline is
                           negative, and every test on a deadline is guarded by
                           `expiration > 0`, so such an entry never expires —
                           which is what the property asks of an entry whose
                           deadline lies beyond the last representable instant.
   * errors              ↦ option Z (None = nil), small enum below
   * (item, err) of get  ↦ a pair of options, so that the `item != nil && err
                           != nil` tests can be transcribed literally
   * the cleanup goroutine ↦ the operation [tick]: DeleteExpired at an
                           arbitrary instant, only when cleanupInt > 0 *)

From Gogu Require Import Base.
Local Open Scope Z_scope.

Definition NoExpiration : Z := -1.
Definition DefaultExpiration : Z := 0.

(* int64 arithmetic: the value an int64 addition/multiplication leaves *)
Definition max_i64 : Z := 9223372036854775807.
Definition wrap64 (z : Z) : Z :=
  if (-9223372036854775808 <=? z) && (z <=? max_i64) then z   (* (the same value, without a division) *)
  else (z + 9223372036854775808) mod 18446744073709551616 - 9223372036854775808.

(* error enum *)
Definition E_EXISTS : Z := 1.     (* "item with key '%v' already exists…"      Set / add *)
Definition E_EMPTY : Z := 2.      (* "value of type string cannot be empty"     add *)
Definition E_EXPIRED : Z := 3.    (* "item with key '%v' expired"               Get *)
Definition E_NOTFOUND : Z := 4.   (* "item with key '%v' not found"             Get *)
Definition E_NOKEY : Z := 5.      (* "item with key '%v' does not exists"       delete *)
Definition E_JOINED : Z := 6.     (* a non-nil errors.Join(...)                 MapToCache / DeleteExpired *)

(* ---------- Go maps as association lists ---------- *)

Section AList.
  Context {B : Type}.
  Fixpoint al_get (k : Z) (m : list (Z * B)) : option B :=
    match m with
    | [] => None
    | (k', b) :: m' => if k =? k' then Some b else al_get k m'
    end.
  (* m[k] = b *)
  Fixpoint al_put (k : Z) (b : B) (m : list (Z * B)) : list (Z * B) :=
    match m with
    | [] => [(k, b)]
    | (k', b') :: m' => if k =? k' then (k, b) :: m' else (k', b') :: al_put k b m'
    end.
  (* delete(m, k) *)
  Definition al_del (k : Z) (m : list (Z * B)) : list (Z * B) :=
    filter (fun e => negb (fst e =? k)) m.
End AList.

Definition is_some {A} (o : option A) : bool := match o with Some _ => true | None => false end.

(* errors.Join(a, b): nil iff both are nil *)
Definition join (a b : option Z) : option Z :=
  match a, b with None, None => None | _, _ => Some E_JOINED end.

Section Cache.
  Variable V : Type.
  Variable rejects : V -> bool.

  Record item := mkItem { object : V; expiration : Z }.
  Definition imap := list (Z * item).
  Record cache := mkCache { items : imap; expTime : Z; cleanupInt : Z }.

  Definition with_items (c : cache) (m : imap) : cache := mkCache m (expTime c) (cleanupInt c).

  (* New(expTime, cleanupTime) *)
  Definition new (e ci : Z) : cache := mkCache [] e ci.

  (* get (unexported, caller holds the lock): cache.go:140-151; the exported
     Get (132-137) is RLock + get.  [now] is read only in the branch
     `item.expiration > 0` (line 143). *)
  Definition get (c : cache) (key now : Z) : option item * option Z :=
    match al_get key (items c) with
    | Some it =>
        if expiration it >? 0 then
          if now >? expiration it then (None, Some E_EXPIRED) else (Some it, None)
        else (Some it, None)
    | None => (None, Some E_NOTFOUND)
    end.

  (* the deadline computed at the top of add: cache.go:98-107
       var exp int64                                      (0)
       if d == DefaultExpiration { d = c.expTime }
       if d > 0 { exp = time.Now().Add(d).UnixNano() }    (int64: wraps around)
       else if d < 0 { exp = int64(NoExpiration) } *)
  Definition exp_of (c : cache) (d now : Z) : Z :=
    let d := if d =? DefaultExpiration then expTime c else d in
    if d >? 0 then wrap64 (now + d)
    else if d <? 0 then NoExpiration
    else 0.

  (* add (unexported, caller holds the write lock): cache.go:97-127.  [tadd] is
     the instant of its time.Now() (line 104), [tget] the instant of the get it
     performs afterwards (line 109; its result only feeds a check that can
     never fire: get never returns an item together with an error), then the
     empty-string test (114-119), then the store (121-124). *)
  Definition add2 (c : cache) (key : Z) (val : V) (d tadd tget : Z) : cache * option Z :=
    let exp := exp_of c d tadd in
    let '(it, err) := get c key tget in
    if is_some it && is_some err then (c, Some E_EXISTS)
    else if rejects val then (c, Some E_EMPTY)
    else (with_items c (al_put key (mkItem val exp) (items c)), None).

  Definition add (c : cache) (key : Z) (val : V) (d now : Z) : cache * option Z :=
    add2 c key val d now now.

  (* Set (after repair #10: the error of add is returned; after 8bf6dc1: one
     write-lock acquisition around get and add): cache.go:74-86.
       item, err := c.get(key)              reads the clock at [tget] iff stored with a deadline
       if item != nil && err == nil { return "already exists" }
       return c.add(key, val, d)            deadline from [tadd], then get again at [tadd] or later *)
  Definition set2 (c : cache) (key : Z) (val : V) (d tget tadd : Z) : cache * option Z :=
    let '(it, err) := get c key tget in
    if is_some it && negb (is_some err) then (c, Some E_EXISTS)
    else add2 c key val d tadd tadd.

  Definition set (c : cache) (key : Z) (val : V) (d now : Z) : cache * option Z :=
    set2 c key val d now now.

  (* SetDefault *)
  Definition set_default (c : cache) (key : Z) (val : V) (now : Z) : cache * option Z :=
    set c key val DefaultExpiration now.

  (* Update: cache.go:163-172 (write lock; get; the dead test `item != nil &&
     err != nil`; add) *)
  Definition update2 (c : cache) (key : Z) (val : V) (d tget tadd : Z) : cache * option Z :=
    let '(it, err) := get c key tget in
    if is_some it && is_some err then (c, err)
    else add2 c key val d tadd tadd.

  Definition update (c : cache) (key : Z) (val : V) (d now : Z) : cache * option Z :=
    update2 c key val d now now.

  (* delete (unexported): cache.go:183-191, and Delete: 175-180 *)
  Definition delete_ (m : imap) (key : Z) : imap * option Z :=
    match al_get key m with
    | Some _ => (al_del key m, None)
    | None => (m, Some E_NOKEY)
    end.

  Definition delete (c : cache) (key : Z) : cache * option Z :=
    let '(m, e) := delete_ (items c) key in (with_items c m, e).

  (* the purge test of DeleteExpired after repair #13 — the test Get uses *)
  Definition purgeable (it : item) (now : Z) : bool :=
    (expiration it >? 0) && (now >? expiration it).

  (* DeleteExpired (after repairs #13 and #11): cache.go:194-211.  One clock
     reading (line 197, before the lock is taken), then a range over the map
     deleting the purgeable entries and joining delete's errors *)
  Definition delete_expired (c : cache) (now : Z) : cache * option Z :=
    let '(m, err) :=
      fold_left (fun (acc : imap * option Z) (e : Z * item) =>
                   if purgeable (snd e) now then
                     let '(m', er) := delete_ (fst acc) (fst e) in
                     (m', match er with Some _ => join (snd acc) er | None => snd acc end)
                   else acc)
                (items c) (items c, None) in
    (with_items c m, err).

  (* Flush 214-218, List 221-233 (a copy of the map: expired-but-unpurged
     entries included), Count 236-242 *)
  Definition flush (c : cache) : cache := with_items c [].
  Definition list_ (c : cache) : imap := items c.
  Definition count (c : cache) : Z := Z.of_nat (length (items c)).

  (* MapToCache (after repair #11): cache.go:245-254.  Set for every entry of
     the Go map, in the order the runtime iterates ([m] lists the entries in
     that order); every Set takes the lock and reads the clock by itself — the
     model gives them one instant, the harness uses MapToCache with several
     entries only where that cannot matter (no deadline stored or consulted) *)
  Definition map_to_cache (c : cache) (m : list (Z * V)) (d now : Z) : cache * option Z :=
    fold_left (fun (acc : cache * option Z) (kv : Z * V) =>
                 let '(c', e) := set (fst acc) (fst kv) (snd kv) d now in
                 (c', join (snd acc) e))
              m (c, None).

  (* IsExpired (after repair #12): cache.go:257-265 *)
  Definition is_expired (c : cache) (key now : Z) : bool :=
    match al_get key (items c) with
    | Some it => (expiration it >? 0) && (now >? expiration it)
    | None => false
    end.

  (* one firing of the cleanup goroutine's ticker (cache.go:268-280: on every
     tick.C, c.DeleteExpired(), result dropped); the goroutine exists only when
     cleanupInt > 0 (New, line 61) *)
  Definition tick (c : cache) (now : Z) : cache :=
    if cleanupInt c >? 0 then fst (delete_expired c now) else c.

  (* ---------- histories ---------- *)

  Inductive op :=
  | OSet (k : Z) (v : V) (d : Z)
  | OSetDefault (k : Z) (v : V)
  | OUpdate (k : Z) (v : V) (d : Z)
  | OGet (k : Z)
  | ODelete (k : Z)
  | ODeleteExpired
  | OFlush
  | OList
  | OCount
  | OMapToCache (m : list (Z * V)) (d : Z)
  | OIsExpired (k : Z)
  | OTick.

  Inductive out :=
  | RErr (e : option Z)
  | RGet (r : option item * option Z)
  | RList (l : imap)
  | RCount (n : Z)
  | RBool (b : bool)
  | RUnit.

  Definition step (c : cache) (o : op) (now : Z) : cache * out :=
    match o with
    | OSet k v d => let '(c', e) := set c k v d now in (c', RErr e)
    | OSetDefault k v => let '(c', e) := set_default c k v now in (c', RErr e)
    | OUpdate k v d => let '(c', e) := update c k v d now in (c', RErr e)
    | OGet k => (c, RGet (get c k now))
    | ODelete k => let '(c', e) := delete c k in (c', RErr e)
    | ODeleteExpired => let '(c', e) := delete_expired c now in (c', RErr e)
    | OFlush => (flush c, RUnit)
    | OList => (c, RList (list_ c))
    | OCount => (c, RCount (count c))
    | OMapToCache m d => let '(c', e) := map_to_cache c m d now in (c', RErr e)
    | OIsExpired k => (c, RBool (is_expired c k now))
    | OTick => (tick c now, RUnit)
    end.

  (* a history is a list of operations, each with the instant at which it runs *)
  Fixpoint run (c : cache) (ops : list (op * Z)) : cache * list out :=
    match ops with
    | [] => (c, [])
    | (o, now) :: r =>
        let '(c', x) := step c o now in
        let '(c'', xs) := run c' r in
        (c'', x :: xs)
    end.

  (* ---------- reference machine: a map with per-entry deadlines ----------
     State: key ↦ (value, deadline), deadline = None for "never expires".
     Results: values, error yes/no.  This is the specification the property
     text describes; C08_Props.C08_refines_spec ties the model to it. *)

  Definition sentry := (V * option Z)%type.
  Definition smap := list (Z * sentry).
  Record spec := mkSpec { sm : smap; s_default : Z; s_cleanup : Z }.
  Definition s_with (s : spec) (m : smap) : spec := mkSpec m (s_default s) (s_cleanup s).
  Definition spec_new (e ci : Z) : spec := mkSpec [] e ci.

  (* live: stored, and not past its deadline *)
  Definition e_live (e : sentry) (now : Z) : bool :=
    match snd e with None => true | Some dl => now <=? dl end.
  Definition s_live (s : spec) (k now : Z) : bool :=
    match al_get k (sm s) with Some e => e_live e now | None => false end.

  (* the deadline of an entry stored at [now] with duration argument [d].
     Instants are int64 nanoseconds: a deadline beyond the last representable
     instant (MaxInt64 = 11 April 2262) is no deadline — no instant is past it. *)
  Definition deadline_of (s : spec) (d now : Z) : option Z :=
    let d' := if d =? 0 then s_default s else d in
    if d' >? 0 then (if now + d' <=? max_i64 then Some (now + d') else None) else None.

  Inductive sout :=
  | SErr (failed : bool)
  | SGet (r : option V)
  | SList (l : list (Z * V))
  | SCount (n : Z)
  | SBool (b : bool)
  | SUnit.

  Definition s_store (s : spec) (k : Z) (v : V) (d now : Z) : spec * bool :=
    if rejects v then (s, true)
    else (s_with s (al_put k (v, deadline_of s d now) (sm s)), false).

  Definition s_set (s : spec) (k : Z) (v : V) (d now : Z) : spec * bool :=
    if s_live s k now then (s, true) else s_store s k v d now.

  Definition s_purge (s : spec) (now : Z) : spec :=
    s_with s (filter (fun e => e_live (snd e) now) (sm s)).

  Definition spec_step (s : spec) (o : op) (now : Z) : spec * sout :=
    match o with
    | OSet k v d => let '(s', f) := s_set s k v d now in (s', SErr f)
    | OSetDefault k v => let '(s', f) := s_set s k v 0 now in (s', SErr f)
    | OUpdate k v d => let '(s', f) := s_store s k v d now in (s', SErr f)
    | OGet k =>
        (s, SGet (match al_get k (sm s) with
                  | Some e => if e_live e now then Some (fst e) else None
                  | None => None
                  end))
    | ODelete k =>
        match al_get k (sm s) with
        | Some _ => (s_with s (al_del k (sm s)), SErr false)
        | None => (s, SErr true)
        end
    | ODeleteExpired => (s_purge s now, SErr false)
    | OFlush => (s_with s [], SUnit)
    | OList => (s, SList (map (fun e => (fst e, fst (snd e))) (sm s)))
    | OCount => (s, SCount (Z.of_nat (length (sm s))))
    | OMapToCache m d =>
        let '(s', f) :=
          fold_left (fun (acc : spec * bool) (kv : Z * V) =>
                       let '(s1, f1) := s_set (fst acc) (fst kv) (snd kv) d now in
                       (s1, snd acc || f1))
                    m (s, false) in
        (s', SErr f)
    | OIsExpired k =>
        (s, SBool (match al_get k (sm s) with Some e => negb (e_live e now) | None => false end))
    | OTick => (if s_cleanup s >? 0 then s_purge s now else s, SUnit)
    end.

  Fixpoint spec_run (s : spec) (ops : list (op * Z)) : spec * list sout :=
    match ops with
    | [] => (s, [])
    | (o, now) :: r =>
        let '(s', x) := spec_step s o now in
        let '(s'', xs) := spec_run s' r in
        (s'', x :: xs)
    end.

  (* abstraction: model state ↦ spec state, model result ↦ spec result *)
  Definition abs_item (it : item) : sentry :=
    (object it, if expiration it >? 0 then Some (expiration it) else None).
  Definition abs (c : cache) : spec :=
    mkSpec (map (fun e => (fst e, abs_item (snd e))) (items c)) (expTime c) (cleanupInt c).
  Definition project (x : out) : sout :=
    match x with
    | RErr e => SErr (is_some e)
    | RGet r => SGet (match fst r with Some it => Some (object it) | None => None end)
    | RList l => SList (map (fun e => (fst e, object (snd e))) l)
    | RCount n => SCount n
    | RBool b => SBool b
    | RUnit => SUnit
    end.

  (* ---------- the four functions as shipped (before the repairs) ---------- *)

  (* #10: Set drops add's error *)
  Definition set_shipped (c : cache) (key : Z) (val : V) (d now : Z) : cache * option Z :=
    let '(it, err) := get c key now in
    if is_some it && negb (is_some err) then (c, Some E_EXISTS)
    else (fst (add c key val d now), None).

  (* errors.Unwrap of a value built by errors.Join (or of nil) is nil *)
  Definition unwrap_joined (e : option Z) : option Z := None.

  (* #13: the purge test `now > exp && exp != NoExpiration`; #11: Unwrap *)
  Definition delete_expired_shipped (c : cache) (now : Z) : cache * option Z :=
    let '(m, err) :=
      fold_left (fun (acc : imap * option Z) (e : Z * item) =>
                   if (now >? expiration (snd e)) && negb (expiration (snd e) =? NoExpiration) then
                     let '(m', er) := delete_ (fst acc) (fst e) in
                     (m', match er with Some _ => join (snd acc) er | None => snd acc end)
                   else acc)
                (items c) (items c, None) in
    (with_items c m, unwrap_joined err).

  (* #11: MapToCache returns errors.Unwrap(joined) *)
  Definition map_to_cache_shipped (c : cache) (m : list (Z * V)) (d now : Z) : cache * option Z :=
    let '(c', e) :=
      fold_left (fun (acc : cache * option Z) (kv : Z * V) =>
                   let '(c', e) := set_shipped (fst acc) (fst kv) (snd kv) d now in
                   (c', join (snd acc) e))
                m (c, None) in
    (c', unwrap_joined e).

  (* #12: IsExpired needs Get to return an item AND an error *)
  Definition is_expired_shipped (c : cache) (key now : Z) : bool :=
    let '(it, err) := get c key now in
    match it, err with
    | Some i, Some _ => expiration i >? now
    | _, _ => false
    end.

End Cache.

Arguments mkItem {V}.
Arguments object {V}.
Arguments expiration {V}.
Arguments mkCache {V}.
Arguments items {V}.
Arguments expTime {V}.
Arguments cleanupInt {V}.
Arguments with_items {V}.
Arguments new {V}.
Arguments get {V}.
Arguments exp_of {V}.
Arguments delete_ {V}.
Arguments delete {V}.
Arguments purgeable {V}.
Arguments delete_expired {V}.
Arguments flush {V}.
Arguments list_ {V}.
Arguments count {V}.
Arguments is_expired {V}.
Arguments tick {V}.
Arguments OGet {V}.
Arguments ODelete {V}.
Arguments ODeleteExpired {V}.
Arguments OFlush {V}.
Arguments OList {V}.
Arguments OCount {V}.
Arguments OIsExpired {V}.
Arguments OTick {V}.
Arguments RErr {V}.
Arguments RGet {V}.
Arguments RList {V}.
Arguments RCount {V}.
Arguments RBool {V}.
Arguments RUnit {V}.
Arguments mkSpec {V}.
Arguments sm {V}.
Arguments s_default {V}.
Arguments s_cleanup {V}.
Arguments spec_new {V}.
Arguments e_live {V}.
Arguments s_live {V}.
Arguments deadline_of {V}.
Arguments s_purge {V}.
Arguments abs_item {V}.
Arguments abs {V}.
Arguments project {V}.
Arguments SErr {V}.
Arguments SGet {V}.
Arguments SList {V}.
Arguments SCount {V}.
Arguments SBool {V}.
Arguments SUnit {V}.
Arguments delete_expired_shipped {V}.
Arguments is_expired_shipped {V}.
Arguments unwrap_joined : clear implicits.
