(* C08_Proofs.v — lemmas about the model of C08_Model.v.
   Part 1: association lists.  Part 2: the operations one by one.
   Part 3: histories (invariants, lifetime of an entry, refinement, janitor). *)

From Gogu Require Import Base C08_Model.
From Coq Require Import Permutation.
Local Open Scope Z_scope.

(* ================================================================= *)
(* Part 1: association lists                                          *)
(* ================================================================= *)

Section AListFacts.
  Context {B : Type}.
  Implicit Types (m : list (Z * B)) (k : Z) (b : B).

  Definition keys m : list Z := map fst m.

  Lemma al_get_put_same : forall m k b, al_get k (al_put k b m) = Some b.
  Proof.
    induction m as [|[k' b'] m IH]; intros k b; cbn.
    - now rewrite Z.eqb_refl.
    - destruct (k =? k') eqn:E; cbn; rewrite ?Z.eqb_refl, ?E; auto.
  Qed.

  Lemma al_get_put_other : forall m k k' b, k <> k' -> al_get k (al_put k' b m) = al_get k m.
  Proof.
    induction m as [|[k0 b0] m IH]; intros k k' b Hne; cbn.
    - destruct (k =? k') eqn:E; [apply Z.eqb_eq in E; contradiction|reflexivity].
    - destruct (k' =? k0) eqn:E; cbn.
      + apply Z.eqb_eq in E; subst k0.
        destruct (k =? k') eqn:E2; [apply Z.eqb_eq in E2; contradiction|reflexivity].
      + destruct (k =? k0); auto.
  Qed.

  Lemma al_get_del_same : forall m k, al_get k (al_del k m) = None.
  Proof.
    induction m as [|[k0 b0] m IH]; intros k; cbn; [reflexivity|].
    destruct (k0 =? k) eqn:E; cbn; [apply IH|].
    rewrite Z.eqb_sym, E. apply IH.
  Qed.

  Lemma al_get_del_other : forall m k k', k <> k' -> al_get k (al_del k' m) = al_get k m.
  Proof.
    induction m as [|[k0 b0] m IH]; intros k k' Hne; cbn; [reflexivity|].
    destruct (k0 =? k') eqn:E; cbn.
    - apply Z.eqb_eq in E; subst k0.
      destruct (k =? k') eqn:E2; [apply Z.eqb_eq in E2; contradiction|]. now apply IH.
    - destruct (k =? k0); [reflexivity|]. now apply IH.
  Qed.

  Lemma al_get_In : forall m k b, al_get k m = Some b -> In (k, b) m.
  Proof.
    induction m as [|[k0 b0] m IH]; intros k b; cbn; [discriminate|].
    destruct (k =? k0) eqn:E.
    - apply Z.eqb_eq in E; subst. intros [= ->]. now left.
    - intros H. right. now apply IH.
  Qed.

  Lemma al_get_None : forall m k, al_get k m = None <-> ~ In k (keys m).
  Proof.
    induction m as [|[k0 b0] m IH]; intros k; cbn; [tauto|].
    destruct (k =? k0) eqn:E.
    - apply Z.eqb_eq in E; subst. split; [discriminate|]. intros H; exfalso; apply H; now left.
    - apply Z.eqb_neq in E. rewrite IH. split; intros H; [intros [H1|H1]; [congruence|tauto]|tauto].
  Qed.

  Lemma In_al_get : forall m k b, NoDup (keys m) -> In (k, b) m -> al_get k m = Some b.
  Proof.
    induction m as [|[k0 b0] m IH]; intros k b Hnd Hin; cbn in *; [contradiction|].
    inversion Hnd as [|x l Hni Hnd']; subst.
    destruct Hin as [[= -> ->]|Hin].
    - now rewrite Z.eqb_refl.
    - destruct (k =? k0) eqn:E.
      + apply Z.eqb_eq in E; subst. exfalso. apply Hni. apply (in_map fst) in Hin. exact Hin.
      + now apply IH.
  Qed.

  Lemma keys_put : forall m k b x, In x (keys (al_put k b m)) <-> x = k \/ In x (keys m).
  Proof.
    induction m as [|[k0 b0] m IH]; intros k b x; cbn.
    - intuition.
    - destruct (k =? k0) eqn:E; cbn.
      + apply Z.eqb_eq in E; subst. intuition.
      + rewrite IH. intuition.
  Qed.

  Lemma NoDup_put : forall m k b, NoDup (keys m) -> NoDup (keys (al_put k b m)).
  Proof.
    induction m as [|[k0 b0] m IH]; intros k b Hnd; cbn.
    - constructor; [intros []|constructor].
    - inversion Hnd as [|x l Hni Hnd']; subst.
      destruct (k =? k0) eqn:E; cbn.
      + apply Z.eqb_eq in E; subst. now constructor.
      + constructor; [|now apply IH].
        intros Hin. apply keys_put in Hin as [->|Hin]; [now rewrite Z.eqb_refl in E|]. now apply Hni.
  Qed.

  Lemma keys_filter_In : forall (p : Z * B -> bool) m x, In x (keys (filter p m)) -> In x (keys m).
  Proof.
    intros p m x H. unfold keys in *. apply in_map_iff in H as (e & <- & He).
    apply filter_In in He as [He _]. now apply in_map.
  Qed.

  Lemma NoDup_filter : forall (p : Z * B -> bool) m, NoDup (keys m) -> NoDup (keys (filter p m)).
  Proof.
    intros p; induction m as [|[k0 b0] m IH]; intros Hnd; cbn; [constructor|].
    inversion Hnd as [|x l Hni Hnd']; subst.
    destruct (p (k0, b0)); cbn; [|now apply IH].
    constructor; [|now apply IH]. intros H. apply Hni. eapply keys_filter_In; eauto.
  Qed.

  (* looking up in a filtered map (no duplicate keys) *)
  Lemma al_get_filter : forall (p : Z * B -> bool) m k, NoDup (keys m) ->
    al_get k (filter p m) =
    match al_get k m with
    | Some b => if p (k, b) then Some b else None
    | None => None
    end.
  Proof.
    intros p; induction m as [|[k0 b0] m IH]; intros k Hnd; cbn; [reflexivity|].
    inversion Hnd as [|x l Hni Hnd']; subst.
    destruct (k =? k0) eqn:E.
    - apply Z.eqb_eq in E; subst k0.
      destruct (p (k, b0)) eqn:Ep; cbn; [now rewrite Z.eqb_refl|].
      apply al_get_None. intros H. apply Hni. eapply keys_filter_In; eauto.
    - destruct (p (k0, b0)); cbn; [rewrite E|]; now apply IH.
  Qed.

  Lemma length_put : forall m k b,
    length (al_put k b m) = match al_get k m with Some _ => length m | None => S (length m) end.
  Proof.
    induction m as [|[k0 b0] m IH]; intros k b; cbn; [reflexivity|].
    destruct (k =? k0); cbn; [reflexivity|]. rewrite IH. now destruct (al_get k m).
  Qed.

  (* a Go map has one entry per key: the order of a duplicate-free list does
     not influence lookups *)
  Lemma al_get_perm : forall m m' k, NoDup (keys m) -> Permutation m m' -> al_get k m = al_get k m'.
  Proof.
    intros m m' k Hnd Hp.
    assert (Hnd' : NoDup (keys m')).
    { eapply Permutation_NoDup; [|exact Hnd]. now apply Permutation_map. }
    destruct (al_get k m) as [b|] eqn:E.
    - symmetry. apply In_al_get; [exact Hnd'|]. eapply Permutation_in; [exact Hp|]. now apply al_get_In.
    - symmetry. apply al_get_None. apply al_get_None in E. intros H. apply E.
      eapply Permutation_in; [|exact H]. apply Permutation_map. now apply Permutation_sym.
  Qed.
End AListFacts.

Section AListMap.
  Context {B C : Type} (f : B -> C).
  Let F (e : Z * B) : Z * C := (fst e, f (snd e)).

  Lemma al_get_map : forall m k, al_get k (map F m) = option_map f (al_get k m).
  Proof.
    induction m as [|[k0 b0] m IH]; intros k; cbn; [reflexivity|].
    destruct (k =? k0); [reflexivity|apply IH].
  Qed.

  Lemma al_put_map : forall m k b, map F (al_put k b m) = al_put k (f b) (map F m).
  Proof.
    induction m as [|[k0 b0] m IH]; intros k b; cbn; [reflexivity|].
    destruct (k =? k0); cbn; [reflexivity|]. now rewrite IH.
  Qed.

  Lemma filter_map_comm : forall (p : Z * B -> bool) (q : Z * C -> bool) m,
    (forall e, In e m -> q (F e) = p e) -> map F (filter p m) = filter q (map F m).
  Proof.
    intros p q; induction m as [|e m IH]; intros H; cbn; [reflexivity|].
    rewrite (H e (or_introl eq_refl)). destruct (p e); cbn; rewrite IH; auto.
    all: intros e' He'; apply H; now right.
  Qed.

  Lemma al_del_map : forall m k, map F (al_del k m) = al_del k (map F m).
  Proof. intros m k. unfold al_del. apply filter_map_comm. reflexivity. Qed.

  Lemma keys_map : forall m, keys (map F m) = keys m.
  Proof. intros m. unfold keys. rewrite map_map. reflexivity. Qed.
End AListMap.

(* ================================================================= *)
(* Part 2: the operations, one by one                                 *)
(* ================================================================= *)

Section Ops.
  Variable V : Type.
  Variable rejects : V -> bool.
  Implicit Types (c : cache V) (it : item V) (k d now : Z) (v : V).

  Notation get := (@get V).
  Notation set := (set V rejects).
  Notation update := (update V rejects).
  Notation add := (add V rejects).
  Notation map_to_cache := (map_to_cache V rejects).
  Notation step := (step V rejects).
  Notation run := (run V rejects).

  (* the map is well formed: one entry per key *)
  Definition wf c : Prop := NoDup (keys (items c)).
  (* key k has the stored entry it *)
  Definition stored c k it : Prop := al_get k (items c) = Some it.
  (* key k has a stored entry that is not past its deadline at [now] *)
  Definition live c k now : bool :=
    match al_get k (items c) with Some it => negb (purgeable it now) | None => false end.
  (* same configuration *)
  Definition same_cfg c c' : Prop := expTime c' = expTime c /\ cleanupInt c' = cleanupInt c.
  (* c' is c with key k bound to it and nothing else changed *)
  Definition stores c c' k it : Prop :=
    stored c' k it /\ (forall k', k' <> k -> al_get k' (items c') = al_get k' (items c)) /\ same_cfg c c'.

  Lemma purgeable_iff : forall it now,
    purgeable it now = true <-> 0 < expiration it < now.
  Proof. intros it now. unfold purgeable. rewrite andb_true_iff, !Z.gtb_lt. lia. Qed.

  Lemma purgeable_mono : forall it now now', now <= now' -> purgeable it now = true -> purgeable it now' = true.
  Proof. intros it now now' Hle. rewrite !purgeable_iff. lia. Qed.

  (* ---------- Get ---------- *)

  Lemma get_spec : forall c k now,
    get c k now =
    match al_get k (items c) with
    | Some it => if purgeable it now then (None, Some E_EXPIRED) else (Some it, None)
    | None => (None, Some E_NOTFOUND)
    end.
  Proof.
    intros c k now. unfold C08_Model.get, purgeable.
    destruct (al_get k (items c)) as [it|]; [|reflexivity].
    destruct (expiration it >? 0); cbn; [|reflexivity]. now destruct (now >? expiration it).
  Qed.

  Lemma get_never_both : forall c k now it e, get c k now = (Some it, Some e) -> False.
  Proof.
    intros c k now it e. rewrite get_spec.
    destruct (al_get k (items c)) as [i|]; [destruct (purgeable i now)|]; discriminate.
  Qed.

  Lemma get_live_iff : forall c k now it,
    get c k now = (Some it, None) <-> stored c k it /\ live c k now = true.
  Proof.
    intros c k now it. rewrite get_spec. unfold stored, live.
    destruct (al_get k (items c)) as [i|]; [destruct (purgeable i now)|]; cbn; split;
      try discriminate; try (intros [H1 H2]; discriminate).
    - intros [= ->]. auto.
    - intros [[= ->] _]. reflexivity.
  Qed.

  Lemma get_not_live : forall c k now,
    live c k now = false -> exists e, get c k now = (None, Some e).
  Proof.
    intros c k now. rewrite get_spec. unfold live.
    destruct (al_get k (items c)) as [i|]; [destruct (purgeable i now)|]; cbn; try discriminate; eauto.
  Qed.

  (* ---------- add: the check on Get's result is dead ---------- *)

  Lemma add2_spec : forall c k v d t1 t2,
    add2 V rejects c k v d t1 t2 =
    if rejects v then (c, Some E_EMPTY)
    else (with_items c (al_put k (mkItem v (exp_of c d t1)) (items c)), None).
  Proof.
    intros c k v d t1 t2. unfold add2. rewrite get_spec.
    destruct (al_get k (items c)) as [i|]; [destruct (purgeable i t2)|]; reflexivity.
  Qed.

  Lemma put_stores : forall c k it, stores c (with_items c (al_put k it (items c))) k it.
  Proof.
    intros c k it. split; [|split].
    - unfold stored; cbn. apply al_get_put_same.
    - intros k' Hne; cbn. now apply al_get_put_other.
    - split; reflexivity.
  Qed.

  Lemma put_wf : forall c k it, wf c -> wf (with_items c (al_put k it (items c))).
  Proof. intros c k it H. unfold wf; cbn. now apply NoDup_put. Qed.

  (* ---------- Set ---------- *)

  Lemma set2_spec : forall c k v d t1 t2,
    set2 V rejects c k v d t1 t2 =
    if live c k t1 then (c, Some E_EXISTS)
    else if rejects v then (c, Some E_EMPTY)
    else (with_items c (al_put k (mkItem v (exp_of c d t2)) (items c)), None).
  Proof.
    intros c k v d t1 t2. unfold set2. rewrite get_spec, add2_spec. unfold live.
    destruct (al_get k (items c)) as [i|]; [destruct (purgeable i t1)|]; reflexivity.
  Qed.

  Lemma set_spec : forall c k v d now,
    set c k v d now =
    if live c k now then (c, Some E_EXISTS)
    else if rejects v then (c, Some E_EMPTY)
    else (with_items c (al_put k (mkItem v (exp_of c d now)) (items c)), None).
  Proof. intros. apply set2_spec. Qed.

  Lemma set_only_if_no_live_entry : forall c k v d now c' e,
    set c k v d now = (c', e) ->
    if live c k now then c' = c /\ e = Some E_EXISTS
    else if rejects v then c' = c /\ e = Some E_EMPTY
    else e = None /\ stores c c' k (mkItem v (exp_of c d now)).
  Proof.
    intros c k v d now c' e. rewrite set_spec.
    destruct (live c k now); [|destruct (rejects v)]; intros [= <- <-]; auto.
    split; [reflexivity|apply put_stores].
  Qed.

  Lemma set_wf : forall c k v d now, wf c -> wf (fst (set c k v d now)).
  Proof.
    intros c k v d now H. rewrite set_spec.
    destruct (live c k now); [|destruct (rejects v)]; cbn; auto. now apply put_wf.
  Qed.

  (* ---------- Update ---------- *)

  Lemma update2_spec : forall c k v d t1 t2,
    update2 V rejects c k v d t1 t2 =
    if rejects v then (c, Some E_EMPTY)
    else (with_items c (al_put k (mkItem v (exp_of c d t2)) (items c)), None).
  Proof.
    intros c k v d t1 t2. unfold update2. rewrite get_spec, add2_spec.
    destruct (al_get k (items c)) as [i|]; [destruct (purgeable i t1)|]; reflexivity.
  Qed.

  Lemma update_spec : forall c k v d now,
    update c k v d now =
    if rejects v then (c, Some E_EMPTY)
    else (with_items c (al_put k (mkItem v (exp_of c d now)) (items c)), None).
  Proof. intros. apply update2_spec. Qed.

  Lemma update_always_stores : forall c k v d now c' e,
    update c k v d now = (c', e) ->
    if rejects v then c' = c /\ e = Some E_EMPTY
    else e = None /\ stores c c' k (mkItem v (exp_of c d now)).
  Proof.
    intros c k v d now c' e. rewrite update_spec.
    destruct (rejects v); intros [= <- <-]; auto. split; [reflexivity|apply put_stores].
  Qed.

  Lemma update_wf : forall c k v d now, wf c -> wf (fst (update c k v d now)).
  Proof.
    intros c k v d now H. rewrite update_spec. destruct (rejects v); cbn; auto. now apply put_wf.
  Qed.

  (* ---------- Delete ---------- *)

  Lemma delete_spec : forall c k,
    delete c k =
    match al_get k (items c) with
    | Some _ => (with_items c (al_del k (items c)), None)
    | None => (c, Some E_NOKEY)
    end.
  Proof.
    intros c k. unfold delete, delete_. destruct (al_get k (items c)); [reflexivity|].
    destruct c; reflexivity.
  Qed.

  Lemma delete_exact : forall c k c' e,
    delete c k = (c', e) ->
    match al_get k (items c) with
    | Some _ => e = None /\ al_get k (items c') = None /\
                (forall k', k' <> k -> al_get k' (items c') = al_get k' (items c)) /\ same_cfg c c'
    | None => c' = c /\ e = Some E_NOKEY
    end.
  Proof.
    intros c k c' e. rewrite delete_spec.
    destruct (al_get k (items c)); intros [= <- <-]; auto.
    repeat split; cbn.
    - apply al_get_del_same.
    - intros k' Hne. now apply al_get_del_other.
  Qed.

  Lemma delete_wf : forall c k, wf c -> wf (fst (delete c k)).
  Proof.
    intros c k H. rewrite delete_spec. destruct (al_get k (items c)); cbn; auto.
    unfold wf; cbn. now apply NoDup_filter.
  Qed.

  (* ---------- DeleteExpired ---------- *)

  Definition keep now (e : Z * item V) : bool := negb (purgeable (snd e) now).

  Lemma filter_filter : forall {A} (p q : A -> bool) l,
    filter p (filter q l) = filter (fun x => q x && p x) l.
  Proof.
    intros A p q; induction l as [|x l IH]; cbn; [reflexivity|].
    destruct (q x); cbn; [destruct (p x)|]; now rewrite IH.
  Qed.

  Lemma delete_expired_fold : forall now l m err,
    NoDup (keys l) ->
    (forall e, In e l -> al_get (fst e) m = Some (snd e)) ->
    fold_left (fun (acc : imap V * option Z) (e : Z * item V) =>
                 if purgeable (snd e) now then
                   let '(m', er) := delete_ (fst acc) (fst e) in
                   (m', match er with Some _ => join (snd acc) er | None => snd acc end)
                 else acc) l (m, err)
    = (filter (fun x => negb (existsb (fun e => purgeable (snd e) now && (fst e =? fst x)) l)) m, err).
  Proof.
    intros now; induction l as [|a l IH]; intros m err Hnd Hin; cbn [fold_left existsb].
    - f_equal. clear. induction m as [|x m IHm]; [reflexivity|]. cbn. f_equal. exact IHm.
    - inversion Hnd as [|x l' Hni Hnd']; subst.
      destruct (purgeable (snd a) now) eqn:Ep; cbn [andb fst snd].
      + unfold delete_. rewrite (Hin a (or_introl eq_refl)).
        rewrite IH; [| exact Hnd' |].
        * f_equal. unfold al_del. rewrite filter_filter. apply filter_ext.
          intros x. rewrite negb_orb. now rewrite (Z.eqb_sym (fst a) (fst x)).
        * intros e He. rewrite al_get_del_other; [apply Hin; now right|].
          intros Heq. apply Hni. rewrite <- Heq. apply (in_map fst) in He. exact He.
      + rewrite IH; [reflexivity| exact Hnd' |]. intros e He. apply Hin. now right.
  Qed.

  Lemma delete_expired_exact : forall c now,
    wf c -> delete_expired c now = (with_items c (filter (keep now) (items c)), None).
  Proof.
    intros c now Hwf. unfold delete_expired.
    rewrite delete_expired_fold; [| exact Hwf |].
    - f_equal. f_equal. apply filter_ext_in. intros x Hx. unfold keep. f_equal.
      destruct (purgeable (snd x) now) eqn:Ep.
      + apply existsb_exists. exists x. rewrite Ep, Z.eqb_refl. auto.
      + destruct (existsb _ (items c)) eqn:Ex; [|reflexivity].
        apply existsb_exists in Ex as (e & He & Hp). apply andb_prop in Hp as [Hp Hk].
        apply Z.eqb_eq in Hk.
        assert (e = x).
        { destruct e as [ke ie], x as [kx ix]; cbn in *; subst kx.
          pose proof (In_al_get _ _ _ Hwf He) as H1. pose proof (In_al_get _ _ _ Hwf Hx) as H2.
          congruence. }
        subst e. congruence.
    - intros e He. destruct e as [ke ie]. cbn. now apply In_al_get.
  Qed.

  Lemma delete_expired_lookup : forall c now k,
    wf c ->
    al_get k (items (fst (delete_expired c now))) =
    match al_get k (items c) with
    | Some it => if purgeable it now then None else Some it
    | None => None
    end.
  Proof.
    intros c now k Hwf. rewrite delete_expired_exact by exact Hwf. cbn.
    rewrite al_get_filter by exact Hwf. unfold keep; cbn.
    destruct (al_get k (items c)) as [it|]; [|reflexivity]. now destruct (purgeable it now).
  Qed.

  Lemma delete_expired_wf : forall c now, wf c -> wf (fst (delete_expired c now)).
  Proof.
    intros c now H. rewrite delete_expired_exact by exact H. unfold wf; cbn. now apply NoDup_filter.
  Qed.

  (* ---------- tick ---------- *)

  Lemma tick_spec : forall c now,
    wf c ->
    tick c now = if cleanupInt c >? 0 then with_items c (filter (keep now) (items c)) else c.
  Proof.
    intros c now H. unfold tick. destruct (cleanupInt c >? 0); [|reflexivity].
    now rewrite delete_expired_exact.
  Qed.

  Lemma tick_wf : forall c now, wf c -> wf (tick c now).
  Proof.
    intros c now H. rewrite tick_spec by exact H. destruct (cleanupInt c >? 0); [|exact H].
    unfold wf; cbn. now apply NoDup_filter.
  Qed.

  Lemma tick_lookup : forall c now k,
    wf c ->
    al_get k (items (tick c now)) =
    if cleanupInt c >? 0 then
      match al_get k (items c) with
      | Some it => if purgeable it now then None else Some it
      | None => None
      end
    else al_get k (items c).
  Proof.
    intros c now k H. unfold tick. destruct (cleanupInt c >? 0); [|reflexivity].
    now apply delete_expired_lookup.
  Qed.

  (* ---------- IsExpired ---------- *)

  Lemma is_expired_iff : forall c k now,
    is_expired c k now = true <-> exists it, stored c k it /\ 0 < expiration it < now.
  Proof.
    intros c k now. unfold is_expired, stored.
    destruct (al_get k (items c)) as [it|].
    - fold (purgeable it now). rewrite purgeable_iff. split; [eauto|]. now intros (i & [= <-] & H).
    - split; [discriminate|]. now intros (i & H & _).
  Qed.

  (* ---------- Count, List ---------- *)

  Lemma count_list_agree : forall c,
    count c = Z.of_nat (length (list_ c)) /\
    (wf c -> NoDup (keys (list_ c)) /\ forall k it, In (k, it) (list_ c) <-> stored c k it).
  Proof.
    intros c. split; [reflexivity|]. intros Hwf. split; [exact Hwf|].
    intros k it. unfold list_, stored. split; [now apply In_al_get|apply al_get_In].
  Qed.

  (* ---------- MapToCache ---------- *)

  Lemma set_live_other : forall c k v d now k', k' <> k ->
    live (fst (set c k v d now)) k' now = live c k' now.
  Proof.
    intros c k v d now k' Hne. rewrite set_spec.
    destruct (live c k now); [|destruct (rejects v)]; cbn; auto.
    unfold live; cbn. now rewrite al_get_put_other.
  Qed.

  Lemma set_lookup_other : forall c k v d now k', k' <> k ->
    al_get k' (items (fst (set c k v d now))) = al_get k' (items c).
  Proof.
    intros c k v d now k' Hne. rewrite set_spec.
    destruct (live c k now); [|destruct (rejects v)]; cbn; auto. now apply al_get_put_other.
  Qed.

  Lemma set_cfg : forall c k v d now, same_cfg c (fst (set c k v d now)).
  Proof.
    intros c k v d now. rewrite set_spec.
    destruct (live c k now); [|destruct (rejects v)]; cbn; split; reflexivity.
  Qed.

  Lemma exp_of_cfg : forall c c' d now, same_cfg c c' -> exp_of c' d now = exp_of c d now.
  Proof. intros c c' d now [H _]. unfold exp_of. now rewrite H. Qed.

  Lemma map_to_cache_cons : forall c kv m d now,
    map_to_cache c (kv :: m) d now =
    let '(c1, e1) := set c (fst kv) (snd kv) d now in
    let '(c2, e2) := map_to_cache c1 m d now in
    (c2, join e1 e2).
  Proof.
    intros c kv m d now. unfold C08_Model.map_to_cache. cbn [fold_left fst snd].
    destruct (set c (fst kv) (snd kv) d now) as [c1 e1].
    assert (N : forall a b, join a b = None \/ join a b = Some E_JOINED)
      by (intros [?|] [?|]; cbn; auto).
    assert (G : forall m c0 a, (a = None \/ a = Some E_JOINED) ->
      fold_left (fun (acc : cache V * option Z) (kv0 : Z * V) =>
                   let '(c', e) := set (fst acc) (fst kv0) (snd kv0) d now in (c', join (snd acc) e))
                m (c0, a)
      = let '(c2, e2) := fold_left (fun (acc : cache V * option Z) (kv0 : Z * V) =>
                   let '(c', e) := set (fst acc) (fst kv0) (snd kv0) d now in (c', join (snd acc) e))
                m (c0, None) in (c2, join a e2)).
    { clear - N. induction m as [|x m IH]; intros c0 a Ha; cbn [fold_left fst snd].
      - destruct Ha as [-> | ->]; reflexivity.
      - destruct (set c0 (fst x) (snd x) d now) as [c' e'].
        rewrite (IH c' (join a e') (N _ _)), (IH c' (join None e') (N _ _)).
        destruct (fold_left _ m (c', None)) as [c2 e2]. destruct Ha as [-> | ->]; destruct e', e2; reflexivity. }
    rewrite (G _ _ _ (N _ _)). destruct (fold_left _ m (c1, None)) as [c2 e2]. destruct e1, e2; reflexivity.
  Qed.

  (* what MapToCache does, entry by entry ([m] is a Go map: one entry per key) *)
  Lemma map_to_cache_reports : forall m c d now c' e,
    NoDup (keys m) ->
    map_to_cache c m d now = (c', e) ->
    (e = None <-> forall k v, In (k, v) m -> live c k now = false /\ rejects v = false) /\
    (forall k, al_get k (items c') =
               match al_get k m with
               | Some v => if live c k now || rejects v then al_get k (items c)
                           else Some (mkItem v (exp_of c d now))
               | None => al_get k (items c)
               end) /\
    same_cfg c c'.
  Proof.
    induction m as [|[k0 v0] m IH]; intros c d now c' e Hnd.
    - cbn. intros [= <- <-]. split; [|split].
      + split; [intros _ k v []|reflexivity].
      + intros k. reflexivity.
      + split; reflexivity.
    - rewrite map_to_cache_cons. cbn [fst snd].
      destruct (set c k0 v0 d now) as [c1 e1] eqn:Es.
      destruct (map_to_cache c1 m d now) as [c2 e2] eqn:Em. intros [= <- <-].
      inversion Hnd as [|x l Hni Hnd']; subst.
      destruct (IH c1 d now c2 e2 Hnd' Em) as (IH1 & IH2 & IH3).
      pose proof (set_only_if_no_live_entry _ _ _ _ _ _ _ Es) as Hs.
      assert (Hc1 : c1 = fst (set c k0 v0 d now)) by now rewrite Es.
      assert (Hcfg1 : same_cfg c c1) by (rewrite Hc1; apply set_cfg).
      assert (Hother : forall k, In k (keys m) -> live c1 k now = live c k now /\
                                                   al_get k (items c1) = al_get k (items c)).
      { intros k Hk. assert (k <> k0) by (intros ->; contradiction).
        rewrite Hc1. split; [now apply set_live_other|now apply set_lookup_other]. }
      split; [|split].
      + split.
        * intros Hj. destruct e1; [discriminate|]. destruct e2; [discriminate|].
          intros k v [[= -> ->]|Hin].
          -- destruct (live c k now); [destruct Hs as [_ Hs]; discriminate|].
             destruct (rejects v); [destruct Hs as [_ Hs]; discriminate|]. auto.
          -- destruct (proj1 IH1 eq_refl k v Hin) as [H1 H2].
             assert (Hk : In k (keys m)) by (apply (in_map fst) in Hin; exact Hin).
             destruct (Hother k Hk) as [Hl _]. rewrite <- Hl. auto.
        * intros Hall.
          destruct (Hall k0 v0 (or_introl eq_refl)) as [Hl Hr]. rewrite Hl, Hr in Hs.
          destruct Hs as [-> _].
          assert (e2 = None) as ->; [|reflexivity].
          apply IH1. intros k v Hin.
          assert (Hk : In k (keys m)) by (apply (in_map fst) in Hin; exact Hin).
          destruct (Hother k Hk) as [Hl' _]. rewrite Hl'. apply Hall. now right.
      + intros k. rewrite IH2. cbn [al_get].
        destruct (k =? k0) eqn:E.
        * apply Z.eqb_eq in E; subst k0.
          assert (Hnone : al_get k m = None) by now apply al_get_None.
          rewrite Hnone.
          destruct (live c k now); [destruct Hs as [-> _]; reflexivity|].
          destruct (rejects v0); [destruct Hs as [-> _]; reflexivity|].
          destruct Hs as [_ (Hst & _)]. exact Hst.
        * apply Z.eqb_neq in E.
          assert (Hl : live c1 k now = live c k now) by (rewrite Hc1; now apply set_live_other).
          assert (Hg : al_get k (items c1) = al_get k (items c)) by (rewrite Hc1; now apply set_lookup_other).
          rewrite Hl, Hg, (exp_of_cfg _ _ _ _ Hcfg1). reflexivity.
      + destruct Hcfg1 as [A1 A2], IH3 as [B1 B2]. split; congruence.
  Qed.

  Lemma map_to_cache_wf : forall m c d now, wf c -> wf (fst (map_to_cache c m d now)).
  Proof.
    induction m as [|kv m IH]; intros c d now H; [exact H|].
    rewrite map_to_cache_cons.
    destruct (set c (fst kv) (snd kv) d now) as [c1 e1] eqn:Es.
    assert (H1 : wf c1) by (replace c1 with (fst (set c (fst kv) (snd kv) d now)) by (now rewrite Es); now apply set_wf).
    specialize (IH c1 d now H1). destruct (map_to_cache c1 m d now) as [c2 e2]. exact IH.
  Qed.

  (* the iteration order of the Go map does not matter *)
  Lemma map_to_cache_order_irrelevant : forall m m' c d now,
    NoDup (keys m) -> Permutation m m' ->
    let r := map_to_cache c m d now in
    let r' := map_to_cache c m' d now in
    (snd r = None <-> snd r' = None) /\
    (forall k, al_get k (items (fst r)) = al_get k (items (fst r'))) /\
    same_cfg (fst r) (fst r').
  Proof.
    intros m m' c d now Hnd Hp r r'.
    assert (Hnd' : NoDup (keys m')).
    { eapply Permutation_NoDup; [|exact Hnd]. now apply Permutation_map. }
    destruct (map_to_cache_reports m c d now (fst r) (snd r) Hnd (surjective_pairing _)) as (A1 & A2 & A3).
    destruct (map_to_cache_reports m' c d now (fst r') (snd r') Hnd' (surjective_pairing _)) as (B1 & B2 & B3).
    split; [|split].
    - rewrite A1, B1. split; intros H k v Hin; apply H.
      + eapply Permutation_in; [apply Permutation_sym; exact Hp|exact Hin].
      + eapply Permutation_in; [exact Hp|exact Hin].
    - intros k. rewrite A2, B2. now rewrite (al_get_perm m m' k Hnd Hp).
    - destruct A3 as [X1 X2], B3 as [Y1 Y2]. split; congruence.
  Qed.

End Ops.

(* ================================================================= *)
(* Part 3: histories                                                  *)
(* ================================================================= *)

Section Histories.
  Variable V : Type.
  Variable rejects : V -> bool.
  Implicit Types (c : cache V) (it : item V) (k d now : Z) (v : V) (o : op V).

  Notation get := (@get V).
  Notation set := (set V rejects).
  Notation update := (update V rejects).
  Notation map_to_cache := (map_to_cache V rejects).
  Notation step := (step V rejects).
  Notation run := (run V rejects).
  Notation wf := (wf V).
  Notation stored := (stored V).
  Notation live := (live V).
  Notation same_cfg := (same_cfg V).

  (* ---------- the effective duration and the deadline ---------- *)

  Definition eff c d : Z := if d =? DefaultExpiration then expTime c else d.

  (* int64 wrap-around *)
  Lemma wrap64_id : forall z, - 9223372036854775808 <= z <= max_i64 -> wrap64 z = z.
  Proof.
    intros z H. unfold wrap64, max_i64 in *.
    destruct ((-9223372036854775808 <=? z) && (z <=? 9223372036854775807)); [reflexivity|].
    rewrite Z.mod_small by lia. lia.
  Qed.

  Lemma wrap64_over : forall z, max_i64 < z <= 2 * max_i64 -> wrap64 z = z - 18446744073709551616.
  Proof.
    intros z H. unfold wrap64, max_i64 in *.
    replace (z <=? 9223372036854775807) with false by (symmetry; apply Z.leb_gt; lia).
    rewrite andb_false_r.
    replace (z + 9223372036854775808)
      with ((z + 9223372036854775808 - 18446744073709551616) + 1 * 18446744073709551616) by lia.
    rewrite Z.mod_add by lia. rewrite Z.mod_small by lia. lia.
  Qed.

  Lemma exp_of_unfold : forall c d now,
    exp_of c d now = if eff c d >? 0 then wrap64 (now + eff c d)
                     else if eff c d <? 0 then NoExpiration else 0.
  Proof. reflexivity. Qed.

  (* the deadline is representable: no wrap-around *)
  Lemma exp_of_pos : forall c d now,
    0 < eff c d -> 0 <= now -> now + eff c d <= max_i64 -> exp_of c d now = now + eff c d.
  Proof.
    intros c d now H Hn Hm. rewrite exp_of_unfold.
    replace (eff c d >? 0) with true by (symmetry; apply Z.gtb_lt; lia).
    apply wrap64_id. unfold max_i64 in *. lia.
  Qed.

  (* the deadline is past the last representable instant: the stored value is
     the wrapped sum, a negative number other than -1 *)
  Lemma exp_of_over : forall c d now,
    0 < eff c d <= max_i64 -> 0 <= now <= max_i64 -> max_i64 < now + eff c d ->
    exp_of c d now = now + eff c d - 18446744073709551616 /\ exp_of c d now <= -2.
  Proof.
    intros c d now H Hn Hm. rewrite exp_of_unfold.
    replace (eff c d >? 0) with true by (symmetry; apply Z.gtb_lt; lia).
    rewrite wrap64_over by lia. split; [reflexivity|]. unfold max_i64 in *. lia.
  Qed.

  Lemma exp_of_nonpos : forall c d now, eff c d <= 0 ->
    (exp_of c d now = -1 /\ eff c d < 0) \/ (exp_of c d now = 0 /\ eff c d = 0).
  Proof.
    intros c d now H. unfold exp_of, eff in *.
    destruct (d =? DefaultExpiration).
    - destruct (expTime c >? 0) eqn:E; [rewrite Z.gtb_lt in E; lia|].
      destruct (expTime c <? 0) eqn:E2; [rewrite Z.ltb_lt in E2; auto|].
      rewrite Z.ltb_ge in E2. right. split; [reflexivity|lia].
    - destruct (d >? 0) eqn:E; [rewrite Z.gtb_lt in E; lia|].
      destruct (d <? 0) eqn:E2; [rewrite Z.ltb_lt in E2; auto|].
      rewrite Z.ltb_ge in E2. right. split; [reflexivity|lia].
  Qed.

  Lemma step_state : forall c o now,
    fst (step c o now) =
    match o with
    | OSet _ k v d => fst (set c k v d now)
    | OSetDefault _ k v => fst (set c k v DefaultExpiration now)
    | OUpdate _ k v d => fst (update c k v d now)
    | ODelete k => fst (delete c k)
    | ODeleteExpired => fst (delete_expired c now)
    | OFlush => flush c
    | OMapToCache _ m d => fst (map_to_cache c m d now)
    | OTick => tick c now
    | _ => c
    end.
  Proof.
    intros c o now. destruct o; cbn [C08_Model.step]; try reflexivity.
    - now destruct (set c k v d now).
    - unfold set_default. now destruct (set c k v DefaultExpiration now).
    - now destruct (update c k v d now).
    - now destruct (delete c k).
    - now destruct (delete_expired c now).
    - now destruct (map_to_cache c m d now).
  Qed.

  (* ---------- every step keeps the map well formed ---------- *)

  Lemma step_wf : forall c o now, wf c -> wf (fst (step c o now)).
  Proof.
    intros c o now H. destruct o; cbn.
    - pose proof (set_wf V rejects c k v d now H) as W. now destruct (set c k v d now).
    - unfold set_default. pose proof (set_wf V rejects c k v DefaultExpiration now H) as W.
      now destruct (set c k v DefaultExpiration now).
    - pose proof (update_wf V rejects c k v d now H) as W. now destruct (update c k v d now).
    - exact H.
    - pose proof (delete_wf V c k H) as W. now destruct (delete c k).
    - pose proof (delete_expired_wf V c now H) as W. now destruct (delete_expired c now).
    - unfold C08_Proofs.wf; cbn. constructor.
    - exact H.
    - exact H.
    - pose proof (map_to_cache_wf V rejects m c d now H) as W. now destruct (map_to_cache c m d now).
    - exact H.
    - now apply tick_wf.
  Qed.

  Lemma run_cons : forall c o now r,
    run c ((o, now) :: r) =
    (fst (run (fst (step c o now)) r), snd (step c o now) :: snd (run (fst (step c o now)) r)).
  Proof.
    intros c o now r. cbn [C08_Model.run]. destruct (step c o now) as [c' x]. cbn [fst snd].
    destruct (run c' r) as [c'' xs]. reflexivity.
  Qed.

  Lemma run_app : forall ops1 ops2 c,
    fst (run c (ops1 ++ ops2)) = fst (run (fst (run c ops1)) ops2).
  Proof.
    induction ops1 as [|[o now] r IH]; intros ops2 c; [reflexivity|].
    rewrite <- app_comm_cons, !run_cons. cbn [fst]. apply IH.
  Qed.

  Lemma run_wf : forall ops c, wf c -> wf (fst (run c ops)).
  Proof.
    induction ops as [|[o now] r IH]; intros c H; [exact H|].
    rewrite run_cons. cbn [fst]. apply IH. now apply step_wf.
  Qed.

  Lemma step_cfg : forall c o now, same_cfg c (fst (step c o now)).
  Proof.
    intros c o now. destruct o; cbn; try (split; reflexivity).
    - pose proof (set_cfg V rejects c k v d now) as W. now destruct (set c k v d now).
    - unfold set_default. pose proof (set_cfg V rejects c k v DefaultExpiration now) as W.
      now destruct (set c k v DefaultExpiration now).
    - rewrite update_spec. destruct (rejects v); split; reflexivity.
    - rewrite delete_spec. destruct (al_get k (items c)); split; reflexivity.
    - unfold delete_expired. destruct (fold_left _ _ _). split; reflexivity.
    - pose proof (map_to_cache_wf V rejects m c d now) as _.
      revert c. induction m as [|kv m IH]; intros c; [split; reflexivity|].
      rewrite map_to_cache_cons.
      pose proof (set_cfg V rejects c (fst kv) (snd kv) d now) as W.
      destruct (set c (fst kv) (snd kv) d now) as [c1 e1]. specialize (IH c1).
      destruct (map_to_cache c1 m d now) as [c2 e2]. cbn [fst] in *.
      destruct W, IH. split; congruence.
    - unfold tick. destruct (cleanupInt c >? 0); [|split; reflexivity].
      unfold delete_expired. destruct (fold_left _ _ _). split; reflexivity.
  Qed.

  (* ---------- where the entries of the next state come from ---------- *)

  (* an entry built by add at instant [now] from an accepted value *)
  Definition fresh c d now it : Prop :=
    exists v, it = mkItem v (exp_of c d now) /\ rejects v = false.

  Lemma fresh_cfg : forall c c' d now it, same_cfg c c' -> fresh c d now it -> fresh c' d now it.
  Proof.
    intros c c' d now it Hc (v & -> & Hr). exists v. split; [|exact Hr].
    now rewrite (exp_of_cfg V c c' d now Hc).
  Qed.

  (* the duration argument of an operation (SetDefault: DefaultExpiration) *)
  Definition op_dur o : Z :=
    match o with
    | OSet _ _ _ d => d
    | OUpdate _ _ _ d => d
    | OMapToCache _ _ d => d
    | _ => DefaultExpiration
    end.

  Lemma put_entries : forall c k v d now k' it,
    rejects v = false ->
    stored (with_items c (al_put k (mkItem v (exp_of c d now)) (items c))) k' it ->
    stored c k' it \/ fresh c d now it.
  Proof.
    intros c k v d now k' it Hr. unfold C08_Proofs.stored; cbn.
    destruct (Z.eq_dec k' k) as [->|Hne].
    - rewrite al_get_put_same. intros [= <-]. right. now exists v.
    - rewrite al_get_put_other by exact Hne. auto.
  Qed.

  Lemma set_entries : forall c k v d now k' it,
    stored (fst (set c k v d now)) k' it -> stored c k' it \/ fresh c d now it.
  Proof.
    intros c k v d now k' it. rewrite set_spec.
    destruct (live c k now); [auto|]. destruct (rejects v) eqn:Hr; [auto|]. now apply put_entries.
  Qed.

  Lemma map_to_cache_entries : forall m c d now k' it,
    stored (fst (map_to_cache c m d now)) k' it -> stored c k' it \/ fresh c d now it.
  Proof.
    induction m as [|kv m IH]; intros c d now k' it; [auto|].
    rewrite map_to_cache_cons.
    pose proof (set_entries c (fst kv) (snd kv) d now k' it) as Hs.
    pose proof (set_cfg V rejects c (fst kv) (snd kv) d now) as Hc.
    destruct (set c (fst kv) (snd kv) d now) as [c1 e1]. specialize (IH c1 d now k' it).
    destruct (map_to_cache c1 m d now) as [c2 e2]. cbn [fst] in *.
    intros H. destruct (IH H) as [H1|H1]; [auto|]. right.
    destruct Hc as [A B]. apply (fresh_cfg c1 c); [split; congruence|exact H1].
  Qed.

  Lemma filter_entries : forall c (p : Z * item V -> bool) k it,
    wf c -> stored (with_items c (filter p (items c))) k it -> stored c k it.
  Proof.
    intros c p k it H. unfold C08_Proofs.stored; cbn. rewrite al_get_filter by exact H.
    destruct (al_get k (items c)) as [i|]; [|discriminate]. now destruct (p (k, i)).
  Qed.

  Lemma step_entries : forall c o now k it,
    wf c -> stored (fst (step c o now)) k it -> stored c k it \/ fresh c (op_dur o) now it.
  Proof.
    intros c o now k' it H. destruct o; cbn; auto.
    - pose proof (set_entries c k v d now k' it) as W. now destruct (set c k v d now).
    - unfold set_default. pose proof (set_entries c k v DefaultExpiration now k' it) as W.
      now destruct (set c k v DefaultExpiration now).
    - rewrite update_spec. destruct (rejects v) eqn:Hr; [auto|]. now apply put_entries.
    - rewrite delete_spec. destruct (al_get k (items c)); [|auto]. cbn [fst].
      intros Hs. left. eapply filter_entries; eauto.
    - rewrite delete_expired_exact by exact H. cbn [fst]. intros Hs. left. eapply filter_entries; eauto.
    - unfold C08_Proofs.stored; cbn. discriminate.
    - pose proof (map_to_cache_entries m c d now k' it) as W. now destruct (map_to_cache c m d now).
    - rewrite tick_spec by exact H. destruct (cleanupInt c >? 0); [|auto].
      intros Hs. left. eapply filter_entries; eauto.
  Qed.

  (* ---------- invariants of every reachable state ---------- *)

  (* nothing rejected is ever stored *)
  Definition no_rejected c : Prop := forall k it, stored c k it -> rejects (object it) = false.
  (* anchors: expiration is -1 (never), 0 (zero default), or a positive deadline *)
  (* … or, when now + d exceeded MaxInt64, the wrapped sum: some value <= -2 *)
  Definition exp_shape c : Prop :=
    forall k it, stored c k it ->
      expiration it = -1 \/ (expiration it = 0 /\ expTime c = 0) \/ 0 < expiration it \/
      expiration it <= -2.

  (* instants and durations are int64 values (UnixNano is positive) *)
  Definition in_range (ops : list (op V * Z)) : Prop :=
    Forall (fun on => 0 <= snd on <= max_i64 /\ op_dur (fst on) <= max_i64) ops.

  Lemma eff_le : forall c d, d <= max_i64 -> expTime c <= max_i64 -> eff c d <= max_i64.
  Proof. intros c d H1 H2. unfold eff. now destruct (d =? DefaultExpiration). Qed.

  Lemma fresh_shape : forall c d now it,
    0 <= now <= max_i64 -> d <= max_i64 -> expTime c <= max_i64 -> fresh c d now it ->
    rejects (object it) = false /\
    (expiration it = -1 \/ (expiration it = 0 /\ expTime c = 0) \/ 0 < expiration it \/
     expiration it <= -2).
  Proof.
    intros c d now it Hnow Hd He (v & -> & Hr). split; [exact Hr|]. cbn [expiration].
    pose proof (eff_le c d Hd He) as Hle.
    destruct (Z_lt_le_dec 0 (eff c d)) as [Hp|Hn].
    - destruct (Z_le_gt_dec (now + eff c d) max_i64) as [Hs|Hs].
      + rewrite exp_of_pos by lia. lia.
      + destruct (exp_of_over c d now) as [_ Ho]; [lia|lia|lia|]. auto.
    - destruct (exp_of_nonpos c d now Hn) as [[-> _]|[-> He0]]; [auto|].
      right; left. split; [reflexivity|]. unfold eff in He0.
      destruct (d =? DefaultExpiration) eqn:E; [exact He0|]. apply Z.eqb_neq in E. unfold DefaultExpiration in E. lia.
  Qed.

  Lemma reachable_invariants : forall ops e ci,
    let c := fst (run (new e ci) ops) in
    wf c /\ no_rejected c /\ (e <= max_i64 -> in_range ops -> exp_shape c).
  Proof.
    intros ops e ci.
    assert (G : forall ops c, wf c -> no_rejected c ->
              let c' := fst (run c ops) in
              wf c' /\ no_rejected c' /\
              (expTime c <= max_i64 -> in_range ops -> exp_shape c -> exp_shape c')).
    { clear ops. induction ops as [|[o now] r IH]; intros c Hwf Hnr; [cbn; auto|].
      rewrite run_cons. cbn [fst].
      assert (Hwf1 := step_wf c o now Hwf).
      assert (Hnr1 : no_rejected (fst (step c o now))).
      { intros k it Hs. destruct (step_entries c o now k it Hwf Hs) as [H|(v & -> & Hr)]; [eauto|exact Hr]. }
      destruct (IH _ Hwf1 Hnr1) as (A & B & C). split; [exact A|split; [exact B|]].
      intros He Hall Hsh. inversion Hall as [|x l [Hnow Hd] Hall']; subst. cbn [fst snd] in Hnow, Hd.
      destruct (step_cfg c o now) as [Hcfg _].
      apply C; [now rewrite Hcfg|exact Hall'|].
      intros k it Hs. rewrite Hcfg.
      destruct (step_entries c o now k it Hwf Hs) as [H|H]; [eauto|].
      now apply (fresh_shape c (op_dur o) now it Hnow Hd He). }
    destruct (G ops (new e ci)) as (A & B & C).
    - unfold C08_Proofs.wf; cbn. constructor.
    - intros k it. unfold C08_Proofs.stored; cbn. discriminate.
    - split; [exact A|split; [exact B|]]. intros He Hall. apply C; [exact He|exact Hall|].
      intros k it. unfold C08_Proofs.stored; cbn. discriminate.
  Qed.

  (* ---------- the lifetime of a stored entry ---------- *)

  (* operations that replace or remove the entry of key k whatever its state *)
  Definition overwrites k o : bool :=
    match o with
    | OUpdate _ k' _ _ => k =? k'
    | ODelete k' => k =? k'
    | OFlush => true
    | _ => false
    end.
  (* Set-like operations on key k: they store only when k has no live entry *)
  Definition may_set k o : bool :=
    match o with
    | OSet _ k' _ _ => k =? k'
    | OSetDefault _ k' _ => k =? k'
    | OMapToCache _ m _ => existsb (fun kv => k =? fst kv) m
    | _ => false
    end.

  Lemma set_keeps : forall c k it k' v d now,
    stored c k it -> purgeable it now = false -> stored (fst (set c k' v d now)) k it.
  Proof.
    intros c k it k' v d now Hs Hp. rewrite set_spec.
    destruct (Z.eq_dec k' k) as [->|Hne].
    - unfold C08_Proofs.live. rewrite Hs, Hp. exact Hs.
    - destruct (live c k' now); [exact Hs|]. destruct (rejects v); [exact Hs|].
      unfold C08_Proofs.stored; cbn. rewrite al_get_put_other by congruence. exact Hs.
  Qed.

  Lemma map_to_cache_keeps : forall m c k it d now,
    stored c k it -> purgeable it now = false -> stored (fst (map_to_cache c m d now)) k it.
  Proof.
    induction m as [|kv m IH]; intros c k it d now Hs Hp; [exact Hs|].
    rewrite map_to_cache_cons.
    pose proof (set_keeps c k it (fst kv) (snd kv) d now Hs Hp) as W.
    destruct (set c (fst kv) (snd kv) d now) as [c1 e1]. specialize (IH c1 k it d now W Hp).
    destruct (map_to_cache c1 m d now) as [c2 e2]. exact IH.
  Qed.

  (* a stored entry that is not past its deadline survives every operation
     except Update/Delete of its key and Flush — in particular Set on its key,
     DeleteExpired and the janitor *)
  Lemma step_keeps : forall c o now k it,
    wf c -> stored c k it -> purgeable it now = false -> overwrites k o = false ->
    stored (fst (step c o now)) k it.
  Proof.
    intros c o now k it Hwf Hs Hp Ho. rewrite step_state. destruct o; cbn [overwrites] in *; auto.
    - now apply set_keeps.
    - now apply set_keeps.
    - apply Z.eqb_neq in Ho. rewrite update_spec. destruct (rejects v); [exact Hs|].
      unfold C08_Proofs.stored; cbn. now rewrite al_get_put_other.
    - apply Z.eqb_neq in Ho. rewrite delete_spec. destruct (al_get k0 (items c)); [|exact Hs].
      unfold C08_Proofs.stored; cbn. now rewrite al_get_del_other.
    - unfold C08_Proofs.stored. rewrite delete_expired_lookup by exact Hwf. now rewrite Hs, Hp.
    - discriminate.
    - now apply map_to_cache_keeps.
    - unfold C08_Proofs.stored. rewrite tick_lookup by exact Hwf. rewrite Hs, Hp.
      now destruct (cleanupInt c >? 0).
  Qed.

  Lemma run_keeps : forall ops c k it,
    wf c -> stored c k it ->
    Forall (fun on => overwrites k (fst on) = false /\ purgeable it (snd on) = false) ops ->
    stored (fst (run c ops)) k it.
  Proof.
    induction ops as [|[o now] r IH]; intros c k it Hwf Hs Hall; [exact Hs|].
    inversion Hall as [|x l [Ho Hp] Hall']; subst. cbn [fst snd] in *.
    rewrite run_cons. cbn [fst]. apply IH; [now apply step_wf| |exact Hall'].
    now apply step_keeps.
  Qed.

  (* the clock never goes back *)
  Fixpoint nondecr (t : Z) (ts : list Z) : Prop :=
    match ts with
    | [] => True
    | x :: r => t <= x /\ nondecr x r
    end.

  Lemma nondecr_bound : forall ts t now, nondecr t (ts ++ [now]) -> t <= now /\ Forall (fun x => x <= now) ts.
  Proof.
    induction ts as [|x r IH]; intros t now H; cbn in *.
    - split; [tauto|constructor].
    - destruct H as [H1 H2]. destruct (IH x now H2) as [H3 H4]. split; [lia|]. constructor; [exact H3|exact H4].
  Qed.

  (* operations that leave key k alone: after them k has the same entry or none *)
  Definition touches k o : bool := overwrites k o || may_set k o.

  Lemma map_to_cache_lookup_other : forall m c k d now,
    existsb (fun kv => k =? fst kv) m = false ->
    al_get k (items (fst (map_to_cache c m d now))) = al_get k (items c).
  Proof.
    induction m as [|kv m IH]; intros c k d now H; [reflexivity|].
    cbn [existsb] in H. apply orb_false_elim in H as [H1 H2]. apply Z.eqb_neq in H1.
    rewrite map_to_cache_cons.
    pose proof (set_lookup_other V rejects c (fst kv) (snd kv) d now k H1) as W.
    destruct (set c (fst kv) (snd kv) d now) as [c1 e1]. specialize (IH c1 k d now H2).
    destruct (map_to_cache c1 m d now) as [c2 e2]. cbn [fst] in *. congruence.
  Qed.

  Definition same_or_gone c k it : Prop := stored c k it \/ al_get k (items c) = None.

  Lemma step_same_or_gone : forall c o now k it,
    wf c -> same_or_gone c k it -> touches k o = false -> same_or_gone (fst (step c o now)) k it.
  Proof.
    intros c o now k it Hwf H Ht. unfold touches in Ht. apply orb_false_elim in Ht as [Ho Hm].
    assert (Hlk : al_get k (items (fst (step c o now))) = al_get k (items c) \/
                  al_get k (items (fst (step c o now))) = None).
    { rewrite step_state. destruct o; cbn [overwrites may_set] in *; auto.
      - apply Z.eqb_neq in Hm. left. now apply set_lookup_other.
      - apply Z.eqb_neq in Hm. left. now apply set_lookup_other.
      - apply Z.eqb_neq in Ho. left. rewrite update_spec. destruct (rejects v); [reflexivity|].
        cbn. now rewrite al_get_put_other.
      - apply Z.eqb_neq in Ho. left. rewrite delete_spec. destruct (al_get k0 (items c)); [|reflexivity].
        cbn. now rewrite al_get_del_other.
      - rewrite delete_expired_lookup by exact Hwf.
        destruct (al_get k (items c)) as [i|]; [destruct (purgeable i now)|]; auto.
      - left. now apply map_to_cache_lookup_other.
      - rewrite tick_lookup by exact Hwf. destruct (cleanupInt c >? 0); [|auto].
        destruct (al_get k (items c)) as [i|]; [destruct (purgeable i now)|]; auto. }
    unfold same_or_gone, C08_Proofs.stored in *. destruct Hlk as [-> | ->]; auto.
  Qed.

  Lemma run_same_or_gone : forall ops c k it,
    wf c -> same_or_gone c k it -> Forall (fun on => touches k (fst on) = false) ops ->
    same_or_gone (fst (run c ops)) k it.
  Proof.
    induction ops as [|[o now] r IH]; intros c k it Hwf H Hall; [exact H|].
    inversion Hall as [|x l Ht Hall']; subst. cbn [fst] in Ht.
    rewrite run_cons. cbn [fst]. apply IH; [now apply step_wf| |exact Hall'].
    now apply step_same_or_gone.
  Qed.

  (* [c1] is [c] after a successful Set or Update of (k, v, d) at instant t0 *)
  Definition stored_by c k v d t0 c1 : Prop :=
    rejects v = false /\
    ((live c k t0 = false /\ c1 = fst (set c k v d t0)) \/ c1 = fst (update c k v d t0)).

  Lemma stored_by_stores : forall c k v d t0 c1,
    wf c -> stored_by c k v d t0 c1 ->
    wf c1 /\ stored c1 k (mkItem v (exp_of c d t0)).
  Proof.
    intros c k v d t0 c1 Hwf [Hr [[Hl ->] | ->]].
    - split; [now apply set_wf|]. rewrite set_spec, Hl, Hr. cbn. apply al_get_put_same.
    - split; [now apply update_wf|]. rewrite update_spec, Hr. cbn. apply al_get_put_same.
  Qed.

  (* Live at every instant up to the deadline; and for ever when there is no
     deadline.  The history after the store may contain anything except
     Update/Delete of the key and Flush: Set and MapToCache on the key (they
     fail), DeleteExpired and ticks of the janitor at any instants. *)
  (* the general form: whatever the clock does, as long as no instant of the
     history (nor the instant of the final Get) is past a positive stored
     deadline; an entry whose stored expiration is not positive has nothing to
     fear from any instant *)
  Lemma live_while_unexpired : forall c k v d t0 c1 ops now,
    wf c -> stored_by c k v d t0 c1 ->
    Forall (fun on => overwrites k (fst on) = false) ops ->
    (0 < exp_of c d t0 -> Forall (fun t => t <= exp_of c d t0) (map snd ops ++ [now])) ->
    let c2 := fst (run c1 ops) in
    stored c2 k (mkItem v (exp_of c d t0)) /\
    get c2 k now = (Some (mkItem v (exp_of c d t0)), None).
  Proof.
    intros c k v d t0 c1 ops now Hwf Hst Hov Hdl c2.
    destruct (stored_by_stores c k v d t0 c1 Hwf Hst) as [Hwf1 Hs1].
    assert (Hnp : forall t, In t (map snd ops ++ [now]) -> purgeable (mkItem v (exp_of c d t0)) t = false).
    { intros t Ht. destruct (purgeable _ t) eqn:E; [|reflexivity].
      apply purgeable_iff in E. cbn [expiration] in E. destruct E as [E1 E2].
      specialize (Hdl E1). rewrite Forall_forall in Hdl. specialize (Hdl t Ht). lia. }
    assert (Hs2 : stored c2 k (mkItem v (exp_of c d t0))).
    { apply run_keeps; [exact Hwf1|exact Hs1|].
      rewrite Forall_forall in *. intros on Hin. split; [now apply Hov|].
      apply Hnp. apply in_or_app. left. now apply in_map. }
    split; [exact Hs2|].
    apply get_live_iff. split; [exact Hs2|].
    unfold C08_Proofs.live. rewrite Hs2. rewrite Hnp; [reflexivity|].
    apply in_or_app. right. now left.
  Qed.

  Lemma live_until_deadline : forall c k v d t0 c1 ops now,
    wf c -> stored_by c k v d t0 c1 ->
    Forall (fun on => overwrites k (fst on) = false) ops ->
    nondecr t0 (map snd ops ++ [now]) ->
    (0 < exp_of c d t0 -> now <= exp_of c d t0) ->
    let c2 := fst (run c1 ops) in
    stored c2 k (mkItem v (exp_of c d t0)) /\
    get c2 k now = (Some (mkItem v (exp_of c d t0)), None).
  Proof.
    intros c k v d t0 c1 ops now Hwf Hst Hov Hclk Hdl.
    apply live_while_unexpired; [exact Hwf|exact Hst|exact Hov|].
    intros Hp. specialize (Hdl Hp).
    destruct (nondecr_bound _ _ _ Hclk) as [_ Hle].
    apply Forall_app. split.
    - eapply Forall_impl; [|exact Hle]. cbn. intros a Ha. lia.
    - constructor; [exact Hdl|constructor].
  Qed.

  (* Expired at every instant after the deadline — whatever the clock did in
     between, and whether or not the janitor has removed the entry — as long
     as nothing stores under the key again. *)
  Lemma expired_after_deadline : forall c k v d t0 c1 ops now,
    wf c -> stored_by c k v d t0 c1 ->
    Forall (fun on => touches k (fst on) = false) ops ->
    0 <= t0 -> 0 < eff c d -> t0 + eff c d <= max_i64 -> t0 + eff c d < now ->
    let c2 := fst (run c1 ops) in
    (exists e, get c2 k now = (None, Some e)) /\ live c2 k now = false.
  Proof.
    intros c k v d t0 c1 ops now Hwf Hst Ht Ht0 Heff Hmax Hnow c2.
    destruct (stored_by_stores c k v d t0 c1 Hwf Hst) as [Hwf1 Hs1].
    rewrite exp_of_pos in Hs1 by assumption.
    assert (H2 : same_or_gone c2 k (mkItem v (t0 + eff c d))).
    { apply run_same_or_gone; [exact Hwf1|now left|exact Ht]. }
    assert (Hl : live c2 k now = false).
    { unfold C08_Proofs.live. destruct H2 as [H2|H2]; rewrite H2; [|reflexivity].
      replace (purgeable _ now) with true; [reflexivity|]. symmetry. apply purgeable_iff. cbn. lia. }
    split; [|exact Hl]. now apply get_not_live.
  Qed.

  (* ---------- the janitor ---------- *)

  Lemma tick_removes_expired : forall c k it now,
    wf c -> stored c k it -> 0 < expiration it < now -> 0 < cleanupInt c ->
    al_get k (items (tick c now)) = None.
  Proof.
    intros c k it now Hwf Hs Hx Hci. rewrite tick_lookup by exact Hwf.
    replace (cleanupInt c >? 0) with true by (symmetry; now apply Z.gtb_lt).
    rewrite Hs. now replace (purgeable it now) with true by (symmetry; now apply purgeable_iff).
  Qed.

  Lemma tick_keeps_unexpired : forall c k it now,
    wf c -> stored c k it -> (0 < expiration it -> now <= expiration it) ->
    stored (tick c now) k it.
  Proof.
    intros c k it now Hwf Hs Hx. apply (step_keeps c OTick now k it Hwf Hs); [|reflexivity].
    destruct (purgeable it now) eqn:E; [|reflexivity]. apply purgeable_iff in E. lia.
  Qed.

  (* gone after the first tick past the deadline, and it stays gone until
     something stores under the key again *)
  Lemma gone_after_tick_past_deadline : forall c k v d t0 c1 ops1 tau ops2,
    wf c -> stored_by c k v d t0 c1 ->
    Forall (fun on => touches k (fst on) = false) ops1 ->
    Forall (fun on => touches k (fst on) = false) ops2 ->
    0 <= t0 -> 0 < eff c d -> t0 + eff c d <= max_i64 -> t0 + eff c d < tau -> 0 < cleanupInt c ->
    al_get k (items (fst (run c1 (ops1 ++ (OTick, tau) :: ops2)))) = None.
  Proof.
    intros c k v d t0 c1 ops1 tau ops2 Hwf Hst H1 H2 Ht0 Heff Hmax Htau Hci.
    destruct (stored_by_stores c k v d t0 c1 Hwf Hst) as [Hwf1 Hs1].
    rewrite exp_of_pos in Hs1 by assumption.
    set (it := mkItem v (t0 + eff c d)) in *.
    rewrite run_app, run_cons. cbn [fst].
    set (ca := fst (run c1 ops1)).
    assert (Hwfa : wf ca) by now apply run_wf.
    assert (Ha : same_or_gone ca k it) by (apply run_same_or_gone; [exact Hwf1|now left|exact H1]).
    assert (Hcfg : cleanupInt ca = cleanupInt c).
    { assert (G : forall ops c0, cleanupInt (fst (run c0 ops)) = cleanupInt c0).
      { clear. induction ops as [|[o now] r IH]; intros c0; [reflexivity|].
        rewrite run_cons. cbn [fst]. rewrite IH. now destruct (step_cfg c0 o now). }
      unfold ca. rewrite G.
      destruct Hst as [_ [[_ ->] | ->]].
      - now destruct (set_cfg V rejects c k v d t0).
      - rewrite update_spec. now destruct (rejects v). }
    assert (Hb : al_get k (items (tick ca tau)) = None).
    { destruct Ha as [Ha|Ha].
      - apply (tick_removes_expired ca k it tau Hwfa Ha); [cbn; lia|lia].
      - rewrite tick_lookup by exact Hwfa. rewrite Ha. now destruct (cleanupInt ca >? 0). }
    assert (Hc : same_or_gone (fst (run (tick ca tau) ops2)) k it).
    { apply run_same_or_gone; [now apply tick_wf|now right|exact H2]. }
    destruct Hc as [Hc|Hc]; [|exact Hc].
    (* it cannot come back *)
    exfalso.
    assert (G : forall ops c0, wf c0 -> al_get k (items c0) = None ->
                Forall (fun on => touches k (fst on) = false) ops ->
                al_get k (items (fst (run c0 ops))) = None).
    { clear - rejects. induction ops as [|[o now] r IH]; intros c0 Hw Hn Hall; [exact Hn|].
      inversion Hall as [|x l Ht Hall']; subst. cbn [fst] in Ht.
      rewrite run_cons. cbn [fst]. apply IH; [now apply step_wf| |exact Hall'].
      assert (Hi : forall i : item V, same_or_gone (fst (step c0 o now)) k i).
      { intros i. apply step_same_or_gone; [exact Hw|now right|exact Ht]. }
      destruct (al_get k (items (fst (step c0 o now)))) as [j|] eqn:E; [|reflexivity].
      destruct (Hi (mkItem (object j) (expiration j + 1))) as [Hx|Hx];
        unfold C08_Proofs.stored in Hx; rewrite E in Hx; [|discriminate].
      injection Hx as Hx. destruct j as [oj ej]. cbn in Hx. injection Hx as Hx. lia. }
    unfold C08_Proofs.stored in Hc. rewrite (G ops2 (tick ca tau)) in Hc; [discriminate|now apply tick_wf|exact Hb|exact H2].
  Qed.

  (* ---------- IsExpired over histories ---------- *)

  (* After any history that does not store under the key again (ticks and
     DeleteExpired included), IsExpired answers: still stored, and the instant
     is past the (positive, stored) deadline. *)
  Lemma is_expired_history : forall c k v d t0 c1 ops now,
    wf c -> stored_by c k v d t0 c1 ->
    Forall (fun on => touches k (fst on) = false) ops ->
    let c2 := fst (run c1 ops) in
    is_expired c2 k now = true <->
    stored c2 k (mkItem v (exp_of c d t0)) /\ 0 < exp_of c d t0 < now.
  Proof.
    intros c k v d t0 c1 ops now Hwf Hst Ht c2.
    destruct (stored_by_stores c k v d t0 c1 Hwf Hst) as [Hwf1 Hs1].
    assert (H2 : same_or_gone c2 k (mkItem v (exp_of c d t0))).
    { apply run_same_or_gone; [exact Hwf1|now left|exact Ht]. }
    rewrite is_expired_iff. split.
    - intros (it & Hs & Hx). destruct H2 as [H2|H2].
      + unfold C08_Proofs.stored in *. rewrite H2 in Hs. injection Hs as <-. cbn in Hx. auto.
      + unfold C08_Proofs.stored in Hs. rewrite H2 in Hs. discriminate.
    - intros [Hs Hx]. exists (mkItem v (exp_of c d t0)). auto.
  Qed.

  (* ---------- a ticker that fires at least every g nanoseconds ---------- *)

  (* the instants of the janitor's ticks in a history *)
  Definition tick_instants (ops : list (op V * Z)) : list Z :=
    map snd (filter (fun on => match fst on with OTick => true | _ => false end) ops).

  (* consecutive ticks are at most g apart, the first at most g after t *)
  Fixpoint regular (g t : Z) (ts : list Z) : Prop :=
    match ts with
    | [] => True
    | x :: r => t <= x <= t + g /\ regular g x r
    end.

  Lemma regular_hits : forall g ts t D,
    regular g t ts -> t <= D -> (exists x, In x ts /\ D < x) ->
    exists pre tau post, ts = pre ++ tau :: post /\ D < tau <= D + g /\ Forall (fun x => x <= D) pre.
  Proof.
    intros g; induction ts as [|x r IH]; intros t D Hr Ht [y [Hy HD]]; [contradiction|].
    cbn in Hr. destruct Hr as [Hx Hr].
    destruct (Z_lt_le_dec D x) as [Hlt|Hle].
    - exists [], x, r. split; [reflexivity|]. split; [lia|constructor].
    - destruct Hy as [->|Hy]; [lia|].
      destruct (IH x D Hr Hle (ex_intro _ y (conj Hy HD))) as (pre & tau & post & -> & Htau & Hpre).
      exists (x :: pre), tau, post. split; [reflexivity|]. split; [exact Htau|]. now constructor.
  Qed.

  Lemma tick_instants_split : forall ops pre tau post,
    tick_instants ops = pre ++ tau :: post ->
    exists ops1 ops2, ops = ops1 ++ (OTick, tau) :: ops2 /\ tick_instants ops1 = pre.
  Proof.
    induction ops as [|[o t] r IH]; intros pre tau post H; [destruct pre; discriminate|].
    unfold tick_instants in H. cbn [filter fst] in H.
    destruct o; try (destruct (IH pre tau post H) as (o1 & o2 & -> & Hp);
                     eexists (_ :: o1), o2; split; [reflexivity|exact Hp]).
    cbn [map snd] in H. destruct pre as [|p pre].
    - injection H as -> _. exists [], r. split; reflexivity.
    - injection H as -> H. destruct (IH pre tau post H) as (o1 & o2 & -> & Hp).
      exists ((OTick, p) :: o1), o2. split; [reflexivity|]. unfold tick_instants in *. cbn. now rewrite Hp.
  Qed.

  Lemma Forall_firstn_ : forall {A} (P : A -> Prop) n l, Forall P l -> Forall P (firstn n l).
  Proof.
    intros A P n l H. rewrite <- (firstn_skipn n l) in H. now apply Forall_app in H as [H _].
  Qed.

  (* If the runtime fires the ticker at least every g ns — the first time at
     most g after an instant t that is not past the deadline, e.g. the instant
     of the store — then the expired entry is removed by a tick that comes at
     most g after its deadline, and is absent from every later state. *)
  Lemma gone_within_g_of_regular_ticker : forall c k v d t0 c1 ops g t,
    wf c -> stored_by c k v d t0 c1 ->
    Forall (fun on => touches k (fst on) = false) ops ->
    0 <= t0 -> 0 < eff c d -> t0 + eff c d <= max_i64 -> 0 < cleanupInt c ->
    regular g t (tick_instants ops) -> t <= t0 + eff c d ->
    (exists x, In x (tick_instants ops) /\ t0 + eff c d < x) ->
    exists ops1 tau ops2,
      ops = ops1 ++ (OTick, tau) :: ops2 /\
      t0 + eff c d < tau <= t0 + eff c d + g /\
      forall n, al_get k (items (fst (run c1 (ops1 ++ (OTick, tau) :: firstn n ops2)))) = None.
  Proof.
    intros c k v d t0 c1 ops g t Hwf Hst Ht Ht0 Heff Hmax Hci Hreg Hle Hex.
    destruct (regular_hits g _ t _ Hreg Hle Hex) as (pre & tau & post & Hsplit & Htau & _).
    destruct (tick_instants_split ops pre tau post Hsplit) as (ops1 & ops2 & -> & _).
    exists ops1, tau, ops2. split; [reflexivity|]. split; [exact Htau|].
    apply Forall_app in Ht as [H1 H2]. inversion H2 as [|x l _ H2']; subst.
    intros n. apply (gone_after_tick_past_deadline c k v d t0 c1 ops1 tau (firstn n ops2)); try assumption; try lia.
    now apply Forall_firstn_.
  Qed.

End Histories.

(* ================================================================= *)
(* Part 4: refinement to the reference machine (a map with deadlines) *)
(* ================================================================= *)

Section Refinement.
  Variable V : Type.
  Variable rejects : V -> bool.
  Implicit Types (c : cache V) (it : item V) (k d now : Z) (v : V) (o : op V).

  Notation set := (set V rejects).
  Notation update := (update V rejects).
  Notation map_to_cache := (map_to_cache V rejects).
  Notation step := (step V rejects).
  Notation run := (run V rejects).
  Notation spec_step := (spec_step V rejects).
  Notation spec_run := (spec_run V rejects).
  Notation wf := (wf V).

  Lemma abs_sm : forall c, sm (abs c) = map (fun e => (fst e, abs_item (snd e))) (items c).
  Proof. reflexivity. Qed.

  Lemma e_live_abs : forall it now, e_live (abs_item it) now = negb (purgeable it now).
  Proof.
    intros it now. unfold e_live, abs_item, purgeable. cbn [snd].
    destruct (expiration it >? 0); cbn; [|reflexivity].
    rewrite Z.gtb_ltb, Z.leb_antisym. reflexivity.
  Qed.

  Lemma abs_live : forall c k now, s_live (abs c) k now = live V c k now.
  Proof.
    intros c k now. unfold s_live, live. rewrite abs_sm.
    rewrite (al_get_map abs_item). destruct (al_get k (items c)) as [it|]; cbn; [apply e_live_abs|reflexivity].
  Qed.

  (* instants are int64 (UnixNano, positive), durations are int64 *)
  Definition ok c d now : Prop := 0 <= now <= max_i64 /\ d <= max_i64 /\ expTime c <= max_i64.

  Lemma abs_fresh : forall c v d now, ok c d now ->
    abs_item (mkItem v (exp_of c d now)) = (v, deadline_of (abs c) d now).
  Proof.
    intros c v d now (Hnow & Hd & He). unfold abs_item, deadline_of. cbn [object expiration s_default abs].
    rewrite (exp_of_unfold V). pose proof (eff_le V c d Hd He) as Hle.
    unfold eff, DefaultExpiration in *.
    set (d' := if d =? 0 then expTime c else d) in *.
    destruct (d' >? 0) eqn:E.
    - apply Z.gtb_lt in E. destruct (now + d' <=? max_i64) eqn:F.
      + apply Z.leb_le in F. rewrite (wrap64_id (now + d')) by (unfold max_i64 in *; lia).
        replace (now + d' >? 0) with true; [reflexivity|]. symmetry. apply Z.gtb_lt. lia.
      + apply Z.leb_gt in F. rewrite (wrap64_over (now + d')) by lia.
        replace (now + d' - 18446744073709551616 >? 0) with false; [reflexivity|].
        symmetry. rewrite Z.gtb_ltb. apply Z.ltb_ge. unfold max_i64 in *. lia.
    - destruct (d' <? 0); reflexivity.
  Qed.

  Lemma abs_put : forall c k it,
    abs (with_items c (al_put k it (items c))) = s_with V (abs c) (al_put k (abs_item it) (sm (abs c))).
  Proof.
    intros c k it. unfold abs, s_with. cbn. f_equal. apply (al_put_map abs_item).
  Qed.

  Lemma abs_filter : forall c now,
    abs (with_items c (filter (keep V now) (items c))) = s_purge (abs c) now.
  Proof.
    intros c now. unfold abs, s_purge, s_with. cbn. f_equal.
    apply (filter_map_comm abs_item). intros e _. cbn. unfold keep. apply e_live_abs.
  Qed.

  Lemma store_refines : forall c k v d now, ok c d now ->
    s_store V rejects (abs c) k v d now =
    (abs (fst (update c k v d now)), is_some (snd (update c k v d now))).
  Proof.
    intros c k v d now Hnow. rewrite update_spec. unfold s_store.
    destruct (rejects v); [reflexivity|]. cbn [fst snd is_some].
    now rewrite abs_put, abs_fresh.
  Qed.

  Lemma set_refines : forall c k v d now, ok c d now ->
    s_set V rejects (abs c) k v d now = (abs (fst (set c k v d now)), is_some (snd (set c k v d now))).
  Proof.
    intros c k v d now Hnow. unfold s_set. rewrite abs_live, set_spec.
    destruct (live V c k now); [reflexivity|].
    rewrite (store_refines c k v d now Hnow), update_spec. now destruct (rejects v).
  Qed.

  Lemma map_to_cache_refines : forall m c e d now, ok c d now ->
    fold_left (fun (acc : spec V * bool) (kv : Z * V) =>
                 let '(s1, f1) := s_set V rejects (fst acc) (fst kv) (snd kv) d now in
                 (s1, snd acc || f1)) m (abs c, is_some e)
    = let r := fold_left (fun (acc : cache V * option Z) (kv : Z * V) =>
                 let '(c', e') := set (fst acc) (fst kv) (snd kv) d now in
                 (c', join (snd acc) e')) m (c, e) in
      (abs (fst r), is_some (snd r)).
  Proof.
    induction m as [|kv m IH]; intros c e d now Hnow; [reflexivity|].
    cbn [fold_left fst snd]. rewrite (set_refines c (fst kv) (snd kv) d now Hnow).
    pose proof (set_cfg V rejects c (fst kv) (snd kv) d now) as [Hcfg _].
    destruct (set c (fst kv) (snd kv) d now) as [c1 e1]. cbn [fst snd] in *.
    replace (is_some e || is_some e1) with (is_some (join e e1)) by (destruct e, e1; reflexivity).
    apply IH. destruct Hnow as (A & B & C). repeat split; try tauto. now rewrite Hcfg.
  Qed.

  Lemma step_refines : forall c o now, wf c -> ok c (op_dur V o) now ->
    spec_step (abs c) o now = (abs (fst (step c o now)), project (snd (step c o now))).
  Proof.
    intros c o now Hwf Hnow. destruct o; cbn [C08_Model.step C08_Model.spec_step op_dur] in *.
    - rewrite (set_refines c k v d now Hnow). now destruct (set c k v d now).
    - unfold set_default, DefaultExpiration in *. rewrite (set_refines c k v 0 now Hnow). now destruct (set c k v 0 now).
    - rewrite (store_refines c k v d now Hnow). now destruct (update c k v d now).
    - cbn [fst snd project]. rewrite get_spec, abs_sm, (al_get_map abs_item).
      destruct (al_get k (items c)) as [it|]; cbn; [|reflexivity].
      rewrite e_live_abs. now destruct (purgeable it now).
    - rewrite delete_spec, abs_sm, (al_get_map abs_item).
      destruct (al_get k (items c)); cbn; [|reflexivity].
      unfold abs, s_with. cbn. now rewrite (al_del_map abs_item).
    - rewrite (delete_expired_exact V c now Hwf). cbn. now rewrite abs_filter.
    - reflexivity.
    - cbn. unfold list_. rewrite map_map. reflexivity.
    - cbn. unfold count. now rewrite map_length.
    - unfold C08_Model.map_to_cache.
      pose proof (map_to_cache_refines m c None d now Hnow) as W. cbn [is_some] in W. rewrite W.
      destruct (fold_left _ m (c, None)) as [c' e']. reflexivity.
    - cbn. unfold is_expired. rewrite (al_get_map abs_item).
      destruct (al_get k (items c)) as [it|]; cbn; [|reflexivity].
      rewrite e_live_abs, negb_involutive. reflexivity.
    - cbn. rewrite (tick_spec V c now Hwf). destruct (cleanupInt c >? 0); [|reflexivity].
      now rewrite abs_filter.
  Qed.

  Lemma run_refines : forall ops c, wf c -> expTime c <= max_i64 -> in_range V ops ->
    spec_run (abs c) ops = (abs (fst (run c ops)), map project (snd (run c ops))).
  Proof.
    induction ops as [|[o now] r IH]; intros c Hwf He Hall; [reflexivity|].
    inversion Hall as [|x l [Hnow Hd] Hall']; subst. cbn [fst snd] in Hnow, Hd.
    cbn [C08_Model.spec_run]. rewrite (step_refines c o now Hwf) by (repeat split; tauto).
    rewrite (run_cons V rejects). cbn [fst snd map].
    destruct (step_cfg V rejects c o now) as [Hcfg _].
    rewrite (IH (fst (step c o now)) (step_wf V rejects c o now Hwf)); [reflexivity| |exact Hall'].
    now rewrite Hcfg.
  Qed.

  Lemma refines_spec : forall e ci ops, e <= max_i64 -> in_range V ops ->
    spec_run (spec_new e ci) ops =
    (abs (fst (run (new e ci) ops)), map project (snd (run (new e ci) ops))).
  Proof.
    intros e ci ops He Hall. change (spec_new e ci) with (abs (new (V:=V) e ci)).
    apply run_refines; [|exact He|exact Hall]. unfold C08_Proofs.wf; cbn. constructor.
  Qed.

End Refinement.

(* ================================================================= *)
(* Part 5: the janitor is unobservable through Get/Set/Update/…       *)
(* ================================================================= *)

Section Janitor.
  Variable V : Type.
  Variable rejects : V -> bool.
  Implicit Types (c : cache V) (it : item V) (k d now : Z) (v : V) (o : op V).

  Notation set := (set V rejects).
  Notation update := (update V rejects).
  Notation map_to_cache := (map_to_cache V rejects).
  Notation step := (step V rejects).
  Notation run := (run V rejects).
  Notation wf := (wf V).
  Notation live := (live V).

  (* what a reader can see of key k at instant now: its entry unless expired *)
  Definition view c now k : option (item V) :=
    match al_get k (items c) with
    | Some it => if purgeable it now then None else Some it
    | None => None
    end.

  (* two caches that differ only in expired entries *)
  Definition veq now c1 c2 : Prop :=
    expTime c1 = expTime c2 /\ cleanupInt c1 = cleanupInt c2 /\ forall k, view c1 now k = view c2 now k.

  Lemma veq_refl : forall now c, veq now c c.
  Proof. intros; repeat split. Qed.

  Lemma veq_sym : forall now c1 c2, veq now c1 c2 -> veq now c2 c1.
  Proof. intros now c1 c2 (A & B & C). repeat split; auto. Qed.

  Lemma veq_trans : forall now c1 c2 c3, veq now c1 c2 -> veq now c2 c3 -> veq now c1 c3.
  Proof.
    intros now c1 c2 c3 (A & B & C) (A' & B' & C'). split; [congruence|split; [congruence|]].
    intros k. rewrite C. apply C'.
  Qed.

  Lemma view_mono : forall c now now' k, now <= now' ->
    view c now' k = match view c now k with
                    | Some it => if purgeable it now' then None else Some it
                    | None => None
                    end.
  Proof.
    intros c now now' k Hle. unfold view. destruct (al_get k (items c)) as [it|]; [|reflexivity].
    destruct (purgeable it now) eqn:E; [|reflexivity].
    now rewrite (purgeable_mono V it now now' Hle E).
  Qed.

  Lemma veq_mono : forall now now' c1 c2, now <= now' -> veq now c1 c2 -> veq now' c1 c2.
  Proof.
    intros now now' c1 c2 Hle (A & B & C). repeat split; auto.
    intros k. rewrite !(view_mono _ now now' k Hle). now rewrite C.
  Qed.

  Lemma live_view : forall c k now, live c k now = is_some (view c now k).
  Proof.
    intros c k now. unfold C08_Proofs.live, view.
    destruct (al_get k (items c)) as [it|]; [|reflexivity]. now destruct (purgeable it now).
  Qed.

  Lemma view_put : forall c k it now k',
    view (with_items c (al_put k it (items c))) now k' =
    if k' =? k then (if purgeable it now then None else Some it) else view c now k'.
  Proof.
    intros c k it now k'. unfold view; cbn. destruct (k' =? k) eqn:E.
    - apply Z.eqb_eq in E; subst. now rewrite al_get_put_same.
    - apply Z.eqb_neq in E. now rewrite al_get_put_other.
  Qed.

  Lemma view_filter : forall c now k, wf c ->
    view (with_items c (filter (keep V now) (items c))) now k = view c now k.
  Proof.
    intros c now k Hwf. unfold view; cbn. rewrite al_get_filter by exact Hwf. unfold keep; cbn.
    destruct (al_get k (items c)) as [it|]; [|reflexivity].
    destruct (purgeable it now) eqn:E; cbn; [reflexivity|now rewrite E].
  Qed.

  Lemma veq_tick : forall c now, wf c -> veq now (tick c now) c.
  Proof.
    intros c now Hwf. rewrite (tick_spec V c now Hwf). destruct (cleanupInt c >? 0); [|apply veq_refl].
    repeat split. intros k. now apply view_filter.
  Qed.

  Lemma exp_of_veq : forall now c1 c2 d t, veq now c1 c2 -> exp_of c1 d t = exp_of c2 d t.
  Proof. intros now c1 c2 d t (A & _ & _). unfold exp_of. now rewrite A. Qed.

  Lemma veq_put : forall now c1 c2 k it, veq now c1 c2 ->
    veq now (with_items c1 (al_put k it (items c1))) (with_items c2 (al_put k it (items c2))).
  Proof.
    intros now c1 c2 k it (A & B & C). repeat split; auto.
    intros k'. rewrite !view_put. destruct (k' =? k); auto.
  Qed.

  Lemma set_veq : forall now c1 c2 k v d, veq now c1 c2 ->
    veq now (fst (set c1 k v d now)) (fst (set c2 k v d now)) /\
    snd (set c1 k v d now) = snd (set c2 k v d now).
  Proof.
    intros now c1 c2 k v d H. rewrite !set_spec, !live_view.
    destruct H as (A & B & C). rewrite (C k).
    destruct (is_some (view c2 now k)); [split; [repeat split; auto|reflexivity]|].
    destruct (rejects v); [split; [repeat split; auto|reflexivity]|].
    cbn [fst snd]. split; [|reflexivity].
    rewrite (exp_of_veq now c1 c2 d now) by (repeat split; auto).
    apply veq_put. repeat split; auto.
  Qed.

  Lemma update_veq : forall now c1 c2 k v d, veq now c1 c2 ->
    veq now (fst (update c1 k v d now)) (fst (update c2 k v d now)) /\
    snd (update c1 k v d now) = snd (update c2 k v d now).
  Proof.
    intros now c1 c2 k v d H. rewrite !update_spec.
    destruct (rejects v); [split; [exact H|reflexivity]|].
    cbn [fst snd]. split; [|reflexivity].
    rewrite (exp_of_veq now c1 c2 d now H). now apply veq_put.
  Qed.

  Lemma map_to_cache_veq : forall m now c1 c2 d, veq now c1 c2 ->
    veq now (fst (map_to_cache c1 m d now)) (fst (map_to_cache c2 m d now)) /\
    snd (map_to_cache c1 m d now) = snd (map_to_cache c2 m d now).
  Proof.
    induction m as [|kv m IH]; intros now c1 c2 d H; [split; [exact H|reflexivity]|].
    rewrite !map_to_cache_cons.
    destruct (set_veq now c1 c2 (fst kv) (snd kv) d H) as [H1 H2].
    destruct (set c1 (fst kv) (snd kv) d now) as [a1 e1].
    destruct (set c2 (fst kv) (snd kv) d now) as [a2 e2]. cbn [fst snd] in *.
    destruct (IH now a1 a2 d H1) as [H3 H4].
    destruct (map_to_cache a1 m d now) as [b1 f1].
    destruct (map_to_cache a2 m d now) as [b2 f2]. cbn [fst snd] in *. subst. auto.
  Qed.

  Lemma view_delete : forall c k now k',
    view (fst (delete c k)) now k' = if k' =? k then None else view c now k'.
  Proof.
    intros c k now k'. rewrite delete_spec. unfold view.
    destruct (al_get k (items c)) as [i|] eqn:E; cbn [fst items with_items].
    - destruct (k' =? k) eqn:E2.
      + apply Z.eqb_eq in E2; subst. now rewrite al_get_del_same.
      + apply Z.eqb_neq in E2. now rewrite al_get_del_other.
    - destruct (k' =? k) eqn:E2; [|reflexivity]. apply Z.eqb_eq in E2; subst. now rewrite E.
  Qed.

  (* operations whose result a purge cannot change *)
  Definition transparent o : bool :=
    match o with
    | ODelete _ | OList | OCount | OIsExpired _ => false
    | _ => true
    end.

  Lemma step_veq : forall now c1 c2 o, wf c1 -> wf c2 -> veq now c1 c2 ->
    veq now (fst (step c1 o now)) (fst (step c2 o now)) /\
    (transparent o = true -> project (snd (step c1 o now)) = project (snd (step c2 o now))).
  Proof.
    intros now c1 c2 o W1 W2 H. destruct o; cbn [C08_Model.step transparent].
    - destruct (set_veq now c1 c2 k v d H) as [A B].
      destruct (set c1 k v d now), (set c2 k v d now); cbn in *. subst. auto.
    - unfold set_default. destruct (set_veq now c1 c2 k v DefaultExpiration H) as [A B].
      destruct (set c1 k v DefaultExpiration now), (set c2 k v DefaultExpiration now); cbn in *. subst. auto.
    - destruct (update_veq now c1 c2 k v d H) as [A B].
      destruct (update c1 k v d now), (update c2 k v d now); cbn in *. subst. auto.
    - cbn [fst snd]. split; [exact H|]. intros _. cbn [project]. rewrite !get_spec.
      destruct H as (_ & _ & C). specialize (C k). unfold view in C.
      destruct (al_get k (items c1)) as [i1|], (al_get k (items c2)) as [i2|];
        try destruct (purgeable i1 now); try destruct (purgeable i2 now); cbn; congruence.
    - split; [|discriminate].
      assert (A : veq now (fst (delete c1 k)) (fst (delete c2 k))).
      { destruct H as (A & B & C).
        assert (Hc : forall c, expTime (fst (delete c k)) = expTime c /\ cleanupInt (fst (delete c k)) = cleanupInt c).
        { intros c. rewrite delete_spec. destruct (al_get k (items c)); split; reflexivity. }
        destruct (Hc c1), (Hc c2). repeat split; try congruence.
        intros k'. rewrite !view_delete. destruct (k' =? k); auto. }
      now destruct (delete c1 k), (delete c2 k).
    - rewrite (delete_expired_exact V c1 now W1), (delete_expired_exact V c2 now W2). cbn [fst snd].
      split; [|reflexivity]. destruct H as (A & B & C). repeat split; auto.
      intros k. rewrite !view_filter by assumption. apply C.
    - cbn [fst snd]. split; [|reflexivity]. destruct H as (A & B & C). repeat split; auto.
    - cbn [fst snd]. split; [exact H|discriminate].
    - cbn [fst snd]. split; [exact H|discriminate].
    - destruct (map_to_cache_veq m now c1 c2 d H) as [A B].
      destruct (map_to_cache c1 m d now), (map_to_cache c2 m d now); cbn in *. subst. auto.
    - cbn [fst snd]. split; [exact H|discriminate].
    - cbn [fst snd]. split; [|reflexivity].
      apply (veq_trans now _ c1); [now apply veq_tick|].
      apply (veq_trans now _ c2); [exact H|]. apply veq_sym. now apply veq_tick.
  Qed.

  Definition is_tick o : bool := match o with OTick => true | _ => false end.
  Definition strip_ticks (ops : list (op V * Z)) : list (op V * Z) :=
    filter (fun on => negb (is_tick (fst on))) ops.

  (* the projected results of the transparent operations of a history *)
  Fixpoint visible (ops : list (op V * Z)) (outs : list (out V)) : list (sout V) :=
    match ops, outs with
    | (o, _) :: r, x :: xs =>
        if transparent o && negb (is_tick o) then project x :: visible r xs else visible r xs
    | _, _ => []
    end.

  Lemma janitor_unobservable_gen : forall ops t c1 c2,
    wf c1 -> wf c2 -> veq t c1 c2 -> nondecr t (map snd ops) ->
    visible ops (snd (run c1 ops)) = visible (strip_ticks ops) (snd (run c2 (strip_ticks ops))).
  Proof.
    induction ops as [|[o now] r IH]; intros t c1 c2 W1 W2 H Hclk; [reflexivity|].
    cbn [map snd nondecr] in Hclk. destruct Hclk as [Hle Hclk].
    assert (Hn : veq now c1 c2) by (eapply veq_mono; eauto).
    rewrite (run_cons V rejects). cbn [snd visible strip_ticks filter fst].
    destruct (is_tick o) eqn:Et; cbn [negb andb].
    - rewrite andb_false_r. destruct o; try discriminate. cbn [C08_Model.step fst].
      apply (IH now); [now apply tick_wf|exact W2| |exact Hclk].
      apply (veq_trans now _ c1); [now apply veq_tick|exact Hn].
    - rewrite andb_true_r. rewrite (run_cons V rejects). cbn [snd visible].
      destruct (step_veq now c1 c2 o W1 W2 Hn) as [A B].
      assert (IH' := IH now _ _ (step_wf V rejects c1 o now W1) (step_wf V rejects c2 o now W2) A Hclk).
      fold (strip_ticks r). destruct (transparent o) eqn:Etr; cbn [andb].
      + rewrite Et. cbn [negb]. rewrite (B eq_refl). f_equal. exact IH'.
      + exact IH'.
  Qed.

  (* For every history over a non-decreasing clock: erasing all firings of the
     janitor changes no result of Get / Set / SetDefault / Update / MapToCache /
     DeleteExpired / Flush (values, and error yes/no). *)
  Lemma janitor_unobservable : forall ops t c,
    wf c -> nondecr t (map snd ops) ->
    visible ops (snd (run c ops)) = visible (strip_ticks ops) (snd (run c (strip_ticks ops))).
  Proof. intros ops t c W H. apply (janitor_unobservable_gen ops t c c W W (veq_refl t c) H). Qed.

End Janitor.

(* ================================================================= *)
(* Part 6: corollaries named by the property text                     *)
(* ================================================================= *)

Section Corollaries.
  Variable V : Type.
  Variable rejects : V -> bool.
  Implicit Types (c : cache V) (it : item V) (k d now : Z) (v : V) (o : op V).

  Notation set := (set V rejects).
  Notation update := (update V rejects).
  Notation run := (run V rejects).

  Lemma rejected_value_reported : forall c k v d now,
    rejects v = true ->
    (exists e, set c k v d now = (c, Some e)) /\
    (exists e, set_default V rejects c k v now = (c, Some e)) /\
    update c k v d now = (c, Some E_EMPTY).
  Proof.
    intros c k v d now Hr. unfold set_default. rewrite !set_spec, update_spec, Hr.
    repeat split; destruct (live V c k now); eauto.
  Qed.

  Lemma duplicate_key_reported : forall c k v d now,
    live V c k now = true -> set c k v d now = (c, Some E_EXISTS).
  Proof. intros c k v d now Hl. now rewrite set_spec, Hl. Qed.

  Lemma live_before_deadline : forall c k v d t0 c1 (ops : list (op V * Z)) now,
    wf V c -> stored_by V rejects c k v d t0 c1 ->
    Forall (fun on => overwrites V k (fst on) = false) ops ->
    nondecr t0 (map snd ops ++ [now]) ->
    0 <= t0 -> 0 < eff V c d -> t0 + eff V c d <= max_i64 -> now <= t0 + eff V c d ->
    C08_Model.get (fst (run c1 ops)) k now = (Some (mkItem v (t0 + eff V c d)), None).
  Proof.
    intros c k v d t0 c1 ops now Hwf Hst Hov Hclk Ht0 Heff Hmax Hnow.
    destruct (live_until_deadline V rejects c k v d t0 c1 ops now Hwf Hst Hov Hclk) as [_ H].
    - rewrite exp_of_pos by assumption. lia.
    - now rewrite exp_of_pos in H by assumption.
  Qed.

  (* no clock hypothesis at all: the instants of the history are arbitrary *)
  Lemma no_expiry_never_expires : forall c k v d t0 c1 (ops : list (op V * Z)) now,
    wf V c -> stored_by V rejects c k v d t0 c1 ->
    Forall (fun on => overwrites V k (fst on) = false) ops ->
    eff V c d <= 0 ->
    let c2 := fst (run c1 ops) in
    exists x, (x = -1 \/ x = 0) /\ stored V c2 k (mkItem v x) /\
              C08_Model.get c2 k now = (Some (mkItem v x), None) /\
              is_expired c2 k now = false.
  Proof.
    intros c k v d t0 c1 ops now Hwf Hst Hov Heff c2.
    assert (Hx : exp_of c d t0 = -1 \/ exp_of c d t0 = 0)
      by (destruct (exp_of_nonpos V c d t0 Heff) as [[-> _]|[-> _]]; auto).
    destruct (live_while_unexpired V rejects c k v d t0 c1 ops now Hwf Hst Hov) as [H1 H2].
    - lia.
    - exists (exp_of c d t0). repeat split; auto.
      subst c2. destruct (is_expired (fst (run c1 ops)) k now) eqn:E; [|reflexivity].
      apply is_expired_iff in E as (it & Hs & Hxx). unfold stored in *.
      rewrite H1 in Hs. injection Hs as <-. cbn [expiration] in Hxx. lia.
  Qed.

  (* a positive duration whose deadline lies beyond the last int64 instant:
     the stored value is the wrapped sum (negative), the entry is live at every
     instant and survives DeleteExpired and the janitor for ever *)
  Lemma deadline_overflow_never_expires : forall c k v d t0 c1 (ops : list (op V * Z)) now,
    wf V c -> stored_by V rejects c k v d t0 c1 ->
    Forall (fun on => overwrites V k (fst on) = false) ops ->
    0 <= t0 <= max_i64 -> 0 < eff V c d <= max_i64 -> max_i64 < t0 + eff V c d ->
    let c2 := fst (run c1 ops) in
    exists x, x = t0 + eff V c d - 18446744073709551616 /\ x <= -2 /\
              stored V c2 k (mkItem v x) /\
              C08_Model.get c2 k now = (Some (mkItem v x), None) /\
              is_expired c2 k now = false.
  Proof.
    intros c k v d t0 c1 ops now Hwf Hst Hov Ht0 Heff Hover c2.
    destruct (exp_of_over V c d t0 Heff Ht0 Hover) as [Hx Hneg].
    destruct (live_while_unexpired V rejects c k v d t0 c1 ops now Hwf Hst Hov) as [H1 H2].
    - lia.
    - exists (exp_of c d t0). repeat split; auto.
      subst c2. destruct (is_expired (fst (run c1 ops)) k now) eqn:E; [|reflexivity].
      apply is_expired_iff in E as (it & Hs & Hxx). unfold stored in *.
      rewrite H1 in Hs. injection Hs as <-. cbn [expiration] in Hxx. lia.
  Qed.

  Lemma is_expired_shipped_always_false : forall W (c : cache W) k now, is_expired_shipped c k now = false.
  Proof.
    intros W c k now. unfold is_expired_shipped. rewrite get_spec.
    destruct (al_get k (items c)) as [i|]; [destruct (purgeable i now)|]; reflexivity.
  Qed.

End Corollaries.
