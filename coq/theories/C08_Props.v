(* C08_Props.v — property C08 (the expiring cache), stated over the model of
   C08_Model.v.  Only statements here; each is closed by [exact] of a lemma of
   C08_Proofs.v and followed by Print Assumptions.

   All theorems are for every value type V and every rejection test
   [rejects : V -> bool] (Go: V = string and the value is ""; for any other V
   the test is constantly false), every configuration (expTime, cleanupInt) and
   every clock value; the ones that need the clock to be non-decreasing or
   non-negative (UnixNano is positive) say so.

   Vocabulary (C08_Proofs.v):
     wf c            the map has one entry per key (holds in every reachable state: C08_reachable_invariants)
     stored c k it   key k is bound to item it (value + stored expiration)
     live c k now    k is stored and not (0 < expiration < now)
     stores c c' k it  c' is c with k bound to it, every other key and the configuration unchanged
     eff c d         the effective duration: the default expTime when d = 0, else d
     exp_of c d now  the expiration add computes: now + eff if eff > 0, -1 if eff < 0, 0 if eff = 0
     run c ops       fold of [step] over a history  ops : list (operation * instant)
     nondecr t ts    t <= ts[0] <= ts[1] <= …   (the clock never goes back) *)

From Gogu Require Import Base C08_Model C08_Proofs.
From Coq Require Import Permutation.
Local Open Scope Z_scope.

Section Props.
  Variable V : Type.
  Variable rejects : V -> bool.

  Notation wf := (wf V).
  Notation stored := (stored V).
  Notation live := (live V).
  Notation stores := (stores V).
  Notation same_cfg := (same_cfg V).
  Notation set := (set V rejects).
  Notation update := (update V rejects).
  Notation set_default := (set_default V rejects).
  Notation map_to_cache := (map_to_cache V rejects).
  Notation run := (run V rejects).
  Notation step := (step V rejects).

  (* ------------------------------------------------------------------ *)
  (* "The cache behaves as a map with per-entry deadlines"               *)
  (* ------------------------------------------------------------------ *)

  (* Refinement, over all histories and all configurations: the results the
     cache returns (values, error yes/no, counts, listed entries, IsExpired)
     and its abstract state are those of the reference machine
     [spec_step] of C08_Model.v — a key ↦ (value, optional deadline) map.
     Instants are non-negative (UnixNano). *)
  Theorem C08_refines_spec : forall e ci (ops : list (op V * Z)),
    Forall (fun on => 0 <= snd on) ops ->
    spec_run V rejects (spec_new e ci) ops =
    (abs (fst (run (new e ci) ops)), map project (snd (run (new e ci) ops))).
  Proof. exact (refines_spec V rejects). Qed.

  (* Invariants of every reachable state: one entry per key; no rejected value
     is ever stored; the stored expiration is -1, 0 (only with a zero default)
     or a positive deadline. *)
  Theorem C08_reachable_invariants : forall (ops : list (op V * Z)) e ci,
    let c := fst (run (new e ci) ops) in
    wf c /\
    (forall k it, stored c k it -> rejects (object it) = false) /\
    (Forall (fun on => 0 <= snd on) ops ->
     forall k it, stored c k it ->
       expiration it = -1 \/ (expiration it = 0 /\ expTime c = 0) \/ 0 < expiration it).
  Proof. exact (reachable_invariants V rejects). Qed.

  (* ------------------------------------------------------------------ *)
  (* Set / Update / Get                                                   *)
  (* ------------------------------------------------------------------ *)

  (* Set stores only if the key has no live entry; otherwise (and for a
     rejected value) it reports an error and changes nothing. *)
  Theorem C08_set_only_if_no_live_entry : forall c k v d now c' e,
    set c k v d now = (c', e) ->
    if live c k now then c' = c /\ e = Some E_EXISTS
    else if rejects v then c' = c /\ e = Some E_EMPTY
    else e = None /\ stores c c' k (mkItem v (exp_of c d now)).
  Proof. exact (set_only_if_no_live_entry V rejects). Qed.

  (* Update always stores (an accepted value), whatever the key's state. *)
  Theorem C08_update_always_stores : forall c k v d now c' e,
    update c k v d now = (c', e) ->
    if rejects v then c' = c /\ e = Some E_EMPTY
    else e = None /\ stores c c' k (mkItem v (exp_of c d now)).
  Proof. exact (update_always_stores V rejects). Qed.

  (* Get returns the stored item exactly when the key is live; an error for a
     missing key and for an expired one (and never both an item and an error). *)
  Theorem C08_get_live_iff : forall (c : cache V) k now it,
    get c k now = (Some it, None) <-> stored c k it /\ live c k now = true.
  Proof. exact (get_live_iff V). Qed.

  Theorem C08_get_error_otherwise : forall (c : cache V) k now,
    get c k now =
    match al_get k (items c) with
    | Some it => if purgeable it now then (None, Some E_EXPIRED) else (Some it, None)
    | None => (None, Some E_NOTFOUND)
    end.
  Proof. exact (get_spec V). Qed.

  (* The two clock readings of Set (Get's, then add's): liveness is judged at
     the first, the deadline is computed from the second.  [set] is the case
     t1 = t2; the results differ only if a deadline lies between the readings. *)
  Theorem C08_set_two_clock_readings : forall c k v d t1 t2,
    set2 V rejects c k v d t1 t2 =
    if live c k t1 then (c, Some E_EXISTS)
    else if rejects v then (c, Some E_EMPTY)
    else (with_items c (al_put k (mkItem v (exp_of c d t2)) (items c)), None).
  Proof. exact (set2_spec V rejects). Qed.

  (* ------------------------------------------------------------------ *)
  (* Errors are reported                                                  *)
  (* ------------------------------------------------------------------ *)

  Theorem C08_rejected_value_reported : forall c k v d now,
    rejects v = true ->
    (exists e, set c k v d now = (c, Some e)) /\
    (exists e, set_default c k v now = (c, Some e)) /\
    update c k v d now = (c, Some E_EMPTY).
  Proof. exact (rejected_value_reported V rejects). Qed.

  Theorem C08_duplicate_key_reported : forall c k v d now,
    live c k now = true -> set c k v d now = (c, Some E_EXISTS).
  Proof. exact (duplicate_key_reported V rejects). Qed.

  (* MapToCache ([m] is a Go map: one entry per key, in the order the runtime
     iterates): an error iff some entry has a live key or a rejected value;
     exactly the other entries are stored, nothing else changes. *)
  Theorem C08_map_to_cache_reports : forall (m : list (Z * V)) c d now c' e,
    NoDup (keys m) ->
    map_to_cache c m d now = (c', e) ->
    (e = None <-> forall k v, In (k, v) m -> live c k now = false /\ rejects v = false) /\
    (forall k, al_get k (items c') =
               match al_get k m with
               | Some v => if live c k now || rejects v then al_get k (items c)
                           else Some (mkItem v (exp_of c d now))
               | None => al_get k (items c)
               end) /\
    same_cfg c c'.
  Proof. exact (map_to_cache_reports V rejects). Qed.

  (* … for every iteration order of the Go map *)
  Theorem C08_map_to_cache_order_irrelevant : forall (m m' : list (Z * V)) c d now,
    NoDup (keys m) -> Permutation m m' ->
    let r := map_to_cache c m d now in
    let r' := map_to_cache c m' d now in
    (snd r = None <-> snd r' = None) /\
    (forall k, al_get k (items (fst r)) = al_get k (items (fst r'))) /\
    same_cfg (fst r) (fst r').
  Proof. exact (map_to_cache_order_irrelevant V rejects). Qed.

  (* ------------------------------------------------------------------ *)
  (* Delete / Flush / DeleteExpired remove exactly the named/all/expired  *)
  (* ------------------------------------------------------------------ *)

  Theorem C08_delete_exact : forall (c : cache V) k c' e,
    delete c k = (c', e) ->
    match al_get k (items c) with
    | Some _ => e = None /\ al_get k (items c') = None /\
                (forall k', k' <> k -> al_get k' (items c') = al_get k' (items c)) /\ same_cfg c c'
    | None => c' = c /\ e = Some E_NOKEY
    end.
  Proof. exact (delete_exact V). Qed.

  Theorem C08_flush_exact : forall (c : cache V),
    items (flush c) = [] /\ same_cfg c (flush c).
  Proof. intros c. split; [reflexivity|split; reflexivity]. Qed.

  (* DeleteExpired keeps exactly the entries that are not past a positive
     deadline, in place, and returns nil *)
  Theorem C08_delete_expired_exact : forall (c : cache V) now,
    wf c ->
    delete_expired c now =
    (with_items c (filter (fun e => negb (purgeable (snd e) now)) (items c)), None).
  Proof. exact (delete_expired_exact V). Qed.

  Theorem C08_delete_expired_lookup : forall (c : cache V) now k,
    wf c ->
    al_get k (items (fst (delete_expired c now))) =
    match al_get k (items c) with
    | Some it => if purgeable it now then None else Some it
    | None => None
    end.
  Proof. exact (delete_expired_lookup V). Qed.

  (* Count and List agree with the map *)
  Theorem C08_count_list_agree : forall (c : cache V),
    count c = Z.of_nat (length (list_ c)) /\
    (wf c -> NoDup (keys (list_ c)) /\ forall k it, In (k, it) (list_ c) <-> stored c k it).
  Proof. exact (count_list_agree V). Qed.

  (* IsExpired is true exactly for stored entries past their deadline *)
  Theorem C08_is_expired_iff : forall (c : cache V) k now,
    is_expired c k now = true <-> exists it, stored c k it /\ 0 < expiration it < now.
  Proof. exact (is_expired_iff V). Qed.

  (* ------------------------------------------------------------------ *)
  (* Lifetime of a stored entry, over all histories                       *)
  (* ------------------------------------------------------------------ *)

  (* [stored_by c k v d t0 c1]: c1 is c after a successful Set (k had no live
     entry) or Update of (k, v, d) at instant t0, v accepted.

     An entry is live at every instant up to its deadline — and for ever when
     it has none (exp_of <= 0: NoExpiration, any negative duration, a default of
     zero or less) — through every later history over a non-decreasing clock
     that does not Update/Delete the key or Flush: Set, SetDefault and
     MapToCache on the key (they fail), DeleteExpired and janitor ticks at any
     instants, anything on other keys.  It is also still stored. *)
  Theorem C08_live_until_deadline : forall c k v d t0 c1 (ops : list (op V * Z)) now,
    wf c -> stored_by V rejects c k v d t0 c1 ->
    Forall (fun on => overwrites V k (fst on) = false) ops ->
    nondecr t0 (map snd ops ++ [now]) ->
    (0 < exp_of c d t0 -> now <= exp_of c d t0) ->
    let c2 := fst (run c1 ops) in
    stored c2 k (mkItem v (exp_of c d t0)) /\
    get c2 k now = (Some (mkItem v (exp_of c d t0)), None).
  Proof. exact (live_until_deadline V rejects). Qed.

  (* the two readings of it that the property text names *)
  Corollary C08_live_before_deadline : forall c k v d t0 c1 (ops : list (op V * Z)) now,
    wf c -> stored_by V rejects c k v d t0 c1 ->
    Forall (fun on => overwrites V k (fst on) = false) ops ->
    nondecr t0 (map snd ops ++ [now]) ->
    0 < eff V c d -> now <= t0 + eff V c d ->
    get (fst (run c1 ops)) k now = (Some (mkItem v (t0 + eff V c d)), None).
  Proof. exact (live_before_deadline V rejects). Qed.

  Corollary C08_no_expiry_never_expires : forall c k v d t0 c1 (ops : list (op V * Z)) now,
    wf c -> stored_by V rejects c k v d t0 c1 ->
    Forall (fun on => overwrites V k (fst on) = false) ops ->
    nondecr t0 (map snd ops ++ [now]) ->
    eff V c d <= 0 ->
    let c2 := fst (run c1 ops) in
    exists x, (x = -1 \/ x = 0) /\ stored c2 k (mkItem v x) /\ get c2 k now = (Some (mkItem v x), None).
  Proof. exact (no_expiry_never_expires V rejects). Qed.

  (* Expired at every instant after the deadline, whatever happened in between
     (any clock, janitor or not, purged or not), as long as nothing stores under
     the key again. *)
  Theorem C08_expired_after_deadline : forall c k v d t0 c1 (ops : list (op V * Z)) now,
    wf c -> stored_by V rejects c k v d t0 c1 ->
    Forall (fun on => touches V k (fst on) = false) ops ->
    0 <= t0 -> 0 < eff V c d -> t0 + eff V c d < now ->
    let c2 := fst (run c1 ops) in
    (exists e, get c2 k now = (None, Some e)) /\ live c2 k now = false.
  Proof. exact (expired_after_deadline V rejects). Qed.

  (* ------------------------------------------------------------------ *)
  (* Background cleanup (the janitor = OTick at arbitrary instants)       *)
  (* ------------------------------------------------------------------ *)

  (* A tick removes exactly the entries past a positive deadline … *)
  Theorem C08_tick_exact : forall (c : cache V) now,
    wf c ->
    tick c now = if cleanupInt c >? 0
                 then with_items c (filter (fun e => negb (purgeable (snd e) now)) (items c))
                 else c.
  Proof. exact (tick_spec V). Qed.

  (* … so an entry that is not expired is never removed by it (see also
     C08_live_until_deadline, whose histories may contain any number of ticks) … *)
  Theorem C08_tick_keeps_unexpired : forall (c : cache V) k it now,
    wf c -> stored c k it -> (0 < expiration it -> now <= expiration it) ->
    stored (tick c now) k it.
  Proof. exact (tick_keeps_unexpired V rejects). Qed.

  (* … and an expired entry is gone after the first tick past its deadline and
     stays gone.  PARTIAL with respect to the property text: "within about one
     interval" is a statement about WHEN the runtime's ticker fires; the model
     has no wall clock for the ticker, only "some tick at an instant tau past
     the deadline".  If the runtime fires the ticker every cleanupInt (+ delay),
     the first such tau is at most deadline + cleanupInt (+ delay). *)
  Theorem C08_gone_after_tick_past_deadline_partial :
    forall c k v d t0 c1 (ops1 : list (op V * Z)) tau (ops2 : list (op V * Z)),
    wf c -> stored_by V rejects c k v d t0 c1 ->
    Forall (fun on => touches V k (fst on) = false) ops1 ->
    Forall (fun on => touches V k (fst on) = false) ops2 ->
    0 <= t0 -> 0 < eff V c d -> t0 + eff V c d < tau -> 0 < cleanupInt c ->
    al_get k (items (fst (run c1 (ops1 ++ (OTick, tau) :: ops2)))) = None.
  Proof. exact (gone_after_tick_past_deadline V rejects). Qed.

  (* The janitor is unobservable except through Count/List/IsExpired/Delete:
     over a non-decreasing clock, erasing every tick from a history changes no
     result (value, error yes/no) of Get, Set, SetDefault, Update, MapToCache,
     DeleteExpired or Flush.  ("live ones never disappear", in the strongest
     form: no reader can tell whether the janitor ran.) *)
  Theorem C08_janitor_unobservable : forall (ops : list (op V * Z)) t c,
    wf c -> nondecr t (map snd ops) ->
    visible V ops (snd (run c ops)) =
    visible V (strip_ticks V ops) (snd (run c (strip_ticks V ops))).
  Proof. exact (janitor_unobservable V rejects). Qed.

End Props.

Print Assumptions C08_refines_spec.
Print Assumptions C08_reachable_invariants.
Print Assumptions C08_set_only_if_no_live_entry.
Print Assumptions C08_update_always_stores.
Print Assumptions C08_get_live_iff.
Print Assumptions C08_get_error_otherwise.
Print Assumptions C08_set_two_clock_readings.
Print Assumptions C08_rejected_value_reported.
Print Assumptions C08_duplicate_key_reported.
Print Assumptions C08_map_to_cache_reports.
Print Assumptions C08_map_to_cache_order_irrelevant.
Print Assumptions C08_delete_exact.
Print Assumptions C08_flush_exact.
Print Assumptions C08_delete_expired_exact.
Print Assumptions C08_delete_expired_lookup.
Print Assumptions C08_count_list_agree.
Print Assumptions C08_is_expired_iff.
Print Assumptions C08_live_until_deadline.
Print Assumptions C08_live_before_deadline.
Print Assumptions C08_no_expiry_never_expires.
Print Assumptions C08_expired_after_deadline.
Print Assumptions C08_tick_exact.
Print Assumptions C08_tick_keeps_unexpired.
Print Assumptions C08_gone_after_tick_past_deadline_partial.
Print Assumptions C08_janitor_unobservable.

(* ---------------------------------------------------------------------- *)
(* Non-vacuity: concrete states and histories meeting the hypotheses       *)
(* (V := Z, the value 0 is rejected — the instance the harness runs)       *)
(* ---------------------------------------------------------------------- *)

Definition rej0 (v : Z) : bool := v =? 0.

(* a reachable, well-formed state with a live, an expired and a never-expiring entry *)
Example C08_ex_state :
  let c := fst (run Z rej0 (new 0 5) [(OSet Z 1 7 10, 100); (OSet Z 2 8 (-1), 101); (OSetDefault Z 3 9, 102)]) in
  wf Z c /\ live Z c 1 105 = true /\ live Z c 1 111 = false /\ live Z c 2 1000000 = true /\
  stored Z c 3 (mkItem 9 0) /\ is_expired c 1 111 = true /\ is_expired c 2 111 = false.
Proof. vm_compute. repeat split; try reflexivity. repeat constructor; cbn; intuition discriminate. Qed.

(* C08_live_until_deadline / C08_expired_after_deadline / the janitor theorem on a
   concrete history: Set k1 (10 ns) at 100; a failing Set on k1, a tick, a
   DeleteExpired, an Update of another key; Get at 110 is Ok, at 111 an error,
   and after the tick at 112 the entry is gone *)
Example C08_ex_lifetime :
  let c0 := new (V:=Z) 0 5 in
  let c1 := fst (set Z rej0 c0 1 7 10 100) in
  stored_by Z rej0 c0 1 7 10 100 c1 /\
  let ops := [(OSet Z 1 8 0, 103); (OTick, 104); (ODeleteExpired, 105); (OUpdate Z 2 8 0, 106)] in
  Forall (fun on => overwrites Z 1 (fst on) = false) ops /\
  nondecr 100 (map snd ops ++ [110]) /\
  get (fst (run Z rej0 c1 ops)) 1 110 = (Some (mkItem 7 110), None) /\
  get (fst (run Z rej0 c1 ops)) 1 111 = (None, Some E_EXPIRED) /\
  al_get 1 (items (fst (run Z rej0 c1 (ops ++ [(OTick, 112)])))) = None.
Proof.
  vm_compute. repeat split; try reflexivity; auto; try lia; try discriminate.
Qed.

(* C08_no_expiry_never_expires on a concrete history: zero default, janitor on
   (the configuration of defect #13): SetDefault at 100, then ticks and a
   DeleteExpired far in the future; the entry is still stored and Get is Ok *)
Example C08_ex_no_expiry :
  let c0 := new (V:=Z) 0 5 in
  let c1 := fst (set Z rej0 c0 1 7 0 100) in
  stored_by Z rej0 c0 1 7 0 100 c1 /\ eff Z c0 0 <= 0 /\
  let ops := [(OTick, 105); (ODeleteExpired, 1000000); (OTick, 2000000); (OSet Z 1 8 (-1), 2000001)] in
  Forall (fun on => overwrites Z 1 (fst on) = false) ops /\
  nondecr 100 (map snd ops ++ [3000000]) /\
  get (fst (run Z rej0 c1 ops)) 1 3000000 = (Some (mkItem 7 0), None).
Proof.
  vm_compute. repeat split; try reflexivity; auto; try lia; try discriminate.
Qed.

(* ---------------------------------------------------------------------- *)
(* The code as shipped (before fixes/builder-c08) violates four clauses:   *)
(* one-step witnesses on the transcription of the shipped functions.       *)
(* ---------------------------------------------------------------------- *)

(* #10  Set(k, "") returned nil although nothing was stored *)
Theorem C08_shipped_set_drops_rejection_refuted :
  exists (c : cache Z) k v d now,
    rej0 v = true /\ set_shipped Z rej0 c k v d now = (c, None).
Proof. exists (new 0 0), 1, 0, 0, 100. vm_compute. auto. Qed.

(* #11  MapToCache with a key that has a live entry returned nil *)
Theorem C08_shipped_map_to_cache_silent_refuted :
  exists (c : cache Z) m d now k v,
    In (k, v) m /\ live Z c k now = true /\ snd (map_to_cache_shipped Z rej0 c m d now) = None.
Proof.
  exists (fst (set Z rej0 (new 0 0) 1 7 0 100)), [(1, 8)], 0, 101, 1, 8. vm_compute. auto.
Qed.

(* #12  IsExpired was false for an expired stored entry (it is false for EVERY input) *)
Theorem C08_shipped_is_expired_refuted :
  (exists (c : cache Z) k now it,
     stored Z c k it /\ 0 < expiration it < now /\ is_expired_shipped c k now = false) /\
  (forall V (c : cache V) k now, is_expired_shipped c k now = false).
Proof.
  split.
  - exists (fst (set Z rej0 (new 0 0) 1 7 10 100)), 1, 111, (mkItem 7 110). vm_compute. auto.
  - exact is_expired_shipped_always_false.
Qed.

(* #13  zero default expiry: the never-expiring entry (expiration 0) was purged *)
Theorem C08_shipped_delete_expired_purges_no_expiry_refuted :
  exists (c : cache Z) k it now,
    wf Z c /\ stored Z c k it /\ expiration it = 0 /\
    al_get k (items (fst (delete_expired_shipped c now))) = None.
Proof.
  exists (fst (set Z rej0 (new 0 5) 1 7 0 100)), 1, (mkItem 7 0), 101. vm_compute.
  repeat split; auto. repeat constructor. intros [].
Qed.

Print Assumptions C08_shipped_set_drops_rejection_refuted.
Print Assumptions C08_shipped_map_to_cache_silent_refuted.
Print Assumptions C08_shipped_is_expired_refuted.
Print Assumptions C08_shipped_delete_expired_purges_no_expiry_refuted.
