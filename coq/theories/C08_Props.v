(* C08_Props.v — property C08 (the expiring cache), stated over the model of
   C08_Model.v.  Only statements here; each is closed by [exact] of a lemma of
   C08_Proofs.v and followed by Print Assumptions.

   All theorems are for every value type V and every rejection test
   [rejects : V -> bool] (Go: V = string and the value is ""; for any other V
   the test is constantly false), every configuration (expTime, cleanupInt) and
   every clock value; the ones that need the clock to be non-decreasing or
   non-negative (UnixNano is positive) say so.

   Vocabulary (C08_Proofs.v):
     wf c            the map has one entry per key (holds in every reachable state: C08_reachable_invariants)
     stored c k it   key k is bound to item it (value + stored expiration)
     live c k now    k is stored and not (0 < expiration < now)
     stores c c' k it  c' is c with k bound to it, every other key and the configuration unchanged
     eff c d         the effective duration: the default expTime when d = 0, else d
     exp_of c d now  the expiration add computes: wrap64 (now + eff) if eff > 0 (int64 arithmetic:
                     = now + eff when that is <= MaxInt64, = now + eff - 2^64 < 0 otherwise),
                     -1 if eff < 0, 0 if eff = 0
     max_i64         MaxInt64 = 2^63 - 1
     in_range ops    every instant of the history is in [0, MaxInt64] and every duration
                     argument is <= MaxInt64 (they are int64 values; UnixNano is positive)
     run c ops       fold of [step] over a history  ops : list (operation * instant)
     nondecr t ts    t <= ts[0] <= ts[1] <= …   (the clock never goes back) *)

From Gogu Require Import Base C08_Model C08_Proofs.
From Coq Require Import Permutation.
Local Open Scope Z_scope.

Section Props.
  Variable V : Type.
  Variable rejects : V -> bool.

  Notation wf := (wf V).
  Notation stored := (stored V).
  Notation live := (live V).
  Notation stores := (stores V).
  Notation same_cfg := (same_cfg V).
  Notation set := (set V rejects).
  Notation update := (update V rejects).
  Notation set_default := (set_default V rejects).
  Notation map_to_cache := (map_to_cache V rejects).
  Notation run := (run V rejects).
  Notation step := (step V rejects).

  (* ------------------------------------------------------------------ *)
  (* "The cache behaves as a map with per-entry deadlines"               *)
  (* ------------------------------------------------------------------ *)

  (* Refinement, over all histories and all configurations: the results the
     cache returns (values, error yes/no, counts, listed entries, IsExpired)
     and its abstract state are those of the reference machine
     [spec_step] of C08_Model.v — a key ↦ (value, optional deadline) map in
     which an entry stored at [now] for a positive duration d gets the deadline
     now + d (mathematical sum) if that is a representable instant and no
     deadline if it is not.  Instants and durations are int64 values
     ([in_range]); the default expiry too.  The int64 wrap-around of the Go
     code (now + d > MaxInt64 stores a negative number) is on the model's side
     of this equation, not in the specification. *)
  Theorem C08_refines_spec : forall e ci (ops : list (op V * Z)),
    e <= max_i64 -> in_range V ops ->
    spec_run V rejects (spec_new e ci) ops =
    (abs (fst (run (new e ci) ops)), map project (snd (run (new e ci) ops))).
  Proof. exact (refines_spec V rejects). Qed.

  (* Invariants of every reachable state: one entry per key; no rejected value
     is ever stored; the stored expiration is -1, 0 (only with a zero default),
     a positive deadline, or — when now + d overflowed int64 — some number
     <= -2 (which every test `expiration > 0` treats like -1). *)
  Theorem C08_reachable_invariants : forall (ops : list (op V * Z)) e ci,
    let c := fst (run (new e ci) ops) in
    wf c /\
    (forall k it, stored c k it -> rejects (object it) = false) /\
    (e <= max_i64 -> in_range V ops ->
     forall k it, stored c k it ->
       expiration it = -1 \/ (expiration it = 0 /\ expTime c = 0) \/ 0 < expiration it \/
       expiration it <= -2).
  Proof. exact (reachable_invariants V rejects). Qed.

  (* ------------------------------------------------------------------ *)
  (* Set / Update / Get                                                   *)
  (* ------------------------------------------------------------------ *)

  (* Set stores only if the key has no live entry; otherwise (and for a
     rejected value) it reports an error and changes nothing. *)
  Theorem C08_set_only_if_no_live_entry : forall c k v d now c' e,
    set c k v d now = (c', e) ->
    if live c k now then c' = c /\ e = Some E_EXISTS
    else if rejects v then c' = c /\ e = Some E_EMPTY
    else e = None /\ stores c c' k (mkItem v (exp_of c d now)).
  Proof. exact (set_only_if_no_live_entry V rejects). Qed.

  (* Update always stores (an accepted value), whatever the key's state. *)
  Theorem C08_update_always_stores : forall c k v d now c' e,
    update c k v d now = (c', e) ->
    if rejects v then c' = c /\ e = Some E_EMPTY
    else e = None /\ stores c c' k (mkItem v (exp_of c d now)).
  Proof. exact (update_always_stores V rejects). Qed.

  (* Get returns the stored item exactly when the key is live; an error for a
     missing key and for an expired one (and never both an item and an error). *)
  Theorem C08_get_live_iff : forall (c : cache V) k now it,
    get c k now = (Some it, None) <-> stored c k it /\ live c k now = true.
  Proof. exact (get_live_iff V). Qed.

  Theorem C08_get_error_otherwise : forall (c : cache V) k now,
    get c k now =
    match al_get k (items c) with
    | Some it => if purgeable it now then (None, Some E_EXPIRED) else (Some it, None)
    | None => (None, Some E_NOTFOUND)
    end.
  Proof. exact (get_spec V). Qed.

  (* The two clock readings of Set (Get's, then add's): liveness is judged at
     the first, the deadline is computed from the second.  [set] is the case
     t1 = t2; the results differ only if a deadline lies between the readings. *)
  Theorem C08_set_two_clock_readings : forall c k v d t1 t2,
    set2 V rejects c k v d t1 t2 =
    if live c k t1 then (c, Some E_EXISTS)
    else if rejects v then (c, Some E_EMPTY)
    else (with_items c (al_put k (mkItem v (exp_of c d t2)) (items c)), None).
  Proof. exact (set2_spec V rejects). Qed.

  (* ------------------------------------------------------------------ *)
  (* Errors are reported                                                  *)
  (* ------------------------------------------------------------------ *)

  Theorem C08_rejected_value_reported : forall c k v d now,
    rejects v = true ->
    (exists e, set c k v d now = (c, Some e)) /\
    (exists e, set_default c k v now = (c, Some e)) /\
    update c k v d now = (c, Some E_EMPTY).
  Proof. exact (rejected_value_reported V rejects). Qed.

  Theorem C08_duplicate_key_reported : forall c k v d now,
    live c k now = true -> set c k v d now = (c, Some E_EXISTS).
  Proof. exact (duplicate_key_reported V rejects). Qed.

  (* MapToCache ([m] is a Go map: one entry per key, in the order the runtime
     iterates): an error iff some entry has a live key or a rejected value;
     exactly the other entries are stored, nothing else changes. *)
  Theorem C08_map_to_cache_reports : forall (m : list (Z * V)) c d now c' e,
    NoDup (keys m) ->
    map_to_cache c m d now = (c', e) ->
    (e = None <-> forall k v, In (k, v) m -> live c k now = false /\ rejects v = false) /\
    (forall k, al_get k (items c') =
               match al_get k m with
               | Some v => if live c k now || rejects v then al_get k (items c)
                           else Some (mkItem v (exp_of c d now))
               | None => al_get k (items c)
               end) /\
    same_cfg c c'.
  Proof. exact (map_to_cache_reports V rejects). Qed.

  (* … for every iteration order of the Go map *)
  Theorem C08_map_to_cache_order_irrelevant : forall (m m' : list (Z * V)) c d now,
    NoDup (keys m) -> Permutation m m' ->
    let r := map_to_cache c m d now in
    let r' := map_to_cache c m' d now in
    (snd r = None <-> snd r' = None) /\
    (forall k, al_get k (items (fst r)) = al_get k (items (fst r'))) /\
    same_cfg (fst r) (fst r').
  Proof. exact (map_to_cache_order_irrelevant V rejects). Qed.

  (* ------------------------------------------------------------------ *)
  (* Delete / Flush / DeleteExpired remove exactly the named/all/expired  *)
  (* ------------------------------------------------------------------ *)

  Theorem C08_delete_exact : forall (c : cache V) k c' e,
    delete c k = (c', e) ->
    match al_get k (items c) with
    | Some _ => e = None /\ al_get k (items c') = None /\
                (forall k', k' <> k -> al_get k' (items c') = al_get k' (items c)) /\ same_cfg c c'
    | None => c' = c /\ e = Some E_NOKEY
    end.
  Proof. exact (delete_exact V). Qed.

  Theorem C08_flush_exact : forall (c : cache V),
    items (flush c) = [] /\ same_cfg c (flush c).
  Proof. intros c. split; [reflexivity|split; reflexivity]. Qed.

  (* DeleteExpired keeps exactly the entries that are not past a positive
     deadline, in place, and returns nil *)
  Theorem C08_delete_expired_exact : forall (c : cache V) now,
    wf c ->
    delete_expired c now =
    (with_items c (filter (fun e => negb (purgeable (snd e) now)) (items c)), None).
  Proof. exact (delete_expired_exact V). Qed.

  Theorem C08_delete_expired_lookup : forall (c : cache V) now k,
    wf c ->
    al_get k (items (fst (delete_expired c now))) =
    match al_get k (items c) with
    | Some it => if purgeable it now then None else Some it
    | None => None
    end.
  Proof. exact (delete_expired_lookup V). Qed.

  (* Count and List agree with the map *)
  Theorem C08_count_list_agree : forall (c : cache V),
    count c = Z.of_nat (length (list_ c)) /\
    (wf c -> NoDup (keys (list_ c)) /\ forall k it, In (k, it) (list_ c) <-> stored c k it).
  Proof. exact (count_list_agree V). Qed.

  (* IsExpired is true exactly for stored entries past their deadline *)
  Theorem C08_is_expired_iff : forall (c : cache V) k now,
    is_expired c k now = true <-> exists it, stored c k it /\ 0 < expiration it < now.
  Proof. exact (is_expired_iff V). Qed.

  (* ------------------------------------------------------------------ *)
  (* Lifetime of a stored entry, over all histories                       *)
  (* ------------------------------------------------------------------ *)

  (* [stored_by c k v d t0 c1]: c1 is c after a successful Set (k had no live
     entry) or Update of (k, v, d) at instant t0, v accepted.

     An entry is live at every instant up to its deadline — and for ever when
     it has none (exp_of <= 0: NoExpiration, any negative duration, a default of
     zero or less) — through every later history over a non-decreasing clock
     that does not Update/Delete the key or Flush: Set, SetDefault and
     MapToCache on the key (they fail), DeleteExpired and janitor ticks at any
     instants, anything on other keys.  It is also still stored. *)
  Theorem C08_live_until_deadline : forall c k v d t0 c1 (ops : list (op V * Z)) now,
    wf c -> stored_by V rejects c k v d t0 c1 ->
    Forall (fun on => overwrites V k (fst on) = false) ops ->
    nondecr t0 (map snd ops ++ [now]) ->
    (0 < exp_of c d t0 -> now <= exp_of c d t0) ->
    let c2 := fst (run c1 ops) in
    stored c2 k (mkItem v (exp_of c d t0)) /\
    get c2 k now = (Some (mkItem v (exp_of c d t0)), None).
  Proof. exact (live_until_deadline V rejects). Qed.

  (* the same without any assumption on the clock: no instant of the history,
     nor the instant of the Get, is past a positive stored deadline *)
  Theorem C08_live_while_unexpired : forall c k v d t0 c1 (ops : list (op V * Z)) now,
    wf c -> stored_by V rejects c k v d t0 c1 ->
    Forall (fun on => overwrites V k (fst on) = false) ops ->
    (0 < exp_of c d t0 -> Forall (fun t => t <= exp_of c d t0) (map snd ops ++ [now])) ->
    let c2 := fst (run c1 ops) in
    stored c2 k (mkItem v (exp_of c d t0)) /\
    get c2 k now = (Some (mkItem v (exp_of c d t0)), None).
  Proof. exact (live_while_unexpired V rejects). Qed.

  (* the readings of it that the property text names.  (1) positive duration,
     representable deadline t0 + eff: live at every instant up to it. *)
  Corollary C08_live_before_deadline : forall c k v d t0 c1 (ops : list (op V * Z)) now,
    wf c -> stored_by V rejects c k v d t0 c1 ->
    Forall (fun on => overwrites V k (fst on) = false) ops ->
    nondecr t0 (map snd ops ++ [now]) ->
    0 <= t0 -> 0 < eff V c d -> t0 + eff V c d <= max_i64 -> now <= t0 + eff V c d ->
    get (fst (run c1 ops)) k now = (Some (mkItem v (t0 + eff V c d)), None).
  Proof. exact (live_before_deadline V rejects). Qed.

  (* (2) no expiry (NoExpiration, any negative duration, a default of zero or
     less): never expires and is never removed by DeleteExpired or the janitor —
     through every history that does not Update/Delete the key or Flush, at
     ARBITRARY instants (no assumption on the clock), ticks included. *)
  Corollary C08_no_expiry_never_expires : forall c k v d t0 c1 (ops : list (op V * Z)) now,
    wf c -> stored_by V rejects c k v d t0 c1 ->
    Forall (fun on => overwrites V k (fst on) = false) ops ->
    eff V c d <= 0 ->
    let c2 := fst (run c1 ops) in
    exists x, (x = -1 \/ x = 0) /\ stored c2 k (mkItem v x) /\
              get c2 k now = (Some (mkItem v x), None) /\ is_expired c2 k now = false.
  Proof. exact (no_expiry_never_expires V rejects). Qed.

  (* (3) positive duration whose deadline t0 + eff lies beyond the last int64
     instant (Set(k, v, MaxInt64); a default expiry near MaxInt64): Go stores
     the wrapped sum t0 + eff - 2^64, a negative number; the entry is live at
     every instant — every representable instant IS before its deadline — and
     is never removed by DeleteExpired or the janitor. *)
  Corollary C08_deadline_overflow_never_expires : forall c k v d t0 c1 (ops : list (op V * Z)) now,
    wf c -> stored_by V rejects c k v d t0 c1 ->
    Forall (fun on => overwrites V k (fst on) = false) ops ->
    0 <= t0 <= max_i64 -> 0 < eff V c d <= max_i64 -> max_i64 < t0 + eff V c d ->
    let c2 := fst (run c1 ops) in
    exists x, x = t0 + eff V c d - 18446744073709551616 /\ x <= -2 /\
              stored c2 k (mkItem v x) /\
              get c2 k now = (Some (mkItem v x), None) /\ is_expired c2 k now = false.
  Proof. exact (deadline_overflow_never_expires V rejects). Qed.

  (* Expired at every instant after the deadline, whatever happened in between
     (any clock, janitor or not, purged or not), as long as nothing stores under
     the key again. *)
  Theorem C08_expired_after_deadline : forall c k v d t0 c1 (ops : list (op V * Z)) now,
    wf c -> stored_by V rejects c k v d t0 c1 ->
    Forall (fun on => touches V k (fst on) = false) ops ->
    0 <= t0 -> 0 < eff V c d -> t0 + eff V c d <= max_i64 -> t0 + eff V c d < now ->
    let c2 := fst (run c1 ops) in
    (exists e, get c2 k now = (None, Some e)) /\ live c2 k now = false.
  Proof. exact (expired_after_deadline V rejects). Qed.

  (* IsExpired over histories: after any history that does not store under the
     key again — DeleteExpired and janitor ticks at any instants included —
     IsExpired is true exactly when the entry is still stored and the instant
     is past its positive stored deadline.  (For the entries of (2) and (3)
     above exp_of <= 0: never true.) *)
  Theorem C08_is_expired_over_histories : forall c k v d t0 c1 (ops : list (op V * Z)) now,
    wf c -> stored_by V rejects c k v d t0 c1 ->
    Forall (fun on => touches V k (fst on) = false) ops ->
    let c2 := fst (run c1 ops) in
    is_expired c2 k now = true <->
    stored c2 k (mkItem v (exp_of c d t0)) /\ 0 < exp_of c d t0 < now.
  Proof. exact (is_expired_history V rejects). Qed.

  (* ------------------------------------------------------------------ *)
  (* Background cleanup (the janitor = OTick at arbitrary instants)       *)
  (* ------------------------------------------------------------------ *)

  (* A tick removes exactly the entries past a positive deadline … *)
  Theorem C08_tick_exact : forall (c : cache V) now,
    wf c ->
    tick c now = if cleanupInt c >? 0
                 then with_items c (filter (fun e => negb (purgeable (snd e) now)) (items c))
                 else c.
  Proof. exact (tick_spec V). Qed.

  (* … so an entry that is not expired is never removed by it (see also
     C08_live_until_deadline, whose histories may contain any number of ticks) … *)
  Theorem C08_tick_keeps_unexpired : forall (c : cache V) k it now,
    wf c -> stored c k it -> (0 < expiration it -> now <= expiration it) ->
    stored (tick c now) k it.
  Proof. exact (tick_keeps_unexpired V rejects). Qed.

  (* … and an expired entry is gone after the first tick past its deadline and
     stays gone.  PARTIAL with respect to the property text: "within about one
     interval" is a statement about WHEN the runtime's ticker fires; the model
     has no wall clock for the ticker, only "some tick at an instant tau past
     the deadline".  If the runtime fires the ticker every cleanupInt (+ delay),
     the first such tau is at most deadline + cleanupInt (+ delay). *)
  Theorem C08_gone_after_tick_past_deadline_partial :
    forall c k v d t0 c1 (ops1 : list (op V * Z)) tau (ops2 : list (op V * Z)),
    wf c -> stored_by V rejects c k v d t0 c1 ->
    Forall (fun on => touches V k (fst on) = false) ops1 ->
    Forall (fun on => touches V k (fst on) = false) ops2 ->
    0 <= t0 -> 0 < eff V c d -> t0 + eff V c d <= max_i64 -> t0 + eff V c d < tau -> 0 < cleanupInt c ->
    al_get k (items (fst (run c1 (ops1 ++ (OTick, tau) :: ops2)))) = None.
  Proof. exact (gone_after_tick_past_deadline V rejects). Qed.

  (* "within about one interval", made precise under an explicit hypothesis
     about the Go runtime: IF the ticker fires at least every g nanoseconds
     ([regular g t ticks]: first tick at most g after an instant t that is not
     past the deadline — the store, or the previous tick —, consecutive ticks
     at most g apart; for a healthy runtime g = cleanupInt + scheduling delay)
     and the history goes on long enough to contain a tick past the deadline,
     THEN the tick that removes the entry comes at most g after the deadline,
     and the entry is absent from every later state.  The hypothesis itself is
     not proved (it is runtime behaviour); the janitor stream of the harness
     measures it: gone by deadline + 2*cleanupInt + 20 ms. *)
  Theorem C08_gone_within_g_of_regular_ticker :
    forall c k v d t0 c1 (ops : list (op V * Z)) g t,
    wf c -> stored_by V rejects c k v d t0 c1 ->
    Forall (fun on => touches V k (fst on) = false) ops ->
    0 <= t0 -> 0 < eff V c d -> t0 + eff V c d <= max_i64 -> 0 < cleanupInt c ->
    regular g t (tick_instants V ops) -> t <= t0 + eff V c d ->
    (exists x, In x (tick_instants V ops) /\ t0 + eff V c d < x) ->
    exists ops1 tau ops2,
      ops = ops1 ++ (OTick, tau) :: ops2 /\
      t0 + eff V c d < tau <= t0 + eff V c d + g /\
      forall n, al_get k (items (fst (run c1 (ops1 ++ (OTick, tau) :: firstn n ops2)))) = None.
  Proof. exact (gone_within_g_of_regular_ticker V rejects). Qed.

  (* The janitor is unobservable except through Count/List/IsExpired/Delete:
     over a non-decreasing clock, erasing every tick from a history changes no
     result (value, error yes/no) of Get, Set, SetDefault, Update, MapToCache,
     DeleteExpired or Flush.  ("live ones never disappear", in the strongest
     form: no reader can tell whether the janitor ran.) *)
  Theorem C08_janitor_unobservable : forall (ops : list (op V * Z)) t c,
    wf c -> nondecr t (map snd ops) ->
    visible V ops (snd (run c ops)) =
    visible V (strip_ticks V ops) (snd (run c (strip_ticks V ops))).
  Proof. exact (janitor_unobservable V rejects). Qed.

End Props.

Print Assumptions C08_refines_spec.
Print Assumptions C08_reachable_invariants.
Print Assumptions C08_set_only_if_no_live_entry.
Print Assumptions C08_update_always_stores.
Print Assumptions C08_get_live_iff.
Print Assumptions C08_get_error_otherwise.
Print Assumptions C08_set_two_clock_readings.
Print Assumptions C08_rejected_value_reported.
Print Assumptions C08_duplicate_key_reported.
Print Assumptions C08_map_to_cache_reports.
Print Assumptions C08_map_to_cache_order_irrelevant.
Print Assumptions C08_delete_exact.
Print Assumptions C08_flush_exact.
Print Assumptions C08_delete_expired_exact.
Print Assumptions C08_delete_expired_lookup.
Print Assumptions C08_count_list_agree.
Print Assumptions C08_is_expired_iff.
Print Assumptions C08_live_until_deadline.
Print Assumptions C08_live_while_unexpired.
Print Assumptions C08_live_before_deadline.
Print Assumptions C08_no_expiry_never_expires.
Print Assumptions C08_deadline_overflow_never_expires.
Print Assumptions C08_expired_after_deadline.
Print Assumptions C08_is_expired_over_histories.
Print Assumptions C08_tick_exact.
Print Assumptions C08_tick_keeps_unexpired.
Print Assumptions C08_gone_after_tick_past_deadline_partial.
Print Assumptions C08_gone_within_g_of_regular_ticker.
Print Assumptions C08_janitor_unobservable.

(* ---------------------------------------------------------------------- *)
(* Non-vacuity: concrete states and histories meeting the hypotheses       *)
(* (V := Z, the value 0 is rejected — the instance the harness runs)       *)
(* ---------------------------------------------------------------------- *)

Definition rej0 (v : Z) : bool := v =? 0.

(* a reachable, well-formed state with a live, an expired and a never-expiring entry *)
Example C08_ex_state :
  let c := fst (run Z rej0 (new 0 5) [(OSet Z 1 7 10, 100); (OSet Z 2 8 (-1), 101); (OSetDefault Z 3 9, 102)]) in
  wf Z c /\ live Z c 1 105 = true /\ live Z c 1 111 = false /\ live Z c 2 1000000 = true /\
  stored Z c 3 (mkItem 9 0) /\ is_expired c 1 111 = true /\ is_expired c 2 111 = false.
Proof. vm_compute. repeat split; try reflexivity. repeat constructor; cbn; intuition discriminate. Qed.

(* C08_live_until_deadline / C08_expired_after_deadline / the janitor theorem on a
   concrete history: Set k1 (10 ns) at 100; a failing Set on k1, a tick, a
   DeleteExpired, an Update of another key; Get at 110 is Ok, at 111 an error,
   and after the tick at 112 the entry is gone *)
Example C08_ex_lifetime :
  let c0 := new (V:=Z) 0 5 in
  let c1 := fst (set Z rej0 c0 1 7 10 100) in
  stored_by Z rej0 c0 1 7 10 100 c1 /\
  let ops := [(OSet Z 1 8 0, 103); (OTick, 104); (ODeleteExpired, 105); (OUpdate Z 2 8 0, 106)] in
  Forall (fun on => overwrites Z 1 (fst on) = false) ops /\
  nondecr 100 (map snd ops ++ [110]) /\
  get (fst (run Z rej0 c1 ops)) 1 110 = (Some (mkItem 7 110), None) /\
  get (fst (run Z rej0 c1 ops)) 1 111 = (None, Some E_EXPIRED) /\
  al_get 1 (items (fst (run Z rej0 c1 (ops ++ [(OTick, 112)])))) = None.
Proof.
  vm_compute. repeat split; try reflexivity; auto; try lia; try discriminate.
Qed.

(* C08_no_expiry_never_expires on a concrete history: zero default, janitor on
   (the configuration of defect #13): SetDefault at 100, then ticks and a
   DeleteExpired far in the future; the entry is still stored and Get is Ok *)
Example C08_ex_no_expiry :
  let c0 := new (V:=Z) 0 5 in
  let c1 := fst (set Z rej0 c0 1 7 0 100) in
  stored_by Z rej0 c0 1 7 0 100 c1 /\ eff Z c0 0 <= 0 /\
  let ops := [(OTick, 105); (ODeleteExpired, 1000000); (OTick, 2000000); (OSet Z 1 8 (-1), 2000001)] in
  Forall (fun on => overwrites Z 1 (fst on) = false) ops /\
  nondecr 100 (map snd ops ++ [3000000]) /\
  get (fst (run Z rej0 c1 ops)) 1 3000000 = (Some (mkItem 7 0), None).
Proof.
  vm_compute. repeat split; try reflexivity; auto; try lia; try discriminate.
Qed.

(* C08_deadline_overflow_never_expires on a concrete history at a realistic
   instant (1.79e18 ns = September 2026): Set(k1, 7, MaxInt64) stores the
   wrapped sum -7432815257101454462-ish; ticks and DeleteExpired at the last
   representable instant leave it; the same through the default expiry *)
Example C08_ex_overflow :
  let t0 := 1790556779753281366 in
  let c0 := new (V:=Z) 0 5 in
  let c1 := fst (set Z rej0 c0 1 7 max_i64 t0) in
  stored_by Z rej0 c0 1 7 max_i64 t0 c1 /\
  0 <= t0 <= max_i64 /\ 0 < eff Z c0 max_i64 <= max_i64 /\ max_i64 < t0 + eff Z c0 max_i64 /\
  exp_of c0 max_i64 t0 = -7432815257101494443 /\
  let ops := [(OTick, t0 + 5); (ODeleteExpired, max_i64); (OTick, max_i64); (OSet Z 1 8 (-1), max_i64)] in
  Forall (fun on => overwrites Z 1 (fst on) = false) ops /\ in_range Z ops /\
  get (fst (run Z rej0 c1 ops)) 1 max_i64 = (Some (mkItem 7 (-7432815257101494443)), None) /\
  (* default expiry MaxInt64, SetDefault *)
  get (fst (run Z rej0 (new max_i64 5) ((OSetDefault Z 1 7, t0) :: ops))) 1 max_i64
  = (Some (mkItem 7 (-7432815257101494443)), None).
Proof.
  cbv zeta. split; [|split; [|split; [|split; [|split; [|split; [|split; [|split]]]]]]].
  - split; [reflexivity|]. left. split; reflexivity.
  - unfold max_i64. lia.
  - unfold max_i64, eff. cbn. lia.
  - unfold max_i64, eff. cbn. lia.
  - vm_compute. reflexivity.
  - repeat constructor.
  - unfold in_range, max_i64. repeat (apply Forall_cons; [cbn; unfold DefaultExpiration; lia|]). apply Forall_nil.
  - vm_compute. reflexivity.
  - vm_compute. reflexivity.
Qed.

(* C08_gone_within_g_of_regular_ticker on a concrete history: cleanup every 5,
   the ticker fires at 104, 109, 115 (gaps <= g = 6); Set k1 for 10 at 100
   (deadline 110); the tick at 115 <= 110 + 6 removes it *)
Example C08_ex_regular_ticker :
  let c0 := new (V:=Z) 0 5 in
  let c1 := fst (set Z rej0 c0 1 7 10 100) in
  let ops := [(OTick, 104); (OGet 1, 105); (OTick, 109); (OGet 1, 111); (OTick, 115); (OCount, 116)] in
  stored_by Z rej0 c0 1 7 10 100 c1 /\
  Forall (fun on => touches Z 1 (fst on) = false) ops /\
  tick_instants Z ops = [104; 109; 115] /\
  regular 6 100 (tick_instants Z ops) /\
  (exists x, In x (tick_instants Z ops) /\ 100 + eff Z c0 10 < x) /\
  snd (run Z rej0 c1 ops) =
    [RUnit; RGet (Some (mkItem 7 110), None); RUnit; RGet (None, Some E_EXPIRED); RUnit; RCount 0].
Proof.
  vm_compute. repeat split; try reflexivity; auto; try lia; try discriminate.
  - repeat constructor.
  - exists 115. split; [right; right; left; reflexivity|reflexivity].
Qed.

(* ---------------------------------------------------------------------- *)
(* The code as shipped (before fixes/builder-c08) violates four clauses:   *)
(* one-step witnesses on the transcription of the shipped functions.       *)
(* ---------------------------------------------------------------------- *)

(* #10  Set(k, "") returned nil although nothing was stored *)
Theorem C08_shipped_set_drops_rejection_refuted :
  exists (c : cache Z) k v d now,
    rej0 v = true /\ set_shipped Z rej0 c k v d now = (c, None).
Proof. exists (new 0 0), 1, 0, 0, 100. vm_compute. auto. Qed.

(* #11  MapToCache with a key that has a live entry returned nil *)
Theorem C08_shipped_map_to_cache_silent_refuted :
  exists (c : cache Z) m d now k v,
    In (k, v) m /\ live Z c k now = true /\ snd (map_to_cache_shipped Z rej0 c m d now) = None.
Proof.
  exists (fst (set Z rej0 (new 0 0) 1 7 0 100)), [(1, 8)], 0, 101, 1, 8. vm_compute. auto.
Qed.

(* #12  IsExpired was false for an expired stored entry (it is false for EVERY input) *)
Theorem C08_shipped_is_expired_refuted :
  (exists (c : cache Z) k now it,
     stored Z c k it /\ 0 < expiration it < now /\ is_expired_shipped c k now = false) /\
  (forall V (c : cache V) k now, is_expired_shipped c k now = false).
Proof.
  split.
  - exists (fst (set Z rej0 (new 0 0) 1 7 10 100)), 1, 111, (mkItem 7 110). vm_compute. auto.
  - exact is_expired_shipped_always_false.
Qed.

(* #13  zero default expiry: the never-expiring entry (expiration 0) was purged *)
Theorem C08_shipped_delete_expired_purges_no_expiry_refuted :
  exists (c : cache Z) k it now,
    wf Z c /\ stored Z c k it /\ expiration it = 0 /\
    al_get k (items (fst (delete_expired_shipped c now))) = None.
Proof.
  exists (fst (set Z rej0 (new 0 5) 1 7 0 100)), 1, (mkItem 7 0), 101. vm_compute.
  repeat split; auto. repeat constructor. intros [].
Qed.

Print Assumptions C08_shipped_set_drops_rejection_refuted.
Print Assumptions C08_shipped_map_to_cache_silent_refuted.
Print Assumptions C08_shipped_is_expired_refuted.
Print Assumptions C08_shipped_delete_expired_purges_no_expiry_refuted.
